/-
  No lost wake-up: whenever the endpoint has transmit work it could do (a transfer being segmented,
  or queued transfers with none in progress), an internal event that will make progress is enabled —
  an idle source for `_process_queue` is pending, or the message-level transmit buffer is non-empty
  (so the TX callback will run and `send_buffer_decreased` will re-trigger the queue).
-/
import DtnVerif.Model.TcpclEp
namespace DtnVerif
namespace Tcpcl

/-- `n` = number of idle sources that are about to be removed (1 inside a firing `_process_queue`) -/
structure WakeN (n : Nat) (e : Ep) : Prop where
  pend : e.pqPend = true → n < e.pqSources
  tmp : e.closed = false → e.txTmp.isSome = true → n < e.pqSources ∨ e.txBuf ≠ []
  start : e.closed = false → e.txTmp = none → e.txPendStart ≠ [] → n < e.pqSources

abbrev WakeInv (e : Ep) : Prop := WakeN 0 e

/-- `e'` differs from `e` at most by a longer transmit buffer, as far as wake-ups are concerned -/
def WSame (e e' : Ep) : Prop :=
  e'.pqPend = e.pqPend ∧ e'.pqSources = e.pqSources ∧ e'.txTmp = e.txTmp ∧ e'.txPendStart = e.txPendStart
    ∧ e'.closed = e.closed ∧ (e.txBuf ≠ [] → e'.txBuf ≠ [])

theorem WSame.refl (e : Ep) : WSame e e := ⟨rfl, rfl, rfl, rfl, rfl, id⟩
theorem WSame.trans {a b c : Ep} (h1 : WSame a b) (h2 : WSame b c) : WSame a c :=
  ⟨h2.1.trans h1.1, h2.2.1.trans h1.2.1, h2.2.2.1.trans h1.2.2.1, h2.2.2.2.1.trans h1.2.2.2.1,
   h2.2.2.2.2.1.trans h1.2.2.2.2.1, fun h => h2.2.2.2.2.2 (h1.2.2.2.2.2 h)⟩

theorem WakeN.of_same {n : Nat} {e e' : Ep} (h : WSame e e') (hi : WakeN n e) : WakeN n e' := by
  obtain ⟨h1, h2, h3, h4, h5, h6⟩ := h
  refine ⟨?_, ?_, ?_⟩
  · rw [h1, h2]; exact hi.pend
  · rw [h5, h3, h2]
    intro hc ht
    rcases hi.tmp hc ht with h | h
    · exact Or.inl h
    · exact Or.inr (h6 h)
  · rw [h5, h3, h4, h2]; exact hi.start

theorem WakeN.frame {n : Nat} {e e' : Ep} (hi : WakeN n e) (h : WSame e e') : WakeN n e' := WakeN.of_same h hi

/-- with a spare source pending everything holds -/
theorem WakeN.of_pos {n : Nat} {e : Ep} (h : n < e.pqSources) : WakeN n e :=
  ⟨fun _ => h, fun _ _ => Or.inl h, fun _ _ _ => h⟩

/-- a closed endpoint only needs the `pend` part -/
theorem WakeN.of_closed {n : Nat} {e : Ep} (hc : e.closed = true) (hp : e.pqPend = true → n < e.pqSources) : WakeN n e :=
  ⟨hp, fun h _ => (by rw [hc] at h; cases h), fun h _ _ => (by rw [hc] at h; cases h)⟩

theorem ws_sendMessage (e : Ep) (m : Msg) : WSame e (sendMessage e m) :=
  ⟨rfl, rfl, rfl, rfl, rfl, fun h => by simp [sendMessage, sendReady, kaReset, idleReset, h]⟩
theorem ws_sendReject (e : Ep) (r : Nat) (m : Msg) : WSame e (sendReject e r m) := ws_sendMessage e _
theorem ws_mergeSession (e : Ep) (p : PeerInit) : WSame e (mergeSession e p) := ⟨rfl, rfl, rfl, rfl, rfl, id⟩
theorem ws_sendContact (e : Ep) : WSame e (sendContact e) := ws_sendMessage e _
theorem ws_sendInit (e : Ep) : WSame e (sendInit e) := ws_sendMessage e _
theorem ws_setState (e : Ep) (s : String) : WSame e (setState e s).1 := by
  unfold setState; split <;> exact ⟨rfl, rfl, rfl, rfl, rfl, id⟩

/-- triggering the queue leaves a spare source pending -/
theorem wake_pqTrigger {n : Nat} (e : Ep) (hp : e.pqPend = true → n < e.pqSources) (hn : n ≤ e.pqSources) :
    WakeN n (pqTrigger e) := by
  unfold pqTrigger
  split
  · rename_i h; exact WakeN.of_pos (hp h)
  · exact WakeN.of_pos (Nat.lt_succ_of_le hn)

theorem wake_flush {n : Nat} (e : Ep) (hi : WakeN n e) : WakeN n (flushPendStart e).1 :=
  ⟨hi.pend, hi.tmp, fun _ _ h => absurd rfl h⟩

theorem wake_doClose {n : Nat} (e : Ep) (hi : WakeN n e) : WakeN n (doClose e).1 := by
  unfold doClose
  split
  · exact hi
  · exact WakeN.of_closed rfl hi.pend

theorem wake_checkSessTerm {n : Nat} (e : Ep) (hi : WakeN n e) : WakeN n (checkSessTerm e).1 := by
  unfold checkSessTerm; split
  · exact wake_doClose e hi
  · exact hi

theorem wake_sendSessTerm {n : Nat} (e : Ep) (r : Nat) (b : Bool) (hi : WakeN n e) : WakeN n (sendSessTerm e r b).1 := by
  unfold sendSessTerm
  split
  · exact hi
  · split
    · exact hi
    · simp only []
      have h1 : WSame e { e with inTerm := true } := ⟨rfl, rfl, rfl, rfl, rfl, id⟩
      exact wake_flush _ (WakeN.of_same ((h1.trans (ws_setState _ _)).trans (ws_sendMessage _ _)) hi)

theorem encode_ne_nil (m : Msg) : encode m ≠ [] := by
  cases m <;> simp [encode, u8, beBytes, magic]

theorem txBuf_sendMessage_ne (e : Ep) (m : Msg) : (sendMessage e m).txBuf ≠ [] := by
  simp [sendMessage, sendReady, kaReset, idleReset, encode_ne_nil]

/-- inside a firing `_process_queue` (one source is about to go): after `sendSegment` either a new
    source was triggered or the buffer holds the segment just written -/
theorem wake_sendSegment (e : Ep) (it : TxItem) (s : Nat) (hp : e.cfg.privExt = false)
    (hpp : e.pqPend = false) (hs : 1 ≤ e.pqSources) : WakeN 1 (sendSegment e it s).1 := by
  unfold sendSegment
  simp only [hp, Bool.and_false, Bool.false_eq_true, if_false]
  split
  · exact wake_pqTrigger _ (by simp [sendMessage, sendReady, kaReset, idleReset, hpp]) (by simpa [sendMessage, sendReady, kaReset, idleReset] using hs)
  · refine ⟨by simp [sendMessage, sendReady, kaReset, idleReset, hpp], fun _ _ => Or.inr ?_, fun _ h => by simp at h⟩
    exact txBuf_sendMessage_ne e _

/-- one firing of `_process_queue`, entered with the pending flag reset and its own source still counted -/
theorem wake_processQueue (e : Ep) (hp : e.cfg.privExt = false) (hpp : e.pqPend = false) (hs : 1 ≤ e.pqSources) :
    if (processQueue e).2.2 then WakeN 0 (processQueue e).1 else WakeN 1 (processQueue e).1 := by
  unfold processQueue
  split
  · rename_i it sent h
    have := wake_sendSegment e it sent hp hpp hs
    have hst : (sendSegment e it sent).2.2 = false := by
      unfold sendSegment; simp only []; split <;> (try split) <;> rfl
    simp only [hst, Bool.false_eq_true, if_false]; exact this
  · rename_i h
    split
    · simp only [if_true]
      exact ⟨by simp [hpp], by simp [h], fun _ _ _ => hs⟩
    · split
      · simp only [Bool.false_eq_true, if_false]
        refine wake_checkSessTerm _ ⟨by simp [flushPendStart, hpp], by simp [flushPendStart, h], ?_⟩
        intro _ _ hne
        exact absurd rfl hne
      · split
        · rename_i hps
          simp only [Bool.false_eq_true, if_false]
          exact ⟨by simp [hpp], by simp [h], by simp [hps]⟩
        · rename_i it rest hps
          have hst : ∀ e' : Ep, (sendSegment e' it 0).2.2 = false := by
            intro e'; unfold sendSegment; simp only []; split <;> (try split) <;> rfl
          simp only [hst, Bool.false_eq_true, if_false]
          exact wake_sendSegment _ it 0 hp hpp hs

/-! the TX callback -/

/-- `hseg`: a transfer is segmented only with a positive segment size (from the transmit invariant) -/
theorem wake_pullTx (e : Ep) (hseg : e.txTmp.isSome = true → 0 < e.sendSegSize) (hi : WakeInv e) : WakeInv (pullTx e) := by
  unfold pullTx
  split
  · unfold sendBufferDecreased
    split
    · exact wake_pqTrigger _ hi.pend (Nat.zero_le _)
    · rename_i hlen
      refine ⟨hi.pend, ?_, hi.start⟩
      intro hc ht
      refine Or.inr ?_
      have hpos := hseg ht
      intro hnil
      have hl : 5 * e.sendSegSize ≤ (List.drop chunkSize e.txBuf).length := Nat.not_lt.mp hlen
      have h0 : (List.drop chunkSize e.txBuf).length = 0 := by
        rw [show List.drop chunkSize e.txBuf = [] from hnil]; rfl
      omega
  · exact hi

theorem wake_writeConn (e : Ep) (n : Nat) (up : Bool) (hi : WakeInv e) : WakeInv (writeConn e n up).1 := by
  unfold writeConn
  split
  · split
    · exact wake_checkSessTerm e hi
    · exact hi
  · simp only []
    split
    · exact hi
    · split
      · exact wake_checkSessTerm _ (WakeN.frame hi ⟨rfl, rfl, rfl, rfl, rfl, id⟩)
      · exact WakeN.frame hi ⟨rfl, rfl, rfl, rfl, rfl, id⟩

theorem wake_pump (e : Ep) (n : Nat) (hseg : e.txTmp.isSome = true → 0 < e.sendSegSize) (hi : WakeInv e) :
    WakeInv (pump e n).1 := by
  unfold pump
  exact wake_writeConn _ _ _ (wake_pullTx e hseg hi)

/-! receive handlers -/

theorem wake_onContact (e : Ep) (hi : WakeInv e) : WakeInv (onContact e).1 := by
  unfold onContact
  simp only []
  have h1 : WSame e (if e.cfg.passive then sendContact e else e) := by
    split
    · exact ws_sendContact e
    · exact WSame.refl e
  have h2 := h1.trans (ws_setState _ "session-negotiating")
  split
  · exact WakeN.of_same (h2.trans (ws_sendInit _)) hi
  · exact WakeN.of_same h2 hi

theorem wake_onSessInit (e : Ep) (p : PeerInit) (hi : WakeInv e) : WakeInv (onSessInit e p).1 := by
  unfold onSessInit
  simp only []
  have h1 : WSame e (if e.cfg.passive then sendInit e else e) := by
    split
    · exact ws_sendInit e
    · exact WSame.refl e
  have h2 : WSame (if e.cfg.passive then sendInit e else e)
      { (if e.cfg.passive then sendInit e else e) with peerInit := some p, inSess := true } :=
    ⟨rfl, rfl, rfl, rfl, rfl, id⟩
  exact WakeN.of_same (((h1.trans h2).trans (ws_mergeSession _ p)).trans (ws_setState _ _)) hi

theorem wake_onSessTerm (e : Ep) (m : Msg) (r : Nat) (hi : WakeInv e) : WakeInv (onSessTerm e m r).1 := by
  unfold onSessTerm
  split
  · exact WakeN.of_same (ws_sendReject e _ m) hi
  · simp only []
    have h1 : WakeInv (if (!e.inTerm) = true then sendSessTerm e r true else (e, [])).1 := by
      split
      · exact wake_sendSessTerm e r true hi
      · exact hi
    exact wake_checkSessTerm _ (wake_flush _ (WakeN.frame h1 ⟨rfl, rfl, rfl, rfl, rfl, id⟩))

theorem wake_segAccept (e : Ep) (flags tid : Nat) (cur data : Bytes) (o1 : List Out) (hi : WakeInv e) :
    WakeInv (segAccept e flags tid cur data o1).1 := by
  unfold segAccept
  simp only []
  split
  · refine wake_checkSessTerm _ (WakeN.of_same ?_ hi)
    exact (ws_sendMessage e _).trans ⟨rfl, rfl, rfl, rfl, rfl, id⟩
  · exact (hi.frame (e' := { e with rxTmp := some (tid, cur ++ data) }) ⟨rfl, rfl, rfl, rfl, rfl, id⟩).frame (ws_sendMessage _ _)

theorem wake_onSegment (e : Ep) (m : Msg) (flags tid : Nat) (data : Bytes) (hi : WakeInv e) :
    WakeInv (onSegment e m flags tid data).1 := by
  unfold onSegment
  split
  · exact WakeN.of_same (ws_sendReject e _ m) hi
  · split
    · exact wake_segAccept _ _ _ _ _ _ (WakeN.frame hi ⟨rfl, rfl, rfl, rfl, rfl, id⟩)
    · split
      · split
        · exact wake_segAccept _ _ _ _ _ _ hi
        · exact WakeN.of_same (ws_sendReject e _ m) hi
      · exact WakeN.of_same (ws_sendReject e _ m) hi

theorem wake_onAck (e : Ep) (m : Msg) (f t l : Nat) (hi : WakeInv e) : WakeInv (onAck e m f t l).1 := by
  unfold onAck
  split
  · exact WakeN.of_same (ws_sendReject e _ m) hi
  · split
    · exact WakeN.of_same (ws_sendReject e _ m) hi
    · split
      · split
        · exact WakeN.of_same (ws_sendReject e _ m) hi
        · exact wake_checkSessTerm _ (WakeN.frame hi ⟨rfl, rfl, rfl, rfl, rfl, id⟩)
      · exact WakeN.frame hi ⟨rfl, rfl, rfl, rfl, rfl, id⟩

theorem wake_onRefuse (e : Ep) (m : Msg) (r t : Nat) (hi : WakeInv e) : WakeInv (onRefuse e m r t).1 := by
  unfold onRefuse
  split
  · exact WakeN.of_same (ws_sendReject e _ m) hi
  · split
    · exact WakeN.of_same (ws_sendReject e _ m) hi
    · simp only []
      apply wake_checkSessTerm
      -- the unstarted queue only shrinks; an abandoned active transfer re-triggers the queue
      have h1 : WakeInv { e with txMap := e.txMap.erase t, txPendAck := e.txPendAck.erase t,
                                 txPendStart := e.txPendStart.filter (·.tid != t) } := by
        refine ⟨hi.pend, hi.tmp, ?_⟩
        intro hc ht hne
        refine hi.start hc ht ?_
        intro hnil
        simp only [hnil, List.filter_nil, ne_eq, not_true_eq_false] at hne
      split
      · split
        · exact wake_pqTrigger _ h1.pend (Nat.zero_le _)
        · exact h1
      · exact h1

theorem wake_handleMsg (e : Ep) (m : Msg) (hi : WakeInv e) : WakeInv (handleMsg e m).1 := by
  have h0 : WakeInv { e with processed := e.processed ++ [m] } := WakeN.frame hi ⟨rfl, rfl, rfl, rfl, rfl, id⟩
  unfold handleMsg
  cases m with
  | contact f => exact wake_onContact _ h0
  | sessInit ka sm xm node ext => exact wake_onSessInit _ _ h0
  | sessTerm f r => exact wake_onSessTerm _ _ _ h0
  | keepalive => exact h0
  | msgReject a b => exact h0
  | xferSegment flags tid ext data => exact wake_onSegment _ _ _ _ _ h0
  | xferAck f t l => exact wake_onAck _ _ _ _ _ h0
  | xferRefuse r t => exact wake_onRefuse _ _ _ _ h0

theorem wake_handleMsgs (ms : List Msg) (e : Ep) (hi : WakeInv e) : WakeInv (handleMsgs e ms).1 := by
  induction ms generalizing e with
  | nil => exact hi
  | cons m ms ih =>
    unfold handleMsgs
    split
    · exact hi
    · exact ih _ (wake_handleMsg _ m (WakeN.frame (e := e) hi ⟨rfl, rfl, rfl, rfl, rfl, id⟩))

theorem wake_recvRaw (e : Ep) (c : Bytes) (hi : WakeInv e) : WakeInv (recvRaw e c).1 := by
  unfold recvRaw
  simp only []
  have h0 : WakeInv (rxEntry e c) := WakeN.frame hi ⟨rfl, rfl, rfl, rfl, rfl, id⟩
  have h1 := wake_handleMsgs (feed e.rx c).2 _ h0
  have h2 : WakeInv { (handleMsgs (rxEntry e c) (feed e.rx c).2).1 with rxMore := false } :=
    WakeN.frame h1 ⟨rfl, rfl, rfl, rfl, rfl, id⟩
  split
  · exact wake_doClose _ h2
  · exact h2

/-! one event -/

theorem wake_step (e : Ep) (ev : Ev) (hp : e.cfg.privExt = false)
    (hseg : e.txTmp.isSome = true → 0 < e.sendSegSize) (hi : WakeInv e) : WakeInv (step e ev).1 := by
  unfold step
  cases ev with
  | advance ms => exact WakeN.frame hi ⟨rfl, rfl, rfl, rfl, rfl, id⟩
  | start =>
    simp only []
    split
    · exact hi
    · split
      · exact hi
      · have h1 : WSame e { e with started := true } := ⟨rfl, rfl, rfl, rfl, rfl, id⟩
        refine WakeN.of_same (WSame.trans (b := (if (!e.cfg.passive) = true then sendContact { e with started := true }
          else { e with started := true })) ?_ (ws_setState _ _)) hi
        split
        · exact h1.trans (ws_sendContact _)
        · exact h1
  | send d =>
    simp only []
    split
    · exact hi
    · exact wake_pqTrigger _ hi.pend (Nat.zero_le _)
  | terminate r =>
    simp only []
    split
    · exact hi
    · exact wake_sendSessTerm e r false hi
  | close =>
    simp only []
    split
    · exact hi
    · exact wake_doClose e hi
  | pop t =>
    simp only []
    have : WSame e (popRx e t).1 := by unfold popRx; split <;> exact ⟨rfl, rfl, rfl, rfl, rfl, id⟩
    split <;> exact WakeN.of_same this hi
  | query q => simp only []; split <;> exact hi
  | procQueue =>
    simp only []
    split
    · rename_i hc
      exact WakeN.of_closed hc (by simp)
    · rename_i hc
      split
      · exact hi
      · rename_i hs
        have hs' : 1 ≤ e.pqSources := by
          have : e.pqSources ≠ 0 := by simpa using hs
          omega
        have := wake_processQueue { e with pqPend := false } hp rfl hs'
        split
        · rename_i hst
          simp only [hst, if_true] at this
          exact WakeN.frame this ⟨rfl, rfl, rfl, rfl, rfl, id⟩
        · rename_i hst
          simp only [hst, Bool.false_eq_true, if_false] at this
          refine ⟨fun h => ?_, fun h1 h2 => ?_, fun h1 h2 h3 => ?_⟩
          · have := this.pend h; simp only; omega
          · rcases this.tmp h1 h2 with h | h
            · exact Or.inl (by simp only; omega)
            · exact Or.inr h
          · have := this.start h1 h2 h3; simp only; omega
  | pump n =>
    simp only []
    split
    · exact hi
    · split
      · exact hi
      · have h1 : WakeInv { e with txIdle := false } := WakeN.frame hi ⟨rfl, rfl, rfl, rfl, rfl, id⟩
        exact WakeN.frame (wake_pump { e with txIdle := false } n hseg h1) ⟨rfl, rfl, rfl, rfl, rfl, id⟩
  | rx c =>
    simp only []
    split
    · exact hi
    · exact wake_recvRaw e c hi
  | rxEof =>
    simp only []
    split
    · exact hi
    · exact wake_doClose e hi
  | keepaliveTimer =>
    simp only []
    split
    · exact hi
    · split
      · exact hi
      · exact (hi.frame (e' := { e with kaDeadline := none }) ⟨rfl, rfl, rfl, rfl, rfl, id⟩).frame (ws_sendMessage _ _)
  | idleTimer =>
    simp only []
    split
    · exact hi
    · split
      · exact hi
      · split
        · exact wake_doClose _ (WakeN.frame hi ⟨rfl, rfl, rfl, rfl, rfl, id⟩)
        · exact wake_sendSessTerm _ _ _ (WakeN.frame hi ⟨rfl, rfl, rfl, rfl, rfl, id⟩)
  | modulate raw =>
    simp only []
    split
    · exact hi
    · split
      · exact WakeN.frame hi ⟨rfl, rfl, rfl, rfl, rfl, id⟩
      · exact hi

theorem wake_init (cfg : Cfg) : WakeInv { cfg := cfg } :=
  ⟨by simp, by simp, by simp⟩

end Tcpcl
end DtnVerif
