/-
  Which functions can emit an XFER_ACK: only `segAccept`. (`acksOf` = the XFER_ACK messages of a
  sequence, in order.) Frame lemmas generated from the pattern of Lemmas/TcpclAcc.lean.
-/
import DtnVerif.Model.TcpclEp
namespace DtnVerif
namespace Tcpcl

def isAck : Msg → Bool
  | .xferAck .. => true
  | _ => false

def acksOf (ms : List Msg) : List Msg := ms.filter isAck

@[simp] theorem acksOf_append (a b : List Msg) : acksOf (a ++ b) = acksOf a ++ acksOf b := by
  simp [acksOf]
@[simp] theorem acksOf_nil : acksOf [] = [] := by first | rfl | simp [sendContact, sendInit, sendReject, flushPendStart, mergeSession]
@[simp] theorem emitted_sendMessage (e : Ep) (m : Msg) : (sendMessage e m).emitted = e.emitted ++ [m] := by first | rfl | simp [sendContact, sendInit, sendReject, flushPendStart, mergeSession]

@[simp] theorem acksOf_cons (m : Msg) (ms : List Msg) :
    acksOf (m :: ms) = if isAck m then m :: acksOf ms else acksOf ms := by
  simp [acksOf, List.filter_cons]
attribute [simp] isAck

@[simp] theorem ak_sendMessage (e : Ep) (m : Msg) :
    acksOf (sendMessage e m).emitted = acksOf e.emitted ++ acksOf [m] := by
  simp [sendMessage, sendReady, kaReset, idleReset]

@[simp] theorem ak_kaReset (e : Ep) : acksOf (kaReset e).emitted = acksOf e.emitted := by first | rfl | simp [sendContact, sendInit, sendReject, flushPendStart, mergeSession]
@[simp] theorem ak_idleReset (e : Ep) : acksOf (idleReset e).emitted = acksOf e.emitted := by first | rfl | simp [sendContact, sendInit, sendReject, flushPendStart, mergeSession]
@[simp] theorem ak_pqTrigger (e : Ep) : acksOf (pqTrigger e).emitted = acksOf e.emitted := by
  unfold pqTrigger; split <;> rfl
@[simp] theorem ak_setState (e : Ep) (s : String) : acksOf (setState e s).1.emitted = acksOf e.emitted := by
  unfold setState; split <;> rfl
@[simp] theorem ak_flush (e : Ep) : acksOf (flushPendStart e).1.emitted = acksOf e.emitted := by first | rfl | simp [sendContact, sendInit, sendReject, flushPendStart, mergeSession]
@[simp] theorem ak_doClose (e : Ep) : acksOf (doClose e).1.emitted = acksOf e.emitted := by
  unfold doClose; split <;> rfl
@[simp] theorem ak_checkSessTerm (e : Ep) : acksOf (checkSessTerm e).1.emitted = acksOf e.emitted := by
  unfold checkSessTerm; split
  · exact ak_doClose e
  · first | rfl | simp
@[simp] theorem ak_sendBufferDecreased (e : Ep) : acksOf (sendBufferDecreased e).emitted = acksOf e.emitted := by
  unfold sendBufferDecreased; split
  · exact ak_pqTrigger e
  · first | rfl | simp
@[simp] theorem ak_mergeSession (e : Ep) (p : PeerInit) : acksOf (mergeSession e p).emitted = acksOf e.emitted := by first | rfl | simp [sendContact, sendInit, sendReject, flushPendStart, mergeSession]
@[simp] theorem ak_sendContact (e : Ep) : acksOf (sendContact e).emitted = acksOf e.emitted := by first | rfl | simp [sendContact, sendInit, sendReject, flushPendStart, mergeSession]
@[simp] theorem ak_sendInit (e : Ep) : acksOf (sendInit e).emitted = acksOf e.emitted := by first | rfl | simp [sendContact, sendInit, sendReject, flushPendStart, mergeSession]
@[simp] theorem ak_sendReject (e : Ep) (r : Nat) (m : Msg) : acksOf (sendReject e r m).emitted = acksOf e.emitted := by first | rfl | simp [sendContact, sendInit, sendReject, flushPendStart, mergeSession]
@[simp] theorem ak_sendSessTerm (e : Ep) (r : Nat) (b : Bool) : acksOf (sendSessTerm e r b).1.emitted = acksOf e.emitted := by
  unfold sendSessTerm
  split
  · first | rfl | simp
  · split
    · first | rfl | simp
    · simp
@[simp] theorem ak_sendSegment (e : Ep) (it : TxItem) (s : Nat) : acksOf (sendSegment e it s).1.emitted = acksOf e.emitted := by
  unfold sendSegment
  simp only []
  split
  · first | rfl | simp
  · split <;> simp
@[simp] theorem ak_processQueue (e : Ep) : acksOf (processQueue e).1.emitted = acksOf e.emitted := by
  unfold processQueue
  split
  · simp
  · split
    · first | rfl | simp
    · split
      · simp
      · split
        · first | rfl | simp
        · simp
@[simp] theorem ak_pullTx (e : Ep) : acksOf (pullTx e).emitted = acksOf e.emitted := by
  unfold pullTx; split <;> simp

@[simp] theorem ak_onContact (e : Ep) : acksOf (onContact e).1.emitted = acksOf e.emitted := by
  unfold onContact; simp only []; cases e.cfg.passive <;> simp
@[simp] theorem ak_onSessInit (e : Ep) (p : PeerInit) : acksOf (onSessInit e p).1.emitted = acksOf e.emitted := by
  unfold onSessInit; simp only []; cases e.cfg.passive <;> simp
@[simp] theorem ak_onSessTerm (e : Ep) (m : Msg) (r : Nat) : acksOf (onSessTerm e m r).1.emitted = acksOf e.emitted := by
  unfold onSessTerm
  split
  · first | rfl | simp
  · simp only [ak_checkSessTerm, ak_flush]
    split <;> simp
@[simp] theorem ak_onAck (e : Ep) (m : Msg) (f t l : Nat) : acksOf (onAck e m f t l).1.emitted = acksOf e.emitted := by
  unfold onAck
  split
  · first | rfl | simp
  · split
    · first | rfl | simp
    · split
      · split <;> simp
      · first | rfl | simp
@[simp] theorem ak_onRefuse (e : Ep) (m : Msg) (r t : Nat) : acksOf (onRefuse e m r t).1.emitted = acksOf e.emitted := by
  unfold onRefuse
  split
  · first | rfl | simp
  · split
    · first | rfl | simp
    · simp only [ak_checkSessTerm]
      split
      · split <;> simp
      · first | rfl | simp

@[simp] theorem ak_writeConn (e : Ep) (n : Nat) (up : Bool) : acksOf (writeConn e n up).1.emitted = acksOf e.emitted := by
  unfold writeConn
  split
  · split <;> simp
  · simp only []
    split
    · simp
    · split <;> simp
@[simp] theorem ak_pump (e : Ep) (n : Nat) : acksOf (pump e n).1.emitted = acksOf e.emitted := by
  unfold pump; simp

end Tcpcl
end DtnVerif
