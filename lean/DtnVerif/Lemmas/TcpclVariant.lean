/-
  A variant function for the internal events of the TCPCL endpoint (idle sources of `_process_queue`,
  the TX callback, socket reads): a potential `phi` of one endpoint which every such event pays from.

  * every octet in one of the two transmit buffers weighs `3` (it still has to be written, and the write
    may re-arm the `_process_queue` idle source through `send_buffer_decreased`);
  * every installed TX source weighs `2`, every `_process_queue` idle source `1`, being open `2`;
  * a transfer not completely segmented yet weighs `197` per remaining octet plus `194` (the header, the
    acknowledgement and the rejection the segment may provoke at the peer, the sources it installs);
  * not having sent SESS_TERM yet weighs `26` (the SESS_TERM which may still have to be sent in reply);
  * every message emitted and not yet processed by the peer carries `resp`, what its processing may
    cost the peer (in the system-level measure, Lemmas/TcpclVariantSys.lean).
-/
import DtnVerif.Model.TcpclEp
import DtnVerif.Lemmas.Bytes
namespace DtnVerif
namespace Tcpcl
namespace Var

/-- cost of handing an `n`-octet message to `send_message`: its octets and at most two TX sources -/
def pSend (n : Nat) : Nat := 3 * n + 4

/-- potential of `r` octets of a transfer still to be segmented -/
def dItem (r : Nat) : Nat := r * 197 + 194

def initLen (c : Cfg) : Nat :=
  (encode (.sessInit c.keepalive c.segMru sizeMax c.nodeId (sessionExt c))).length

/-- what a SESS_INIT costs its receiver `r` (a passive endpoint answers with its own) -/
def respInit (r : Cfg) : Nat := if r.passive then pSend (initLen r) else 0

/-- an active endpoint `x` answers a contact header with its SESS_INIT, which costs the peer `y` -/
def respContactAct (x y : Cfg) : Nat := pSend (initLen x) + respInit y

def respContact (rcv snd : Cfg) : Nat :=
  if rcv.passive then pSend 6 + respContactAct snd rcv else respContactAct rcv snd

/-- upper bound of what processing `m` may add to the potential of the receiver (configuration `rcv`)
    and of the messages it sends back to `snd` -/
def resp (rcv snd : Cfg) : Msg → Nat
  | .contact _ => respContact rcv snd
  | .sessInit .. => respInit rcv
  | .sessTerm .. => 13
  | .xferSegment .. => 84
  | .xferAck .. => 13
  | .xferRefuse .. => 14
  | .keepalive => 0
  | .msgReject .. => 0

def R (rcv snd : Cfg) (l : List Msg) : Nat := (l.map (resp rcv snd)).sum

@[simp] theorem R_nil (rcv snd : Cfg) : R rcv snd [] = 0 := rfl
@[simp] theorem R_append (rcv snd : Cfg) (l1 l2 : List Msg) : R rcv snd (l1 ++ l2) = R rcv snd l1 + R rcv snd l2 := by
  simp [R, List.sum_append]
@[simp] theorem R_single (rcv snd : Cfg) (m : Msg) : R rcv snd [m] = resp rcv snd m := by simp [R]
@[simp] theorem R_cons (rcv snd : Cfg) (m : Msg) (l : List Msg) : R rcv snd (m :: l) = resp rcv snd m + R rcv snd l := by
  simp [R]

def dPend (l : List TxItem) : Nat := (l.map (fun it => dItem it.data.length)).sum

def dTmp : Option (TxItem × Nat) → Nat
  | none => 0
  | some (it, sent) => dItem (it.data.length - sent)

@[simp] theorem dPend_nil : dPend [] = 0 := rfl
@[simp] theorem dTmp_none : dTmp none = 0 := rfl
@[simp] theorem dTmp_some (it : TxItem) (sent : Nat) : dTmp (some (it, sent)) = dItem (it.data.length - sent) := rfl
@[simp] theorem dPend_cons (it : TxItem) (l : List TxItem) : dPend (it :: l) = dItem it.data.length + dPend l := by
  simp [dPend]

theorem dPend_filter_le (p : TxItem → Bool) (l : List TxItem) : dPend (l.filter p) ≤ dPend l := by
  induction l with
  | nil => simp
  | cons it l ih =>
    rw [List.filter_cons]
    split
    · simp only [dPend_cons]; omega
    · simp only [dPend_cons]; omega

/-- the fields the potential depends on, with the ghost logs -/
structure VV where
  closed : Bool
  txSrc : Nat
  pqSources : Nat
  txBuf : Bytes
  connBuf : Bytes
  txPendStart : List TxItem
  txTmp : Option (TxItem × Nat)
  inTerm : Bool
  emitted : List Msg
  cfg : Cfg
  accepted : Bytes
  processed : List Msg

def vv (e : Ep) : VV :=
  ⟨e.closed, e.txSrc, e.pqSources, e.txBuf, e.connBuf, e.txPendStart, e.txTmp, e.inTerm, e.emitted, e.cfg,
   e.accepted, e.processed⟩

/-- `n` while the flag is clear -/
def unl (b : Bool) (n : Nat) : Nat := if b then 0 else n
@[simp] theorem unl_true (n : Nat) : unl true n = 0 := rfl
@[simp] theorem unl_false (n : Nat) : unl false n = n := rfl
theorem unl_le (b : Bool) (n : Nat) : unl b n ≤ n := by cases b <;> simp

def phiV (v : VV) : Nat :=
  unl v.closed 2 + 2 * v.txSrc + v.pqSources + 3 * (v.txBuf.length + v.connBuf.length)
    + dPend v.txPendStart + dTmp v.txTmp + unl v.inTerm 26

def phi (e : Ep) : Nat := phiV (vv e)

/-- `e'` is `e` after emitting some messages, at a cost of at most `c` for the potential of the endpoint
    together with what the new messages may cost the peer (configuration `pc`) -/
def Pay (pc : Cfg) (e e' : Ep) (c : Nat) : Prop :=
  e'.cfg = e.cfg ∧ e'.accepted = e.accepted ∧ e'.processed = e.processed ∧ e.pqSources ≤ e'.pqSources
  ∧ ∃ new, e'.emitted = e.emitted ++ new ∧ phi e' + R pc e.cfg new ≤ phi e + c

theorem pay_refl (pc : Cfg) (e : Ep) : Pay pc e e 0 := ⟨rfl, rfl, rfl, Nat.le_refl _, [], by simp, by simp⟩

theorem pay_of_view {pc : Cfg} {e e' : Ep} (h : vv e' = vv e) : Pay pc e e' 0 := by
  have h' := h
  simp only [vv, VV.mk.injEq] at h
  obtain ⟨-, -, h3, -, -, -, -, -, h9, h10, h11, h12⟩ := h
  refine ⟨h10, h11, h12, Nat.le_of_eq h3.symm, [], by simp [h9], ?_⟩
  simp only [phi, h', R_nil]; omega

theorem pay_trans {pc : Cfg} {e e' e'' : Ep} {c1 c2 : Nat} (h1 : Pay pc e e' c1) (h2 : Pay pc e' e'' c2) :
    Pay pc e e'' (c1 + c2) := by
  obtain ⟨a1, a2, a3, aq, n1, a4, a5⟩ := h1
  obtain ⟨b1, b2, b3, bq, n2, b4, b5⟩ := h2
  refine ⟨b1.trans a1, b2.trans a2, b3.trans a3, Nat.le_trans aq bq, n1 ++ n2, by rw [b4, a4, List.append_assoc], ?_⟩
  rw [a1] at b5
  simp only [R_append]; omega

theorem pay_mono {pc : Cfg} {e e' : Ep} {c c' : Nat} (h : Pay pc e e' c) (hc : c ≤ c') : Pay pc e e' c' := by
  obtain ⟨a1, a2, a3, aq, n1, a4, a5⟩ := h
  exact ⟨a1, a2, a3, aq, n1, a4, by omega⟩

theorem pay_then_view {pc : Cfg} {e e' e'' : Ep} {c : Nat} (h1 : Pay pc e e' c) (h2 : vv e'' = vv e') : Pay pc e e'' c :=
  pay_mono (pay_trans h1 (pay_of_view h2)) (by omega)

theorem pay_view_then {pc : Cfg} {e e' e'' : Ep} {c : Nat} (h1 : vv e' = vv e) (h2 : Pay pc e' e'' c) : Pay pc e e'' c :=
  pay_mono (pay_trans (pay_of_view h1) h2) (by omega)

/-- a view change which can only lower the potential -/
theorem pay_lower {pc : Cfg} {e e' : Ep} (h1 : e'.cfg = e.cfg) (h2 : e'.accepted = e.accepted)
    (h3 : e'.processed = e.processed) (h4 : e'.emitted = e.emitted) (h5 : phi e' ≤ phi e)
    (hq : e.pqSources ≤ e'.pqSources := by exact Nat.le_refl _) : Pay pc e e' 0 :=
  ⟨h1, h2, h3, hq, [], by simp [h4], by simp; exact h5⟩

/-! ### primitives -/

theorem vv_kaReset (e : Ep) : vv (kaReset e) = vv e := rfl
theorem vv_idleReset (e : Ep) : vv (idleReset e) = vv e := rfl
theorem vv_mergeSession (e : Ep) (p : PeerInit) : vv (mergeSession e p) = vv e := rfl

theorem vv_setState (e : Ep) (s : String) : vv (setState e s).1 = vv e := by
  unfold setState; split <;> rfl

theorem pay_setState (pc : Cfg) (e : Ep) (s : String) : Pay pc e (setState e s).1 0 := pay_of_view (vv_setState e s)

theorem pay_pqTrigger (pc : Cfg) (e : Ep) : Pay pc e (pqTrigger e) 1 := by
  unfold pqTrigger
  split
  · exact pay_mono (pay_refl pc e) (by omega)
  · refine ⟨rfl, rfl, rfl, Nat.le_succ _, [], by simp, ?_⟩
    simp only [phi, phiV, vv, R_nil]; omega

theorem pq_fields (x : Ep) : (pqTrigger x).cfg = x.cfg ∧ (pqTrigger x).accepted = x.accepted
    ∧ (pqTrigger x).processed = x.processed ∧ (pqTrigger x).emitted = x.emitted
    ∧ x.pqSources ≤ (pqTrigger x).pqSources ∧ phi (pqTrigger x) ≤ phi x + 1 := by
  unfold pqTrigger
  split
  · exact ⟨rfl, rfl, rfl, rfl, Nat.le_refl _, Nat.le_succ _⟩
  · refine ⟨rfl, rfl, rfl, rfl, Nat.le_succ _, ?_⟩
    simp only [phi, phiV, vv]; omega

theorem pay_sendMessage (pc : Cfg) (e : Ep) (m : Msg) :
    Pay pc e (sendMessage e m) (pSend (encode m).length + resp pc e.cfg m) := by
  refine ⟨rfl, rfl, rfl, Nat.le_refl _, [m], rfl, ?_⟩
  simp only [phi, phiV, vv, sendMessage, sendReady, kaReset, idleReset, R_single, pSend, List.length_append]
  have h1 : (if e.txWatch = true then 0 else 1) ≤ 1 := by split <;> omega
  have h2 : (if e.txIdle = true then 0 else 1) ≤ 1 := by split <;> omega
  omega

theorem pay_flush (pc : Cfg) (e : Ep) : Pay pc e (flushPendStart e).1 0 := by
  refine pay_lower rfl rfl rfl rfl ?_
  simp only [phi, phiV, vv, flushPendStart, dPend_nil]; omega

theorem pay_doClose (pc : Cfg) (e : Ep) : Pay pc e (doClose e).1 0 := by
  unfold doClose
  split
  · exact pay_refl pc e
  · refine pay_lower rfl rfl rfl rfl ?_
    simp only [phi, phiV, vv, flushPendStart, dPend_nil, unl_true]; omega

theorem pay_checkSessTerm (pc : Cfg) (e : Ep) : Pay pc e (checkSessTerm e).1 0 := by
  unfold checkSessTerm
  split
  · exact pay_doClose pc e
  · exact pay_refl pc e

theorem len_reject (a b : Nat) : (encode (.msgReject a b)).length = 3 := by
  simp [encode, Msg.body, Msg.type, u8]

theorem len_sessTerm (a b : Nat) : (encode (.sessTerm a b)).length = 3 := by
  simp [encode, Msg.body, Msg.type, u8]

theorem len_ack (a b c : Nat) : (encode (.xferAck a b c)).length = 18 := by
  simp [encode, Msg.body, Msg.type, u8, u64]

theorem len_contact (f : Nat) : (encode (.contact f)).length = 6 := by
  simp [encode, Msg.body, u8, magic]

theorem pay_sendReject (pc : Cfg) (e : Ep) (r : Nat) (m : Msg) : Pay pc e (sendReject e r m) 13 := by
  have h := pay_sendMessage pc e (.msgReject m.type r)
  rw [len_reject] at h
  exact pay_mono h (by simp [pSend, resp])

theorem pay_sendContact (pc : Cfg) (e : Ep) : Pay pc e (sendContact e) (pSend 6 + respContact pc e.cfg) := by
  have h := pay_sendMessage pc e (.contact 0)
  rw [len_contact] at h
  exact pay_then_view (pay_mono h (by simp [resp])) (e' := sendMessage e (.contact 0)) rfl

theorem pay_sendInit (pc : Cfg) (e : Ep) : Pay pc e (sendInit e) (pSend (initLen e.cfg) + respInit pc) := by
  have h := pay_sendMessage pc e (.sessInit e.cfg.keepalive e.cfg.segMru sizeMax e.cfg.nodeId (sessionExt e.cfg))
  exact pay_then_view (pay_mono h (by simp [resp, initLen])) (e' := sendMessage e _) rfl

theorem pay_sendSessTerm (pc : Cfg) (e : Ep) (r : Nat) (b : Bool) : Pay pc e (sendSessTerm e r b).1 0 := by
  unfold sendSessTerm
  split
  · exact pay_refl pc e
  · split
    · exact pay_refl pc e
    · rename_i h1 h2
      simp only []
      have hterm : e.inTerm = false := by simpa using h2
      -- entering termination releases 26
      have s1 : phi (setState { e with inTerm := true } "ending").1 + 26 ≤ phi e := by
        have : vv (setState { e with inTerm := true } "ending").1 = vv { e with inTerm := true } := vv_setState _ _
        simp only [phi, this]
        simp only [phiV, vv, hterm]; simp
      have s2 := pay_sendMessage pc (setState { e with inTerm := true } "ending").1 (.sessTerm (if b then 1 else 0) r)
      rw [len_sessTerm] at s2
      have s3 := pay_flush pc (sendMessage (setState { e with inTerm := true } "ending").1 (.sessTerm (if b then 1 else 0) r))
      obtain ⟨a1, a2, a3, aq, n, a4, a5⟩ := pay_trans s2 s3
      have hv : vv (setState { e with inTerm := true } "ending").1 = vv { e with inTerm := true } := vv_setState _ _
      have hc : (setState { e with inTerm := true } "ending").1.cfg = e.cfg := by
        have := congrArg VV.cfg hv; exact this
      have hacc : (setState { e with inTerm := true } "ending").1.accepted = e.accepted := by
        have := congrArg VV.accepted hv; exact this
      have hpr : (setState { e with inTerm := true } "ending").1.processed = e.processed := by
        have := congrArg VV.processed hv; exact this
      have hem : (setState { e with inTerm := true } "ending").1.emitted = e.emitted := by
        have := congrArg VV.emitted hv; exact this
      have hpq : (setState { e with inTerm := true } "ending").1.pqSources = e.pqSources := by
        have := congrArg VV.pqSources hv; exact this
      refine ⟨a1.trans hc, a2.trans hacc, a3.trans hpr, Nat.le_trans (Nat.le_of_eq hpq.symm) aq, n, by rw [a4, hem], ?_⟩
      rw [hc] at a5
      simp only [pSend, resp] at a5
      omega

/-! ### receiving -/

theorem pay_onContact (pc : Cfg) (e : Ep) (hp : e.cfg.passive = true → pc.passive = false) :
    Pay pc e (onContact e).1 (respContact e.cfg pc) := by
  unfold onContact
  simp only []
  cases hpa : e.cfg.passive
  · -- active: answers with SESS_INIT
    simp only [Bool.false_eq_true, if_false, Bool.not_false, if_true]
    have h1 := pay_setState pc e "session-negotiating"
    have h2 := pay_sendInit pc (setState e "session-negotiating").1
    have hc : (setState e "session-negotiating").1.cfg = e.cfg := congrArg VV.cfg (vv_setState e _)
    rw [hc] at h2
    refine pay_mono (pay_trans h1 h2) ?_
    simp [respContact, respContactAct, hpa]
  · -- passive: answers with its contact header
    simp only [if_true, Bool.not_true, Bool.false_eq_true, if_false]
    have h1 := pay_sendContact pc e
    have h2 := pay_setState pc (sendContact e) "session-negotiating"
    refine pay_mono (pay_trans h1 h2) ?_
    have : pc.passive = false := hp hpa
    simp [respContact, hpa, this]

theorem pay_onSessInit (pc : Cfg) (e : Ep) (p : PeerInit) (hp : e.cfg.passive = true → pc.passive = false) :
    Pay pc e (onSessInit e p).1 (respInit e.cfg) := by
  unfold onSessInit
  simp only []
  cases hpa : e.cfg.passive
  · simp only [Bool.false_eq_true, if_false]
    refine pay_mono (c := 0) ?_ (by omega)
    refine pay_then_view (pay_refl pc e) ?_
    rw [vv_setState, vv_mergeSession]; rfl
  · simp only [if_true]
    have h1 := pay_sendInit pc e
    have : pc.passive = false := hp hpa
    refine pay_mono (pay_then_view h1 ?_) (by simp [respInit, hpa, this])
    rw [vv_setState, vv_mergeSession]; rfl

theorem pay_onSessTerm (pc : Cfg) (e : Ep) (m : Msg) (r : Nat) : Pay pc e (onSessTerm e m r).1 13 := by
  unfold onSessTerm
  split
  · exact pay_sendReject pc e _ m
  · simp only []
    refine pay_mono (c := 0 + (0 + 0)) ?_ (by omega)
    have h1 : Pay pc e (if (!e.inTerm) = true then sendSessTerm e r true else (e, [])).1 0 := by
      split
      · exact pay_sendSessTerm pc e r true
      · exact pay_refl pc e
    refine pay_trans h1 (pay_trans (pay_view_then (e' := (if (!e.inTerm) = true then sendSessTerm e r true else (e, [])).1) rfl (pay_flush pc _)) (pay_checkSessTerm pc _))

theorem pay_segAccept (pc : Cfg) (e : Ep) (flags tid : Nat) (cur data : Bytes) (o1 : List Out) :
    Pay pc e (segAccept e flags tid cur data o1).1 71 := by
  unfold segAccept
  simp only []
  have h1 := pay_sendMessage pc e (.xferAck flags tid (cur ++ data).length)
  rw [len_ack] at h1
  have h1' : Pay pc e (sendMessage e (.xferAck flags tid (cur ++ data).length)) 71 := pay_mono h1 (by simp [pSend, resp])
  split
  · generalize hm : sendMessage e (.xferAck flags tid (cur ++ data).length) = e2 at h1'
    exact pay_mono (pay_trans (pay_then_view h1' (e'' := { e2 with rxTmp := none, rxMap := rxMapSet e2.rxMap tid (cur ++ data), rxLog := e2.rxLog ++ [(tid, cur ++ data)] }) rfl) (pay_checkSessTerm pc _)) (by omega)
  · have h2 := pay_sendMessage pc { e with rxTmp := some (tid, cur ++ data) } (.xferAck flags tid (cur ++ data).length)
    rw [len_ack] at h2
    exact pay_view_then (e' := { e with rxTmp := some (tid, cur ++ data) }) rfl (pay_mono h2 (by simp [pSend, resp]))

theorem pay_onSegment (pc : Cfg) (e : Ep) (m : Msg) (flags tid : Nat) (data : Bytes) :
    Pay pc e (onSegment e m flags tid data).1 84 := by
  unfold onSegment
  split
  · exact pay_mono (pay_sendReject pc e _ m) (by omega)
  · split
    · exact pay_mono (pay_view_then (e' := { e with rxTmp := some (tid, []) }) rfl (pay_segAccept pc _ flags tid [] data _)) (by omega)
    · split
      · split
        · exact pay_mono (pay_segAccept pc e flags tid _ data []) (by omega)
        · exact pay_mono (pay_sendReject pc e _ m) (by omega)
      · exact pay_mono (pay_sendReject pc e _ m) (by omega)

theorem pay_onAck (pc : Cfg) (e : Ep) (m : Msg) (flags tid len : Nat) : Pay pc e (onAck e m flags tid len).1 13 := by
  unfold onAck
  split
  · exact pay_sendReject pc e _ m
  · split
    · exact pay_sendReject pc e _ m
    · split
      · split
        · exact pay_sendReject pc e _ m
        · simp only []
          exact pay_mono (pay_view_then (e' := { e with txPendAck := e.txPendAck.erase tid, txMap := e.txMap.erase tid, successLog := e.successLog ++ [tid] }) rfl (pay_checkSessTerm pc _)) (by omega)
      · exact pay_mono (pay_of_view rfl) (by omega)

theorem pay_dropTmp (pc : Cfg) (e1 : Ep) (tid : Nat) :
    Pay pc e1 (match e1.txTmp with
      | some (it, _) => if it.tid == tid then pqTrigger { e1 with txTmp := none } else e1
      | none => e1) 1 := by
  split
  · split
    · have h2 : Pay pc e1 { e1 with txTmp := none } 0 := by
        refine pay_lower rfl rfl rfl rfl ?_
        simp only [phi, phiV, vv, dTmp]; omega
      exact pay_mono (c := 0 + 1) (pay_trans h2 (pay_pqTrigger pc _)) (by omega)
    · exact pay_mono (pay_refl pc e1) (by omega)
  · exact pay_mono (pay_refl pc e1) (by omega)

theorem pay_onRefuse (pc : Cfg) (e : Ep) (m : Msg) (reason tid : Nat) : Pay pc e (onRefuse e m reason tid).1 14 := by
  unfold onRefuse
  split
  · exact pay_mono (pay_sendReject pc e _ m) (by omega)
  · split
    · exact pay_mono (pay_sendReject pc e _ m) (by omega)
    · simp only []
      -- the filtered queue weighs no more
      have h1 : Pay pc e { e with txMap := e.txMap.erase tid, txPendAck := e.txPendAck.erase tid, txPendStart := e.txPendStart.filter (·.tid != tid) } 0 := by
        refine pay_lower rfl rfl rfl rfl ?_
        simp only [phi, phiV, vv]
        have := dPend_filter_le (·.tid != tid) e.txPendStart
        omega
      refine pay_mono (c := 0 + (1 + 0)) (pay_trans h1 (pay_trans (c1 := 1) ?_ (pay_checkSessTerm pc _))) (by omega)
      exact pay_dropTmp pc _ tid

/-- **One received message costs the receiver at most `resp`.** -/
theorem pay_handleMsg (pc : Cfg) (e : Ep) (m : Msg) (hp : e.cfg.passive = true → pc.passive = false) :
    (handleMsg e m).1.cfg = e.cfg ∧ (handleMsg e m).1.accepted = e.accepted
    ∧ (handleMsg e m).1.processed = e.processed ++ [m] ∧ e.pqSources ≤ (handleMsg e m).1.pqSources
    ∧ ∃ new, (handleMsg e m).1.emitted = e.emitted ++ new
        ∧ phi (handleMsg e m).1 + R pc e.cfg new ≤ phi e + resp e.cfg pc m := by
  have key : Pay pc { e with processed := e.processed ++ [m] } (handleMsg e m).1 (resp e.cfg pc m) := by
    unfold handleMsg
    cases m with
    | contact f => exact pay_onContact pc _ hp
    | sessInit a b c d x => exact pay_onSessInit pc _ _ hp
    | sessTerm f r => exact pay_onSessTerm pc _ _ r
    | keepalive => exact pay_refl pc _
    | msgReject a b => exact pay_refl pc _
    | xferSegment f t x d => exact pay_onSegment pc _ _ f t d
    | xferAck f t l => exact pay_onAck pc _ _ f t l
    | xferRefuse r t => exact pay_onRefuse pc _ _ r t
  obtain ⟨a1, a2, a3, aq, n, a4, a5⟩ := key
  exact ⟨a1, a2, a3, aq, n, a4, a5⟩

/-- `e'` is `e` after processing the messages `done` -/
def PayRx (pc : Cfg) (e e' : Ep) : Prop :=
  e'.cfg = e.cfg ∧ e'.accepted = e.accepted ∧ e.pqSources ≤ e'.pqSources
  ∧ ∃ done new, e'.processed = e.processed ++ done ∧ e'.emitted = e.emitted ++ new
      ∧ phi e' + R pc e.cfg new ≤ phi e + R e.cfg pc done

theorem payRx_of_pay {pc : Cfg} {e e' : Ep} (h : Pay pc e e' 0) : PayRx pc e e' := by
  obtain ⟨a1, a2, a3, aq, n, a4, a5⟩ := h
  exact ⟨a1, a2, aq, [], n, by simp [a3], a4, by simpa using a5⟩

theorem payRx_trans {pc : Cfg} {e e' e'' : Ep} (h1 : PayRx pc e e') (h2 : PayRx pc e' e'') : PayRx pc e e'' := by
  obtain ⟨a1, a2, aq, d1, n1, a3, a4, a5⟩ := h1
  obtain ⟨b1, b2, bq, d2, n2, b3, b4, b5⟩ := h2
  refine ⟨b1.trans a1, b2.trans a2, Nat.le_trans aq bq, d1 ++ d2, n1 ++ n2, by rw [b3, a3, List.append_assoc],
    by rw [b4, a4, List.append_assoc], ?_⟩
  rw [a1] at b5
  simp only [R_append]; omega

theorem payRx_handleMsgs (pc : Cfg) (ms : List Msg) (e : Ep) (hp : e.cfg.passive = true → pc.passive = false) :
    PayRx pc e (handleMsgs e ms).1 := by
  induction ms generalizing e with
  | nil => exact payRx_of_pay (pay_refl pc e)
  | cons m ms ih =>
    unfold handleMsgs
    split
    · exact payRx_of_pay (pay_refl pc e)
    · simp only []
      obtain ⟨a1, a2, a3, aq, n, a4, a5⟩ := pay_handleMsg pc { e with rxMore := !ms.isEmpty || e.rx.dead } m hp
      have hphi : phi { e with rxMore := !ms.isEmpty || e.rx.dead } = phi e := rfl
      rw [hphi] at a5
      have h1 : PayRx pc e (handleMsg { e with rxMore := !ms.isEmpty || e.rx.dead } m).1 :=
        ⟨a1, a2, aq, [m], n, a3, a4, by simpa using a5⟩
      exact payRx_trans h1 (ih _ (by rw [a1]; exact hp))

theorem payRx_recvRaw (pc : Cfg) (e : Ep) (chunk : Bytes) (hp : e.cfg.passive = true → pc.passive = false) :
    PayRx pc e (recvRaw e chunk).1 := by
  unfold recvRaw
  simp only []
  have h0 : PayRx pc e (rxEntry e chunk) := payRx_of_pay (pay_of_view rfl)
  have h1 : PayRx pc e (handleMsgs (rxEntry e chunk) (feed e.rx chunk).2).1 := payRx_trans h0 (payRx_handleMsgs pc _ _ hp)
  have h2 : PayRx pc e { (handleMsgs (rxEntry e chunk) (feed e.rx chunk).2).1 with rxMore := false } :=
    payRx_trans h1 (payRx_of_pay (pay_of_view rfl))
  split
  · exact payRx_trans h2 (payRx_of_pay (pay_doClose pc _))
  · exact h2

/-! ### `_process_queue` -/

theorem len_segment_le (flags tid : Nat) (ext seg : Bytes) :
    (encode (.xferSegment flags tid ext seg)).length ≤ 22 + ext.length + seg.length := by
  simp only [encode, Msg.body, u8, u64, u32, List.length_append, beBytes_length]
  split <;> simp only [List.length_append, beBytes_length] <;> omega

theorem len_transferExt (c : Cfg) (n : Nat) (h : c.privExt = false) : (transferExt c true n).length = 13 := by
  simp [transferExt, h, encExtItem, u8, u16, u64]

theorem pay_endTransfer (pc : Cfg) (e e2 : Ep) (flags tid : Nat) (ext seg : Bytes)
    (he2 : e2 = sendMessage e (.xferSegment flags tid ext seg))
    (hk : 3 * (encode (.xferSegment flags tid ext seg)).length + 4 + 84 + 1 ≤ dTmp e.txTmp) :
    Pay pc e (pqTrigger { e2 with txTmp := none, txPendAck := e2.txPendAck ++ [tid] }) 0 := by
  have key : ∀ e3 : Ep, e3 = { e2 with txTmp := none, txPendAck := e2.txPendAck ++ [tid] } → Pay pc e (pqTrigger e3) 0 := by
    intro e3 he3
    have h3 : e3.cfg = e.cfg ∧ e3.accepted = e.accepted ∧ e3.processed = e.processed ∧ e3.pqSources = e.pqSources
        ∧ e3.emitted = e.emitted ++ [.xferSegment flags tid ext seg] ∧ phi e3 + 84 + 1 ≤ phi e := by
      subst he3; subst he2
      refine ⟨rfl, rfl, rfl, rfl, rfl, ?_⟩
      have h1 : (if e.txWatch = true then 0 else 1) ≤ 1 := by split <;> omega
      have h2 : (if e.txIdle = true then 0 else 1) ≤ 1 := by split <;> omega
      simp only [phi, phiV, vv, sendMessage, sendReady, kaReset, idleReset, List.length_append, dTmp_none]
      omega
    obtain ⟨c1, c2, c3, c4, c5, c6⟩ := h3
    obtain ⟨q1, q2, q3, q4, q5, q6⟩ := pq_fields e3
    exact ⟨q1.trans c1, q2.trans c2, q3.trans c3, by rw [← c4]; exact q5, [.xferSegment flags tid ext seg], q4.trans c5,
      by simp only [R_single, resp]; omega⟩
  exact key _ rfl

/-- **One segment is paid for by the data it takes out of the transfer.** -/
theorem pay_sendSegment (pc : Cfg) (e : Ep) (it : TxItem) (sent : Nat) (htmp : e.txTmp = some (it, sent))
    (hle : sent ≤ it.data.length) (hseg : 0 < e.sendSegSize) (hpriv : e.cfg.privExt = false) :
    Pay pc e (sendSegment e it sent).1 0 ∧ (sendSegment e it sent).2.2 = false := by
  unfold sendSegment
  simp only [hpriv, Bool.false_eq_true, Bool.and_false, if_false]
  generalize hflags : ((if (sent + ((it.data.drop sent).take e.sendSegSize).length == it.data.length) = true then flagEnd else 0)
    + if (sent == 0) = true then flagStart else 0) = flags
  generalize hext : (if (sent == 0) = true then transferExt e.cfg true it.data.length else []) = ext
  have hextl : ext.length ≤ 13 := by
    rw [← hext]; split
    · rw [len_transferExt _ _ hpriv]; exact Nat.le_refl _
    · simp
  have hj : ((it.data.drop sent).take e.sendSegSize).length = min e.sendSegSize (it.data.length - sent) := by
    simp [List.length_take, List.length_drop]
  generalize hsg : (it.data.drop sent).take e.sendSegSize = seg at hj ⊢
  have hlen := len_segment_le flags it.tid ext seg
  have hd0 : dTmp e.txTmp = dItem (it.data.length - sent) := by rw [htmp]; rfl
  split
  · -- END: the transfer leaves `txTmp`
    rename_i hend
    have hend' : sent + seg.length = it.data.length := by simpa using hend
    refine ⟨?_, rfl⟩
    refine pay_endTransfer pc e _ flags it.tid ext seg rfl ?_
    rw [hd0]; simp only [dItem]; omega
  · rename_i hend
    have hend' : sent + seg.length ≠ it.data.length := by simpa using hend
    have hpos : 1 ≤ seg.length := by omega
    refine ⟨?_, rfl⟩
    refine ⟨rfl, rfl, rfl, Nat.le_refl _, [.xferSegment flags it.tid ext seg], rfl, ?_⟩
    have h1 : (if e.txWatch = true then 0 else 1) ≤ 1 := by split <;> omega
    have h2 : (if e.txIdle = true then 0 else 1) ≤ 1 := by split <;> omega
    simp only [phi, phiV, vv, sendMessage, sendReady, kaReset, idleReset, R_single, resp, List.length_append, dTmp_some, hd0, dItem]
    omega

/-- what the endpoint invariants give about the transfer being segmented -/
def SegOK (e : Ep) : Prop :=
  e.cfg.privExt = false ∧ (e.inSess = true → 0 < e.sendSegSize)
  ∧ ∀ it sent, e.txTmp = some (it, sent) → sent ≤ it.data.length ∧ 0 < e.sendSegSize

theorem pay_processQueue (pc : Cfg) (e : Ep) (hok : SegOK e) (hen : e.inSess = true ∨ e.txTmp ≠ none) :
    Pay pc e (processQueue e).1 0 ∧ (processQueue e).2.2 = false := by
  obtain ⟨hpriv, hsess, htmp⟩ := hok
  unfold processQueue
  split
  · rename_i it sent heq
    obtain ⟨h1, h2⟩ := htmp it sent heq
    exact pay_sendSegment pc e it sent heq h1 h2 hpriv
  · rename_i heq
    have hs : e.inSess = true := by
      rcases hen with h | h
      · exact h
      · exact absurd heq h
    split
    · rename_i h; rw [hs] at h; cases h
    split
    · exact ⟨pay_mono (c := 0 + 0) (pay_trans (pay_flush pc e) (pay_checkSessTerm pc _)) (by omega), rfl⟩
    · split
      · exact ⟨pay_refl pc e, rfl⟩
      · rename_i it rest hq
        simp only []
        have hmove : Pay pc e { e with txPendStart := rest, txTmp := some (it, 0), nStarted := e.nStarted + 1 } 0 := by
          refine pay_lower rfl rfl rfl rfl ?_
          simp only [phi, phiV, vv, hq, heq, dPend_cons, dTmp_some, dTmp_none, Nat.sub_zero]; omega
        obtain ⟨h1, h2⟩ := pay_sendSegment pc { e with txPendStart := rest, txTmp := some (it, 0), nStarted := e.nStarted + 1 }
          it 0 rfl (Nat.zero_le _) (hsess hs) hpriv
        exact ⟨pay_mono (c := 0 + 0) (pay_trans hmove h1) (by omega), h2⟩

theorem phi_dec_pq (r : Ep) (h : 1 ≤ r.pqSources) : phi { r with pqSources := r.pqSources - 1 } + 1 = phi r := by
  simp only [phi, phiV, vv]; omega

/-- **An enabled firing of the `_process_queue` idle source lowers the potential.** -/
theorem var_procQueue (pc : Cfg) (e : Ep) (hok : SegOK e) (hpq : 0 < e.pqSources)
    (hen : e.closed = true ∨ e.inSess = true ∨ e.txTmp ≠ none) :
    (step e .procQueue).1.cfg = e.cfg ∧ (step e .procQueue).1.accepted = e.accepted
    ∧ (step e .procQueue).1.processed = e.processed
    ∧ ∃ new, (step e .procQueue).1.emitted = e.emitted ++ new
        ∧ phi (step e .procQueue).1 + R pc e.cfg new < phi e := by
  unfold step
  simp only []
  split
  · refine ⟨rfl, rfl, rfl, [], by simp, ?_⟩
    simp only [phi, phiV, vv, R_nil]; omega
  · rename_i hc
    have hc' : e.closed = false := by simpa using hc
    have hen' : e.inSess = true ∨ e.txTmp ≠ none := by
      rcases hen with h | h
      · rw [hc'] at h; cases h
      · exact h
    have hne : (e.pqSources == 0) = false := by simp; omega
    simp only [hne, Bool.false_eq_true, if_false]
    have key := pay_processQueue pc { e with pqPend := false } hok hen'
    generalize processQueue { e with pqPend := false } = r at key ⊢
    obtain ⟨⟨a1, a2, a3, aq, n, a4, a5⟩, hst⟩ := key
    simp only [hst, Bool.false_eq_true, if_false]
    refine ⟨a1, a2, a3, n, a4, ?_⟩
    have a5' : phi r.1 + R pc e.cfg n ≤ phi e + 0 := a5
    have aq' : e.pqSources ≤ r.1.pqSources := aq
    have := phi_dec_pq r.1 (Nat.le_trans hpq aq')
    omega

/-! ### the TX callback -/

theorem phi_doClose_open (e : Ep) (ho : e.closed = false) : phi (doClose e).1 + 2 + 2 * e.txSrc ≤ phi e := by
  unfold doClose
  simp only [ho, Bool.false_eq_true, if_false]
  simp only [phi, phiV, vv, flushPendStart, dPend_nil, unl_true, ho, unl_false]; omega

theorem doClose_fields (e : Ep) : (doClose e).1.cfg = e.cfg ∧ (doClose e).1.accepted = e.accepted
    ∧ (doClose e).1.processed = e.processed ∧ (doClose e).1.emitted = e.emitted
    ∧ (doClose e).1.connBuf = e.connBuf ∧ (doClose e).1.closed = true := by
  unfold doClose
  split
  · rename_i h; exact ⟨rfl, rfl, rfl, rfl, rfl, h⟩
  · exact ⟨rfl, rfl, rfl, rfl, rfl, rfl⟩

/-- `_check_sess_term` either changes nothing or closes an open endpoint -/
theorem checkSessTerm_cases (e : Ep) (ho : e.closed = false) :
    (checkSessTerm e).1 = e ∨ ((checkSessTerm e).1.closed = true ∧ (checkSessTerm e).1.cfg = e.cfg
      ∧ (checkSessTerm e).1.accepted = e.accepted ∧ (checkSessTerm e).1.processed = e.processed
      ∧ (checkSessTerm e).1.emitted = e.emitted ∧ (checkSessTerm e).1.connBuf = e.connBuf
      ∧ phi (checkSessTerm e).1 + 2 + 2 * e.txSrc ≤ phi e) := by
  unfold checkSessTerm
  split
  · right
    obtain ⟨d1, d2, d3, d4, d5, d6⟩ := doClose_fields e
    exact ⟨d6, d1, d2, d3, d4, d5, phi_doClose_open e ho⟩
  · left; rfl

theorem pullTx_fields (e : Ep) : (pullTx e).cfg = e.cfg ∧ (pullTx e).accepted = e.accepted
    ∧ (pullTx e).processed = e.processed ∧ (pullTx e).emitted = e.emitted ∧ (pullTx e).closed = e.closed
    ∧ (pullTx e).txSrc = e.txSrc ∧ phi (pullTx e) ≤ phi e + 1
    ∧ ((pullTx e).connBuf = [] → upEmpty e = true) := by
  unfold pullTx
  split
  · rename_i hlt
    generalize he1 : ({ e with txBuf := e.txBuf.drop chunkSize, connBuf := e.connBuf ++ e.txBuf.take chunkSize } : Ep) = e1
    have f1 : e1.cfg = e.cfg ∧ e1.accepted = e.accepted ∧ e1.processed = e.processed ∧ e1.emitted = e.emitted
        ∧ e1.closed = e.closed ∧ e1.txSrc = e.txSrc ∧ phi e1 = phi e
        ∧ e1.connBuf = e.connBuf ++ e.txBuf.take chunkSize := by
      subst he1
      refine ⟨rfl, rfl, rfl, rfl, rfl, rfl, ?_, rfl⟩
      simp only [phi, phiV, vv, List.length_append, List.length_take, List.length_drop]; omega
    obtain ⟨c1, c2, c3, c4, c5, c6, c7, c8⟩ := f1
    have hsb : (sendBufferDecreased e1).cfg = e1.cfg ∧ (sendBufferDecreased e1).accepted = e1.accepted
        ∧ (sendBufferDecreased e1).processed = e1.processed ∧ (sendBufferDecreased e1).emitted = e1.emitted
        ∧ (sendBufferDecreased e1).closed = e1.closed ∧ (sendBufferDecreased e1).txSrc = e1.txSrc
        ∧ phi (sendBufferDecreased e1) ≤ phi e1 + 1 ∧ (sendBufferDecreased e1).connBuf = e1.connBuf := by
      unfold sendBufferDecreased
      split
      · obtain ⟨q1, q2, q3, q4, q5, q6⟩ := pq_fields e1
        refine ⟨q1, q2, q3, q4, ?_, ?_, q6, ?_⟩ <;> (unfold pqTrigger; split <;> rfl)
      · exact ⟨rfl, rfl, rfl, rfl, rfl, rfl, Nat.le_succ _, rfl⟩
    obtain ⟨s1, s2, s3, s4, s5, s6, s7, s8⟩ := hsb
    refine ⟨s1.trans c1, s2.trans c2, s3.trans c3, s4.trans c4, s5.trans c5, s6.trans c6, by omega, ?_⟩
    intro hempty
    rw [s8, c8] at hempty
    have h1 : e.connBuf = [] := (List.append_eq_nil_iff.mp hempty).1
    have h2 : e.txBuf.take chunkSize = [] := (List.append_eq_nil_iff.mp hempty).2
    have h3 : e.txBuf = [] := by
      cases hb : e.txBuf with
      | nil => rfl
      | cons x xs => rw [hb] at h2; simp [chunkSize] at h2
    simp [upEmpty, h1, h3, chunkSize]
  · rename_i hge
    refine ⟨rfl, rfl, rfl, rfl, rfl, rfl, Nat.le_succ _, ?_⟩
    intro hempty
    rw [hempty] at hge
    simp [chunkSize] at hge

theorem step_pump_open (e : Ep) (n : Nat) (ho : e.closed = false) (hsrc : 0 < e.txSrc) :
    step e (.pump n) =
      (let r := pump { e with txIdle := false } n
       let cont := r.1.closed || !r.1.connBuf.isEmpty || !upEmpty e
       ({ r.1 with txWatch := r.1.txWatch && cont, txSrc := if cont then r.1.txSrc else r.1.txSrc - 1 }, r.2)) := by
  unfold step
  simp only []
  rw [if_neg (by simp [ho])]
  rw [if_neg (by simp; omega)]

/-- what one `writeConn` does to an open endpoint when the socket takes at least one octet -/
theorem writeConn_var (e2 : Ep) (n : Nat) (up : Bool) (hn : 1 ≤ n) (ho2 : e2.closed = false) :
    (writeConn e2 n up).1.cfg = e2.cfg ∧ (writeConn e2 n up).1.processed = e2.processed
    ∧ (writeConn e2 n up).1.emitted = e2.emitted
    ∧ ∃ w, (writeConn e2 n up).1.accepted = e2.accepted ++ w
      ∧ ((1 ≤ w.length ∧ phi (writeConn e2 n up).1 + 3 * w.length ≤ phi e2)
         ∨ (w = [] ∧ e2.connBuf = [] ∧ (writeConn e2 n up).1.connBuf = []
            ∧ (((writeConn e2 n up).1.closed = false ∧ phi (writeConn e2 n up).1 = phi e2
                  ∧ (writeConn e2 n up).1.txSrc = e2.txSrc)
               ∨ ((writeConn e2 n up).1.closed = true ∧ phi (writeConn e2 n up).1 + 2 + 2 * e2.txSrc ≤ phi e2)))) := by
  unfold writeConn
  by_cases hcb : e2.connBuf = []
  · have hcb' : e2.connBuf.isEmpty = true := by rw [hcb]; rfl
    rw [if_pos hcb']
    cases up
    · rw [if_neg (by simp)]
      exact ⟨rfl, rfl, rfl, [], by simp, Or.inr ⟨rfl, hcb, hcb, Or.inl ⟨ho2, rfl, rfl⟩⟩⟩
    · rw [if_pos rfl]
      rcases checkSessTerm_cases e2 ho2 with hsame | ⟨k1, k2, k3, k4, k5, k6, k7⟩
      · rw [hsame]
        exact ⟨rfl, rfl, rfl, [], by simp, Or.inr ⟨rfl, hcb, hcb, Or.inl ⟨ho2, rfl, rfl⟩⟩⟩
      · exact ⟨k2, k4, k5, [], by simp [k3], Or.inr ⟨rfl, hcb, k6.trans hcb, Or.inr ⟨k1, k7⟩⟩⟩
  · have hcb' : ¬ (e2.connBuf.isEmpty = true) := by
      cases h : e2.connBuf with
      | nil => exact absurd h hcb
      | cons x xs => simp
    rw [if_neg hcb']
    simp only []
    have hdl : 1 ≤ (e2.connBuf.take chunkSize).length := by
      cases h : e2.connBuf with
      | nil => exact absurd h hcb
      | cons x xs => simp [chunkSize]
    have hk0 : ¬ ((min n (e2.connBuf.take chunkSize).length == 0) = true) := by
      intro h; rw [beq_iff_eq] at h; omega
    rw [if_neg hk0]
    generalize hkk : min n (e2.connBuf.take chunkSize).length = k
    have hk : 1 ≤ k := by omega
    have hkle : k ≤ e2.connBuf.length := by
      rw [← hkk]; simp only [List.length_take]; omega
    have hwl : ((e2.connBuf.take chunkSize).take k).length = k := by
      rw [List.length_take, ← hkk]; simp only [List.length_take]; omega
    have key : ∀ e3 : Ep, e3 = { e2 with connBuf := e2.connBuf.drop k, accepted := e2.accepted ++ (e2.connBuf.take chunkSize).take k } →
        ∀ e4 : Ep, (e4 = e3 ∨ (e4.closed = true ∧ e4.cfg = e3.cfg ∧ e4.accepted = e3.accepted ∧ e4.processed = e3.processed
            ∧ e4.emitted = e3.emitted ∧ e4.connBuf = e3.connBuf ∧ phi e4 + 2 + 2 * e3.txSrc ≤ phi e3)) →
        e4.cfg = e2.cfg ∧ e4.processed = e2.processed ∧ e4.emitted = e2.emitted
        ∧ ∃ w, e4.accepted = e2.accepted ++ w ∧ ((1 ≤ w.length ∧ phi e4 + 3 * w.length ≤ phi e2)
           ∨ (w = [] ∧ e2.connBuf = [] ∧ e4.connBuf = []
              ∧ ((e4.closed = false ∧ phi e4 = phi e2 ∧ e4.txSrc = e2.txSrc) ∨ (e4.closed = true ∧ phi e4 + 2 + 2 * e2.txSrc ≤ phi e2)))) := by
      intro e3 he3 e4 h4
      have f3 : e3.cfg = e2.cfg ∧ e3.processed = e2.processed ∧ e3.emitted = e2.emitted
          ∧ e3.accepted = e2.accepted ++ (e2.connBuf.take chunkSize).take k ∧ phi e3 + 3 * k = phi e2 := by
        subst he3
        refine ⟨rfl, rfl, rfl, rfl, ?_⟩
        simp only [phi, phiV, vv, List.length_drop]; omega
      obtain ⟨t1, t2, t3, t6, t7⟩ := f3
      rcases h4 with rfl | ⟨k1, k2, k3, k4, k5, k6, k7⟩
      · exact ⟨t1, t2, t3, _, t6, Or.inl ⟨by omega, by rw [hwl]; omega⟩⟩
      · exact ⟨k2.trans t1, k4.trans t2, k5.trans t3, _, k3.trans t6, Or.inl ⟨by omega, by rw [hwl]; omega⟩⟩
    have ho3 : ({ e2 with connBuf := e2.connBuf.drop k, accepted := e2.accepted ++ (e2.connBuf.take chunkSize).take k } : Ep).closed = false := ho2
    split
    · exact key _ rfl _ (checkSessTerm_cases _ ho3)
    · exact key _ rfl _ (Or.inl rfl)

theorem pump_finish (e e4 : Ep) (b : Bool) (w : Bytes) (h1 : e4.cfg = e.cfg) (h2 : e4.processed = e.processed)
    (h3 : e4.emitted = e.emitted) (h4 : e4.accepted = e.accepted ++ w)
    (h5 : phi e4 + w.length < phi e ∨ (b = false ∧ 1 ≤ e4.txSrc ∧ phi e4 + w.length < phi e + 2)) :
    ({ e4 with txWatch := e4.txWatch && b, txSrc := if b then e4.txSrc else e4.txSrc - 1 } : Ep).cfg = e.cfg
    ∧ ({ e4 with txWatch := e4.txWatch && b, txSrc := if b then e4.txSrc else e4.txSrc - 1 } : Ep).processed = e.processed
    ∧ ({ e4 with txWatch := e4.txWatch && b, txSrc := if b then e4.txSrc else e4.txSrc - 1 } : Ep).emitted = e.emitted
    ∧ ∃ w, ({ e4 with txWatch := e4.txWatch && b, txSrc := if b then e4.txSrc else e4.txSrc - 1 } : Ep).accepted = e.accepted ++ w
        ∧ phi { e4 with txWatch := e4.txWatch && b, txSrc := if b then e4.txSrc else e4.txSrc - 1 } + w.length < phi e := by
  refine ⟨h1, h2, h3, w, h4, ?_⟩
  rcases h5 with h5 | ⟨hb, hs, h5⟩
  · have hle : phi { e4 with txWatch := e4.txWatch && b, txSrc := if b then e4.txSrc else e4.txSrc - 1 } ≤ phi e4 := by
      simp only [phi, phiV, vv]; split <;> omega
    omega
  · subst hb
    have : phi { e4 with txWatch := e4.txWatch && false, txSrc := if false = true then e4.txSrc else e4.txSrc - 1 } + 2 = phi e4 := by
      simp only [phi, phiV, vv, Bool.false_eq_true, if_false]; omega
    omega

/-- **An effective TX callback (the socket takes at least one octet) lowers the potential**, counting
    every octet it puts on the wire once. -/
theorem var_pump (e : Ep) (n : Nat) (hn : 1 ≤ n) (ho : e.closed = false) (hsrc : 0 < e.txSrc) :
    (step e (.pump n)).1.cfg = e.cfg ∧ (step e (.pump n)).1.processed = e.processed
    ∧ (step e (.pump n)).1.emitted = e.emitted
    ∧ ∃ w, (step e (.pump n)).1.accepted = e.accepted ++ w ∧ phi (step e (.pump n)).1 + w.length < phi e := by
  rw [step_pump_open e n ho hsrc]
  simp only []
  unfold pump
  have hup1 : upEmpty { e with txIdle := false } = upEmpty e := rfl
  obtain ⟨p1, p2, p3, p4, p5, p6, p7, p8⟩ := pullTx_fields { e with txIdle := false }
  rw [hup1] at p8 ⊢
  generalize pullTx { e with txIdle := false } = e2 at p1 p2 p3 p4 p5 p6 p7 p8 ⊢
  have g1 : e2.cfg = e.cfg := p1
  have g2 : e2.accepted = e.accepted := p2
  have g3 : e2.processed = e.processed := p3
  have g4 : e2.emitted = e.emitted := p4
  have g6 : e2.txSrc = e.txSrc := p6
  have g7 : phi e2 ≤ phi e + 1 := p7
  have ho2 : e2.closed = false := p5.trans ho
  obtain ⟨w1, w2, w3, w, w4, w5⟩ := writeConn_var e2 n (upEmpty e) hn ho2
  generalize writeConn e2 n (upEmpty e) = r at w1 w2 w3 w4 w5 ⊢
  refine pump_finish e r.1 _ w (w1.trans g1) (w2.trans g3) (w3.trans g4) (by rw [w4, g2]) ?_
  rcases w5 with ⟨wl, wphi⟩ | ⟨rfl, hcb, hrc, hcl⟩
  · left; omega
  · have hup : upEmpty e = true := p8 hcb
    rcases hcl with ⟨c1, c2, c3⟩ | ⟨c1, c2⟩
    · right
      refine ⟨by rw [c1, hrc, hup]; rfl, by omega, ?_⟩
      simp only [List.length_nil]; omega
    · left
      simp only [List.length_nil]; omega

/-- end of stream closes an open endpoint -/
theorem var_rxEof (e : Ep) (ho : e.closed = false) :
    (step e .rxEof).1.cfg = e.cfg ∧ (step e .rxEof).1.accepted = e.accepted
    ∧ (step e .rxEof).1.processed = e.processed ∧ (step e .rxEof).1.emitted = e.emitted
    ∧ phi (step e .rxEof).1 < phi e := by
  unfold step
  simp only [ho, Bool.false_eq_true, if_false]
  obtain ⟨d1, d2, d3, d4, -, -⟩ := doClose_fields e
  have := phi_doClose_open e ho
  exact ⟨d1, d2, d3, d4, by omega⟩

/-- a socket read on an open endpoint -/
theorem var_rx (pc : Cfg) (e : Ep) (chunk : Bytes) (ho : e.closed = false)
    (hp : e.cfg.passive = true → pc.passive = false) : PayRx pc e (step e (.rx chunk)).1 := by
  unfold step
  simp only [ho, Bool.false_eq_true, if_false]
  exact payRx_recvRaw pc e chunk hp

end Var
end Tcpcl
end DtnVerif
