/-
  Any endpoint predicate preserved by every `step` holds at both endpoints of every reachable state
  of the two-endpoint system.
-/
import DtnVerif.Lemmas.TcpclSys
import DtnVerif.Lemmas.TcpclAck
import DtnVerif.Lemmas.TcpclSuccInv
import DtnVerif.Lemmas.TcpclWake
namespace DtnVerif
namespace Tcpcl

theorem sys_lift_step (I : Ep → Prop) (hstep : ∀ e ev, I e → I (step e ev).1) (s : Sys) (ev : SysEv)
    (h : I s.a ∧ I s.b) : I (sysStep s ev).a ∧ I (sysStep s ev).b := by
  obtain ⟨ha, hb⟩ := h
  cases ev with
  | atA ev => simp only [sysStep]; split <;> first | exact ⟨ha, hb⟩ | exact ⟨hstep _ _ ha, hb⟩
  | atB ev => simp only [sysStep]; split <;> first | exact ⟨ha, hb⟩ | exact ⟨ha, hstep _ _ hb⟩
  | deliverB k => simp only [sysStep]; split <;> first | exact ⟨ha, hb⟩ | exact ⟨ha, hstep _ _ hb⟩
  | deliverA k => simp only [sysStep]; split <;> first | exact ⟨ha, hb⟩ | exact ⟨hstep _ _ ha, hb⟩
  | eofB => simp only [sysStep]; split <;> first | exact ⟨ha, hb⟩ | exact ⟨ha, hstep _ _ hb⟩
  | eofA => simp only [sysStep]; split <;> first | exact ⟨ha, hb⟩ | exact ⟨hstep _ _ ha, hb⟩

theorem sys_lift_run (I : Ep → Prop) (hstep : ∀ e ev, I e → I (step e ev).1) (sch : List SysEv) :
    ∀ s : Sys, I s.a ∧ I s.b → I (runSys s sch).a ∧ I (runSys s sch).b := by
  induction sch with
  | nil => intro s h; exact h
  | cons ev sch ih =>
    intro s h
    rw [runSys_cons]
    exact ih _ (sys_lift_step I hstep s ev h)

theorem sys_lift_init (I : Ep → Prop) (hstep : ∀ e ev, I e → I (step e ev).1) (hinit : ∀ cfg, I { cfg := cfg })
    (cfgA cfgB : Cfg) (sch : List SysEv) :
    I (runSys (initSys cfgA cfgB) sch).a ∧ I (runSys (initSys cfgA cfgB) sch).b :=
  sys_lift_run I hstep sch _ ⟨hstep _ _ (hinit cfgA), hstep _ _ (hinit cfgB)⟩

/-- the same with a side condition `H` on the endpoint that moves -/
theorem sys_lift_step' (H I : Ep → Prop) (hstep : ∀ e ev, H e → I e → I (step e ev).1) (s : Sys) (ev : SysEv)
    (Ha : H s.a) (Hb : H s.b) (h : I s.a ∧ I s.b) : I (sysStep s ev).a ∧ I (sysStep s ev).b := by
  obtain ⟨ha, hb⟩ := h
  cases ev with
  | atA ev => simp only [sysStep]; split <;> first | exact ⟨ha, hb⟩ | exact ⟨hstep _ _ Ha ha, hb⟩
  | atB ev => simp only [sysStep]; split <;> first | exact ⟨ha, hb⟩ | exact ⟨ha, hstep _ _ Hb hb⟩
  | deliverB k => simp only [sysStep]; split <;> first | exact ⟨ha, hb⟩ | exact ⟨ha, hstep _ _ Hb hb⟩
  | deliverA k => simp only [sysStep]; split <;> first | exact ⟨ha, hb⟩ | exact ⟨hstep _ _ Ha ha, hb⟩
  | eofB => simp only [sysStep]; split <;> first | exact ⟨ha, hb⟩ | exact ⟨ha, hstep _ _ Hb hb⟩
  | eofA => simp only [sysStep]; split <;> first | exact ⟨ha, hb⟩ | exact ⟨hstep _ _ Ha ha, hb⟩

/-- the side conditions of `wake_step` follow from the endpoint invariant -/
theorem wakeHyp_of_epInv {e : Ep} (hi : EpInv e) :
    e.cfg.privExt = false ∧ (e.txTmp.isSome = true → 0 < e.sendSegSize) := by
  obtain ⟨P, hP⟩ := hi.tx
  refine ⟨hP.noPriv, ?_⟩
  intro ht
  cases h : e.txTmp with
  | none => rw [h] at ht; simp at ht
  | some p =>
    obtain ⟨it, sent⟩ := p
    have := hP.tmp it sent h
    exact hP.seg this.2.2.2.2

/-- **No lost wake-up**, in every reachable state of the two-endpoint system. -/
theorem wake_sys_run (sch : List SysEv) : ∀ (s : Sys), SysInv s → WakeInv s.a ∧ WakeInv s.b →
    (∀ pre, pre <+: sch → SysWF (runSys s pre)) → (∀ ev ∈ sch, ev.sendOK) →
    WakeInv (runSys s sch).a ∧ WakeInv (runSys s sch).b := by
  induction sch with
  | nil => intro s _ h _ _; exact h
  | cons ev sch ih =>
    intro s hi hw hwf hs
    rw [runSys_cons]
    have hwf0 : SysWF s := hwf [] (List.nil_prefix)
    have hi' : SysInv (sysStep s ev) := sysInv_step s ev hi hwf0 (hs ev (List.mem_cons_self))
    refine ih _ hi' ?_ ?_ ?_
    · exact sys_lift_step' (fun e => e.cfg.privExt = false ∧ (e.txTmp.isSome = true → 0 < e.sendSegSize)) WakeInv
        (fun e ev' H I => wake_step e ev' H.1 H.2 I) s ev (wakeHyp_of_epInv hi.ia) (wakeHyp_of_epInv hi.ib) hw
    · intro pre hpre
      have := hwf (ev :: pre) (List.cons_prefix_cons.mpr ⟨rfl, hpre⟩)
      rwa [runSys_cons] at this
    · intro ev' hev'; exact hs ev' (List.mem_cons_of_mem _ hev')

end Tcpcl
end DtnVerif
