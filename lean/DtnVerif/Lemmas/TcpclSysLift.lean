/-
  Any endpoint predicate preserved by every `step` holds at both endpoints of every reachable state
  of the two-endpoint system.
-/
import DtnVerif.Lemmas.TcpclSys
import DtnVerif.Lemmas.TcpclAck
import DtnVerif.Lemmas.TcpclSuccInv
namespace DtnVerif
namespace Tcpcl

theorem sys_lift_step (I : Ep → Prop) (hstep : ∀ e ev, I e → I (step e ev).1) (s : Sys) (ev : SysEv)
    (h : I s.a ∧ I s.b) : I (sysStep s ev).a ∧ I (sysStep s ev).b := by
  obtain ⟨ha, hb⟩ := h
  cases ev with
  | atA ev => simp only [sysStep]; split <;> first | exact ⟨ha, hb⟩ | exact ⟨hstep _ _ ha, hb⟩
  | atB ev => simp only [sysStep]; split <;> first | exact ⟨ha, hb⟩ | exact ⟨ha, hstep _ _ hb⟩
  | deliverB k => simp only [sysStep]; split <;> first | exact ⟨ha, hb⟩ | exact ⟨ha, hstep _ _ hb⟩
  | deliverA k => simp only [sysStep]; split <;> first | exact ⟨ha, hb⟩ | exact ⟨hstep _ _ ha, hb⟩
  | eofB => simp only [sysStep]; split <;> first | exact ⟨ha, hb⟩ | exact ⟨ha, hstep _ _ hb⟩
  | eofA => simp only [sysStep]; split <;> first | exact ⟨ha, hb⟩ | exact ⟨hstep _ _ ha, hb⟩

theorem sys_lift_run (I : Ep → Prop) (hstep : ∀ e ev, I e → I (step e ev).1) (sch : List SysEv) :
    ∀ s : Sys, I s.a ∧ I s.b → I (runSys s sch).a ∧ I (runSys s sch).b := by
  induction sch with
  | nil => intro s h; exact h
  | cons ev sch ih =>
    intro s h
    rw [runSys_cons]
    exact ih _ (sys_lift_step I hstep s ev h)

theorem sys_lift_init (I : Ep → Prop) (hstep : ∀ e ev, I e → I (step e ev).1) (hinit : ∀ cfg, I { cfg := cfg })
    (cfgA cfgB : Cfg) (sch : List SysEv) :
    I (runSys (initSys cfgA cfgB) sch).a ∧ I (runSys (initSys cfgA cfgB) sch).b :=
  sys_lift_run I hstep sch _ ⟨hstep _ _ (hinit cfgA), hstep _ _ (hinit cfgB)⟩

end Tcpcl
end DtnVerif
