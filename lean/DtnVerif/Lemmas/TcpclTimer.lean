/-
  Timer invariant: a keepalive (idle) source is pending only while the negotiated keepalive (idle)
  time is positive. Needed by the transmit invariant (a KEEPALIVE is only ever emitted in a session).
-/
import DtnVerif.Model.TcpclEp
namespace DtnVerif
namespace Tcpcl

structure TimerView where
  kaTime : Nat
  idleTime : Nat
  kaDeadline : Option Nat
  idleDeadline : Option Nat

def Ep.timerView (e : Ep) : TimerView := ⟨e.kaTime, e.idleTime, e.kaDeadline, e.idleDeadline⟩

def TimerInv (e : Ep) : Prop :=
  (e.kaDeadline.isSome = true → 0 < e.kaTime) ∧ (e.idleDeadline.isSome = true → 0 < e.idleTime)

theorem timerInv_of_view {e e' : Ep} (h : e'.timerView = e.timerView) (hi : TimerInv e) : TimerInv e' := by
  simp only [Ep.timerView, TimerView.mk.injEq] at h
  obtain ⟨h1, h2, h3, h4⟩ := h
  unfold TimerInv at *
  rw [h1, h2, h3, h4]; exact hi

/-- after `kaReset; idleReset` the invariant holds whatever was there before -/
theorem timerInv_resets (e : Ep) : TimerInv (idleReset (kaReset e)) := by
  unfold TimerInv idleReset kaReset
  constructor <;> (simp only []; split <;> simp_all)

theorem timerInv_sendMessage (e : Ep) (m : Msg) : TimerInv (sendMessage e m) := timerInv_resets _

theorem timerInv_idleReset (e : Ep) (hi : TimerInv e) : TimerInv (idleReset e) := by
  unfold TimerInv idleReset at *
  refine ⟨hi.1, ?_⟩
  simp only []; split <;> simp_all

@[simp] theorem tv_pqTrigger (e : Ep) : (pqTrigger e).timerView = e.timerView := by
  unfold pqTrigger; split <;> rfl
@[simp] theorem tv_setState (e : Ep) (s : String) : (setState e s).1.timerView = e.timerView := by
  unfold setState; split <;> rfl
@[simp] theorem tv_flush (e : Ep) : (flushPendStart e).1.timerView = e.timerView := rfl

theorem timerInv_doClose (e : Ep) (hi : TimerInv e) : TimerInv (doClose e).1 := by
  unfold doClose; split
  · exact hi
  · simp [TimerInv]

theorem timerInv_checkSessTerm (e : Ep) (hi : TimerInv e) : TimerInv (checkSessTerm e).1 := by
  unfold checkSessTerm; split
  · exact timerInv_doClose e hi
  · exact hi

theorem timerInv_sendSessTerm (e : Ep) (r : Nat) (b : Bool) (hi : TimerInv e) : TimerInv (sendSessTerm e r b).1 := by
  unfold sendSessTerm
  split
  · exact hi
  · split
    · exact hi
    · exact timerInv_of_view (tv_flush _) (timerInv_sendMessage _ _)

theorem timerInv_sendSegment (e : Ep) (it : TxItem) (s : Nat) (hi : TimerInv e) : TimerInv (sendSegment e it s).1 := by
  unfold sendSegment
  simp only []
  split
  · exact timerInv_of_view rfl hi
  · split
    · exact timerInv_of_view (by rw [tv_pqTrigger]; rfl) (timerInv_sendMessage e _)
    · exact timerInv_of_view rfl (timerInv_sendMessage e _)

theorem timerInv_processQueue (e : Ep) (hi : TimerInv e) : TimerInv (processQueue e).1 := by
  unfold processQueue
  split
  · exact timerInv_sendSegment e _ _ hi
  · split
    · exact hi
    · split
      · exact timerInv_checkSessTerm _ (timerInv_of_view (tv_flush e) hi)
      · split
        · exact hi
        · exact timerInv_sendSegment _ _ _ (timerInv_of_view rfl hi)

theorem timerInv_pump (e : Ep) (n : Nat) (hi : TimerInv e) : TimerInv (pump e n).1 := by
  have h1 : TimerInv (pullTx e) := by
    unfold pullTx; split
    · unfold sendBufferDecreased; split
      · exact timerInv_of_view (by rw [tv_pqTrigger]; rfl) hi
      · exact timerInv_of_view rfl hi
    · exact hi
  unfold pump writeConn
  split
  · split
    · exact timerInv_checkSessTerm _ h1
    · exact h1
  · simp only []
    split
    · exact h1
    · split
      · exact timerInv_checkSessTerm _ (timerInv_of_view rfl h1)
      · exact timerInv_of_view rfl h1

theorem timerInv_sendContact (e : Ep) : TimerInv (sendContact e) := by
  have := timerInv_sendMessage e (.contact 0)
  unfold TimerInv at *; exact this

theorem timerInv_sendInit (e : Ep) : TimerInv (sendInit e) := by
  unfold sendInit
  generalize (Msg.sessInit e.cfg.keepalive e.cfg.segMru sizeMax e.cfg.nodeId (sessionExt e.cfg)) = m
  have := timerInv_sendMessage e m
  unfold TimerInv at *; exact this

theorem timerInv_onContact (e : Ep) (hi : TimerInv e) : TimerInv (onContact e).1 := by
  unfold onContact
  simp only []
  have h1 : TimerInv (if e.cfg.passive then sendContact e else e) := by
    split
    · exact timerInv_sendContact e
    · exact hi
  have h2 := timerInv_of_view (tv_setState _ "session-negotiating") h1
  split
  · exact timerInv_sendInit _
  · exact h2

theorem timerInv_onSessInit (e : Ep) (p : PeerInit) : TimerInv (onSessInit e p).1 := by
  unfold onSessInit
  simp only []
  exact timerInv_of_view (tv_setState _ _) (timerInv_resets _)

theorem timerInv_onSessTerm (e : Ep) (m : Msg) (r : Nat) (hi : TimerInv e) : TimerInv (onSessTerm e m r).1 := by
  unfold onSessTerm
  split
  · exact timerInv_sendMessage _ _
  · simp only []
    refine timerInv_checkSessTerm _ (timerInv_of_view (tv_flush _) ?_)
    refine timerInv_of_view (e := (if !e.inTerm then sendSessTerm e r true else (e, [])).1) rfl ?_
    split
    · exact timerInv_sendSessTerm _ _ _ hi
    · exact hi

theorem timerInv_segAccept (e : Ep) (flags tid : Nat) (cur data : Bytes) (o1 : List Out) :
    TimerInv (segAccept e flags tid cur data o1).1 := by
  unfold segAccept
  simp only []
  split
  · exact timerInv_checkSessTerm _ (timerInv_of_view rfl (timerInv_sendMessage e _))
  · exact timerInv_sendMessage _ _

theorem timerInv_onSegment (e : Ep) (m : Msg) (flags tid : Nat) (data : Bytes) :
    TimerInv (onSegment e m flags tid data).1 := by
  unfold onSegment
  split
  · exact timerInv_sendMessage _ _
  · split
    · exact timerInv_segAccept _ _ _ _ _ _
    · split
      · split
        · exact timerInv_segAccept _ _ _ _ _ _
        · exact timerInv_sendMessage _ _
      · exact timerInv_sendMessage _ _

theorem timerInv_onAck (e : Ep) (m : Msg) (f t l : Nat) (hi : TimerInv e) : TimerInv (onAck e m f t l).1 := by
  unfold onAck
  split
  · exact timerInv_sendMessage _ _
  · split
    · exact timerInv_sendMessage _ _
    · split
      · split
        · exact timerInv_sendMessage _ _
        · exact timerInv_checkSessTerm _ (timerInv_of_view rfl hi)
      · exact timerInv_of_view rfl hi

theorem timerInv_onRefuse (e : Ep) (m : Msg) (r t : Nat) (hi : TimerInv e) : TimerInv (onRefuse e m r t).1 := by
  unfold onRefuse
  split
  · exact timerInv_sendMessage _ _
  · split
    · exact timerInv_sendMessage _ _
    · refine timerInv_checkSessTerm _ ?_
      split
      · split
        · exact timerInv_of_view (by rw [tv_pqTrigger]; rfl) hi
        · exact timerInv_of_view rfl hi
      · exact timerInv_of_view rfl hi

theorem timerInv_handleMsg (e : Ep) (m : Msg) (hi : TimerInv e) : TimerInv (handleMsg e m).1 := by
  have h0 : TimerInv { e with processed := e.processed ++ [m] } := timerInv_of_view rfl hi
  unfold handleMsg
  cases m with
  | contact f => exact timerInv_onContact _ h0
  | sessInit ka sm xm node ext => exact timerInv_onSessInit _ _
  | sessTerm f r => exact timerInv_onSessTerm _ _ _ h0
  | keepalive => exact h0
  | msgReject a b => exact h0
  | xferSegment flags tid ext data => exact timerInv_onSegment _ _ _ _ _
  | xferAck f t l => exact timerInv_onAck _ _ _ _ _ h0
  | xferRefuse r t => exact timerInv_onRefuse _ _ _ _ h0

theorem timerInv_handleMsgs (ms : List Msg) (e : Ep) (hi : TimerInv e) : TimerInv (handleMsgs e ms).1 := by
  induction ms generalizing e with
  | nil => exact hi
  | cons m ms ih =>
    unfold handleMsgs
    split
    · exact hi
    · exact ih _ (timerInv_handleMsg _ m (timerInv_of_view (e := e) rfl hi))

theorem timerInv_step (e : Ep) (ev : Ev) (hi : TimerInv e) : TimerInv (step e ev).1 := by
  unfold step
  cases ev with
  | advance ms => exact timerInv_of_view rfl hi
  | start =>
    simp only []
    split
    · exact hi
    · split
      · exact hi
      · refine timerInv_of_view (tv_setState _ _) ?_
        split
        · exact timerInv_sendContact _
        · exact timerInv_of_view rfl hi
  | send d =>
    simp only []
    split
    · exact hi
    · exact timerInv_of_view (by rw [tv_pqTrigger]; rfl) hi
  | terminate r =>
    simp only []
    split
    · exact hi
    · exact timerInv_sendSessTerm _ _ _ hi
  | close =>
    simp only []
    split
    · exact hi
    · exact timerInv_doClose _ hi
  | pop t =>
    simp only []
    have : TimerInv (popRx e t).1 := by
      refine timerInv_of_view ?_ hi
      unfold popRx; split <;> rfl
    split <;> exact this
  | query q => simp only []; split <;> exact hi
  | procQueue =>
    simp only []
    split
    · exact timerInv_of_view rfl hi
    · split
      · exact hi
      · exact timerInv_of_view rfl (timerInv_processQueue _ (timerInv_of_view (e := e) rfl hi))
  | pump n =>
    simp only []
    split
    · exact hi
    · split
      · exact hi
      · exact timerInv_of_view rfl (timerInv_pump _ _ (timerInv_of_view (e := e) rfl hi))
  | rx c =>
    simp only []
    split
    · exact hi
    · unfold recvRaw
      simp only []
      have h0 : TimerInv (rxEntry e c) :=
        timerInv_of_view rfl (timerInv_idleReset e hi)
      have h1 := timerInv_handleMsgs (feed e.rx c).2 _ h0
      split
      · exact timerInv_doClose _ h1
      · exact h1
  | rxEof =>
    simp only []
    split
    · exact hi
    · exact timerInv_doClose _ hi
  | keepaliveTimer =>
    simp only []
    split
    · exact hi
    · split
      · exact hi
      · exact timerInv_sendMessage _ _
  | idleTimer =>
    simp only []
    split
    · exact hi
    · split
      · exact hi
      · have h1 : TimerInv { e with idleDeadline := none } := by
          unfold TimerInv at *; exact ⟨hi.1, by simp⟩
        split
        · exact timerInv_doClose _ h1
        · exact timerInv_sendSessTerm _ _ _ h1
  | modulate raw =>
    simp only []
    split
    · exact hi
    · split
      · exact timerInv_of_view rfl hi
      · exact hi

theorem timerInv_init (cfg : Cfg) : TimerInv { cfg := cfg } := by simp [TimerInv]

end Tcpcl
end DtnVerif
