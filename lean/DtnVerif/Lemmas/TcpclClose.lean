/-
  No stuck termination, endpoint side.  `Done e` is the condition under which `_check_sess_term`
  closes the connection (terminating, the peer's SESS_TERM received, session idle).  At every state
  reached by whole events, an open endpoint for which `Done` holds still has a wake-up pending — an
  idle source for `_process_queue` or a TX source, both of which end in `_check_sess_term` — unless
  the last message it processed was one of the few after which the code does not re-check
  (`Msg.isTrail`: SESS_INIT, KEEPALIVE, MSG_REJECT, an intermediate XFER_ACK).
-/
import DtnVerif.Lemmas.TcpclTxSrc
import DtnVerif.Lemmas.TcpclRx
import DtnVerif.Lemmas.TcpclRxMore
namespace DtnVerif
namespace Tcpcl

/-- messages after whose handling `_check_sess_term` is not called -/
def Msg.isTrail : Msg → Bool
  | .sessInit .. => true
  | .keepalive => true
  | .msgReject .. => true
  | .xferAck f _ _ => !hasEnd f
  | _ => false

def Trail (e : Ep) : Prop := ∃ m, e.processed.getLast? = some m ∧ m.isTrail = true

/-- the closing condition of `_check_sess_term` -/
def Done (e : Ep) : Bool := e.inTerm && e.gotTerm && isSessIdle e

def CL (e : Ep) : Prop := e.closed = false → Done e = true → (0 < e.pqSources ∨ 0 < e.txSrc ∨ Trail e)

theorem cl_closed {e : Ep} (h : e.closed = true) : CL e := by intro hc; rw [h] at hc; cases hc
theorem cl_notDone {e : Ep} (h : Done e = false) : CL e := by intro _ hd; rw [h] at hd; cases hd
theorem cl_pq {e : Ep} (h : 0 < e.pqSources) : CL e := fun _ _ => Or.inl h
theorem cl_src {e : Ep} (h : 0 < e.txSrc) : CL e := fun _ _ => Or.inr (Or.inl h)
theorem cl_trail {e : Ep} (h : Trail e) : CL e := fun _ _ => Or.inr (Or.inr h)

theorem done_false_of_txBuf {e : Ep} (h : e.txBuf ≠ []) : Done e = false := by
  unfold Done isSessIdle
  have : e.txBuf.isEmpty = false := by cases hb : e.txBuf with | nil => exact absurd hb h | cons _ _ => rfl
  simp [this]
theorem done_false_of_txTmp {e : Ep} (h : e.txTmp.isSome = true) : Done e = false := by
  unfold Done isSessIdle
  cases ht : e.txTmp with
  | none => rw [ht] at h; cases h
  | some p => simp
theorem done_false_of_pendStart {e : Ep} (h : e.txPendStart ≠ []) : Done e = false := by
  unfold Done isSessIdle
  have : e.txPendStart.isEmpty = false := by cases hb : e.txPendStart with | nil => exact absurd hb h | cons _ _ => rfl
  simp [this]
theorem done_false_of_rxBuf {e : Ep} (h : e.rx.buf ≠ []) : Done e = false := by
  unfold Done isSessIdle
  have : e.rx.buf.isEmpty = false := by cases hb : e.rx.buf with | nil => exact absurd hb h | cons _ _ => rfl
  simp [this]
theorem done_false_of_notTerm {e : Ep} (h : e.inTerm = false) : Done e = false := by
  unfold Done; simp [h]

theorem cl_txBuf {e : Ep} (h : e.txBuf ≠ []) : CL e := cl_notDone (done_false_of_txBuf h)

/-- the fields `CL` reads -/
def Ep.clv (e : Ep) := (e.closed, Done e, e.pqSources, e.txSrc, e.processed)

theorem cl_of_clv {e e' : Ep} (h : e'.clv = e.clv) (hi : CL e) : CL e' := by
  simp only [Ep.clv, Prod.mk.injEq] at h
  obtain ⟨h1, h2, h3, h4, h5⟩ := h
  unfold CL Trail at *
  rw [h1, h2, h3, h4, h5]; exact hi

/-- after `_check_sess_term`: closed, or the condition does not hold -/
theorem checked (x : Ep) : (checkSessTerm x).1.closed = true ∨ Done (checkSessTerm x).1 = false := by
  unfold checkSessTerm
  split
  · left; unfold doClose; split
    · rename_i h; exact h
    · rfl
  · rename_i h
    right
    have : Done x = (x.inTerm && x.gotTerm && isSessIdle x) := rfl
    rw [this]; simpa using h

theorem cl_checked (x : Ep) : CL (checkSessTerm x).1 := by
  rcases checked x with h | h
  · exact cl_closed h
  · exact cl_notDone h

/-- … and that survives changes which leave `closed` and the condition alone -/
theorem cl_checked' {x y : Ep} (h1 : y.closed = (checkSessTerm x).1.closed) (h2 : Done y = Done (checkSessTerm x).1) : CL y := by
  rcases checked x with h | h
  · exact cl_closed (h1.trans h)
  · exact cl_notDone (h2.trans h)

theorem closed_doClose' (e : Ep) : (doClose e).1.closed = true := by
  unfold doClose; split
  · rename_i h; exact h
  · rfl

theorem txBuf_sendMessage_ne' (e : Ep) (m : Msg) : (sendMessage e m).txBuf ≠ [] := by
  have : encode m ≠ [] := by cases m <;> simp [encode, u8, beBytes, magic]
  simp [sendMessage, sendReady, kaReset, idleReset, this]

/-! ### sending -/

theorem cl_sendSessTerm (e : Ep) (r : Nat) (b : Bool) (hi : CL e) : CL (sendSessTerm e r b).1 := by
  unfold sendSessTerm
  split
  · exact hi
  · split
    · exact hi
    · simp only []
      apply cl_txBuf
      show (sendMessage _ _).txBuf ≠ []
      exact txBuf_sendMessage_ne' _ _

theorem cl_sendSegment (e : Ep) (it : TxItem) (sent : Nat) : CL (sendSegment e it sent).1 := by
  unfold sendSegment
  simp only []
  split
  · exact cl_notDone (done_false_of_txTmp rfl)
  · split
    · apply cl_txBuf
      have : ∀ x : Ep, (pqTrigger x).txBuf = x.txBuf := by intro x; unfold pqTrigger; split <;> rfl
      rw [this]
      show (sendMessage _ _).txBuf ≠ []
      exact txBuf_sendMessage_ne' _ _
    · apply cl_txBuf
      show (sendMessage _ _).txBuf ≠ []
      exact txBuf_sendMessage_ne' _ _

/-! ### one received message, being the last one of its read -/

theorem rm_handleMsg (e : Ep) (m : Msg) : (handleMsg e m).1.rxMore = e.rxMore := by
  unfold handleMsg
  cases m with
  | contact f => simp
  | sessInit ka sm xm node ext => simp
  | sessTerm f r => simp
  | keepalive => rfl
  | msgReject a b => rfl
  | xferSegment flags tid ext data => simp
  | xferAck f t l => simp
  | xferRefuse r t => simp

theorem cl_segAccept (e : Ep) (flags tid : Nat) (cur data : Bytes) (o1 : List Out) : CL (segAccept e flags tid cur data o1).1 := by
  unfold segAccept
  simp only []
  split
  · exact cl_checked _
  · exact cl_txBuf (txBuf_sendMessage_ne' _ _)

theorem cl_sendReject (e : Ep) (r : Nat) (m : Msg) : CL (sendReject e r m) := cl_txBuf (txBuf_sendMessage_ne' _ _)

theorem cl_handleMsg_last (e : Ep) (m : Msg) : CL (handleMsg e m).1 := by
  have hproc := processed_handleMsg e m
  have htrail : m.isTrail = true → Trail (handleMsg e m).1 := by
    intro h
    exact ⟨m, by rw [hproc]; simp, h⟩
  unfold handleMsg at htrail ⊢
  cases m with
  | contact f =>
    simp only []
    apply cl_txBuf
    unfold onContact
    simp only []
    cases hp : e.cfg.passive
    · simp only [Bool.false_eq_true, if_false, Bool.not_false, if_true]
      show (sendMessage _ _).txBuf ≠ []
      exact txBuf_sendMessage_ne' _ _
    · simp only [if_true, Bool.not_true, Bool.false_eq_true, if_false]
      have : ∀ (x : Ep) (s : String), (setState x s).1.txBuf = x.txBuf := by
        intro x s; unfold setState; split <;> rfl
      rw [this]
      show (sendMessage _ _).txBuf ≠ []
      exact txBuf_sendMessage_ne' _ _
  | sessInit ka sm xm node ext => exact cl_trail (htrail rfl)
  | keepalive => exact cl_trail (htrail rfl)
  | msgReject a b => exact cl_trail (htrail rfl)
  | sessTerm f r =>
    simp only []
    unfold onSessTerm
    split
    · exact cl_sendReject _ _ _
    · exact cl_checked _
  | xferAck f t l =>
    simp only [] at htrail ⊢
    unfold onAck at htrail ⊢
    split
    · exact cl_sendReject _ _ _
    · split
      · exact cl_sendReject _ _ _
      · split
        · split
          · exact cl_sendReject _ _ _
          · exact cl_checked' (x := { ({ e with processed := e.processed ++ [.xferAck f t l] } : Ep) with
                txPendAck := e.txPendAck.erase t, txMap := e.txMap.erase t, successLog := e.successLog ++ [t] }) rfl rfl
        · rename_i _ _ hend
          apply cl_trail
          exact ⟨.xferAck f t l, by simp, by simpa [Msg.isTrail] using hend⟩
  | xferRefuse r t =>
    simp only []
    unfold onRefuse
    split
    · exact cl_sendReject _ _ _
    · split
      · exact cl_sendReject _ _ _
      · exact cl_checked' rfl rfl
  | xferSegment flags tid ext data =>
    simp only []
    unfold onSegment
    split
    · exact cl_sendReject _ _ _
    · split
      · exact cl_segAccept _ _ _ _ _ _
      · split
        · split
          · exact cl_segAccept _ _ _ _ _ _
          · exact cl_sendReject _ _ _
        · exact cl_sendReject _ _ _

theorem rx_handleMsg (e : Ep) (m : Msg) : (handleMsg e m).1.rx = e.rx := (frame_handleMsg e m).2.1

/-- the loop over the messages of one read, none of which is followed by an undecodable octet -/
theorem cl_handleMsgs (ms : List Msg) : ∀ (e : Ep), ms ≠ [] → e.rx.dead = false →
    CL { (handleMsgs e ms).1 with rxMore := false } := by
  induction ms with
  | nil => intro e h; exact absurd rfl h
  | cons m ms ih =>
    intro e _ hd
    unfold handleMsgs
    split
    · rename_i hc; exact cl_closed hc
    · simp only []
      cases ms with
      | nil =>
        simp only [handleMsgs, List.isEmpty_nil, Bool.not_true, Bool.false_or, hd]
        have h1 := cl_handleMsg_last { e with rxMore := false } m
        have h2 : (handleMsg { e with rxMore := false } m).1.rxMore = false := rm_handleMsg _ m
        refine cl_of_clv ?_ h1
        simp only [Ep.clv, Done, isSessIdle, h2]
      | cons m' ms' =>
        refine ih _ (by simp) ?_
        rw [rx_handleMsg]; exact hd

/-! ### reading -/

theorem drainAux_acc_ne (fuel : Nat) : ∀ (rx : Rx) (acc : List Msg), acc ≠ [] → (drainAux fuel rx acc).2 ≠ [] := by
  induction fuel with
  | zero => intro rx acc h; exact h
  | succ n ih =>
    intro rx acc h
    unfold drainAux
    split
    · exact h
    · split
      · exact h
      · exact h
      · exact ih _ _ (by simp)

/-- a read which completes no message (and hits no undecodable octet) leaves all its octets buffered -/
theorem feed_nil_buf (rx : Rx) (c : Bytes) (h : (feed rx c).2 = []) (hd : (feed rx c).1.dead = false) :
    (feed rx c).1.buf = rx.buf ++ c := by
  unfold feed at h hd ⊢
  by_cases hdead : rx.dead = true
  · rw [if_pos hdead] at hd
    simp only [] at hd
    rw [hdead] at hd; cases hd
  · rw [if_neg hdead] at h hd ⊢
    have hdead' : rx.dead = false := by simpa using hdead
    unfold drain at h hd ⊢
    unfold drainAux at h hd ⊢
    simp only [hdead', Bool.false_eq_true, if_false] at h hd ⊢
    cases hp : probe rx.inConn (rx.buf ++ c) with
    | need => rfl
    | bad => rw [hp] at hd; simp at hd
    | got m n => rw [hp] at h; exact absurd h (drainAux_acc_ne _ _ _ (by simp))

theorem cl_recvRaw (e : Ep) (c : Bytes) (hc : c ≠ []) (hi : CL e) : CL (recvRaw e c).1 := by
  unfold recvRaw
  simp only []
  split
  · exact cl_closed (closed_doClose' _)
  · rename_i hd
    have hd' : (feed e.rx c).1.dead = false := by simpa using hd
    cases hms : (feed e.rx c).2 with
    | nil =>
      simp only [handleMsgs]
      apply cl_notDone
      apply done_false_of_rxBuf
      show (feed e.rx c).1.buf ≠ []
      rw [feed_nil_buf e.rx c hms hd']
      intro h
      exact hc (List.append_eq_nil_iff.mp h).2
    | cons m ms =>
      exact cl_handleMsgs (m :: ms) (rxEntry e c) (by simp) hd'

/-! ### the TX callback -/

theorem pump_keep (e : Ep) (n : Nat) : (pump e n).1.closed = true ∨ ((pump e n).1.txSrc = e.txSrc
    ∧ (pump e n).1.pqSources ≥ e.pqSources ∧ (pump e n).1.processed = e.processed) := by
  have hck : ∀ x : Ep, (checkSessTerm x).1.closed = true ∨ (checkSessTerm x).1 = x := by
    intro x; unfold checkSessTerm; split
    · left; exact closed_doClose' x
    · right; rfl
  have hpull : (pullTx e).txSrc = e.txSrc ∧ (pullTx e).pqSources ≥ e.pqSources ∧ (pullTx e).processed = e.processed := by
    unfold pullTx; split
    · unfold sendBufferDecreased; split
      · unfold pqTrigger; split
        · exact ⟨rfl, Nat.le_refl _, rfl⟩
        · exact ⟨rfl, Nat.le_succ _, rfl⟩
      · exact ⟨rfl, Nat.le_refl _, rfl⟩
    · exact ⟨rfl, Nat.le_refl _, rfl⟩
  unfold pump writeConn
  split
  · split
    · rcases hck (pullTx e) with h | h
      · exact Or.inl h
      · right; rw [h]; exact hpull
    · right; exact hpull
  · simp only []
    split
    · right; exact hpull
    · split
      · rcases hck _ with h | h
        · exact Or.inl h
        · right; rw [h]; exact hpull
      · right; exact hpull

/-- a write attempt after an empty pull which leaves nothing to write ended in `_check_sess_term` -/
theorem writeConn_checked (x : Ep) (n : Nat) (hcb : (writeConn x n true).1.connBuf = []) :
    (writeConn x n true).1.closed = true ∨ Done (writeConn x n true).1 = false := by
  unfold writeConn at hcb ⊢
  by_cases hne : x.connBuf.isEmpty = true
  · rw [if_pos hne]; simp only [if_true]; exact checked _
  · rw [if_neg hne] at hcb ⊢
    simp only [] at hcb ⊢
    by_cases hk : (min n (x.connBuf.take chunkSize).length == 0) = true
    · rw [if_pos hk] at hcb
      simp only [] at hcb
      rw [hcb] at hne; simp at hne
    · rw [if_neg hk] at hcb ⊢
      simp only [Bool.true_and] at hcb ⊢
      split
      · exact checked _
      · rename_i h2
        rw [if_neg h2] at hcb
        simp only [] at hcb
        rw [hcb] at h2; simp at h2

/-- a callback which pulled nothing and left nothing to write ended in `_check_sess_term` -/
theorem pump_checked (e : Ep) (n : Nat) (hup : upEmpty e = true) (hcb : (pump e n).1.connBuf = []) :
    (pump e n).1.closed = true ∨ Done (pump e n).1 = false := by
  unfold pump at hcb ⊢
  rw [hup] at hcb ⊢
  exact writeConn_checked _ _ hcb

theorem cl_pumpStep (e : Ep) (n : Nat) (hsrc : e.txSrc ≠ 0) :
    CL ({ (pump { e with txIdle := false } n).1 with
        txWatch := (pump { e with txIdle := false } n).1.txWatch &&
          ((pump { e with txIdle := false } n).1.closed || !(pump { e with txIdle := false } n).1.connBuf.isEmpty || !upEmpty e),
        txSrc := if ((pump { e with txIdle := false } n).1.closed || !(pump { e with txIdle := false } n).1.connBuf.isEmpty || !upEmpty e)
          then (pump { e with txIdle := false } n).1.txSrc else (pump { e with txIdle := false } n).1.txSrc - 1 } : Ep) := by
  have hpos : 0 < e.txSrc := Nat.pos_of_ne_zero hsrc
  by_cases hcl : (pump { e with txIdle := false } n).1.closed = true
  · exact cl_closed hcl
  · have hcl' : (pump { e with txIdle := false } n).1.closed = false := by simpa using hcl
    by_cases hcont : (!(pump { e with txIdle := false } n).1.connBuf.isEmpty || !upEmpty e) = true
    · -- the source stays installed
      apply cl_src
      simp only [hcl', Bool.false_or, hcont, if_true]
      rcases pump_keep { e with txIdle := false } n with h | ⟨h, _, _⟩
      · exact absurd h hcl
      · rw [h]; exact hpos
    · have hcont' : (!(pump { e with txIdle := false } n).1.connBuf.isEmpty || !upEmpty e) = false := by simpa using hcont
      simp only [Bool.or_eq_false_iff, Bool.not_eq_false', List.isEmpty_iff] at hcont'
      have hup : upEmpty { e with txIdle := false } = true := hcont'.2
      rcases pump_checked { e with txIdle := false } n hup hcont'.1 with h | h
      · exact absurd h hcl
      · apply cl_notDone
        have : Done ({ (pump { e with txIdle := false } n).1 with
            txWatch := (pump { e with txIdle := false } n).1.txWatch &&
              ((pump { e with txIdle := false } n).1.closed || !(pump { e with txIdle := false } n).1.connBuf.isEmpty || !upEmpty e),
            txSrc := if ((pump { e with txIdle := false } n).1.closed || !(pump { e with txIdle := false } n).1.connBuf.isEmpty || !upEmpty e)
              then (pump { e with txIdle := false } n).1.txSrc else (pump { e with txIdle := false } n).1.txSrc - 1 } : Ep)
            = Done (pump { e with txIdle := false } n).1 := rfl
        rw [this]; exact h

/-! ### one firing of `_process_queue` -/

theorem cl_procQueueStep (e : Ep) (hs : e.pqSources ≠ 0) :
    CL ({ (processQueue { e with pqPend := false }).1 with
      pqSources := if (processQueue { e with pqPend := false }).2.2 then (processQueue { e with pqPend := false }).1.pqSources
        else (processQueue { e with pqPend := false }).1.pqSources - 1 } : Ep) := by
  unfold processQueue
  split
  · -- a transfer is being segmented: the next segment goes out
    rename_i it sent ht
    have h := cl_sendSegment { e with pqPend := false } it sent
    have hst : (sendSegment { e with pqPend := false } it sent).2.2 = false := by
      unfold sendSegment; simp only []; split <;> (try split) <;> rfl
    -- the segment (or the failed attempt) keeps the session non-idle whatever the source count
    unfold sendSegment at h ⊢
    simp only [] at h ⊢
    split
    · exact cl_notDone (done_false_of_txTmp rfl)
    · split
      · apply cl_txBuf
        have : ∀ x : Ep, (pqTrigger x).txBuf = x.txBuf := by intro x; unfold pqTrigger; split <;> rfl
        show (pqTrigger _).txBuf ≠ []
        rw [this]
        exact txBuf_sendMessage_ne' _ _
      · apply cl_txBuf
        show (sendMessage _ _).txBuf ≠ []
        exact txBuf_sendMessage_ne' _ _
  · split
    · -- no session yet: the source stays
      apply cl_pq
      simp only [if_true]
      exact Nat.pos_of_ne_zero hs
    · split
      · -- terminating: unstarted transfers reported, then `_check_sess_term`
        exact cl_checked' rfl rfl
      · rename_i hnt
        split
        · apply cl_notDone
          apply done_false_of_notTerm
          simpa using hnt
        · rename_i it rest hps
          apply cl_txBuf
          unfold sendSegment
          simp only [beq_self_eq_true, Bool.not_true, Bool.false_and, Bool.false_eq_true, if_false]
          split
          · have : ∀ x : Ep, (pqTrigger x).txBuf = x.txBuf := by intro x; unfold pqTrigger; split <;> rfl
            show (pqTrigger _).txBuf ≠ []
            rw [this]
            exact txBuf_sendMessage_ne' _ _
          · show (sendMessage _ _).txBuf ≠ []
            exact txBuf_sendMessage_ne' _ _

/-! ### one event -/

theorem cl_step (e : Ep) (ev : Ev) (hne : ∀ c, ev = .rx c → c ≠ []) (hi : CL e) : CL (step e ev).1 := by
  unfold step
  cases ev with
  | advance ms => exact cl_of_clv rfl hi
  | start =>
    simp only []
    split
    · exact hi
    · split
      · exact hi
      · cases hp : e.cfg.passive
        · simp only [Bool.not_false, if_true]
          apply cl_txBuf
          have : ∀ (x : Ep) (s : String), (setState x s).1.txBuf = x.txBuf := by
            intro x s; unfold setState; split <;> rfl
          rw [this]
          show (sendMessage _ _).txBuf ≠ []
          exact txBuf_sendMessage_ne' _ _
        · simp only [Bool.not_true, Bool.false_eq_true, if_false]
          refine cl_of_clv ?_ hi
          unfold setState; split <;> rfl
  | send d =>
    simp only []
    split
    · exact hi
    · apply cl_notDone
      apply done_false_of_pendStart
      have : ∀ x : Ep, (pqTrigger x).txPendStart = x.txPendStart := by intro x; unfold pqTrigger; split <;> rfl
      rw [this]; simp
  | terminate r =>
    simp only []
    split
    · exact hi
    · exact cl_sendSessTerm _ _ _ hi
  | close =>
    simp only []
    split
    · exact hi
    · exact cl_closed (closed_doClose' _)
  | pop t =>
    simp only []
    have : CL (popRx e t).1 := by
      refine cl_of_clv ?_ hi
      unfold popRx; split <;> rfl
    split <;> exact this
  | query q => simp only []; split <;> exact hi
  | procQueue =>
    simp only []
    split
    · rename_i hc; exact cl_closed hc
    · split
      · exact hi
      · rename_i hs
        exact cl_procQueueStep e (by simpa using hs)
  | pump n =>
    simp only []
    split
    · exact hi
    · split
      · exact hi
      · rename_i hsrc
        exact cl_pumpStep e n (by simpa using hsrc)
  | rx c =>
    simp only []
    split
    · exact hi
    · exact cl_recvRaw e c (hne c rfl) hi
  | rxEof =>
    simp only []
    split
    · exact hi
    · exact cl_closed (closed_doClose' _)
  | keepaliveTimer =>
    simp only []
    split
    · exact hi
    · split
      · exact hi
      · exact cl_txBuf (txBuf_sendMessage_ne' _ _)
  | idleTimer =>
    simp only []
    split
    · exact hi
    · split
      · exact hi
      · split
        · exact cl_closed (closed_doClose' _)
        · exact cl_sendSessTerm _ _ _ (cl_of_clv (e := e) rfl hi)
  | modulate raw =>
    simp only []
    split
    · exact hi
    · split
      · exact cl_of_clv rfl hi
      · exact hi

theorem cl_init (cfg : Cfg) : CL { cfg := cfg } := cl_notDone rfl

end Tcpcl
end DtnVerif
