/-
  What an endpoint has negotiated is what the peer's SESS_INIT said: whenever a peer SESS_INIT is on
  record, the keepalive interval in use is the smaller of the configured and the announced one, the
  idle time is the configured one, and a SESS_INIT with exactly the recorded values is among the
  messages processed. With transport (processed ⊆ emitted by the peer) and the shape of what an
  endpoint emits, this gives the two-endpoint statement of C14.
-/
import DtnVerif.Lemmas.TcpclKaCfg
import DtnVerif.Lemmas.TcpclIdleTimeFrame
import DtnVerif.Lemmas.TcpclPeerInitFrame
import DtnVerif.Lemmas.TcpclFrame
namespace DtnVerif
namespace Tcpcl

def NG (e : Ep) : Prop :=
  (∀ p, e.peerInit = some p →
      e.kaTime = min e.cfg.keepalive p.keepalive ∧ e.idleTime = e.cfg.idle
      ∧ ∃ ext, Msg.sessInit p.keepalive p.segMru p.xferMru p.node ext ∈ e.processed)
  ∧ (e.peerInit = none → e.kaTime = 0 ∧ e.idleTime = 0)

theorem ng_of_eq {e e' : Ep} (h1 : e'.cfg = e.cfg) (h2 : e'.kaTime = e.kaTime) (h3 : e'.idleTime = e.idleTime)
    (h4 : e'.peerInit = e.peerInit) (h5 : ∀ m ∈ e.processed, m ∈ e'.processed) (hi : NG e) : NG e' := by
  unfold NG at *
  rw [h1, h2, h3, h4]
  refine ⟨?_, hi.2⟩
  intro p hp
  obtain ⟨a, b, ext, c⟩ := hi.1 p hp
  exact ⟨a, b, ext, h5 _ c⟩

theorem ng_onSessInit (e : Ep) (a b c : Nat) (d x : Bytes) (hmem : Msg.sessInit a b c d x ∈ e.processed) :
    NG (onSessInit e ⟨a, b, c, d⟩).1 := by
  have hf : (onSessInit e ⟨a, b, c, d⟩).1.kaTime = min e.cfg.keepalive a
      ∧ (onSessInit e ⟨a, b, c, d⟩).1.idleTime = e.cfg.idle
      ∧ (onSessInit e ⟨a, b, c, d⟩).1.peerInit = some ⟨a, b, c, d⟩
      ∧ (onSessInit e ⟨a, b, c, d⟩).1.processed = e.processed := by
    unfold onSessInit
    simp only []
    have hs : ∀ x : Ep, (setState x "established").1.kaTime = x.kaTime ∧ (setState x "established").1.idleTime = x.idleTime
        ∧ (setState x "established").1.peerInit = x.peerInit ∧ (setState x "established").1.processed = x.processed := by
      intro x; unfold setState; split <;> exact ⟨rfl, rfl, rfl, rfl⟩
    obtain ⟨s1, s2, s3, s4⟩ := hs (mergeSession { (if e.cfg.passive then sendInit e else e) with peerInit := some ⟨a, b, c, d⟩, inSess := true } ⟨a, b, c, d⟩)
    rw [s1, s2, s3, s4]
    cases e.cfg.passive <;> simp [mergeSession, kaReset, idleReset, sendInit, sendMessage, sendReady]
  obtain ⟨f1, f2, f3, f4⟩ := hf
  unfold NG
  rw [f1, f2, f3, f4, cfg_onSessInit]
  refine ⟨?_, by intro h; cases h⟩
  intro p hp
  injection hp with hp
  subst hp
  exact ⟨rfl, rfl, x, hmem⟩

theorem ng_handleMsg (e : Ep) (m : Msg) (hi : NG e) : NG (handleMsg e m).1 := by
  cases m with
  | sessInit a b c d x =>
    have : handleMsg e (.sessInit a b c d x) = onSessInit { e with processed := e.processed ++ [.sessInit a b c d x] } ⟨a, b, c, d⟩ := rfl
    rw [this]
    exact ng_onSessInit _ a b c d x (by simp)
  | contact f =>
    exact ng_of_eq (cfg_handleMsg e _) (kat_handleMsg_noninit e _ (by intro a b c d x h; cases h))
      (idt_handleMsg_noninit e _ (by intro a b c d x h; cases h)) (pin_handleMsg_noninit e _ (by intro a b c d x h; cases h))
      (by intro y hy; rw [processed_handleMsg]; exact List.mem_append_left _ hy) hi
  | sessTerm f r =>
    exact ng_of_eq (cfg_handleMsg e _) (kat_handleMsg_noninit e _ (by intro a b c d x h; cases h))
      (idt_handleMsg_noninit e _ (by intro a b c d x h; cases h)) (pin_handleMsg_noninit e _ (by intro a b c d x h; cases h))
      (by intro y hy; rw [processed_handleMsg]; exact List.mem_append_left _ hy) hi
  | keepalive =>
    exact ng_of_eq (cfg_handleMsg e _) (kat_handleMsg_noninit e _ (by intro a b c d x h; cases h))
      (idt_handleMsg_noninit e _ (by intro a b c d x h; cases h)) (pin_handleMsg_noninit e _ (by intro a b c d x h; cases h))
      (by intro y hy; rw [processed_handleMsg]; exact List.mem_append_left _ hy) hi
  | msgReject a b =>
    exact ng_of_eq (cfg_handleMsg e _) (kat_handleMsg_noninit e _ (by intro a b c d x h; cases h))
      (idt_handleMsg_noninit e _ (by intro a b c d x h; cases h)) (pin_handleMsg_noninit e _ (by intro a b c d x h; cases h))
      (by intro y hy; rw [processed_handleMsg]; exact List.mem_append_left _ hy) hi
  | xferSegment f t x d =>
    exact ng_of_eq (cfg_handleMsg e _) (kat_handleMsg_noninit e _ (by intro a b c d x h; cases h))
      (idt_handleMsg_noninit e _ (by intro a b c d x h; cases h)) (pin_handleMsg_noninit e _ (by intro a b c d x h; cases h))
      (by intro y hy; rw [processed_handleMsg]; exact List.mem_append_left _ hy) hi
  | xferAck f t l =>
    exact ng_of_eq (cfg_handleMsg e _) (kat_handleMsg_noninit e _ (by intro a b c d x h; cases h))
      (idt_handleMsg_noninit e _ (by intro a b c d x h; cases h)) (pin_handleMsg_noninit e _ (by intro a b c d x h; cases h))
      (by intro y hy; rw [processed_handleMsg]; exact List.mem_append_left _ hy) hi
  | xferRefuse r t =>
    exact ng_of_eq (cfg_handleMsg e _) (kat_handleMsg_noninit e _ (by intro a b c d x h; cases h))
      (idt_handleMsg_noninit e _ (by intro a b c d x h; cases h)) (pin_handleMsg_noninit e _ (by intro a b c d x h; cases h))
      (by intro y hy; rw [processed_handleMsg]; exact List.mem_append_left _ hy) hi

theorem ng_handleMsgs (ms : List Msg) (e : Ep) (hi : NG e) : NG (handleMsgs e ms).1 := by
  induction ms generalizing e with
  | nil => exact hi
  | cons m ms ih =>
    unfold handleMsgs
    split
    · exact hi
    · exact ih _ (ng_handleMsg _ m (ng_of_eq (e := e) rfl rfl rfl rfl (fun _ h => h) hi))

theorem ng_recvRaw (e : Ep) (c : Bytes) (hi : NG e) : NG (recvRaw e c).1 := by
  unfold recvRaw
  simp only []
  have h0 : NG (rxEntry e c) := ng_of_eq (e := e) rfl rfl rfl rfl (fun _ h => h) hi
  have h1 := ng_handleMsgs (feed e.rx c).2 _ h0
  have h2 : NG { (handleMsgs (rxEntry e c) (feed e.rx c).2).1 with rxMore := false } :=
    ng_of_eq (e := (handleMsgs (rxEntry e c) (feed e.rx c).2).1) rfl rfl rfl rfl (fun _ h => h) h1
  split
  · refine ng_of_eq (cfg_doClose _) ?_ ?_ ?_ ?_ h2
    · unfold doClose; split <;> rfl
    · unfold doClose; split <;> rfl
    · unfold doClose; split <;> rfl
    · intro m hm; unfold doClose; split <;> exact hm
  · exact h2

theorem ng_step (e : Ep) (ev : Ev) (hi : NG e) : NG (step e ev).1 := by
  by_cases hrx : ∃ c, ev = .rx c
  · obtain ⟨c, rfl⟩ := hrx
    unfold step
    simp only []
    split
    · exact hi
    · exact ng_recvRaw e c hi
  · have hne : ∀ c, ev ≠ .rx c := fun c h => hrx ⟨c, h⟩
    have hv := rxView_step_nonrx e ev hne
    have hproc : (step e ev).1.processed = e.processed := by
      have := congrArg RxView.processed hv; simpa [Ep.rxView] using this
    exact ng_of_eq (cfg_step e ev) (kat_step_nonrx e ev hne) (idt_step_nonrx e ev hne) (pin_step_nonrx e ev hne)
      (by intro m hm; rw [hproc]; exact hm) hi

theorem ng_init (cfg : Cfg) : NG { cfg := cfg } := by
  refine ⟨?_, fun _ => ⟨rfl, rfl⟩⟩
  intro p h; cases h

end Tcpcl
end DtnVerif
