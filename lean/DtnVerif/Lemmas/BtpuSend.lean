/- Helper lemmas for C20: frame sizes and the segmenting loop of `Btpu.sendTransfer`. -/
import DtnVerif.Model.Btpu
import DtnVerif.Lemmas.Bytes
namespace DtnVerif
namespace Btpu

theorem encHead_length (m : Msg) : (encHead m).length = 4 := rfl

theorem segFrame_length (total xfer idx : Nat) (isEnd : Bool) (chunk : Bytes) :
    (segFrame total xfer idx isEnd chunk).length = 18 + chunk.length := by
  simp [segFrame, encMsg, mkMsg, normFlags, encHints, encHint, encHead_length]
  omega

theorem bundleFrame_length (data : Bytes) : (bundleFrame data).length = 4 + data.length := by
  simp [bundleFrame, encMsg, mkMsg, normFlags, encHints, encHead_length]

/-- indices count up from `idx`; exactly the last element is the TransferEnd -/
def SegsOK : Nat → List (Nat × Bool × Bytes) → Prop
  | _, [] => True
  | idx, [p] => p.1 = idx ∧ p.2.1 = true
  | idx, p :: q :: r => p.1 = idx ∧ p.2.1 = false ∧ SegsOK (idx + 1) (q :: r)

theorem segLoop_spec (data : Bytes) (remain : Nat) (hr : 0 < remain) :
    ∀ (fuel off idx : Nat), data.length - off < fuel →
      SegsOK idx (segLoop fuel data remain off idx) ∧
        ((segLoop fuel data remain off idx).map (·.2.2)).flatten = data.drop off ∧
        (∀ p ∈ segLoop fuel data remain off idx, 0 < p.2.2.length ∧ p.2.2.length ≤ remain) ∧
        (off < data.length → segLoop fuel data remain off idx ≠ []) := by
  intro fuel
  induction fuel with
  | zero => intro off idx h; omega
  | succ fuel ih =>
    intro off idx hf
    unfold segLoop
    by_cases hlt : off < data.length
    · simp only [hlt, if_true]
      obtain ⟨hok, hcat, hall, hne⟩ := ih (off + remain) (idx + 1) (by omega)
      refine ⟨?_, ?_, ?_, fun _ => List.cons_ne_nil _ _⟩
      · by_cases hmore : off + remain < data.length
        · have hne' := hne hmore
          cases hps : segLoop fuel data remain (off + remain) (idx + 1) with
          | nil => exact absurd hps hne'
          | cons q r => rw [hps] at hok; exact ⟨rfl, by simp [hmore], hok⟩
        · have hnil : segLoop fuel data remain (off + remain) (idx + 1) = [] := by
            cases fuel with
            | zero => rfl
            | succ f => unfold segLoop; simp only [hmore, if_false]
          rw [hnil]
          exact ⟨rfl, by simp [hmore]⟩
      · simp only [List.map_cons, List.flatten_cons, hcat]
        rw [← List.drop_drop]
        exact List.take_append_drop remain (data.drop off)
      · intro p hp
        rcases List.mem_cons.mp hp with rfl | hp
        · simp only [List.length_take, List.length_drop]; omega
        · exact hall p hp
    · simp only [hlt, if_false]
      refine ⟨trivial, ?_, ?_, fun h => by simp at h⟩
      · simp [List.drop_of_length_le (Nat.le_of_not_lt hlt)]
      · intro p hp; cases hp

end Btpu
end DtnVerif
