/-
  Whole-run versions of the single-endpoint guarantees (induction over arbitrary event lists).
-/
import DtnVerif.Lemmas.TcpclTxStep
import DtnVerif.Lemmas.TcpclPump
namespace DtnVerif
namespace Tcpcl

theorem runEp_cons (e : Ep) (ev : Ev) (evs : List Ev) : runEp e (ev :: evs) = runEp (step e ev).1 evs := by
  simp [runEp, run]

theorem processed_prefix_run (evs : List Ev) (e : Ep) : e.processed <+: (runEp e evs).processed := by
  induction evs generalizing e with
  | nil => exact List.prefix_refl _
  | cons ev evs ih =>
    rw [runEp_cons]
    exact List.IsPrefix.trans (processed_prefix_step e ev) (ih _)

theorem timerInv_run (evs : List Ev) (e : Ep) (hi : TimerInv e) : TimerInv (runEp e evs) := by
  induction evs generalizing e with
  | nil => exact hi
  | cons ev evs ih => rw [runEp_cons]; exact ih _ (timerInv_step e ev hi)

theorem txInv_run (evs : List Ev) (e : Ep) (P : LState) (hi : TxInv e P) (htm : TimerInv e)
    (hsend : ∀ d, Ev.send d ∈ evs → d.length < 2 ^ 64)
    (hleg : (legalRun {} (runEp e evs).processed).isSome)
    (hok : ∀ m ∈ (runEp e evs).processed, okMsg m) :
    ∃ P', TxInv (runEp e evs) P' := by
  induction evs generalizing e P with
  | nil => exact ⟨P, hi⟩
  | cons ev evs ih =>
    rw [runEp_cons] at hleg hok ⊢
    have hpre := processed_prefix_run evs (step e ev).1
    obtain ⟨P1, h1⟩ := txInv_step e ev P hi htm
      (fun d hd => hsend d (by rw [hd]; simp))
      (legal_of_prefix hpre hleg)
      (fun m hm => hok m (hpre.subset hm))
    exact ih _ P1 h1 (timerInv_step e ev htm) (fun d hd => hsend d (by simp [hd])) hleg hok

/-- the endpoint right after `start()` -/
def started (cfg : Cfg) : Ep := (step { cfg := cfg } .start).1

theorem txInv_started (cfg : Cfg) (h1 : 0 < cfg.segInit) (h2 : cfg.privExt = false) :
    TxInv (started cfg) {} := by
  unfold started step
  simp only [Bool.false_eq_true, if_false]
  unfold TxInv
  rw [txv_setState]
  cases hp : cfg.passive
  · simp only [Bool.not_false, if_true]
    refine ⟨rfl, rfl, h1, h2, by simp [Ep.txView, sendContact, sendMessage, sendReady, kaReset, idleReset, hp],
      by simp [Ep.txView, sendContact, sendMessage, sendReady, kaReset, idleReset, hp], by simp,
      by simp [Ep.txView, sendContact, sendMessage, sendReady, kaReset, idleReset], by intro h; simp [Ep.txView, sendContact, sendMessage, sendReady, kaReset, idleReset] at h,
      by intro h; simp [Ep.txView, sendContact, sendMessage, sendReady, kaReset, idleReset] at h,
      by intro h; simp [Ep.txView, sendContact, sendMessage, sendReady, kaReset, idleReset] at h,
      by intro h; simp [Ep.txView, sendContact, sendMessage, sendReady, kaReset, idleReset] at h,
      by intro n it h; simp [Ep.txView, sendContact, sendMessage, sendReady, kaReset, idleReset] at h,
      rfl, by intro it h; simp [Ep.txView, sendContact, sendMessage, sendReady, kaReset, idleReset] at h,
      ⟨0, by simp [Ep.txView, sendContact, sendMessage, sendReady, kaReset, idleReset], by simp,
        by simp [Ep.txView, sendContact, sendMessage, sendReady, kaReset, idleReset], fun _ _ => rfl⟩,
      by intro it s h; simp [Ep.txView, sendContact, sendMessage, sendReady, kaReset, idleReset] at h,
      by simp [Ep.txView, sendContact, sendMessage, sendReady, kaReset, idleReset], ?_, ?_, ?_⟩
    · simp [Ep.txView, sendContact, sendMessage, sendReady, kaReset, idleReset, legalRun, legalStep, phaseOf, curL]
    · simp [Ep.txView, sendContact, sendMessage, sendReady, kaReset, idleReset, rxSpec, rxSpecStep, curD, doneD]
    · refine ⟨fun p hp => by simp [Ep.txView, sendContact, sendMessage, sendReady, kaReset, idleReset] at hp, fun _ => ⟨rfl, ?_⟩, fun _ => rfl⟩
      intro m hm
      simp [Ep.txView, sendContact, sendMessage, sendReady, kaReset, idleReset] at hm
      subst hm; rfl
  · simp only [Bool.not_true, Bool.false_eq_true, if_false]
    refine ⟨rfl, rfl, h1, h2, by simp [Ep.txView, hp], by simp [Ep.txView, hp], by simp,
      by simp [Ep.txView], by intro h; simp [Ep.txView] at h,
      by intro h; simp [Ep.txView] at h, by intro h; simp [Ep.txView] at h, by intro h; simp [Ep.txView] at h,
      by intro n it h; simp [Ep.txView] at h, rfl, by intro it h; simp [Ep.txView] at h,
      ⟨0, by simp [Ep.txView], by simp, by simp [Ep.txView], fun _ _ => rfl⟩,
      by intro it s h; simp [Ep.txView] at h, by simp [Ep.txView], ?_, ?_, ?_⟩
    · simp [Ep.txView, legalRun, phaseOf, curL]
    · simp [Ep.txView, rxSpec, curD, doneD]
    · refine ⟨fun p hp => by simp [Ep.txView] at hp, fun _ => ⟨rfl, ?_⟩, fun _ => rfl⟩
      intro m hm
      simp [Ep.txView] at hm

theorem timerInv_started (cfg : Cfg) : TimerInv (started cfg) :=
  timerInv_step _ _ (timerInv_init cfg)

theorem rxInv_started (cfg : Cfg) : RxInv (started cfg) := rxInv_step _ _ (rxInv_init cfg)

theorem pumpInv_started (cfg : Cfg) : PumpInv (started cfg) := pumpInv_step _ _ (pumpInv_init cfg)

end Tcpcl
end DtnVerif
