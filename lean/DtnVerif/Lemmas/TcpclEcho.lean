/-
  Every XFER_ACK an endpoint emits echoes a segment it processed: same flags, same transfer id,
  cumulative length of the transfer so far (as the ideal receiver counts it).
  (Generated from the pattern of Lemmas/TcpclEmit.lean.)
-/
import DtnVerif.Lemmas.TcpclRx
namespace DtnVerif
namespace Tcpcl

/-- the acknowledgement the ideal receiver in state `s` owes for message `m` (none if `m` is not an
    accepted segment): same flags, same transfer id, cumulative length -/
def ackOfStep (s : RxSpec) (m : Msg) : Option Msg :=
  match m with
  | .xferSegment flags tid _ data =>
    if !s.inSess then none else
    let cur : Option (Nat × Bytes) :=
      if hasStart flags then some (tid, [])
      else match s.cur with
        | some (t, d) => if t == tid then some (t, d) else none
        | none => none
    match cur with
    | none => none
    | some (_, d) => some (.xferAck flags tid (d ++ data).length)
  | _ => none

/-- an emitted XFER_ACK is the echo of a segment processed earlier -/
def echoOK (ps : List Msg) : Msg → Prop
  | .xferAck f t l => ∃ p m, p ++ [m] <+: ps ∧ ackOfStep (rxSpec p) m = some (.xferAck f t l)
  | _ => True

theorem echoOK_mono {ps : List Msg} (x : List Msg) {m : Msg} (h : echoOK ps m) : echoOK (ps ++ x) m := by
  cases m <;> simp only [echoOK] at h ⊢
  obtain ⟨p, m, hp, hm⟩ := h
  exact ⟨p, m, hp.trans (List.prefix_append _ _), hm⟩

def EchoInv (e : Ep) : Prop := ∀ m ∈ e.emitted, echoOK e.processed m

structure EchoView where
  processed : List Msg
  emitted : List Msg

def Ep.echoView (e : Ep) : EchoView := ⟨e.processed, e.emitted⟩

theorem echoInv_of_view {e e' : Ep} (h : e'.echoView = e.echoView) (hi : EchoInv e) : EchoInv e' := by
  simp only [Ep.echoView, EchoView.mk.injEq] at h
  obtain ⟨h1, h2⟩ := h
  unfold EchoInv at *
  rw [h1, h2]; exact hi

@[simp] theorem cv_kaReset (e : Ep) : (kaReset e).echoView = e.echoView := rfl
@[simp] theorem cv_idleReset (e : Ep) : (idleReset e).echoView = e.echoView := rfl
@[simp] theorem cv_pqTrigger (e : Ep) : (pqTrigger e).echoView = e.echoView := by
  unfold pqTrigger; split <;> rfl
@[simp] theorem cv_setState (e : Ep) (s : String) : (setState e s).1.echoView = e.echoView := by
  unfold setState; split <;> rfl
@[simp] theorem cv_flush (e : Ep) : (flushPendStart e).1.echoView = e.echoView := rfl
@[simp] theorem cv_doClose (e : Ep) : (doClose e).1.echoView = e.echoView := by
  unfold doClose; split <;> rfl
@[simp] theorem cv_checkSessTerm (e : Ep) : (checkSessTerm e).1.echoView = e.echoView := by
  unfold checkSessTerm; split
  · exact cv_doClose e
  · rfl
@[simp] theorem cv_sendBufferDecreased (e : Ep) : (sendBufferDecreased e).echoView = e.echoView := by
  unfold sendBufferDecreased; split
  · exact cv_pqTrigger e
  · rfl
@[simp] theorem cv_mergeSession (e : Ep) (p : PeerInit) : (mergeSession e p).echoView = e.echoView := rfl

theorem echoInv_sendMessage (e : Ep) (m : Msg) (hi : EchoInv e) (hm : echoOK e.processed m := by trivial) :
    EchoInv (sendMessage e m) := by
  unfold EchoInv at *
  intro x hx
  simp only [sendMessage, sendReady, kaReset, idleReset, List.mem_append, List.mem_singleton] at hx
  rcases hx with hx | hx
  · exact hi x hx
  · subst hx; exact hm

theorem echoInv_sendContact (e : Ep) (hi : EchoInv e) : EchoInv (sendContact e) :=
  echoInv_of_view (e := sendMessage e (.contact 0)) rfl (echoInv_sendMessage e _ hi)

theorem echoInv_sendInit (e : Ep) (hi : EchoInv e) : EchoInv (sendInit e) :=
  echoInv_of_view (e := sendMessage e (.sessInit e.cfg.keepalive e.cfg.segMru sizeMax e.cfg.nodeId (sessionExt e.cfg)))
    rfl (echoInv_sendMessage e _ hi)

theorem echoInv_sendReject (e : Ep) (r : Nat) (m : Msg) (hi : EchoInv e) : EchoInv (sendReject e r m) :=
  echoInv_sendMessage e _ hi

theorem echoInv_sendSessTerm (e : Ep) (r : Nat) (b : Bool) (hi : EchoInv e) :
    EchoInv (sendSessTerm e r b).1 := by
  unfold sendSessTerm
  split
  · exact hi
  · split
    · exact hi
    · simp only []
      refine echoInv_of_view (cv_flush _) (echoInv_sendMessage _ _ ?_)
      exact echoInv_of_view (by rw [cv_setState]; rfl) hi

theorem echoInv_sendSegment (e : Ep) (it : TxItem) (sent : Nat) (hi : EchoInv e) :
    EchoInv (sendSegment e it sent).1 := by
  unfold sendSegment
  simp only []
  split
  · exact echoInv_of_view rfl hi
  · split
    · refine echoInv_of_view (by rw [cv_pqTrigger]; rfl) (echoInv_sendMessage e _ hi)
    · exact echoInv_of_view rfl (echoInv_sendMessage e _ hi)

theorem echoInv_processQueue (e : Ep) (hi : EchoInv e) : EchoInv (processQueue e).1 := by
  unfold processQueue
  split
  · exact echoInv_sendSegment e _ _ hi
  · split
    · exact hi
    · split
      · exact echoInv_of_view (by simp only [cv_checkSessTerm, cv_flush]) hi
      · split
        · exact hi
        · exact echoInv_sendSegment _ _ _ (echoInv_of_view rfl hi)

theorem echoInv_pullTx (e : Ep) (hi : EchoInv e) : EchoInv (pullTx e) := by
  unfold pullTx
  split
  · exact echoInv_of_view (by rw [cv_sendBufferDecreased]; rfl) hi
  · exact hi

theorem echoInv_writeConn (e : Ep) (n : Nat) (up : Bool) (hi : EchoInv e) : EchoInv (writeConn e n up).1 := by
  unfold writeConn
  split
  · split
    · exact echoInv_of_view (cv_checkSessTerm e) hi
    · exact hi
  · simp only []
    split
    · exact hi
    · split
      · exact echoInv_of_view (by rw [cv_checkSessTerm]; rfl) hi
      · exact echoInv_of_view rfl hi

theorem echoInv_pump (e : Ep) (n : Nat) (hi : EchoInv e) : EchoInv (pump e n).1 :=
  echoInv_writeConn _ _ _ (echoInv_pullTx e hi)

/-! receive handlers -/

theorem echoInv_onContact (e : Ep) (hi : EchoInv e) : EchoInv (onContact e).1 := by
  unfold onContact
  simp only []
  have h1 : EchoInv (if e.cfg.passive then sendContact e else e) := by
    split
    · exact echoInv_sendContact e hi
    · exact hi
  have h2 : EchoInv (setState (if e.cfg.passive then sendContact e else e) "session-negotiating").1 :=
    echoInv_of_view (cv_setState _ _) h1
  split
  · exact echoInv_sendInit _ h2
  · exact h2

theorem echoInv_onSessInit (e : Ep) (p : PeerInit) (hi : EchoInv e) : EchoInv (onSessInit e p).1 := by
  unfold onSessInit
  simp only []
  have h1 : EchoInv (if e.cfg.passive then sendInit e else e) := by
    split
    · exact echoInv_sendInit e hi
    · exact hi
  refine echoInv_of_view ?_ h1
  rw [cv_setState, cv_mergeSession]; rfl

theorem echoInv_onSessTerm (e : Ep) (m : Msg) (r : Nat) (hi : EchoInv e) : EchoInv (onSessTerm e m r).1 := by
  unfold onSessTerm
  split
  · exact echoInv_sendReject e _ _ hi
  · simp only []
    refine echoInv_of_view (by rw [cv_checkSessTerm, cv_flush]) (e := { (if !e.inTerm then sendSessTerm e r true else (e, [])).1 with gotTerm := true }) ?_
    refine echoInv_of_view (e := (if !e.inTerm then sendSessTerm e r true else (e, [])).1) rfl ?_
    split
    · exact echoInv_sendSessTerm e r true hi
    · exact hi

theorem echoInv_segAccept (e : Ep) (flags tid : Nat) (cur data : Bytes) (o1 : List Out) (hi : EchoInv e)
    (hack : echoOK e.processed (.xferAck flags tid (cur ++ data).length)) :
    EchoInv (segAccept e flags tid cur data o1).1 := by
  unfold segAccept
  simp only []
  split
  · exact echoInv_of_view (by rw [cv_checkSessTerm]; rfl) (echoInv_sendMessage e _ hi hack)
  · exact echoInv_sendMessage _ _ (echoInv_of_view rfl hi) hack

/-- `hr`: the receive invariant of the state *before* this segment was appended to `processed` -/
theorem echoInv_onSegment (e0 : Ep) (flags tid : Nat) (ext data : Bytes) (hr : RxInv e0) (hi : EchoInv e0) :
    EchoInv (onSegment { e0 with processed := e0.processed ++ [.xferSegment flags tid ext data] }
      (.xferSegment flags tid ext data) flags tid data).1 := by
  have h0 : EchoInv { e0 with processed := e0.processed ++ [.xferSegment flags tid ext data] } := by
    intro m hm; exact echoOK_mono _ (hi m hm)
  obtain ⟨_, r2, r3⟩ := hr
  unfold onSegment
  split
  · exact echoInv_sendReject _ _ _ h0
  · rename_i hs
    have hs' : e0.inSess = true := by simpa using hs
    split
    · rename_i hst
      refine echoInv_segAccept _ _ _ _ _ _ (echoInv_of_view rfl h0) ?_
      refine ⟨e0.processed, .xferSegment flags tid ext data, List.prefix_refl _, ?_⟩
      simp only [ackOfStep, ← r3, hs', hst, Bool.not_true, Bool.false_eq_true, if_false, if_true]
    · rename_i hst
      split
      · rename_i t d htmp
        split
        · rename_i htid
          refine echoInv_segAccept _ _ _ _ _ _ h0 ?_
          refine ⟨e0.processed, .xferSegment flags tid ext data, List.prefix_refl _, ?_⟩
          have htmp' : e0.rxTmp = some (t, d) := htmp
          simp only [ackOfStep, ← r3, ← r2, hs', hst, htmp', htid, Bool.not_true, Bool.false_eq_true, if_false, if_true]
        · exact echoInv_sendReject _ _ _ h0
      · exact echoInv_sendReject _ _ _ h0

theorem echoInv_onAck (e : Ep) (m : Msg) (f t l : Nat) (hi : EchoInv e) : EchoInv (onAck e m f t l).1 := by
  unfold onAck
  split
  · exact echoInv_sendReject e _ _ hi
  · split
    · exact echoInv_sendReject e _ _ hi
    · split
      · split
        · exact echoInv_sendReject e _ _ hi
        · exact echoInv_of_view (by rw [cv_checkSessTerm]; rfl) hi
      · exact echoInv_of_view rfl hi

theorem echoInv_onRefuse (e : Ep) (m : Msg) (r t : Nat) (hi : EchoInv e) : EchoInv (onRefuse e m r t).1 := by
  unfold onRefuse
  split
  · exact echoInv_sendReject e _ _ hi
  · split
    · exact echoInv_sendReject e _ _ hi
    · refine echoInv_of_view ?_ hi
      simp only [cv_checkSessTerm]
      split
      · split
        · rw [cv_pqTrigger]; rfl
        · rfl
      · rfl

theorem echoInv_handleMsg (e : Ep) (m : Msg) (hr : RxInv e) (hi : EchoInv e) : EchoInv (handleMsg e m).1 := by
  have h0 : EchoInv { e with processed := e.processed ++ [m] } := by
    intro x hx; exact echoOK_mono _ (hi x hx)
  unfold handleMsg
  cases m with
  | contact f => exact echoInv_onContact _ h0
  | sessInit ka sm xm node ext => exact echoInv_onSessInit _ _ h0
  | sessTerm f r => exact echoInv_onSessTerm _ _ _ h0
  | keepalive => exact h0
  | msgReject a b => exact h0
  | xferSegment flags tid ext data => exact echoInv_onSegment e flags tid ext data hr hi
  | xferAck f t l => exact echoInv_onAck _ _ _ _ _ h0
  | xferRefuse r t => exact echoInv_onRefuse _ _ _ _ h0

theorem echoInv_handleMsgs (ms : List Msg) (e : Ep) (hr : RxInv e) (hi : EchoInv e) : EchoInv (handleMsgs e ms).1 := by
  induction ms generalizing e with
  | nil => exact hi
  | cons m ms ih =>
    unfold handleMsgs
    split
    · exact hi
    · have hr' : RxInv { e with rxMore := !ms.isEmpty || e.rx.dead } := rxInv_of_view (e := e) rfl hr
      exact ih _ (rxInv_handleMsg _ m hr') (echoInv_handleMsg _ m hr' (echoInv_of_view (e := e) rfl hi))

theorem echoInv_recvRaw (e : Ep) (c : Bytes) (hr : RxInv e) (hi : EchoInv e) : EchoInv (recvRaw e c).1 := by
  unfold recvRaw
  simp only []
  have h0 : EchoInv (rxEntry e c) := echoInv_of_view rfl hi
  have hr0 : RxInv (rxEntry e c) := hr
  have h1 := echoInv_handleMsgs (feed e.rx c).2 _ hr0 h0
  split
  · exact echoInv_of_view (cv_doClose _) h1
  · exact h1

theorem echoInv_step (e : Ep) (ev : Ev) (hr : RxInv e) (hi : EchoInv e) : EchoInv (step e ev).1 := by
  unfold step
  cases ev with
  | advance ms => exact echoInv_of_view rfl hi
  | start =>
    simp only []
    split
    · exact hi
    · split
      · exact hi
      · refine echoInv_of_view (cv_setState _ _) ?_
        split
        · exact echoInv_sendContact _ (echoInv_of_view rfl hi)
        · exact echoInv_of_view rfl hi
  | send d =>
    simp only []
    split
    · exact hi
    · exact echoInv_of_view (by rw [cv_pqTrigger]; rfl) hi
  | terminate r =>
    simp only []
    split
    · exact hi
    · exact echoInv_sendSessTerm _ _ _ hi
  | close =>
    simp only []
    split
    · exact hi
    · exact echoInv_of_view (cv_doClose _) hi
  | pop t =>
    simp only []
    have : EchoInv (popRx e t).1 := by
      refine echoInv_of_view ?_ hi
      unfold popRx; split <;> rfl
    split <;> exact this
  | query q => simp only []; split <;> exact hi
  | procQueue =>
    simp only []
    split
    · exact echoInv_of_view rfl hi
    · split
      · exact hi
      · exact echoInv_of_view rfl (echoInv_processQueue _ (echoInv_of_view (e := e) rfl hi))
  | pump n =>
    simp only []
    split
    · exact hi
    · split
      · exact hi
      · exact echoInv_of_view rfl (echoInv_pump _ _ (echoInv_of_view (e := e) rfl hi))
  | rx c =>
    simp only []
    split
    · exact hi
    · exact echoInv_recvRaw e c hr hi
  | rxEof =>
    simp only []
    split
    · exact hi
    · exact echoInv_of_view (cv_doClose _) hi
  | keepaliveTimer =>
    simp only []
    split
    · exact hi
    · split
      · exact hi
      · exact echoInv_sendMessage _ _ (echoInv_of_view rfl hi)
  | idleTimer =>
    simp only []
    split
    · exact hi
    · split
      · exact hi
      · split
        · exact echoInv_of_view (by rw [cv_doClose]; rfl) hi
        · exact echoInv_sendSessTerm _ _ _ (echoInv_of_view rfl hi)
  | modulate raw =>
    simp only []
    split
    · exact hi
    · split
      · exact echoInv_of_view rfl hi
      · exact hi

theorem echoInv_init (cfg : Cfg) : EchoInv { cfg := cfg } := by
  intro m hm; simp at hm

theorem echoInv_run (evs : List Ev) (e : Ep) (hr : RxInv e) (hi : EchoInv e) : EchoInv (runEp e evs) := by
  induction evs generalizing e with
  | nil => exact hi
  | cons ev evs ih =>
    simp only [runEp, run]
    exact ih _ (rxInv_step e ev hr) (echoInv_step e ev hr hi)

end Tcpcl
end DtnVerif
