/- Helper lemmas for C20: reassembly by segment index in `Btpu.recvSeg`. -/
import DtnVerif.Model.Btpu
namespace DtnVerif
namespace Btpu

/-! ### the table -/

theorem getT_delT_self (k : Key) (l : List (Key × RxT)) : getT k (delT k l) = none := by
  induction l with
  | nil => rfl
  | cons e l ih =>
    obtain ⟨k', x⟩ := e
    unfold delT
    by_cases h : k' = k
    · simp only [h, if_true]; exact ih
    · simp only [h, if_false, getT]; exact ih

theorem getT_delT_ne {k k' : Key} (h : k' ≠ k) (l : List (Key × RxT)) :
    getT k (delT k' l) = getT k l := by
  induction l with
  | nil => rfl
  | cons e l ih =>
    obtain ⟨k2, x⟩ := e
    unfold delT
    by_cases h2 : k2 = k'
    · simp only [h2, if_true, getT]
      rw [ih]; simp [h]
    · simp only [h2, if_false, getT, ih]

theorem getT_putT_self (k : Key) (x : RxT) (l : List (Key × RxT)) :
    getT k (putT k x l) = some x := by
  simp [putT, getT]

theorem getT_putT_ne {k k' : Key} (h : k' ≠ k) (x : RxT) (l : List (Key × RxT)) :
    getT k (putT k' x l) = getT k l := by
  simp only [putT, getT, h, if_false]; exact getT_delT_ne h l

/-! ### queue bookkeeping -/

theorem queued_addRx (k : Key) (s : Rx) (q : QItem) :
    queued k (addRx s q) = queued k s ++ (if q.src = some k then [q.data] else []) := by
  simp only [queued, addRx, List.filter_append, List.map_append]
  by_cases h : q.src = some k <;> simp [List.filter, fromKey, h]

/-! ### one step, seen from transfer `k` -/

/-- the entry the next segment of `k` is applied to -/
def base (k : Key) (s : Rx) : RxT := (getT k s.prog).getD ⟨none, [], []⟩

theorem recvSeg_other {k k' : Key} (h : k' ≠ k) (s : Rx) (addr : String) (isEnd : Bool) (idx : Nat)
    (chunk : Bytes) :
    getT k (recvSeg s k' addr isEnd idx chunk).prog = getT k s.prog ∧
    queued k (recvSeg s k' addr isEnd idx chunk) = queued k s := by
  unfold recvSeg
  simp only []
  split
  · exact ⟨rfl, rfl⟩
  · split
    · refine ⟨?_, ?_⟩
      · simp only [addRx]; exact getT_delT_ne h _
      · rw [queued_addRx]
        have : ¬ (some k' = some k) := by intro hh; exact h (Option.some.inj hh)
        simp [this, queued]
    · exact ⟨getT_putT_ne h _ _, rfl⟩

theorem recvSeg_self (k : Key) (s : Rx) (addr : String) (isEnd : Bool) (idx : Nat) (chunk : Bytes) :
    ((base k s).got.contains idx = true → recvSeg s k addr isEnd idx chunk = s) ∧
    ((base k s).got.contains idx = false → complete (updT (base k s) isEnd idx chunk) = true →
      getT k (recvSeg s k addr isEnd idx chunk).prog = none ∧
      queued k (recvSeg s k addr isEnd idx chunk) = queued k s ++
        [fullData (updT (base k s) isEnd idx chunk) ((updT (base k s) isEnd idx chunk).gotEnd.getD 0)]) ∧
    ((base k s).got.contains idx = false → complete (updT (base k s) isEnd idx chunk) = false →
      getT k (recvSeg s k addr isEnd idx chunk).prog = some (updT (base k s) isEnd idx chunk) ∧
      queued k (recvSeg s k addr isEnd idx chunk) = queued k s) := by
  unfold recvSeg base
  refine ⟨?_, ?_, ?_⟩
  · intro h; simp only [h, if_true]
  · intro h hc
    simp only [h, Bool.false_eq_true, if_false, hc, if_true]
    refine ⟨?_, ?_⟩
    · simp only [addRx]; exact getT_delT_self k _
    · rw [queued_addRx]; simp [queued]
  · intro h hc
    simp only [h, Bool.false_eq_true, if_false, hc]
    exact ⟨getT_putT_self k _ _, rfl⟩

theorem step_bundle (k : Key) (s : Rx) (a : String) (d : Bytes) :
    getT k (step s (.bundle a d)).prog = getT k s.prog ∧
    queued k (step s (.bundle a d)) = queued k s := by
  unfold step
  refine ⟨rfl, ?_⟩
  rw [queued_addRx]; simp

/-- Case analysis on a message from the point of view of transfer `k`. -/
theorem ev_cases (k : Key) (e : Ev) :
    (∃ addr isEnd idx chunk, e = .seg k addr isEnd idx chunk) ∨
    ((∀ rest, kev k (e :: rest) = kev k rest) ∧
     (∀ s, getT k (step s e).prog = getT k s.prog ∧ queued k (step s e) = queued k s)) := by
  cases e with
  | bundle a d => exact Or.inr ⟨fun _ => rfl, fun s => step_bundle k s a d⟩
  | seg k' addr isEnd idx chunk =>
    by_cases h : k' = k
    · subst h; exact Or.inl ⟨addr, isEnd, idx, chunk, rfl⟩
    · exact Or.inr ⟨fun _ => by simp [kev, h], fun s => recvSeg_other h s addr isEnd idx chunk⟩

theorem kev_self (k : Key) (addr : String) (isEnd : Bool) (idx : Nat) (chunk : Bytes) (rest : List Ev) :
    kev k (.seg k addr isEnd idx chunk :: rest) = (isEnd, idx, chunk) :: kev k rest := by
  simp [kev]

theorem kev_append (k : Key) (a b : List Ev) : kev k (a ++ b) = kev k a ++ kev k b := by
  induction a with
  | nil => rfl
  | cons e a ih =>
    rcases ev_cases k e with ⟨ad, en, i, c, rfl⟩ | ⟨hk, _⟩
    · simp only [List.cons_append, kev_self, ih]
    · simp only [List.cons_append, hk, ih]

theorem run_cons (s : Rx) (e : Ev) (rest : List Ev) : run s (e :: rest) = run (step s e) rest := rfl

/-- Messages of other transfers and Bundle PDUs do not touch transfer `k`. -/
theorem run_frame (k : Key) : ∀ (evs : List Ev) (s : Rx), kev k evs = [] →
    getT k (run s evs).prog = getT k s.prog ∧ queued k (run s evs) = queued k s := by
  intro evs
  induction evs with
  | nil => intro s _; exact ⟨rfl, rfl⟩
  | cons e rest ih =>
    intro s h
    rcases ev_cases k e with ⟨ad, en, i, c, rfl⟩ | ⟨hk, hf⟩
    · rw [kev_self] at h; cases h
    · rw [hk] at h
      obtain ⟨h1, h2⟩ := ih (step s e) h
      rw [run_cons, h1, h2]; exact hf s

/-! ### consistency with the segments `cs` of one transfer -/

/-- A `(is end, index, data)` message that really is segment `index` of `cs`. -/
def GenuineS (cs : List Bytes) (t : Bool × Nat × Bytes) : Prop :=
  t.2.1 < cs.length ∧ cs[t.2.1]? = some t.2.2 ∧ (t.1 = true ↔ t.2.1 + 1 = cs.length)

def InvT (cs : List Bytes) (x : RxT) : Prop :=
  (∀ i ∈ x.got, i < cs.length ∧ lookupD i x.data = cs.getD i []) ∧
  (x.gotEnd = none ∨ x.gotEnd = some (cs.length - 1)) ∧
  ((cs.length - 1) ∈ x.got → x.gotEnd = some (cs.length - 1))

def JE (cs : List Bytes) (k : Key) (s : Rx) : Prop := ∀ x, getT k s.prog = some x → InvT cs x

def entryGot (k : Key) (s : Rx) : List Nat := (base k s).got

theorem base_inv (cs : List Bytes) (k : Key) (s : Rx) (hJ : JE cs k s) : InvT cs (base k s) := by
  unfold base
  cases h : getT k s.prog with
  | none =>
    refine ⟨?_, Or.inl rfl, ?_⟩
    · intro i hi; simp at hi
    · intro hm; simp at hm
  | some x => exact hJ x h

theorem entryGot_some {k : Key} {s : Rx} {x : RxT} (h : getT k s.prog = some x) :
    entryGot k s = x.got := by
  unfold entryGot base; rw [h]; rfl

theorem entryGot_of_eq {k : Key} {s s' : Rx} (h : getT k s'.prog = getT k s.prog) :
    entryGot k s' = entryGot k s := by
  unfold entryGot base; rw [h]

theorem JE_of_eq {cs : List Bytes} {k : Key} {s s' : Rx} (h : getT k s'.prog = getT k s.prog)
    (hJ : JE cs k s) : JE cs k s' := by
  intro x hx; rw [h] at hx; exact hJ x hx

theorem inv_updT (cs : List Bytes) (x : RxT) (t : Bool × Nat × Bytes) (hx : InvT cs x)
    (hg : GenuineS cs t) (hnew : t.2.1 ∉ x.got) : InvT cs (updT x t.1 t.2.1 t.2.2) := by
  obtain ⟨ha, hb, hd⟩ := hx
  obtain ⟨g1, g2, g3⟩ := hg
  refine ⟨?_, ?_, ?_⟩
  · intro i hi
    simp only [updT] at hi ⊢
    rcases List.mem_cons.mp hi with rfl | hi
    · refine ⟨g1, ?_⟩
      simp only [lookupD, if_true]
      simp [List.getD, g2]
    · refine ⟨(ha i hi).1, ?_⟩
      have hne : t.2.1 ≠ i := by intro h; rw [h] at hnew; exact hnew hi
      simp only [lookupD, hne, if_false]
      exact (ha i hi).2
  · simp only [updT]
    cases hte : t.1 with
    | true => right; simp only [if_true]; have := g3.mp hte; congr 1; omega
    | false => simpa using hb
  · intro hm
    simp only [updT] at hm ⊢
    cases hte : t.1 with
    | true => simp only [if_true]; have := g3.mp hte; congr 1; omega
    | false =>
      simp only [Bool.false_eq_true, if_false]
      rcases List.mem_cons.mp hm with h | h
      · exfalso
        have : t.1 = true := g3.mpr (by omega)
        rw [hte] at this; cases this
      · exact hd h

theorem flatMap_congr' {α β : Type} (f g : α → List β) :
    ∀ l : List α, (∀ i ∈ l, f i = g i) → l.flatMap f = l.flatMap g := by
  intro l
  induction l with
  | nil => intro _; rfl
  | cons a l ih =>
    intro h
    rw [List.flatMap_cons, List.flatMap_cons, h a List.mem_cons_self,
      ih (fun i hi => h i (List.mem_cons_of_mem _ hi))]

theorem range_flatMap_getD (cs : List Bytes) :
    (List.range cs.length).flatMap (fun i => cs.getD i []) = cs.flatten := by
  induction cs with
  | nil => rfl
  | cons c cs ih =>
    rw [List.length_cons, List.range_succ_eq_map, List.flatMap_cons, List.flatMap_map]
    simp only [List.getD_cons_zero, List.flatten_cons]
    congr 1

theorem complete_iff (x : RxT) :
    complete x = true ↔ ∃ e, x.gotEnd = some e ∧ (∀ i, i ≤ e → i ∈ x.got) ∧ (∀ i ∈ x.got, i ≤ e) := by
  unfold complete
  cases x.gotEnd with
  | none => simp
  | some e =>
    simp only [Bool.and_eq_true, List.all_eq_true, List.mem_range,
      List.contains_iff_mem, decide_eq_true_eq, Option.some.injEq, exists_eq_left']
    constructor
    · rintro ⟨h2, h3⟩; exact ⟨fun i hi => h2 i (by omega), h3⟩
    · rintro ⟨h2, h3⟩; exact ⟨fun i hi => h2 i (by omega), h3⟩

/-- when a consistent entry completes, what is queued is the concatenation of the segments -/
theorem complete_data (cs : List Bytes) (x : RxT) (hx : InvT cs x) (hc : complete x = true) :
    fullData x (x.gotEnd.getD 0) = cs.flatten := by
  obtain ⟨e, he, hall, _⟩ := (complete_iff x).mp hc
  obtain ⟨ha, hb, _⟩ := hx
  have hee : e = cs.length - 1 := by
    rcases hb with h | h
    · rw [h] at he; cases he
    · rw [h] at he; exact (Option.some.inj he).symm
  have hn : 0 < cs.length := by have := (ha e (hall e (Nat.le_refl _))).1; omega
  rw [he]; simp only [Option.getD_some, fullData]
  have : e + 1 = cs.length := by omega
  rw [this, ← range_flatMap_getD cs]
  apply flatMap_congr'
  intro i hi
  rw [List.mem_range] at hi
  exact (ha i (hall i (by omega))).2

/-- One genuine, new segment of transfer `k`. -/
theorem step_k (cs : List Bytes) (k : Key) (s : Rx) (addr : String) (t : Bool × Nat × Bytes)
    (hJ : JE cs k s) (hg : GenuineS cs t) (hnew : t.2.1 ∉ entryGot k s) :
    InvT cs (updT (base k s) t.1 t.2.1 t.2.2) ∧
    (complete (updT (base k s) t.1 t.2.1 t.2.2) = true →
      getT k (step s (.seg k addr t.1 t.2.1 t.2.2)).prog = none ∧
      queued k (step s (.seg k addr t.1 t.2.1 t.2.2)) = queued k s ++ [cs.flatten]) ∧
    (complete (updT (base k s) t.1 t.2.1 t.2.2) = false →
      getT k (step s (.seg k addr t.1 t.2.1 t.2.2)).prog = some (updT (base k s) t.1 t.2.1 t.2.2) ∧
      queued k (step s (.seg k addr t.1 t.2.1 t.2.2)) = queued k s) := by
  have hi := inv_updT cs _ t (base_inv cs k s hJ) hg hnew
  have hc : (base k s).got.contains t.2.1 = false := by
    cases h : (base k s).got.contains t.2.1 with
    | false => rfl
    | true => exact absurd (List.contains_iff_mem.mp h) hnew
  obtain ⟨_, h2, h3⟩ := recvSeg_self k s addr t.1 t.2.1 t.2.2
  refine ⟨hi, ?_, h3 hc⟩
  intro hcomp
  obtain ⟨a, b⟩ := h2 hc hcomp
  exact ⟨a, by rw [show step s (.seg k addr t.1 t.2.1 t.2.2) = recvSeg s k addr t.1 t.2.1 t.2.2 from rfl,
    b, complete_data cs _ hi hcomp]⟩

/-- an index nobody has yet keeps the transfer incomplete -/
theorem not_complete_of_missing (cs : List Bytes) (x : RxT) (hx : InvT cs x) (m : Nat)
    (hm : m < cs.length) (hd : m ∉ x.got) : complete x = false := by
  cases hc : complete x with
  | false => rfl
  | true =>
    exfalso
    obtain ⟨e, he, hall, _⟩ := (complete_iff x).mp hc
    have hee : e = cs.length - 1 := by
      rcases hx.2.1 with h | h
      · rw [h] at he; cases he
      · rw [h] at he; exact (Option.some.inj he).symm
    exact hd (hall m (by omega))

/-- While a segment of `k` is still to come, nothing of `k` is queued. -/
theorem missing_main (cs : List Bytes) (k : Key) (m : Nat) (hm : m < cs.length) :
    ∀ (evs : List Ev) (s : Rx), JE cs k s →
    (∀ t ∈ kev k evs, GenuineS cs t) → (∀ t ∈ kev k evs, t.2.1 ≠ m) → m ∉ entryGot k s →
    queued k (run s evs) = queued k s ∧ JE cs k (run s evs) ∧ m ∉ entryGot k (run s evs) := by
  intro evs
  induction evs with
  | nil => intro s hJ _ _ hv; exact ⟨rfl, hJ, hv⟩
  | cons e rest ih =>
    intro s hJ hg hd hv
    rcases ev_cases k e with ⟨ad, en, i, c, rfl⟩ | ⟨hk, hf⟩
    · rw [kev_self] at hg hd
      have hg0 := hg _ List.mem_cons_self
      by_cases hdup : i ∈ entryGot k s
      · -- duplicate: ignored
        have hsame : step s (.seg k ad en i c) = s :=
          (recvSeg_self k s ad en i c).1 (List.contains_iff_mem.mpr hdup)
        rw [run_cons, hsame]
        exact ih s hJ (fun t ht => hg t (List.mem_cons_of_mem _ ht))
          (fun t ht => hd t (List.mem_cons_of_mem _ ht)) hv
      · obtain ⟨hi, _, hF⟩ := step_k cs k s ad (en, i, c) hJ hg0 hdup
        have hmi : i ≠ m := hd _ List.mem_cons_self
        have hnc : complete (updT (base k s) en i c) = false := by
          apply not_complete_of_missing cs _ hi m hm
          intro hmem
          simp only [updT] at hmem
          rcases List.mem_cons.mp hmem with h | h
          · exact hmi h.symm
          · exact hv h
        obtain ⟨h1, h2⟩ := hF hnc
        have hJ' : JE cs k (step s (.seg k ad en i c)) := by
          intro x hx; rw [h1] at hx; cases hx; exact hi
        have hv' : m ∉ entryGot k (step s (.seg k ad en i c)) := by
          rw [entryGot_some h1]
          intro hmem
          simp only [updT] at hmem
          rcases List.mem_cons.mp hmem with h | h
          · exact hmi h.symm
          · exact hv h
        obtain ⟨r1, r2, r3⟩ := ih _ hJ' (fun t ht => hg t (List.mem_cons_of_mem _ ht))
          (fun t ht => hd t (List.mem_cons_of_mem _ ht)) hv'
        exact ⟨by rw [run_cons, r1, h2], r2, r3⟩
    · rw [hk] at hg hd
      obtain ⟨r1, r2, r3⟩ := ih _ (JE_of_eq (hf s).1 hJ) hg hd
        (by rw [entryGot_of_eq (hf s).1]; exact hv)
      exact ⟨by rw [run_cons, r1, (hf s).2], r2, r3⟩

/-- Each segment of `k` exactly once (distinct indices that together with what the entry already
    has are all of `0..n-1`, `n ≥ 1`), any order, anything else in between: exactly the
    concatenation is queued, once, and the entry is gone. -/
theorem reasm_main (cs : List Bytes) (k : Key) (h2 : 1 ≤ cs.length) :
    ∀ (evs : List Ev) (s : Rx), JE cs k s →
    (∀ t ∈ kev k evs, GenuineS cs t) → kev k evs ≠ [] →
    List.Pairwise (· ≠ ·) ((kev k evs).map (·.2.1)) →
    (∀ a ∈ entryGot k s, ∀ t ∈ kev k evs, a ≠ t.2.1) →
    (∀ i, i < cs.length → i ∈ entryGot k s ∨ ∃ t ∈ kev k evs, t.2.1 = i) →
    getT k (run s evs).prog = none ∧ queued k (run s evs) = queued k s ++ [cs.flatten] := by
  intro evs
  induction evs with
  | nil => intro s _ _ hne; exact absurd rfl hne
  | cons e rest ih =>
    intro s hJ hg hne hpw hdis hcov
    rcases ev_cases k e with ⟨ad, en, i, c, rfl⟩ | ⟨hk, hf⟩
    · rw [kev_self] at hg hpw hdis hcov
      have hg0 := hg _ List.mem_cons_self
      have hnew : i ∉ entryGot k s := fun hmem => hdis i hmem _ List.mem_cons_self rfl
      obtain ⟨hi, hT, hF⟩ := step_k cs k s ad (en, i, c) hJ hg0 hnew
      simp only [List.map_cons, List.pairwise_cons] at hpw
      obtain ⟨hpw0, hpw'⟩ := hpw
      by_cases hrest : kev k rest = []
      · have hc : complete (updT (base k s) en i c) = true := by
          rw [complete_iff]
          have hgot : ∀ j, j < cs.length → j ∈ (updT (base k s) en i c).got := by
            intro j hj
            simp only [updT]
            rcases hcov j hj with h | ⟨t, ht, rfl⟩
            · exact List.mem_cons_of_mem _ h
            · rw [hrest] at ht
              rcases List.mem_cons.mp ht with rfl | ht
              · exact List.mem_cons_self
              · cases ht
          refine ⟨cs.length - 1, hi.2.2 (hgot _ (by omega)), ?_, ?_⟩
          · intro j hj; exact hgot j (by omega)
          · intro j hj; have := (hi.1 j hj).1; omega
        obtain ⟨a, b⟩ := hT hc
        obtain ⟨f1, f2⟩ := run_frame k rest (step s (.seg k ad en i c)) hrest
        exact ⟨by rw [run_cons, f1, a], by rw [run_cons, f2, b]⟩
      · obtain ⟨m, hmem⟩ : ∃ m, m ∈ kev k rest := by
          cases hkr : kev k rest with
          | nil => exact absurd hkr hrest
          | cons m _ => exact ⟨m, List.mem_cons_self⟩
        have hmi : i ≠ m.2.1 := hpw0 _ (List.mem_map_of_mem hmem)
        have hnc : complete (updT (base k s) en i c) = false := by
          apply not_complete_of_missing cs _ hi m.2.1 (hg m (List.mem_cons_of_mem _ hmem)).1
          intro hm
          simp only [updT] at hm
          rcases List.mem_cons.mp hm with h | h
          · exact hmi h.symm
          · exact hdis _ h m (List.mem_cons_of_mem _ hmem) rfl
        obtain ⟨a, b⟩ := hF hnc
        have hJ' : JE cs k (step s (.seg k ad en i c)) := by
          intro x hx; rw [a] at hx; cases hx; exact hi
        have hev : entryGot k (step s (.seg k ad en i c)) = i :: entryGot k s := by
          rw [entryGot_some a]; rfl
        obtain ⟨r1, r2⟩ := ih _ hJ' (fun t ht => hg t (List.mem_cons_of_mem _ ht)) hrest hpw'
          (by
            intro x hx t ht
            rw [hev] at hx
            rcases List.mem_cons.mp hx with rfl | hx
            · exact hpw0 _ (List.mem_map_of_mem ht)
            · exact hdis x hx t (List.mem_cons_of_mem _ ht))
          (by
            intro j hj
            rw [hev]
            rcases hcov j hj with h | ⟨t, ht, rfl⟩
            · exact Or.inl (List.mem_cons_of_mem _ h)
            · rcases List.mem_cons.mp ht with rfl | ht
              · exact Or.inl List.mem_cons_self
              · exact Or.inr ⟨t, ht, rfl⟩)
        exact ⟨by rw [run_cons, r1], by rw [run_cons, r2, b]⟩
    · rw [hk] at hg hne hpw hdis hcov
      obtain ⟨r1, r2⟩ := ih _ (JE_of_eq (hf s).1 hJ) hg hne hpw
        (by rw [entryGot_of_eq (hf s).1]; exact hdis)
        (by rw [entryGot_of_eq (hf s).1]; exact hcov)
      exact ⟨by rw [run_cons, r1], by rw [run_cons, r2, (hf s).2]⟩

end Btpu
end DtnVerif
