import DtnVerif.Model.Cover
namespace DtnVerif
namespace Cover

theorem coveredAtB_iff (rs : List Range) (i : Nat) : coveredAtB rs i = true ↔ coveredAt rs i := by
  simp [coveredAtB, coveredAt, List.any_eq_true]

/-- soundness and completeness of the decision procedure -/
theorem coveredB_iff (rs : List Range) (total : Nat) : coveredB rs total = true ↔ covered rs total := by
  constructor
  · intro h
    simp only [coveredB, List.all_eq_true] at h
    have hc : ∀ c, c ∈ (0 :: rs.map (fun r => r.1 + r.2)) → c < total → coveredAt rs c := by
      intro c hm hlt
      have := h c hm
      simp [hlt] at this
      exact (coveredAtB_iff rs c).1 this
    intro i
    induction i with
    | zero => intro h0; exact hc 0 (by simp) h0
    | succ n ih =>
      intro hn
      obtain ⟨r, hr, h1, h2⟩ := ih (by omega)
      by_cases hlt : n + 1 < r.1 + r.2
      · exact ⟨r, hr, by omega, hlt⟩
      · have he : n + 1 = r.1 + r.2 := by omega
        apply hc (n + 1) _ hn
        rw [he]
        exact List.mem_cons_of_mem _ (List.mem_map.2 ⟨r, hr, rfl⟩)
  · intro h
    simp only [coveredB, List.all_eq_true]
    intro c _
    by_cases hlt : c < total
    · simp [hlt]; exact (coveredAtB_iff rs c).2 (h c hlt)
    · simp [hlt]

theorem withinB_iff (rs : List Range) (total : Nat) : withinB rs total = true ↔ within rs total := by
  simp only [withinB, within, List.all_eq_true, Bool.or_eq_true, beq_iff_eq, decide_eq_true_eq]
  constructor
  · intro h r hr hne; rcases h r hr with h | h
    · exact absurd h hne
    · exact h
  · intro h r hr
    by_cases h0 : r.2 = 0
    · exact Or.inl h0
    · exact Or.inr (h r hr h0)

theorem exactB_iff (rs : List Range) (total : Nat) : exactB rs total = true ↔ exact rs total := by
  simp [exactB, exact, coveredB_iff, withinB_iff]

/-- coverage only depends on which ranges were received, not on order or multiplicity -/
theorem coveredAt_congr {rs rs' : List Range} (h : ∀ r, r ∈ rs ↔ r ∈ rs') (i : Nat) :
    coveredAt rs i ↔ coveredAt rs' i := by
  constructor
  · rintro ⟨r, hr, hh⟩; exact ⟨r, (h r).1 hr, hh⟩
  · rintro ⟨r, hr, hh⟩; exact ⟨r, (h r).2 hr, hh⟩

theorem covered_congr {rs rs' : List Range} (h : ∀ r, r ∈ rs ↔ r ∈ rs') (t : Nat) :
    covered rs t ↔ covered rs' t := by
  constructor
  · intro hc i hi; exact (coveredAt_congr h i).1 (hc i hi)
  · intro hc i hi; exact (coveredAt_congr h i).2 (hc i hi)

theorem within_congr {rs rs' : List Range} (h : ∀ r, r ∈ rs ↔ r ∈ rs') (t : Nat) :
    within rs t ↔ within rs' t := by
  constructor
  · intro hw r hr; exact hw r ((h r).2 hr)
  · intro hw r hr; exact hw r ((h r).1 hr)

theorem exact_congr {rs rs' : List Range} (h : ∀ r, r ∈ rs ↔ r ∈ rs') (t : Nat) :
    exact rs t ↔ exact rs' t := by
  simp [exact, covered_congr h t, within_congr h t]

theorem covered_perm {rs rs' : List Range} (h : rs.Perm rs') (t : Nat) : covered rs t ↔ covered rs' t :=
  covered_congr (fun _ => h.mem_iff) t

theorem covered_dup (r : Range) (rs : List Range) (hr : r ∈ rs) (t : Nat) :
    covered (r :: rs) t ↔ covered rs t :=
  covered_congr (fun x => by simp; intro hx; exact hx ▸ hr) t

theorem covered_mono {rs rs' : List Range} (h : ∀ r, r ∈ rs → r ∈ rs') (t : Nat) :
    covered rs t → covered rs' t := by
  intro hc i hi
  obtain ⟨r, hr, hh⟩ := hc i hi
  exact ⟨r, h r hr, hh⟩

end Cover
end DtnVerif
