/-
  G-tx: what one endpoint emits, against an arbitrary schedule and a peer whose own message
  sequence is legal: (L) the emitted sequence is accepted by the RFC 9174 monitor, and (D) an ideal
  receiver of the emitted sequence reconstructs exactly a prefix of the bundles the user queued.
-/
import DtnVerif.Model.TcpclEp
import DtnVerif.Model.TcpclSpec
import DtnVerif.Lemmas.TcpclCodec
namespace DtnVerif
namespace Tcpcl

/-- the transmit-relevant projection of an endpoint state -/
structure TxView where
  cfg : Cfg
  closed : Bool
  started : Bool
  sentContact : Bool
  sentInit : Bool
  inSess : Bool
  inTerm : Bool
  sendSegSize : Nat
  kaTime : Nat
  idleTime : Nat
  sendLog : List TxItem
  txNextId : Nat
  nStarted : Nat
  txPendStart : List TxItem
  txTmp : Option (TxItem × Nat)
  emitted : List Msg
  processed : List Msg
  peerInit : Option PeerInit

def Ep.txView (e : Ep) : TxView :=
  ⟨e.cfg, e.closed, e.started, e.sentContact, e.sentInit, e.inSess, e.inTerm, e.sendSegSize, e.kaTime, e.idleTime,
   e.sendLog, e.txNextId, e.nStarted, e.txPendStart, e.txTmp, e.emitted,
   e.processed, e.peerInit⟩

/-- data octets carried by a message (0 unless it is a segment) -/
def segLen : Msg → Nat
  | .xferSegment _ _ _ d => d.length
  | _ => 0

def phaseOf (v : TxView) : Nat := if v.sentInit then 2 else if v.sentContact then 1 else 0

def curL (v : TxView) : Option (Nat × Nat × Nat) := v.txTmp.map (fun p => (p.1.tid, p.1.data.length, p.2))
def curD (v : TxView) : Option (Nat × Bytes) := v.txTmp.map (fun p => (p.1.tid, p.1.data.take p.2))
def doneD (v : TxView) : List (Nat × Bytes) :=
  (v.sendLog.take (v.nStarted - (if v.txTmp.isSome then 1 else 0))).map (fun it => (it.tid, it.data))

/-- every emitted segment, and the current segment size, respect the peer's announced segment MRU -/
def MruP (pi : Option PeerInit) (inSess : Bool) (seg : Nat) (em : List Msg) : Prop :=
  (∀ p, pi = some p → 0 < p.segMru ∧ seg ≤ p.segMru ∧ ∀ m ∈ em, segLen m ≤ p.segMru)
  ∧ (pi = none → inSess = false ∧ ∀ m ∈ em, segLen m = 0)
  ∧ (inSess = false → pi = none)

theorem MruP.emit {pi : Option PeerInit} {s : Bool} {g : Nat} {em : List Msg} (h : MruP pi s g em) (m : Msg)
    (h1 : ∀ p, pi = some p → segLen m ≤ p.segMru) (h0 : pi = none → segLen m = 0) :
    MruP pi s g (em ++ [m]) := by
  refine ⟨?_, ?_, h.2.2⟩
  · intro p hp
    obtain ⟨a, b, c⟩ := h.1 p hp
    refine ⟨a, b, ?_⟩
    intro x hx
    rcases List.mem_append.mp hx with hx | hx
    · exact c x hx
    · simp at hx; subst hx; exact h1 p hp
  · intro hn
    obtain ⟨a, c⟩ := h.2.1 hn
    refine ⟨a, ?_⟩
    intro x hx
    rcases List.mem_append.mp hx with hx | hx
    · exact c x hx
    · simp at hx; subst hx; exact h0 hn

theorem MruP.emit0 {pi : Option PeerInit} {s : Bool} {g : Nat} {em : List Msg} (h : MruP pi s g em) (m : Msg)
    (hz : segLen m = 0) : MruP pi s g (em ++ [m]) :=
  h.emit m (fun p _ => by rw [hz]; exact Nat.zero_le _) (fun _ => hz)

/-- The transmit invariant, relative to the monitor state `P` of the processed (peer) sequence. -/
structure TxInvV (v : TxView) (P : LState) : Prop where
  hP : legalRun {} v.processed = some P
  started : v.started = true
  segInitPos : 0 < v.cfg.segInit
  noPriv : v.cfg.privExt = false
  phaseC : v.sentContact = (if v.cfg.passive then decide (1 ≤ P.phase) else true)
  phaseI : v.sentInit = (if v.cfg.passive then decide (P.phase = 2) else decide (1 ≤ P.phase))
  pPhase : P.phase ≤ 2
  sess : v.inSess = decide (P.phase = 2)
  term : v.inTerm = true → v.inSess = true
  seg : v.inSess = true → 0 < v.sendSegSize
  kaT : 0 < v.kaTime → v.inSess = true
  idT : 0 < v.idleTime → v.inSess = true
  tids : ∀ n it, v.sendLog[n]? = some it → it.tid = n + 1
  nextId : v.txNextId = v.sendLog.length + 1
  lens : ∀ it ∈ v.sendLog, it.data.length < 2 ^ 64
  pend : ∃ i, v.nStarted ≤ i ∧ i ≤ v.sendLog.length ∧ v.txPendStart = v.sendLog.drop i ∧
    (v.inTerm = false → v.closed = false → i = v.nStarted)
  tmp : ∀ it sent, v.txTmp = some (it, sent) →
      1 ≤ v.nStarted ∧ v.sendLog[v.nStarted - 1]? = some it ∧ 0 < sent ∧ sent < it.data.length ∧ v.inSess = true
  nle : v.nStarted ≤ v.sendLog.length
  L : legalRun {} v.emitted = some ⟨phaseOf v, v.inTerm, curL v, v.nStarted⟩
  D : rxSpec v.emitted = ⟨v.sentInit, curD v, doneD v⟩
  mru : MruP v.peerInit v.inSess v.sendSegSize v.emitted

def TxInv (e : Ep) (P : LState) : Prop := TxInvV e.txView P

/-- `send_message` on the view -/
def emitV (v : TxView) (m : Msg) : TxView := { v with emitted := v.emitted ++ [m] }

theorem txView_sendMessage (e : Ep) (m : Msg) : (sendMessage e m).txView = emitV e.txView m := rfl

theorem txInv_of_view {e e' : Ep} {P : LState} (h : e'.txView = e.txView) (hi : TxInv e P) : TxInv e' P := by
  unfold TxInv at *; rw [h]; exact hi

/-! ### monitor / ideal-receiver runs over appended messages -/

theorem legalRun_append (s : LState) (a b : List Msg) :
    legalRun s (a ++ b) = (legalRun s a).bind (fun s' => legalRun s' b) := by
  induction a generalizing s with
  | nil => rfl
  | cons m ms ih =>
    simp only [List.cons_append, legalRun]
    cases legalStep s m with
    | none => rfl
    | some s' => exact ih s'

theorem legalRun_snoc (s s' : LState) (a : List Msg) (m : Msg) (h : legalRun s a = some s') :
    legalRun s (a ++ [m]) = legalStep s' m := by
  rw [legalRun_append, h]
  simp only [Option.bind, legalRun]
  cases legalStep s' m <;> rfl

theorem rxSpec_snoc (a : List Msg) (m : Msg) : rxSpec (a ++ [m]) = rxSpecStep (rxSpec a) m := by
  simp [rxSpec, List.foldl_append]

/-- prefix-closure of legality -/
theorem legalRun_prefix (s : LState) (a b : List Msg) (h : (legalRun s (a ++ b)).isSome) :
    (legalRun s a).isSome := by
  rw [legalRun_append] at h
  cases hl : legalRun s a with
  | none => rw [hl] at h; simp at h
  | some _ => rfl

/-- messages that neither the monitor (in phase 2) nor the ideal receiver reacts to -/
def Msg.inert : Msg → Bool
  | .xferAck .. | .xferRefuse .. | .keepalive | .msgReject .. => true
  | _ => false

theorem legalStep_inert (s : LState) (m : Msg) (hm : m.inert = true) (hp : s.phase = 2) :
    legalStep s m = some s := by
  cases m <;> simp [Msg.inert] at hm <;> simp [legalStep, hp]

theorem rxSpecStep_inert (s : RxSpec) (m : Msg) (hm : m.inert = true) : rxSpecStep s m = s := by
  cases m <;> simp [Msg.inert] at hm <;> rfl

theorem phaseOf_two {v : TxView} (h : v.sentInit = true) : phaseOf v = 2 := by simp [phaseOf, h]

/-- in a session our SESS_INIT is out -/
theorem TxInvV.sentInit_of_sess {v : TxView} {P : LState} (hi : TxInvV v P) (hs : v.inSess = true) :
    v.sentInit = true := by
  have h2 : P.phase = 2 := by simpa [hi.sess] using hs
  rw [hi.phaseI]; split <;> simp [h2]

/-- emitting an inert message inside a session preserves the invariant -/
theorem txInvV_emit_inert (v : TxView) (P : LState) (m : Msg) (hi : TxInvV v P)
    (hm : m.inert = true) (hs : v.inSess = true) :
    TxInvV (emitV v m) P := by
  have hsi := hi.sentInit_of_sess hs
  unfold emitV
  refine { hi with L := ?_, D := ?_, mru := hi.mru.emit0 m (by cases m <;> simp [Msg.inert] at hm <;> rfl) }
  · show legalRun {} (v.emitted ++ [m]) = _
    rw [legalRun_snoc _ _ _ _ hi.L]
    exact legalStep_inert _ _ hm (phaseOf_two hsi)
  · show rxSpec (v.emitted ++ [m]) = _
    rw [rxSpec_snoc, hi.D, rxSpecStep_inert _ _ hm]
    rfl

/-- the peer's monitor state advances without changing phase -/
theorem txInvV_processed_samePhase (v : TxView) (P P' : LState) (m : Msg) (hi : TxInvV v P)
    (hstep : legalStep P m = some P') (hph : P'.phase = P.phase) :
    TxInvV { v with processed := v.processed ++ [m] } P' := by
  refine { hi with hP := ?_, phaseC := ?_, phaseI := ?_, pPhase := ?_, sess := ?_ }
  · show legalRun {} (v.processed ++ [m]) = some P'
    rw [legalRun_snoc _ _ _ _ hi.hP]; exact hstep
  · rw [hph]; exact hi.phaseC
  · rw [hph]; exact hi.phaseI
  · rw [hph]; exact hi.pPhase
  · rw [hph]; exact hi.sess

/-- every body message of a legal peer sequence is processed in phase 2 and keeps the phase -/
theorem legalStep_body_phase (P P' : LState) (m : Msg) (h : legalStep P m = some P')
    (hb : match m with | .contact _ => False | .sessInit .. => False | _ => True) :
    P.phase = 2 ∧ P'.phase = 2 := by
  cases m with
  | contact f => exact absurd hb (by simp)
  | sessInit ka sm xm n x => exact absurd hb (by simp)
  | sessTerm f r =>
    simp only [legalStep] at h
    split at h
    · rename_i hc; simp at hc; injection h with h; subst h; exact ⟨hc.1, hc.1⟩
    · simp at h
  | keepalive | msgReject _ _ | xferAck _ _ _ | xferRefuse _ _ =>
    simp only [legalStep] at h
    split at h
    · rename_i hc; simp at hc; injection h with h; subst h; exact ⟨hc, hc⟩
    · simp at h
  | xferSegment flags tid ext data =>
    simp only [legalStep] at h
    split at h
    · simp at h
    · rename_i hc
      have hp : P.phase = 2 := by simpa using hc
      refine ⟨hp, ?_⟩
      repeat' split at h
      all_goals (first | (simp at h; done) | (injection h with h; subst h; exact hp))

/-! ### view-level effects of the transmit-side operations -/

theorem txInvV_flush (v : TxView) (P : LState) (hi : TxInvV v P) (ht : v.inTerm = true ∨ v.closed = true) :
    TxInvV { v with txPendStart := [] } P := by
  refine { hi with pend := ?_ }
  refine ⟨v.sendLog.length, hi.nle, Nat.le_refl _, by simp, ?_⟩
  intro h1 h2
  rcases ht with ht | ht
  · simp [ht] at h1
  · simp [ht] at h2

theorem txInvV_close (v : TxView) (P : LState) (hi : TxInvV v P) :
    TxInvV { v with txPendStart := [], closed := true } P := by
  refine { hi with pend := ?_ }
  refine ⟨v.sendLog.length, hi.nle, Nat.le_refl _, by simp, ?_⟩
  intro _ h2
  simp at h2

theorem txInvV_sessTerm (v : TxView) (P : LState) (f r : Nat) (hi : TxInvV v P)
    (hs : v.inSess = true) (ht : v.inTerm = false) :
    TxInvV { v with inTerm := true, emitted := v.emitted ++ [.sessTerm f r], txPendStart := [] } P := by
  have hsi := hi.sentInit_of_sess hs
  refine { hi with term := fun _ => hs, pend := ?_, L := ?_, D := ?_, mru := hi.mru.emit0 _ rfl }
  · exact ⟨v.sendLog.length, hi.nle, Nat.le_refl _, by simp, fun h => by simp at h⟩
  · show legalRun {} (v.emitted ++ [.sessTerm f r]) = _
    rw [legalRun_snoc _ _ _ _ hi.L]
    simp [legalStep, phaseOf_two hsi, ht, phaseOf, hsi, curL]
  · show rxSpec (v.emitted ++ [.sessTerm f r]) = _
    rw [rxSpec_snoc, hi.D]
    rfl

theorem txInvV_send (v : TxView) (P : LState) (d : Bytes) (hi : TxInvV v P) (hd : d.length < 2 ^ 64) :
    TxInvV { v with txNextId := v.txNextId + 1, txPendStart := v.txPendStart ++ [⟨v.txNextId, d⟩],
                    sendLog := v.sendLog ++ [⟨v.txNextId, d⟩] } P := by
  obtain ⟨i, hi1, hile, hi2, hi3⟩ := hi.pend
  refine { hi with tids := ?_, nextId := ?_, lens := ?_, pend := ?_, tmp := ?_, nle := ?_, D := ?_ }
  · intro n it hn
    by_cases hlt : n < v.sendLog.length
    · rw [List.getElem?_append_left hlt] at hn; exact hi.tids n it hn
    · have hge : v.sendLog.length ≤ n := by omega
      rw [List.getElem?_append_right hge] at hn
      have : n - v.sendLog.length = 0 := by
        by_cases h0 : n - v.sendLog.length = 0
        · exact h0
        · rw [List.getElem?_eq_none (by simp; omega)] at hn; simp at hn
      rw [this] at hn
      simp at hn
      subst hn
      simp [hi.nextId]; omega
  · simp [hi.nextId]
  · intro it hit
    rcases List.mem_append.mp hit with h | h
    · exact hi.lens it h
    · simp at h; subst h; exact hd
  · refine ⟨i, hi1, by simp; omega, ?_, hi3⟩
    show v.txPendStart ++ [_] = (v.sendLog ++ [_]).drop i
    rw [List.drop_append_of_le_length hile, hi2]
  · intro it sent h
    obtain ⟨a, b, c, d', e'⟩ := hi.tmp it sent h
    refine ⟨a, ?_, c, d', e'⟩
    show (v.sendLog ++ [_])[v.nStarted - 1]? = some it
    rw [List.getElem?_append_left (by have := hi.nle; omega)]; exact b
  · show v.nStarted ≤ (v.sendLog ++ [_]).length
    simp; have := hi.nle; omega
  · show rxSpec v.emitted = ⟨v.sentInit, curD _, doneD _⟩
    rw [hi.D]
    simp only [curD, doneD]
    congr 1
    rw [List.take_append_of_le_length (by have := hi.nle; omega)]

/-! ### segments -/

theorem hasStart_flags (a b : Bool) :
    hasStart ((if a then flagEnd else 0) + (if b then flagStart else 0)) = b := by
  cases a <;> cases b <;> decide

theorem hasEnd_flags (a b : Bool) :
    hasEnd ((if a then flagEnd else 0) + (if b then flagStart else 0)) = a := by
  cases a <;> cases b <;> decide

theorem totalLengthOf_enc (n : Nat) (hn : n < 2 ^ 64) :
    totalLengthOf (encExtItem ⟨0, 1, u64 n⟩) = some n := by
  have h := decExtItems_enc [⟨0, 1, u64 n⟩] (by
    intro e he; simp at he; subst he; simp [u64]) ((encExtItem ⟨0, 1, u64 n⟩).length + 1) (by simp)
  simp only [encExtItems, List.append_nil] at h
  unfold totalLengthOf
  rw [h]
  simp [u64, beNat_beBytes 8 n (by simpa using hn)]

theorem take_add_drop_take {α} (l : List α) (a b : Nat) :
    l.take a ++ (l.drop a).take b = l.take (a + b) := by
  rw [List.take_add]

/-- the view after `sendSegment` (no private extensions) -/
def segV (v : TxView) (it : TxItem) (sent : Nat) : TxView :=
  let seg := (it.data.drop sent).take v.sendSegSize
  let sent' := sent + seg.length
  let isStart := sent == 0
  let isEnd := sent' == it.data.length
  { v with
    emitted := v.emitted ++ [.xferSegment ((if isEnd then flagEnd else 0) + (if isStart then flagStart else 0)) it.tid
      (if isStart then encExtItem ⟨0, 1, u64 it.data.length⟩ else []) seg],
    txTmp := if isEnd then none else some (it, sent') }

theorem txView_pqTrigger (e : Ep) : (pqTrigger e).txView = e.txView := by
  unfold pqTrigger; split <;> rfl

theorem view_sendSegment_tx (e : Ep) (it : TxItem) (sent : Nat) (hp : e.cfg.privExt = false) :
    (sendSegment e it sent).1.txView = segV e.txView it sent := by
  unfold sendSegment segV
  simp only [hp, Bool.and_false, Bool.false_eq_true, if_false, transferExt, List.nil_append]
  split
  · rw [txView_pqTrigger]
    simp only [Ep.txView, sendMessage, sendReady, kaReset, idleReset]
    split <;> simp_all
  · simp only [Ep.txView, sendMessage, sendReady, kaReset, idleReset]
    split <;> simp_all

theorem take_self_length {α} (l : List α) (k : Nat) : l.take (l.take k).length = l.take k := by
  rw [List.length_take]
  by_cases h : k ≤ l.length
  · rw [Nat.min_eq_left h]
  · rw [Nat.min_eq_right (by omega), List.take_length, List.take_of_length_le (by omega)]

theorem MruP.seg {pi : Option PeerInit} {g : Nat} {em : List Msg} (h : MruP pi true g em) (m : Msg)
    (hm : segLen m ≤ g) : MruP pi true g (em ++ [m]) := by
  refine h.emit m ?_ ?_
  · intro p hp; exact Nat.le_trans hm (h.1 p hp).2.1
  · intro hn; have := (h.2.1 hn).1; exact absurd this (by simp)

/-- continuing an active transfer -/
theorem txInvV_seg_cont (v : TxView) (P : LState) (it : TxItem) (sent : Nat) (hi : TxInvV v P)
    (ht : v.txTmp = some (it, sent)) : TxInvV (segV v it sent) P := by
  obtain ⟨hn1, hidx, hs0, hslt, hsess⟩ := hi.tmp it sent ht
  have hsi := hi.sentInit_of_sess hsess
  have hseg := hi.seg hsess
  have hne : (sent == 0) = false := by simp; omega
  -- the segment is non-empty and stays within the bundle
  have hsl : ((it.data.drop sent).take v.sendSegSize).length = min v.sendSegSize (it.data.length - sent) := by
    simp [List.length_take, List.length_drop]
  have hpos : 0 < ((it.data.drop sent).take v.sendSegSize).length := by rw [hsl]; omega
  have hle : sent + ((it.data.drop sent).take v.sendSegSize).length ≤ it.data.length := by rw [hsl]; omega
  have hLcur : curL v = some (it.tid, it.data.length, sent) := by simp [curL, ht]
  have hDcur : curD v = some (it.tid, it.data.take sent) := by simp [curD, ht]
  have hDdone : doneD v = (v.sendLog.take (v.nStarted - 1)).map (fun it => (it.tid, it.data)) := by
    simp [doneD, ht]
  unfold segV
  simp only [hne, Bool.false_eq_true, if_false, Nat.add_zero]
  by_cases hend : (sent + ((it.data.drop sent).take v.sendSegSize).length == it.data.length) = true
  · -- END segment: transfer complete
    have hend' : sent + ((it.data.drop sent).take v.sendSegSize).length = it.data.length := by simpa using hend
    simp only [hend, if_true]
    have hm0 : MruP v.peerInit true v.sendSegSize v.emitted := by have := hi.mru; rwa [hsess] at this
    refine { hi with mru := ?mru, pend := hi.pend, tmp := ?_, L := ?_, D := ?_ }
    case mru =>
      rw [hsess]; exact hm0.seg _ (by simp only [segLen]; rw [List.length_take]; exact Nat.min_le_left _ _)
    · intro it' s' h; simp at h
    · show legalRun {} (v.emitted ++ [_]) = _
      rw [legalRun_snoc _ _ _ _ hi.L]
      simp only [legalStep, phaseOf_two hsi, hLcur]
      have hs : hasStart flagEnd = false := by decide
      have he : hasEnd flagEnd = true := by decide
      have hend2 : sent + min v.sendSegSize (it.data.length - sent) = it.data.length := by rw [← hsl]; exact hend'
      simp [hs, he, hend2, phaseOf, hsi, curL]
    · show rxSpec (v.emitted ++ [_]) = _
      rw [rxSpec_snoc, hi.D, hDcur, hDdone]
      have hs : hasStart flagEnd = false := by decide
      have he : hasEnd flagEnd = true := by decide
      simp only [rxSpecStep, hsi, Bool.not_true, Bool.false_eq_true, if_false, hs, he, beq_self_eq_true, if_true]
      simp only [curD, doneD, Option.map_none, Option.isSome_none, Bool.false_eq_true, if_false, Nat.sub_zero]
      congr 1
      have h1 : it.data.take sent ++ (it.data.drop sent).take v.sendSegSize = it.data := by
        rw [take_add_drop_take]
        apply List.take_of_length_le
        rw [hsl] at hend'; omega
      rw [h1]
      have h2 : v.sendLog.take v.nStarted = v.sendLog.take (v.nStarted - 1) ++ [it] := by
        have : v.nStarted = (v.nStarted - 1) + 1 := by omega
        rw [this, List.take_add_one, hidx]
        simp
      rw [h2]; simp
  · -- intermediate segment
    have hend' : (sent + ((it.data.drop sent).take v.sendSegSize).length == it.data.length) = false := by
      simpa using hend
    have hlt : sent + ((it.data.drop sent).take v.sendSegSize).length < it.data.length := by
      have : sent + ((it.data.drop sent).take v.sendSegSize).length ≠ it.data.length := by simpa using hend
      omega
    simp only [hend', Bool.false_eq_true, if_false, Nat.zero_add]
    have hm0 : MruP v.peerInit true v.sendSegSize v.emitted := by have := hi.mru; rwa [hsess] at this
    refine { hi with mru := ?mru, pend := hi.pend, tmp := ?_, L := ?_, D := ?_ }
    case mru =>
      rw [hsess]; exact hm0.seg _ (by simp only [segLen]; rw [List.length_take]; exact Nat.min_le_left _ _)
    · intro it' s' h
      simp only [Option.some.injEq, Prod.mk.injEq] at h
      obtain ⟨rfl, rfl⟩ := h
      exact ⟨hn1, hidx, by omega, hlt, hsess⟩
    · show legalRun {} (v.emitted ++ [_]) = _
      rw [legalRun_snoc _ _ _ _ hi.L]
      simp only [legalStep, phaseOf_two hsi, hLcur]
      have hs : hasStart 0 = false := by decide
      have he : hasEnd 0 = false := by decide
      have hlt2 : sent + min v.sendSegSize (it.data.length - sent) < it.data.length := by rw [← hsl]; exact hlt
      simp [hs, he, hlt2, phaseOf, hsi, curL]
    · show rxSpec (v.emitted ++ [_]) = _
      rw [rxSpec_snoc, hi.D, hDcur, hDdone]
      have hs : hasStart 0 = false := by decide
      have he : hasEnd 0 = false := by decide
      simp only [rxSpecStep, hsi, Bool.not_true, Bool.false_eq_true, if_false, hs, he, beq_self_eq_true, if_true]
      simp only [curD, doneD, Option.map_some, Option.isSome_some, if_true]
      rw [take_add_drop_take]
      have hmin : min v.sendSegSize (it.data.length - sent) = v.sendSegSize := by rw [hsl] at hlt; omega
      rw [hsl, hmin]

/-- starting the next queued transfer -/
theorem txInvV_seg_start (v : TxView) (P : LState) (it : TxItem) (rest : List TxItem) (hi : TxInvV v P)
    (ht : v.txTmp = none) (hsess : v.inSess = true) (hterm : v.inTerm = false) (hcl : v.closed = false)
    (hq : v.txPendStart = it :: rest) :
    TxInvV (segV { v with txPendStart := rest, txTmp := some (it, 0), nStarted := v.nStarted + 1 } it 0) P := by
  obtain ⟨i, hi1, hile, hi2, hi3⟩ := hi.pend
  have hieq : i = v.nStarted := hi3 hterm hcl
  subst hieq
  have hsi := hi.sentInit_of_sess hsess
  have hseg := hi.seg hsess
  have hdrop : v.sendLog.drop v.nStarted = it :: rest := by rw [← hi2]; exact hq
  have hlt : v.nStarted < v.sendLog.length := by
    by_cases h : v.nStarted < v.sendLog.length
    · exact h
    · rw [List.drop_eq_nil_of_le (by omega)] at hdrop; simp at hdrop
  have hidx : v.sendLog[v.nStarted]? = some it := by
    have := List.getElem?_drop (xs := v.sendLog) (i := v.nStarted) (j := 0)
    rw [hdrop] at this
    simpa using this.symm
  have hrest : rest = v.sendLog.drop (v.nStarted + 1) := by
    have : (v.sendLog.drop v.nStarted).drop 1 = rest := by rw [hdrop]; rfl
    rw [← this, List.drop_drop]
  have htid : it.tid = v.nStarted + 1 := hi.tids _ _ hidx
  have hmem : it ∈ v.sendLog := List.mem_of_getElem? hidx
  have hlen := hi.lens it hmem
  have hLcur : curL v = none := by simp [curL, ht]
  have hDcur : curD v = none := by simp [curD, ht]
  have hDdone : doneD v = (v.sendLog.take v.nStarted).map (fun it => (it.tid, it.data)) := by
    simp [doneD, ht]
  have hsl : (it.data.take v.sendSegSize).length = min v.sendSegSize it.data.length := by
    simp [List.length_take]
  have htake : v.sendLog.take (v.nStarted + 1) = v.sendLog.take v.nStarted ++ [it] := by
    rw [List.take_add_one, hidx]; simp
  have hst : hasStart ((if True then flagEnd else 0) + flagStart) = true := by decide
  unfold segV
  simp only [List.drop_zero, Nat.zero_add, beq_self_eq_true, if_true]
  by_cases hend : ((it.data.take v.sendSegSize).length == it.data.length) = true
  · have hend' : (it.data.take v.sendSegSize).length = it.data.length := by simpa using hend
    have hall : it.data.take v.sendSegSize = it.data := by
      apply List.take_of_length_le; rw [hsl] at hend'; omega
    simp only [hend, if_true]
    have hs : hasStart (flagEnd + flagStart) = true := by decide
    have he : hasEnd (flagEnd + flagStart) = true := by decide
    have hm0 : MruP v.peerInit true v.sendSegSize v.emitted := by have := hi.mru; rwa [hsess] at this
    refine { hi with mru := ?mru, pend := ?_, tmp := ?_, nle := ?_, L := ?_, D := ?_ }
    case mru =>
      rw [hsess]; exact hm0.seg _ (by simp only [segLen]; rw [List.length_take]; exact Nat.min_le_left _ _)
    · exact ⟨v.nStarted + 1, Nat.le_refl _, hlt, hrest, fun _ _ => rfl⟩
    · intro it' s' h; simp at h
    · show v.nStarted + 1 ≤ v.sendLog.length; omega
    · show legalRun {} (v.emitted ++ [_]) = _
      rw [legalRun_snoc _ _ _ _ hi.L]
      simp only [legalStep, phaseOf_two hsi, hLcur, hs, he, hterm, htid, totalLengthOf_enc _ hlen]
      simp [hend', phaseOf, hsi, curL]
    · show rxSpec (v.emitted ++ [_]) = _
      rw [rxSpec_snoc, hi.D, hDcur, hDdone]
      simp only [rxSpecStep, hsi, Bool.not_true, Bool.false_eq_true, if_false, hs, he, if_true]
      simp only [curD, doneD, Option.map_none, Option.isSome_none, Bool.false_eq_true, if_false, Nat.sub_zero,
        List.nil_append, hall, htake, List.map_append, List.map_cons, List.map_nil]
  · have hend' : ((it.data.take v.sendSegSize).length == it.data.length) = false := by simpa using hend
    have hne : (it.data.take v.sendSegSize).length ≠ it.data.length := by simpa using hend
    have hltl : (it.data.take v.sendSegSize).length < it.data.length := by rw [hsl] at hne ⊢; omega
    have hpos : 0 < (it.data.take v.sendSegSize).length := by rw [hsl] at hltl ⊢; omega
    simp only [hend', Bool.false_eq_true, if_false, Nat.zero_add]
    have hs : hasStart flagStart = true := by decide
    have he : hasEnd flagStart = false := by decide
    have hm0 : MruP v.peerInit true v.sendSegSize v.emitted := by have := hi.mru; rwa [hsess] at this
    refine { hi with mru := ?mru, pend := ?_, tmp := ?_, nle := ?_, L := ?_, D := ?_ }
    case mru =>
      rw [hsess]; exact hm0.seg _ (by simp only [segLen]; rw [List.length_take]; exact Nat.min_le_left _ _)
    · exact ⟨v.nStarted + 1, Nat.le_refl _, hlt, hrest, fun _ _ => rfl⟩
    · intro it' s' h
      simp only [Option.some.injEq, Prod.mk.injEq] at h
      obtain ⟨rfl, rfl⟩ := h
      exact ⟨Nat.le_add_left 1 _, by simpa using hidx, hpos, hltl, hsess⟩
    · show v.nStarted + 1 ≤ v.sendLog.length; omega
    · show legalRun {} (v.emitted ++ [_]) = _
      rw [legalRun_snoc _ _ _ _ hi.L]
      simp only [legalStep, phaseOf_two hsi, hLcur, hs, he, hterm, htid, totalLengthOf_enc _ hlen]
      have hltl2 : min v.sendSegSize it.data.length < it.data.length := by rw [← hsl]; exact hltl
      simp [hltl2, phaseOf, hsi, curL, htid]
    · show rxSpec (v.emitted ++ [_]) = _
      rw [rxSpec_snoc, hi.D, hDcur, hDdone]
      simp only [rxSpecStep, hsi, Bool.not_true, Bool.false_eq_true, if_false, hs, he, if_true]
      simp only [curD, doneD, Option.map_some, Option.isSome_some, if_true, Nat.add_sub_cancel,
        List.nil_append, take_self_length]

/-! ### negotiation -/

theorem legalStep_contact (P P' : LState) (f : Nat) (h : legalStep P (.contact f) = some P') :
    P.phase = 0 ∧ P' = { P with phase := 1 } := by
  simp only [legalStep] at h
  split at h
  · rename_i hc; injection h with h; exact ⟨by simpa using hc, h.symm⟩
  · simp at h

theorem legalStep_sessInit (P P' : LState) (a b c : Nat) (d x : Bytes)
    (h : legalStep P (.sessInit a b c d x) = some P') : P.phase = 1 ∧ P' = { P with phase := 2 } := by
  simp only [legalStep] at h
  split at h
  · rename_i hc; injection h with h; exact ⟨by simpa using hc, h.symm⟩
  · simp at h

/-- the contact header has been processed (passive side answers with its own, active side with SESS_INIT) -/
theorem txInvV_contact (v : TxView) (P P' : LState) (f : Nat) (m0 m1 : Msg)
    (hm0 : m0 = .contact 0) (hm1 : ∃ a b c d x, m1 = .sessInit a b c d x)
    (hi : TxInvV v P) (hstep : legalStep P (.contact f) = some P') :
    TxInvV (if v.cfg.passive then
              { v with processed := v.processed ++ [.contact f], sentContact := true, emitted := v.emitted ++ [m0] }
            else
              { v with processed := v.processed ++ [.contact f], sentInit := true, emitted := v.emitted ++ [m1] }) P' := by
  obtain ⟨hp0, hP'⟩ := legalStep_contact P P' f hstep
  subst hP'
  have hP2 : legalRun {} (v.processed ++ [.contact f]) = some { P with phase := 1 } := by
    rw [legalRun_snoc _ _ _ _ hi.hP]; exact hstep
  have hsess : v.inSess = false := by simp [hi.sess, hp0]
  have hterm : v.inTerm = false := by
    cases h : v.inTerm with
    | false => rfl
    | true => have := hi.term h; rw [hsess] at this; exact absurd this (by simp)
  by_cases hpas : v.cfg.passive = true
  · have hsc : v.sentContact = false := by simp [hi.phaseC, hpas, hp0]
    have hsi : v.sentInit = false := by simp [hi.phaseI, hpas, hp0]
    simp only [hpas, if_true]
    subst hm0
    refine { hi with mru := ?mru, hP := hP2, phaseC := ?_, phaseI := ?_, pPhase := ?_, sess := ?_, L := ?_, D := ?_ }
    case mru =>
      exact hi.mru.emit0 _ rfl
    · simp [hpas]
    · simp [hpas, hsi]
    · simp
    · simp [hsess]
    · show legalRun {} (v.emitted ++ [.contact 0]) = _
      rw [legalRun_snoc _ _ _ _ hi.L]
      simp [legalStep, phaseOf, hsc, hsi, curL]
    · show rxSpec (v.emitted ++ [.contact 0]) = _
      rw [rxSpec_snoc, hi.D]; rfl
  · have hpas' : v.cfg.passive = false := by simpa using hpas
    have hsc : v.sentContact = true := by simp [hi.phaseC, hpas']
    have hsi : v.sentInit = false := by simp [hi.phaseI, hpas', hp0]
    simp only [hpas', Bool.false_eq_true, if_false]
    obtain ⟨a, b, c, d, x, rfl⟩ := hm1
    refine { hi with mru := ?mru, hP := hP2, phaseC := ?_, phaseI := ?_, pPhase := ?_, sess := ?_, L := ?_, D := ?_ }
    case mru =>
      exact hi.mru.emit0 _ rfl
    · simp [hpas', hsc]
    · simp [hpas']
    · simp
    · simp [hsess]
    · show legalRun {} (v.emitted ++ [.sessInit a b c d x]) = _
      rw [legalRun_snoc _ _ _ _ hi.L]
      simp [legalStep, phaseOf, hsc, hsi, curL]
    · show rxSpec (v.emitted ++ [.sessInit a b c d x]) = _
      rw [rxSpec_snoc, hi.D]
      simp [rxSpecStep, curD, doneD]

/-- the peer's SESS_INIT has been processed -/
theorem txInvV_sessInit (v : TxView) (P P' : LState) (ka sm xm : Nat) (node ext : Bytes) (m1 : Msg)
    (hm1 : ∃ a b c d x, m1 = .sessInit a b c d x) (hsm : 0 < sm)
    (hi : TxInvV v P) (hstep : legalStep P (.sessInit ka sm xm node ext) = some P') :
    TxInvV (if v.cfg.passive then
              { v with processed := v.processed ++ [.sessInit ka sm xm node ext], sentInit := true,
                       emitted := v.emitted ++ [m1], inSess := true,
                       kaTime := min v.cfg.keepalive ka, idleTime := v.cfg.idle,
                       sendSegSize := min v.cfg.segInit sm, peerInit := some ⟨ka, sm, xm, node⟩ }
            else
              { v with processed := v.processed ++ [.sessInit ka sm xm node ext], inSess := true,
                       kaTime := min v.cfg.keepalive ka, idleTime := v.cfg.idle,
                       sendSegSize := min v.cfg.segInit sm, peerInit := some ⟨ka, sm, xm, node⟩ }) P' := by
  obtain ⟨hp1, hP'⟩ := legalStep_sessInit P P' _ _ _ _ _ hstep
  subst hP'
  have hP2 : legalRun {} (v.processed ++ [.sessInit ka sm xm node ext]) = some { P with phase := 2 } := by
    rw [legalRun_snoc _ _ _ _ hi.hP]; exact hstep
  have hsess : v.inSess = false := by simp [hi.sess, hp1]
  have hterm : v.inTerm = false := by
    cases h : v.inTerm with
    | false => rfl
    | true => have := hi.term h; rw [hsess] at this; exact absurd this (by simp)
  have htmp : v.txTmp = none := by
    cases h : v.txTmp with
    | none => rfl
    | some p =>
      obtain ⟨it, s⟩ := p
      have := (hi.tmp it s h).2.2.2.2
      rw [hsess] at this; exact absurd this (by simp)
  have hsegpos : 0 < min v.cfg.segInit sm := by have := hi.segInitPos; omega
  have hpn : v.peerInit = none := hi.mru.2.2 hsess
  have hnoseg : ∀ m ∈ v.emitted, segLen m = 0 := (hi.mru.2.1 hpn).2
  have hmru : ∀ em, (∀ m ∈ em, segLen m = 0) →
      MruP (some ⟨ka, sm, xm, node⟩) true (min v.cfg.segInit sm) em := by
    intro em hem
    refine ⟨?_, fun h => by simp at h, fun h => by simp at h⟩
    intro p hp
    simp only [Option.some.injEq] at hp
    subst hp
    exact ⟨hsm, Nat.min_le_right _ _, fun m hm => by rw [hem m hm]; exact Nat.zero_le _⟩
  by_cases hpas : v.cfg.passive = true
  · have hsc : v.sentContact = true := by simp [hi.phaseC, hpas, hp1]
    have hsi : v.sentInit = false := by simp [hi.phaseI, hpas, hp1]
    simp only [hpas, if_true]
    obtain ⟨a, b, c, d, x, rfl⟩ := hm1
    refine { hi with mru := ?mru, hP := hP2, phaseC := ?_, phaseI := ?_, pPhase := ?_, sess := ?_, term := ?_, seg := ?_, kaT := ?_, idT := ?_, tmp := ?_, L := ?_, D := ?_ }
    case mru =>
      exact hmru (v.emitted ++ [Msg.sessInit a b c d x]) (by
      intro m hm
      rcases List.mem_append.mp hm with h | h
      · exact hnoseg m h
      · simp at h; subst h; rfl)
    · simp [hpas, hsc]
    · simp [hpas]
    · simp
    · simp
    · intro _; rfl
    · intro _; exact hsegpos
    · intro _; rfl
    · intro _; rfl
    · intro it s h; rw [htmp] at h; simp at h
    · show legalRun {} (v.emitted ++ [.sessInit a b c d x]) = _
      rw [legalRun_snoc _ _ _ _ hi.L]
      simp [legalStep, phaseOf, hsc, hsi, curL]
    · show rxSpec (v.emitted ++ [.sessInit a b c d x]) = _
      rw [rxSpec_snoc, hi.D]
      simp [rxSpecStep, curD, doneD]
  · have hpas' : v.cfg.passive = false := by simpa using hpas
    have hsi : v.sentInit = true := by simp [hi.phaseI, hpas', hp1]
    simp only [hpas', Bool.false_eq_true, if_false]
    refine { hi with mru := ?mru, hP := hP2, phaseC := ?_, phaseI := ?_, pPhase := ?_, sess := ?_, term := ?_, seg := ?_, kaT := ?_, idT := ?_, tmp := ?_ }
    case mru =>
      exact hmru _ hnoseg
    · simp [hpas', hi.phaseC]
    · simp [hpas', hsi]
    · simp
    · simp
    · intro _; rfl
    · intro _; exact hsegpos
    · intro _; rfl
    · intro _; rfl
    · intro it s h; rw [htmp] at h; simp at h

end Tcpcl
end DtnVerif
