/-
  Every signal the endpoint emits, and every value it returns, has the argument kinds of its
  declared D-Bus signature (`Val` is type-faithful: str / uint / bytes / list of str / bool).
-/
import DtnVerif.Model.TcpclEp
namespace DtnVerif
namespace Tcpcl

def Val.isStr : Val → Bool | .str _ => true | _ => false
def Val.isNat : Val → Bool | .nat _ => true | _ => false

/-- argument kinds per signal, transcribed from the declared signatures
    (s / st / st / sts / sv / st / sts; pinned against Facts in Props/C18) -/
def sigOK (name : String) (args : List Val) : Bool :=
  if name = "session_state_changed" then (match args with | [a] => a.isStr | _ => false)
  else if name = "send_bundle_started" ∨ name = "send_bundle_intermediate" ∨ name = "recv_bundle_intermediate" then
    (match args with | [a, b] => a.isStr && b.isNat | _ => false)
  else if name = "send_bundle_finished" ∨ name = "recv_bundle_finished" then
    (match args with | [a, b, c] => a.isStr && b.isNat && c.isStr | _ => false)
  else if name = "recv_bundle_started" then
    (match args with | [a, b] => a.isStr && (b.isStr || b.isNat) | _ => false)
  else false

def Out.shapeOK : Out → Bool
  | .sig n a => sigOK n a
  | _ => true

def shapes (os : List Out) : Bool := os.all Out.shapeOK

@[simp] theorem shapes_nil : shapes [] = true := rfl
@[simp] theorem shapes_append (a b : List Out) : shapes (a ++ b) = (shapes a && shapes b) := by
  simp [shapes, List.all_append]
@[simp] theorem shapes_cons (o : Out) (os : List Out) : shapes (o :: os) = (o.shapeOK && shapes os) := by
  simp [shapes]

@[simp] theorem sh_setState (e : Ep) (s : String) : shapes (setState e s).2 = true := by
  unfold setState; split <;> simp [Out.shapeOK, sigOK, Val.isStr]
@[simp] theorem sh_flush (e : Ep) : shapes (flushPendStart e).2 = true := by
  unfold flushPendStart shapes
  simp [List.all_map, Out.shapeOK, sigOK, Val.isStr, Val.isNat]
@[simp] theorem sh_doClose (e : Ep) : shapes (doClose e).2 = true := by
  unfold doClose; split <;> simp [Out.shapeOK]
@[simp] theorem sh_checkSessTerm (e : Ep) : shapes (checkSessTerm e).2 = true := by
  unfold checkSessTerm; split <;> simp
@[simp] theorem sh_sendSessTerm (e : Ep) (r : Nat) (b : Bool) : shapes (sendSessTerm e r b).2 = true := by
  unfold sendSessTerm
  split
  · simp [Out.shapeOK]
  · split <;> simp [Out.shapeOK]
@[simp] theorem sh_sendSegment (e : Ep) (it : TxItem) (s : Nat) : shapes (sendSegment e it s).2.1 = true := by
  unfold sendSegment; simp only []; split <;> (try split) <;> simp [Out.shapeOK]
@[simp] theorem sh_processQueue (e : Ep) : shapes (processQueue e).2.1 = true := by
  unfold processQueue
  split
  · simp
  · split
    · simp
    · split
      · simp
      · split
        · simp
        · simp [Out.shapeOK, sigOK, Val.isStr, Val.isNat]
@[simp] theorem sh_writeConn (e : Ep) (n : Nat) (up : Bool) : shapes (writeConn e n up).2 = true := by
  unfold writeConn
  split
  · split <;> simp
  · simp only []
    split
    · simp
    · split <;> simp [Out.shapeOK]
@[simp] theorem sh_pump (e : Ep) (n : Nat) : shapes (pump e n).2 = true := by unfold pump; simp
@[simp] theorem sh_onContact (e : Ep) : shapes (onContact e).2 = true := by unfold onContact; simp
@[simp] theorem sh_onSessInit (e : Ep) (p : PeerInit) : shapes (onSessInit e p).2 = true := by
  unfold onSessInit; simp
@[simp] theorem sh_onSessTerm (e : Ep) (m : Msg) (r : Nat) : shapes (onSessTerm e m r).2 = true := by
  unfold onSessTerm
  split
  · simp
  · simp only [shapes_append, sh_flush, sh_checkSessTerm, Bool.and_true]
    split <;> simp
@[simp] theorem sh_segAccept (e : Ep) (f t : Nat) (c d : Bytes) (o : List Out) (ho : shapes o = true) :
    shapes (segAccept e f t c d o).2 = true := by
  unfold segAccept; simp only []; split <;> simp [ho, Out.shapeOK, sigOK, Val.isStr, Val.isNat]
@[simp] theorem sh_onSegment (e : Ep) (m : Msg) (f t : Nat) (d : Bytes) : shapes (onSegment e m f t d).2 = true := by
  unfold onSegment
  split
  · simp
  · split
    · exact sh_segAccept _ _ _ _ _ _ (by simp [Out.shapeOK, sigOK, Val.isStr, Val.isNat])
    · split
      · split
        · exact sh_segAccept _ _ _ _ _ _ (by simp)
        · simp
      · simp
@[simp] theorem sh_onAck (e : Ep) (m : Msg) (f t l : Nat) : shapes (onAck e m f t l).2 = true := by
  unfold onAck
  split
  · simp
  · split
    · simp
    · split
      · split <;> simp [Out.shapeOK, sigOK, Val.isStr, Val.isNat]
      · simp [Out.shapeOK, sigOK, Val.isStr, Val.isNat]
@[simp] theorem sh_onRefuse (e : Ep) (m : Msg) (r t : Nat) : shapes (onRefuse e m r t).2 = true := by
  unfold onRefuse
  split
  · simp
  · split <;> simp [Out.shapeOK, sigOK, Val.isStr, Val.isNat]
@[simp] theorem sh_handleMsg (e : Ep) (m : Msg) : shapes (handleMsg e m).2 = true := by
  unfold handleMsg; cases m <;> simp
@[simp] theorem sh_handleMsgs (ms : List Msg) (e : Ep) : shapes (handleMsgs e ms).2 = true := by
  induction ms generalizing e with
  | nil => rfl
  | cons m ms ih =>
    unfold handleMsgs
    split
    · rfl
    · simp [ih]
@[simp] theorem sh_recvRaw (e : Ep) (c : Bytes) : shapes (recvRaw e c).2 = true := by
  unfold recvRaw; simp only []; split <;> simp

theorem sh_step (e : Ep) (ev : Ev) : shapes (step e ev).2 = true := by
  unfold step
  cases ev with
  | advance ms => rfl
  | start => simp only []; split <;> (try split) <;> simp
  | send d => simp only []; split <;> simp [Out.shapeOK]
  | terminate r => simp only []; split <;> simp
  | close => simp only []; split <;> simp
  | pop t =>
    simp only []
    have : shapes (popRx e t).2 = true := by unfold popRx; split <;> simp [Out.shapeOK]
    split <;> simp [this]
  | query q => simp only []; split <;> simp [Out.shapeOK]
  | procQueue => simp only []; split <;> (try split) <;> simp
  | pump n => simp only []; split <;> (try split) <;> simp
  | rx c => simp only []; split <;> simp
  | rxEof => simp only []; split <;> simp
  | keepaliveTimer => simp only []; split <;> (try split) <;> simp
  | idleTimer => simp only []; split <;> (try split) <;> (try split) <;> simp
  | modulate raw => simp only []; split <;> (try split) <;> simp

theorem sh_run (evs : List Ev) (e : Ep) : ∀ os ∈ (run e evs).2, shapes os = true := by
  induction evs generalizing e with
  | nil => intro os h; simp [run] at h
  | cons ev evs ih =>
    intro os h
    simp only [run, List.mem_cons] at h
    rcases h with h | h
    · rw [h]; exact sh_step e ev
    · exact ih (step e ev).1 os h

end Tcpcl
end DtnVerif
