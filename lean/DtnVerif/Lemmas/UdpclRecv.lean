/- Helper lemmas for C13: the RX fragment table and reassembly of `Udpcl.recvTransfer`. -/
import DtnVerif.Model.Udpcl
import DtnVerif.Lemmas.Bytes
namespace DtnVerif
namespace Udpcl

/-! ### the table -/

theorem getX_delX_self (k : Key) (l : List (Key × Xfer)) : getX k (delX k l) = none := by
  induction l with
  | nil => rfl
  | cons e l ih =>
    obtain ⟨k', x⟩ := e
    unfold delX
    by_cases h : k' = k
    · simp only [h, if_true]; exact ih
    · simp only [h, if_false, getX]; exact ih

theorem getX_delX_ne {k k' : Key} (h : k' ≠ k) (l : List (Key × Xfer)) :
    getX k (delX k' l) = getX k l := by
  induction l with
  | nil => rfl
  | cons e l ih =>
    obtain ⟨k2, x⟩ := e
    unfold delX
    by_cases h2 : k2 = k'
    · have : k2 ≠ k := by rw [h2]; exact h
      simp only [h2, if_true, getX]
      rw [ih]; simp [h]
    · simp only [h2, if_false, getX, ih]

theorem getX_putX_self (k : Key) (x : Xfer) (l : List (Key × Xfer)) :
    getX k (putX k x l) = some x := by
  simp [putX, getX]

theorem getX_putX_ne {k k' : Key} (h : k' ≠ k) (x : Xfer) (l : List (Key × Xfer)) :
    getX k (putX k' x l) = getX k l := by
  simp only [putX, getX, h, if_false]; exact getX_delX_ne h l

/-! ### slice assignment -/

theorem splice_getElem? (buf p : Bytes) (off i : Nat) (h : off + p.length ≤ buf.length) :
    (splice buf off p)[i]? = if off ≤ i ∧ i < off + p.length then p[i - off]? else buf[i]? := by
  unfold splice
  have hto : (buf.take off).length = off := by simp [List.length_take]; omega
  by_cases h1 : i < off
  · have : ¬ (off ≤ i ∧ i < off + p.length) := by omega
    simp only [this, if_false]
    rw [List.append_assoc, List.getElem?_append_left (by omega)]
    rw [List.getElem?_take]; simp [h1]
  · by_cases h2 : i < off + p.length
    · have : (off ≤ i ∧ i < off + p.length) := by omega
      simp only [this, and_self, if_true]
      rw [List.append_assoc, List.getElem?_append_right (by omega), hto,
        List.getElem?_append_left (by omega)]
    · have : ¬ (off ≤ i ∧ i < off + p.length) := by omega
      simp only [this, if_false]
      rw [List.getElem?_append_right (by simp [List.length_append, hto]; omega)]
      rw [List.getElem?_drop]
      simp only [List.length_append, hto]
      congr 1; omega

/-! ### coverage -/

theorem complete_iff (x : Xfer) :
    complete x = true ↔
      (∀ i, i < x.total → ∃ r ∈ x.valid, inRange r i = true) ∧
      (∀ r ∈ x.valid, r.1 < r.2 → r.2 ≤ x.total) := by
  simp only [complete, Bool.and_eq_true, List.all_eq_true, List.any_eq_true, List.mem_range,
    decide_eq_true_eq]

theorem inRange_iff (r : Nat × Nat) (i : Nat) : inRange r i = true ↔ r.1 ≤ i ∧ i < r.2 := by
  simp [inRange]

/-- `x` holds octets of `data` wherever it claims coverage, and claims nothing beyond it. -/
def Inv (data : Bytes) (x : Xfer) : Prop :=
  x.total = data.length ∧ x.data.length = data.length ∧
  ∀ r ∈ x.valid, r.2 ≤ data.length ∧ ∀ i, r.1 ≤ i → i < r.2 → x.data[i]? = data[i]?

/-- A `(total, offset, chunk)` message that really is a slice of `data`. -/
def GenuineT (data : Bytes) (t : Nat × Nat × Bytes) : Prop :=
  t.1 = data.length ∧ t.2.1 + t.2.2.length ≤ data.length ∧
  t.2.2 = (data.drop t.2.1).take t.2.2.length

theorem chunk_get (data chunk : Bytes) (off i : Nat)
    (hc : chunk = (data.drop off).take chunk.length) (h1 : off ≤ i) (h2 : i < off + chunk.length) :
    chunk[i - off]? = data[i]? := by
  rw [hc, List.getElem?_take, List.getElem?_drop]
  have : i - off < chunk.length := by omega
  simp only [this, if_true]
  congr 1; omega

theorem inv_fresh (data : Bytes) : Inv data ⟨data.length, [], List.replicate data.length 0⟩ := by
  refine ⟨rfl, by simp, ?_⟩
  intro r hr; cases hr

theorem inv_upd (data : Bytes) (x : Xfer) (off : Nat) (chunk : Bytes) (hx : Inv data x)
    (hlen : off + chunk.length ≤ data.length)
    (hc : chunk = (data.drop off).take chunk.length) : Inv data (upd x off chunk) := by
  obtain ⟨ht, hl, hv⟩ := hx
  have hfit : off + chunk.length ≤ x.data.length := by omega
  refine ⟨ht, ?_, ?_⟩
  · show (splice x.data off chunk).length = data.length
    rw [splice_length _ _ _ hfit]; exact hl
  · intro r hr
    have key : ∀ i, (r.2 ≤ data.length ∧ (r.1 ≤ i → i < r.2 → x.data[i]? = data[i]?)) ∨
        (r = (off, off + chunk.length)) := by
      intro i
      rcases List.mem_cons.mp hr with h | h
      · exact Or.inr h
      · exact Or.inl ⟨(hv r h).1, (hv r h).2 i⟩
    refine ⟨?_, ?_⟩
    · rcases key 0 with h | h
      · exact h.1
      · rw [h]; exact hlen
    · intro i h1 h2
      show (splice x.data off chunk)[i]? = data[i]?
      rw [splice_getElem? _ _ _ _ hfit]
      by_cases hin : off ≤ i ∧ i < off + chunk.length
      · simp only [hin, and_self, if_true]
        exact chunk_get data chunk off i hc hin.1 hin.2
      · simp only [hin, if_false]
        rcases key i with h | h
        · exact h.2 h1 h2
        · rw [h] at h1 h2; exact absurd ⟨h1, h2⟩ hin

theorem complete_data (data : Bytes) (x : Xfer) (hx : Inv data x) (hc : complete x = true) :
    x.data = data := by
  obtain ⟨ht, hl, hv⟩ := hx
  obtain ⟨hcov, _⟩ := (complete_iff x).mp hc
  apply List.ext_getElem?
  intro i
  by_cases hi : i < data.length
  · obtain ⟨r, hr, hin⟩ := hcov i (by omega)
    obtain ⟨h1, h2⟩ := (inRange_iff r i).mp hin
    exact (hv r hr).2 i h1 h2
  · rw [List.getElem?_eq_none (by omega), List.getElem?_eq_none (by omega)]

/-! ### one step, seen from transfer `k` -/

theorem queued_addRx (k : Key) (s : Rx) (q : QItem) :
    queued k (addRx s q) = queued k s ++ (if fromKey k (s.rxId, q) = true then [q] else []) := by
  simp only [queued, addRx, List.filter_append, List.map_append]
  by_cases h : fromKey k (s.rxId, q) = true <;> simp [List.filter, h]

theorem fromKey_other {k k' : Key} (h : k' ≠ k) (n len : Nat) (d : Bytes) :
    fromKey k (n, ⟨k'.addr, k'.port, some k'.xid, len, d⟩) = false := by
  cases hk : fromKey k (n, ⟨k'.addr, k'.port, some k'.xid, len, d⟩) with
  | false => rfl
  | true =>
    exfalso; apply h
    simp only [fromKey, Bool.and_eq_true, decide_eq_true_eq, Option.some.injEq] at hk
    obtain ⟨⟨h1, h2⟩, h3⟩ := hk
    cases k; cases k'; simp_all

theorem fromKey_self (k : Key) (n len : Nat) (d : Bytes) :
    fromKey k (n, ⟨k.addr, k.port, some k.xid, len, d⟩) = true := by
  simp [fromKey]

theorem fromKey_bundle (k : Key) (n len : Nat) (a : String) (p : Nat) (d : Bytes) :
    fromKey k (n, ⟨a, p, none, len, d⟩) = false := by
  simp [fromKey]

theorem applyFrag_other {k k' : Key} (h : k' ≠ k) (s : Rx) (x : Xfer) (off : Nat) (chunk : Bytes) :
    getX k (applyFrag s k' x off chunk).frags = getX k s.frags ∧
    queued k (applyFrag s k' x off chunk) = queued k s := by
  unfold applyFrag
  split
  · refine ⟨?_, ?_⟩
    · simp only [addRx]; exact getX_delX_ne h _
    · rw [queued_addRx, fromKey_other h]; simp [queued]
  · exact ⟨getX_putX_ne h _ _, rfl⟩

theorem applyFrag_self (k : Key) (s : Rx) (x : Xfer) (off : Nat) (chunk : Bytes) :
    (complete (upd x off chunk) = true →
      getX k (applyFrag s k x off chunk).frags = none ∧
      queued k (applyFrag s k x off chunk) =
        queued k s ++ [⟨k.addr, k.port, some k.xid, x.total, (upd x off chunk).data⟩]) ∧
    (complete (upd x off chunk) = false →
      getX k (applyFrag s k x off chunk).frags = some (upd x off chunk) ∧
      queued k (applyFrag s k x off chunk) = queued k s) := by
  unfold applyFrag
  refine ⟨?_, ?_⟩
  · intro hc
    simp only [hc, if_true]
    refine ⟨?_, ?_⟩
    · simp only [addRx]; exact getX_delX_self k _
    · rw [queued_addRx, fromKey_self]; simp [queued, upd]
  · intro hc
    simp only [hc, Bool.false_eq_true, if_false]
    exact ⟨getX_putX_self k _ _, rfl⟩

theorem step_xfer (s : Rx) (k : Key) (total off : Nat) (chunk : Bytes) :
    step s (.xfer k total off chunk) =
      match getX k s.frags with
      | some x => if total ≠ x.total then s else applyFrag s k x off chunk
      | none => applyFrag s k ⟨total, [], List.replicate total 0⟩ off chunk := by
  simp only [step, recvTransfer]
  cases getX k s.frags with
  | none => rfl
  | some x => by_cases h : total ≠ x.total <;> simp [h]

/-- A message that does not belong to transfer `k` leaves `k`'s table entry and queue entries alone. -/
theorem step_xfer_other {k k' : Key} (h : k' ≠ k) (s : Rx) (total off : Nat) (chunk : Bytes) :
    getX k (step s (.xfer k' total off chunk)).frags = getX k s.frags ∧
    queued k (step s (.xfer k' total off chunk)) = queued k s := by
  rw [step_xfer]
  cases getX k' s.frags with
  | none => exact applyFrag_other h _ _ _ _
  | some x =>
    by_cases ht : total ≠ x.total
    · show getX k (if total ≠ x.total then s else _).frags = _ ∧ queued k (if total ≠ x.total then s else _) = _
      rw [if_pos ht]; exact ⟨rfl, rfl⟩
    · show getX k (if total ≠ x.total then s else _).frags = _ ∧ queued k (if total ≠ x.total then s else _) = _
      rw [if_neg ht]; exact applyFrag_other h _ _ _ _

theorem step_bundle (k : Key) (s : Rx) (a : String) (p : Nat) (d : Bytes) :
    getX k (step s (.bundle a p d)).frags = getX k s.frags ∧
    queued k (step s (.bundle a p d)) = queued k s := by
  unfold step
  refine ⟨rfl, ?_⟩
  rw [queued_addRx, fromKey_bundle]; simp

/-- The table entry the next fragment of `k` is applied to. -/
def base (k : Key) (s : Rx) (total : Nat) : Xfer :=
  match getX k s.frags with
  | some x => x
  | none => ⟨total, [], List.replicate total 0⟩

/-- The table entry of transfer `k`, if any, is consistent with `data`. -/
def JE (data : Bytes) (k : Key) (s : Rx) : Prop :=
  ∀ x, getX k s.frags = some x → Inv data x

def entryValid (k : Key) (s : Rx) : List (Nat × Nat) :=
  match getX k s.frags with
  | some x => x.valid
  | none => []

theorem base_inv (data : Bytes) (k : Key) (s : Rx) (hJ : JE data k s) :
    Inv data (base k s data.length) := by
  unfold base
  cases h : getX k s.frags with
  | none => exact inv_fresh data
  | some x => exact hJ x h

theorem base_valid (k : Key) (s : Rx) (total : Nat) : (base k s total).valid = entryValid k s := by
  unfold base entryValid
  cases getX k s.frags <;> rfl

theorem step_self (data : Bytes) (k : Key) (s : Rx) (off : Nat) (chunk : Bytes)
    (hJ : JE data k s) :
    step s (.xfer k data.length off chunk) = applyFrag s k (base k s data.length) off chunk := by
  rw [step_xfer]; unfold base
  cases h : getX k s.frags with
  | none => rfl
  | some x =>
    have : x.total = data.length := (hJ x h).1
    simp [this]

/-- The queue entry a finished transfer `k` of `data` produces. -/
def item (k : Key) (data : Bytes) : QItem := ⟨k.addr, k.port, some k.xid, data.length, data⟩

/-- One genuine message of transfer `k`. -/
theorem step_k (data : Bytes) (k : Key) (s : Rx) (off : Nat) (chunk : Bytes) (hJ : JE data k s)
    (hg : GenuineT data (data.length, off, chunk)) :
    Inv data (upd (base k s data.length) off chunk) ∧
    (complete (upd (base k s data.length) off chunk) = true →
      getX k (step s (.xfer k data.length off chunk)).frags = none ∧
      queued k (step s (.xfer k data.length off chunk)) = queued k s ++ [item k data]) ∧
    (complete (upd (base k s data.length) off chunk) = false →
      getX k (step s (.xfer k data.length off chunk)).frags =
        some (upd (base k s data.length) off chunk) ∧
      queued k (step s (.xfer k data.length off chunk)) = queued k s) := by
  have hb := base_inv data k s hJ
  have hi := inv_upd data _ off chunk hb hg.2.1 hg.2.2
  rw [step_self data k s off chunk hJ]
  obtain ⟨h1, h2⟩ := applyFrag_self k s (base k s data.length) off chunk
  refine ⟨hi, ?_, h2⟩
  intro hc
  obtain ⟨ha, hb'⟩ := h1 hc
  refine ⟨ha, ?_⟩
  rw [hb', complete_data data _ hi hc, hb.1]; rfl

/-- Case analysis on a message from the point of view of transfer `k`. -/
theorem ev_cases (k : Key) (e : Ev) :
    (∃ total off chunk, e = .xfer k total off chunk) ∨
    ((∀ rest, kev k (e :: rest) = kev k rest) ∧
     (∀ s, getX k (step s e).frags = getX k s.frags ∧ queued k (step s e) = queued k s)) := by
  cases e with
  | bundle a p d => exact Or.inr ⟨fun _ => rfl, fun s => step_bundle k s a p d⟩
  | xfer k' total off chunk =>
    by_cases h : k' = k
    · subst h; exact Or.inl ⟨total, off, chunk, rfl⟩
    · exact Or.inr ⟨fun _ => by simp [kev, h], fun s => step_xfer_other h s total off chunk⟩

theorem kev_self (k : Key) (total off : Nat) (chunk : Bytes) (rest : List Ev) :
    kev k (.xfer k total off chunk :: rest) = (total, off, chunk) :: kev k rest := by
  simp [kev]

theorem kev_append (k : Key) (a b : List Ev) : kev k (a ++ b) = kev k a ++ kev k b := by
  induction a with
  | nil => rfl
  | cons e a ih =>
    rcases ev_cases k e with ⟨t, o, c, rfl⟩ | ⟨hk, _⟩
    · simp only [List.cons_append, kev_self, ih]
    · simp only [List.cons_append, hk, ih]

theorem run_cons (s : Rx) (e : Ev) (rest : List Ev) : run s (e :: rest) = run (step s e) rest := rfl

theorem run_append (s : Rx) (a b : List Ev) : run s (a ++ b) = run (run s a) b := by
  simp [run, List.foldl_append]

theorem JE_of_eq {data : Bytes} {k : Key} {s s' : Rx} (h : getX k s'.frags = getX k s.frags)
    (hJ : JE data k s) : JE data k s' := by
  intro x hx; rw [h] at hx; exact hJ x hx

theorem entryValid_of_eq {k : Key} {s s' : Rx} (h : getX k s'.frags = getX k s.frags) :
    entryValid k s' = entryValid k s := by
  unfold entryValid; rw [h]

/-- Messages of other transfers and whole bundles do not touch transfer `k`. -/
theorem run_frame (k : Key) : ∀ (evs : List Ev) (s : Rx), kev k evs = [] →
    getX k (run s evs).frags = getX k s.frags ∧ queued k (run s evs) = queued k s := by
  intro evs
  induction evs with
  | nil => intro s _; exact ⟨rfl, rfl⟩
  | cons e rest ih =>
    intro s h
    rcases ev_cases k e with ⟨t, o, c, rfl⟩ | ⟨hk, hf⟩
    · rw [kev_self] at h; cases h
    · rw [hk] at h
      obtain ⟨h1, h2⟩ := ih (step s e) h
      rw [run_cons, h1, h2]; exact hf s

/-- Any genuine messages of `k`, in any number and order: the entry stays consistent and every
    new queue entry of `k` is `data`. -/
theorem run_dup (data : Bytes) (k : Key) : ∀ (evs : List Ev) (s : Rx), JE data k s →
    (∀ t ∈ kev k evs, GenuineT data t) →
    JE data k (run s evs) ∧ ∃ n, queued k (run s evs) = queued k s ++ List.replicate n (item k data) := by
  intro evs
  induction evs with
  | nil => intro s hJ _; exact ⟨hJ, 0, by simp [run]⟩
  | cons e rest ih =>
    intro s hJ hg
    rcases ev_cases k e with ⟨t, o, c, rfl⟩ | ⟨hk, hf⟩
    · rw [kev_self] at hg
      have hg0 := hg _ (List.mem_cons_self)
      have ht : t = data.length := hg0.1
      subst ht
      obtain ⟨hi, hT, hF⟩ := step_k data k s o c hJ hg0
      cases hc : complete (upd (base k s data.length) o c) with
      | true =>
        obtain ⟨h1, h2⟩ := hT hc
        have hJ' : JE data k (step s (.xfer k data.length o c)) := by
          intro x hx; rw [h1] at hx; cases hx
        obtain ⟨hJ2, n, hn⟩ := ih _ hJ' (fun t ht => hg t (List.mem_cons_of_mem _ ht))
        refine ⟨hJ2, n + 1, ?_⟩
        rw [run_cons, hn, h2, List.append_assoc]
        congr 1
      | false =>
        obtain ⟨h1, h2⟩ := hF hc
        have hJ' : JE data k (step s (.xfer k data.length o c)) := by
          intro x hx; rw [h1] at hx; cases hx; exact hi
        obtain ⟨hJ2, n, hn⟩ := ih _ hJ' (fun t ht => hg t (List.mem_cons_of_mem _ ht))
        exact ⟨hJ2, n, by rw [run_cons, hn, h2]⟩
    · rw [hk] at hg
      obtain ⟨hJ2, n, hn⟩ := ih _ (JE_of_eq (hf s).1 hJ) hg
      exact ⟨hJ2, n, by rw [run_cons, hn, (hf s).2]⟩

/-! ### each segment once -/

/-- the octet range of a `(total, offset, chunk)` message -/
def rng (t : Nat × Nat × Bytes) : Nat × Nat := (t.2.1, t.2.1 + t.2.2.length)

/-- two ranges share no index -/
def DisjR (a b : Nat × Nat) : Prop := ∀ i, ¬ (inRange a i = true ∧ inRange b i = true)

theorem entryValid_some {k : Key} {s : Rx} {x : Xfer} (h : getX k s.frags = some x) :
    entryValid k s = x.valid := by
  unfold entryValid; rw [h]

/-- a non-empty genuine range whose indices nobody has yet keeps the transfer incomplete -/
theorem not_complete_of_missing (data : Bytes) (x : Xfer) (hx : Inv data x)
    (m : Nat × Nat × Bytes) (hm : GenuineT data m) (hpos : 0 < m.2.2.length)
    (hd : ∀ a ∈ x.valid, DisjR a (rng m)) : complete x = false := by
  cases hc : complete x with
  | false => rfl
  | true =>
    exfalso
    obtain ⟨hcov, _⟩ := (complete_iff x).mp hc
    have hlt : m.2.1 < x.total := by rw [hx.1]; have := hm.2.1; omega
    obtain ⟨r, hr, hin⟩ := hcov m.2.1 hlt
    apply hd r hr m.2.1
    refine ⟨hin, ?_⟩
    rw [inRange_iff]; simp only [rng]; omega

/-- While a segment of `k` is still to come, nothing of `k` is queued. -/
theorem missing_main (data : Bytes) (k : Key) (m : Nat × Nat × Bytes) (hm : GenuineT data m)
    (hpos : 0 < m.2.2.length) : ∀ (evs : List Ev) (s : Rx), JE data k s →
    (∀ t ∈ kev k evs, GenuineT data t) → (∀ t ∈ kev k evs, DisjR (rng t) (rng m)) →
    (∀ a ∈ entryValid k s, DisjR a (rng m)) →
    queued k (run s evs) = queued k s ∧ JE data k (run s evs) ∧
      (∀ a ∈ entryValid k (run s evs), DisjR a (rng m)) := by
  intro evs
  induction evs with
  | nil => intro s hJ _ _ hv; exact ⟨rfl, hJ, hv⟩
  | cons e rest ih =>
    intro s hJ hg hd hv
    rcases ev_cases k e with ⟨t, o, c, rfl⟩ | ⟨hk, hf⟩
    · rw [kev_self] at hg hd
      have hg0 := hg _ (List.mem_cons_self)
      have ht : t = data.length := hg0.1
      subst ht
      obtain ⟨hi, _, hF⟩ := step_k data k s o c hJ hg0
      have hnc : complete (upd (base k s data.length) o c) = false := by
        apply not_complete_of_missing data _ hi m hm hpos
        intro a ha
        simp only [upd, base_valid] at ha
        rcases List.mem_cons.mp ha with rfl | ha
        · exact hd _ (List.mem_cons_self)
        · exact hv a ha
      obtain ⟨h1, h2⟩ := hF hnc
      have hJ' : JE data k (step s (.xfer k data.length o c)) := by
        intro x hx; rw [h1] at hx; cases hx; exact hi
      have hv' : ∀ a ∈ entryValid k (step s (.xfer k data.length o c)), DisjR a (rng m) := by
        intro a ha
        rw [entryValid_some h1] at ha
        simp only [upd, base_valid] at ha
        rcases List.mem_cons.mp ha with rfl | ha
        · exact hd _ (List.mem_cons_self)
        · exact hv a ha
      obtain ⟨r1, r2, r3⟩ := ih _ hJ' (fun t ht => hg t (List.mem_cons_of_mem _ ht))
        (fun t ht => hd t (List.mem_cons_of_mem _ ht)) hv'
      exact ⟨by rw [run_cons, r1, h2], r2, r3⟩
    · rw [hk] at hg hd
      obtain ⟨r1, r2, r3⟩ := ih _ (JE_of_eq (hf s).1 hJ) hg hd
        (by rw [entryValid_of_eq (hf s).1]; exact hv)
      exact ⟨by rw [run_cons, r1, (hf s).2], r2, r3⟩

/-- Each segment of `k` exactly once (pairwise disjoint non-empty genuine ranges that together
    with what the entry already has cover everything), any order, anything else in between:
    exactly one entry `data` is queued and the table entry is gone. -/
theorem reasm_main (data : Bytes) (k : Key) : ∀ (evs : List Ev) (s : Rx), JE data k s →
    (∀ t ∈ kev k evs, GenuineT data t) → kev k evs ≠ [] →
    List.Pairwise DisjR ((kev k evs).map rng) → (∀ t ∈ kev k evs, 0 < t.2.2.length) →
    (∀ a ∈ entryValid k s, ∀ t ∈ kev k evs, DisjR a (rng t)) →
    (∀ i, i < data.length → (∃ a ∈ entryValid k s, inRange a i = true) ∨
        (∃ t ∈ kev k evs, inRange (rng t) i = true)) →
    getX k (run s evs).frags = none ∧ queued k (run s evs) = queued k s ++ [item k data] := by
  intro evs
  induction evs with
  | nil => intro s _ _ hne; exact absurd rfl hne
  | cons e rest ih =>
    intro s hJ hg hne hpw hpos hdis hcov
    rcases ev_cases k e with ⟨t, o, c, rfl⟩ | ⟨hk, hf⟩
    · rw [kev_self] at hg hpw hpos hdis hcov
      have hg0 := hg _ (List.mem_cons_self)
      have ht : t = data.length := hg0.1
      subst ht
      obtain ⟨hi, hT, hF⟩ := step_k data k s o c hJ hg0
      simp only [List.map_cons, List.pairwise_cons] at hpw
      obtain ⟨hpw0, hpw'⟩ := hpw
      by_cases hrest : kev k rest = []
      · -- last segment: complete now
        have hc : complete (upd (base k s data.length) o c) = true := by
          rw [complete_iff]
          refine ⟨?_, ?_⟩
          · intro i hi'
            rw [hi.1] at hi'
            simp only [upd, base_valid]
            rcases hcov i hi' with ⟨a, ha, hin⟩ | ⟨t, ht, hin⟩
            · exact ⟨a, List.mem_cons_of_mem _ ha, hin⟩
            · rw [hrest] at ht
              rcases List.mem_cons.mp ht with rfl | ht
              · exact ⟨_, List.mem_cons_self, hin⟩
              · cases ht
          · intro r hr _
            rw [hi.1]; exact (hi.2.2 r hr).1
        obtain ⟨h1, h2⟩ := hT hc
        obtain ⟨f1, f2⟩ := run_frame k rest (step s (.xfer k data.length o c)) hrest
        exact ⟨by rw [run_cons, f1, h1], by rw [run_cons, f2, h2]⟩
      · -- another segment is still to come
        obtain ⟨m, hmem⟩ : ∃ m, m ∈ kev k rest := by
          cases hkr : kev k rest with
          | nil => exact absurd hkr hrest
          | cons m _ => exact ⟨m, List.mem_cons_self⟩
        have hnc : complete (upd (base k s data.length) o c) = false := by
          apply not_complete_of_missing data _ hi m (hg m (List.mem_cons_of_mem _ hmem))
            (hpos m (List.mem_cons_of_mem _ hmem))
          intro a ha
          simp only [upd, base_valid] at ha
          rcases List.mem_cons.mp ha with rfl | ha
          · exact hpw0 (rng m) (List.mem_map_of_mem hmem)
          · exact hdis a ha m (List.mem_cons_of_mem _ hmem)
        obtain ⟨h1, h2⟩ := hF hnc
        have hJ' : JE data k (step s (.xfer k data.length o c)) := by
          intro x hx; rw [h1] at hx; cases hx; exact hi
        have hev : entryValid k (step s (.xfer k data.length o c)) =
            (o, o + c.length) :: entryValid k s := by
          rw [entryValid_some h1]; simp only [upd, base_valid]
        obtain ⟨r1, r2⟩ := ih _ hJ' (fun t ht => hg t (List.mem_cons_of_mem _ ht)) hrest hpw'
          (fun t ht => hpos t (List.mem_cons_of_mem _ ht))
          (by
            intro a ha t ht
            rw [hev] at ha
            rcases List.mem_cons.mp ha with rfl | ha
            · exact hpw0 (rng t) (List.mem_map_of_mem ht)
            · exact hdis a ha t (List.mem_cons_of_mem _ ht))
          (by
            intro i hi'
            rw [hev]
            rcases hcov i hi' with ⟨a, ha, hin⟩ | ⟨t, ht, hin⟩
            · exact Or.inl ⟨a, List.mem_cons_of_mem _ ha, hin⟩
            · rcases List.mem_cons.mp ht with rfl | ht
              · exact Or.inl ⟨_, List.mem_cons_self, hin⟩
              · exact Or.inr ⟨t, ht, hin⟩)
        exact ⟨by rw [run_cons, r1], by rw [run_cons, r2, h2]⟩
    · rw [hk] at hg hne hpw hpos hdis hcov
      obtain ⟨r1, r2⟩ := ih _ (JE_of_eq (hf s).1 hJ) hg hne hpw hpos
        (by rw [entryValid_of_eq (hf s).1]; exact hdis)
        (by rw [entryValid_of_eq (hf s).1]; exact hcov)
      exact ⟨by rw [run_cons, r1], by rw [run_cons, r2, (hf s).2]⟩

end Udpcl
end DtnVerif
