/-
  The negotiated keepalive interval is positive only if the configured one is: `kaTime` is only ever
  set by `merge_session_params`, to the minimum of the configured and the announced value.
  (Generated from the pattern of Lemmas/TcpclCfg.lean.)
-/
import DtnVerif.Lemmas.TcpclCfg
namespace DtnVerif
namespace Tcpcl

def KC (e : Ep) : Prop := 0 < e.kaTime → 0 < e.cfg.keepalive

theorem kc_of_eq {e e' : Ep} (h1 : e'.cfg = e.cfg) (h2 : e'.kaTime = e.kaTime) (hi : KC e) : KC e' := by
  unfold KC at *
  rw [h1, h2]; exact hi

@[simp] theorem kat_kaReset (e : Ep) : (kaReset e).kaTime = e.kaTime := rfl
@[simp] theorem kat_idleReset (e : Ep) : (idleReset e).kaTime = e.kaTime := rfl
@[simp] theorem kat_sendMessage (e : Ep) (m : Msg) : (sendMessage e m).kaTime = e.kaTime := rfl
@[simp] theorem kat_pqTrigger (e : Ep) : (pqTrigger e).kaTime = e.kaTime := by
  unfold pqTrigger; split <;> rfl
@[simp] theorem kat_setState (e : Ep) (s : String) : (setState e s).1.kaTime = e.kaTime := by
  unfold setState; split <;> rfl
@[simp] theorem kat_flush (e : Ep) : (flushPendStart e).1.kaTime = e.kaTime := rfl
@[simp] theorem kat_doClose (e : Ep) : (doClose e).1.kaTime = e.kaTime := by
  unfold doClose; split <;> rfl
@[simp] theorem kat_checkSessTerm (e : Ep) : (checkSessTerm e).1.kaTime = e.kaTime := by
  unfold checkSessTerm; split
  · exact kat_doClose e
  · rfl
@[simp] theorem kat_sendBufferDecreased (e : Ep) : (sendBufferDecreased e).kaTime = e.kaTime := by
  unfold sendBufferDecreased; split
  · exact kat_pqTrigger e
  · rfl
@[simp] theorem kat_sendContact (e : Ep) : (sendContact e).kaTime = e.kaTime := rfl
@[simp] theorem kat_sendInit (e : Ep) : (sendInit e).kaTime = e.kaTime := rfl
@[simp] theorem kat_sendReject (e : Ep) (r : Nat) (m : Msg) : (sendReject e r m).kaTime = e.kaTime := rfl
@[simp] theorem kat_sendSessTerm (e : Ep) (r : Nat) (b : Bool) : (sendSessTerm e r b).1.kaTime = e.kaTime := by
  unfold sendSessTerm
  split
  · rfl
  · split
    · rfl
    · simp
@[simp] theorem kat_sendSegment (e : Ep) (it : TxItem) (s : Nat) : (sendSegment e it s).1.kaTime = e.kaTime := by
  unfold sendSegment
  simp only []
  split
  · rfl
  · split <;> simp
@[simp] theorem kat_processQueue (e : Ep) : (processQueue e).1.kaTime = e.kaTime := by
  unfold processQueue
  split
  · simp
  · split
    · rfl
    · split
      · simp
      · split
        · rfl
        · simp
@[simp] theorem kat_pullTx (e : Ep) : (pullTx e).kaTime = e.kaTime := by
  unfold pullTx; split <;> simp

@[simp] theorem kat_writeConn (e : Ep) (n : Nat) (up : Bool) : (writeConn e n up).1.kaTime = e.kaTime := by
  unfold writeConn
  split
  · split
    · simp
    · rfl
  · simp only []
    split
    · simp
    · split
      · simp
      · rfl

@[simp] theorem kat_pump (e : Ep) (n : Nat) : (pump e n).1.kaTime = e.kaTime := by
  unfold pump; simp

@[simp] theorem kat_onContact (e : Ep) : (onContact e).1.kaTime = e.kaTime := by
  unfold onContact; simp only []; cases e.cfg.passive <;> simp
@[simp] theorem kat_onSessTerm (e : Ep) (m : Msg) (r : Nat) : (onSessTerm e m r).1.kaTime = e.kaTime := by
  unfold onSessTerm
  split
  · rfl
  · simp only [kat_checkSessTerm, kat_flush]
    split <;> simp
@[simp] theorem kat_segAccept (e : Ep) (f t : Nat) (c d : Bytes) (o : List Out) :
    (segAccept e f t c d o).1.kaTime = e.kaTime := by
  unfold segAccept; simp only []; split <;> simp
@[simp] theorem kat_onSegment (e : Ep) (m : Msg) (f t : Nat) (d : Bytes) :
    (onSegment e m f t d).1.kaTime = e.kaTime := by
  unfold onSegment
  split
  · rfl
  · split
    · simp
    · split
      · split <;> simp
      · rfl
@[simp] theorem kat_onAck (e : Ep) (m : Msg) (f t l : Nat) : (onAck e m f t l).1.kaTime = e.kaTime := by
  unfold onAck
  split
  · rfl
  · split
    · rfl
    · split
      · split <;> simp
      · rfl
@[simp] theorem kat_onRefuse (e : Ep) (m : Msg) (r t : Nat) : (onRefuse e m r t).1.kaTime = e.kaTime := by
  unfold onRefuse
  split
  · rfl
  · split
    · rfl
    · simp only [kat_checkSessTerm]
      split
      · split <;> simp
      · rfl
theorem kat_step_nonrx (e : Ep) (ev : Ev) (hne : ∀ c, ev ≠ .rx c) : (step e ev).1.kaTime = e.kaTime := by
  unfold step
  cases ev with
  | pump n => simp only []; split <;> (try split) <;> simp
  | advance ms => rfl
  | start =>
    simp only []
    split
    · rfl
    · split
      · rfl
      · simp only [kat_setState]; split <;> simp
  | send d => simp only []; split <;> simp
  | terminate r => simp only []; split <;> simp
  | close => simp only []; split <;> simp
  | pop t =>
    simp only []
    have : (popRx e t).1.kaTime = e.kaTime := by unfold popRx; split <;> rfl
    split <;> simp [this]
  | query q => simp only []; split <;> rfl
  | procQueue =>
    simp only []
    split
    · rfl
    · split
      · rfl
      · simp
  | rx c => exact absurd rfl (hne c)
  | rxEof => simp only []; split <;> simp
  | keepaliveTimer =>
    simp only []
    split
    · rfl
    · split <;> simp
  | idleTimer =>
    simp only []
    split
    · rfl
    · split
      · rfl
      · split <;> simp
  | modulate raw =>
    simp only []
    split
    · rfl
    · split <;> rfl


theorem kat_handleMsg_noninit (e : Ep) (m : Msg) (hm : ∀ a b c d x, m ≠ .sessInit a b c d x) :
    (handleMsg e m).1.kaTime = e.kaTime := by
  unfold handleMsg
  cases m with
  | sessInit a b c d x => exact absurd rfl (hm a b c d x)
  | contact f => simp
  | sessTerm f r => simp
  | keepalive => rfl
  | msgReject a b => rfl
  | xferSegment f t x d => simp
  | xferAck f t l => simp
  | xferRefuse r t => simp

theorem kc_onSessInit (e : Ep) (p : PeerInit) (hi : KC e) : KC (onSessInit e p).1 := by
  unfold KC at *
  intro h
  rw [cfg_onSessInit]
  have hk : (onSessInit e p).1.kaTime = min e.cfg.keepalive p.keepalive := by
    unfold onSessInit
    simp only []
    have : ∀ x : Ep, (setState x "established").1.kaTime = x.kaTime := fun x => by unfold setState; split <;> rfl
    rw [this]
    cases e.cfg.passive <;> simp [mergeSession, kaReset, idleReset, sendInit, sendMessage, sendReady]
  rw [hk] at h
  omega

theorem kc_handleMsg (e : Ep) (m : Msg) (hi : KC e) : KC (handleMsg e m).1 := by
  have h0 : KC { e with processed := e.processed ++ [m] } := hi
  unfold handleMsg
  cases m with
  | sessInit a b c d x => exact kc_onSessInit _ _ h0
  | contact f => exact kc_of_eq (by simp) (by simp) hi
  | sessTerm f r => exact kc_of_eq (by simp) (by simp) hi
  | keepalive => exact hi
  | msgReject a b => exact hi
  | xferSegment f t x d => exact kc_of_eq (by simp) (by simp) hi
  | xferAck f t l => exact kc_of_eq (by simp) (by simp) hi
  | xferRefuse r t => exact kc_of_eq (by simp) (by simp) hi

theorem kc_handleMsgs (ms : List Msg) (e : Ep) (hi : KC e) : KC (handleMsgs e ms).1 := by
  induction ms generalizing e with
  | nil => exact hi
  | cons m ms ih =>
    unfold handleMsgs
    split
    · exact hi
    · exact ih _ (kc_handleMsg _ m hi)

theorem kc_recvRaw (e : Ep) (c : Bytes) (hi : KC e) : KC (recvRaw e c).1 := by
  unfold recvRaw
  simp only []
  have h1 : KC (handleMsgs (rxEntry e c) (feed e.rx c).2).1 := kc_handleMsgs _ _ (by exact hi)
  split
  · exact kc_of_eq (by simp) (by simp) h1
  · exact h1

theorem kc_step (e : Ep) (ev : Ev) (hi : KC e) : KC (step e ev).1 := by
  cases ev with
  | rx c =>
    unfold step
    simp only []
    split
    · exact hi
    · exact kc_recvRaw e c hi
  | pump n => exact kc_of_eq (cfg_step e _) (kat_step_nonrx e _ (by intro c h; cases h)) hi
  | advance ms => exact kc_of_eq (cfg_step e _) (kat_step_nonrx e _ (by intro c h; cases h)) hi
  | start => exact kc_of_eq (cfg_step e _) (kat_step_nonrx e _ (by intro c h; cases h)) hi
  | send d => exact kc_of_eq (cfg_step e _) (kat_step_nonrx e _ (by intro c h; cases h)) hi
  | terminate r => exact kc_of_eq (cfg_step e _) (kat_step_nonrx e _ (by intro c h; cases h)) hi
  | close => exact kc_of_eq (cfg_step e _) (kat_step_nonrx e _ (by intro c h; cases h)) hi
  | pop t => exact kc_of_eq (cfg_step e _) (kat_step_nonrx e _ (by intro c h; cases h)) hi
  | query q => exact kc_of_eq (cfg_step e _) (kat_step_nonrx e _ (by intro c h; cases h)) hi
  | procQueue => exact kc_of_eq (cfg_step e _) (kat_step_nonrx e _ (by intro c h; cases h)) hi
  | rxEof => exact kc_of_eq (cfg_step e _) (kat_step_nonrx e _ (by intro c h; cases h)) hi
  | keepaliveTimer => exact kc_of_eq (cfg_step e _) (kat_step_nonrx e _ (by intro c h; cases h)) hi
  | idleTimer => exact kc_of_eq (cfg_step e _) (kat_step_nonrx e _ (by intro c h; cases h)) hi
  | modulate raw => exact kc_of_eq (cfg_step e _) (kat_step_nonrx e _ (by intro c h; cases h)) hi

theorem kc_init (cfg : Cfg) : KC { cfg := cfg } := by
  intro h; cases h

end Tcpcl
end DtnVerif
