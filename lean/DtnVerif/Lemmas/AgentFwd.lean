/-
  Lemmas about the container edits of `_do_fwd` (Model/Container.lean, Model/BpAgent.lean):
  which blocks survive, which are added, block numbers, order. Used by Props/C11.
-/
import DtnVerif.Lemmas.Agent
namespace DtnVerif
namespace Agent
open Bp

/-! ### list helpers -/

theorem nodup_map_inj {α β : Type} (f : α → β) (l : List α) (h : (l.map f).Nodup) (a b : α)
    (ha : a ∈ l) (hb : b ∈ l) (hf : f a = f b) : a = b := by
  induction l with
  | nil => simp at ha
  | cons x l ih =>
    simp only [List.map_cons, List.nodup_cons] at h
    rcases List.mem_cons.1 ha with rfl | ha' <;> rcases List.mem_cons.1 hb with rfl | hb'
    · rfl
    · exact absurd (hf ▸ List.mem_map_of_mem hb') h.1
    · exact absurd (hf ▸ List.mem_map_of_mem ha') h.1
    · exact ih h.2 ha' hb'

theorem mem_insertBeforeLast {α : Type} (x y : α) (l : List α) :
    x ∈ insertBeforeLast y l ↔ x = y ∨ x ∈ l := by
  induction l using insertBeforeLast.induct with
  | case1 => simp [insertBeforeLast]
  | case2 a => simp [insertBeforeLast]
  | case3 a b r ih =>
    simp only [insertBeforeLast, List.mem_cons] at ih ⊢
    rw [ih]
    constructor
    · rintro (h | h | h | h) <;> simp [h]
    · rintro (h | h | h | h) <;> simp [h]

theorem insertBeforeLast_perm {α : Type} (y : α) (l : List α) :
    (insertBeforeLast y l).Perm (y :: l) := by
  induction l using insertBeforeLast.induct with
  | case1 => simp [insertBeforeLast]
  | case2 a => simp [insertBeforeLast]
  | case3 a b r ih =>
    simp only [insertBeforeLast]
    exact (List.Perm.cons a ih).trans (List.Perm.swap y a (b :: r))

theorem insertBeforeLast_getLast {α : Type} (y : α) (l : List α) (h : l ≠ []) :
    (insertBeforeLast y l).getLast? = l.getLast? := by
  induction l using insertBeforeLast.induct with
  | case1 => simp at h
  | case2 a => simp [insertBeforeLast]
  | case3 a b r ih =>
    have := ih (by simp)
    simp only [insertBeforeLast]
    rw [List.getLast?_cons_cons] at *
    cases hh : insertBeforeLast y (b :: r) with
    | nil =>
      have := (insertBeforeLast_perm y (b :: r)).length_eq
      simp [hh] at this
    | cons c cs =>
      rw [List.getLast?_cons_cons, ← hh, this]

/-! ### `remove_block` by number -/

theorem mem_eraseP_num (l : List Blk) (n : Nat) (hnd : (l.map Blk.num).Nodup) (x : Blk) :
    x ∈ l.eraseP (fun b => b.num == n) ↔ x ∈ l ∧ x.num ≠ n := by
  induction l with
  | nil => simp
  | cons a l ih =>
    simp only [List.map_cons, List.nodup_cons] at hnd
    by_cases ha : a.num = n
    · rw [List.eraseP_cons_of_pos (by simpa using ha)]
      constructor
      · intro hx
        refine ⟨List.mem_cons_of_mem _ hx, ?_⟩
        intro hxn
        exact hnd.1 (by rw [ha, ← hxn]; exact List.mem_map_of_mem hx)
      · rintro ⟨hx, hxn⟩
        rcases List.mem_cons.1 hx with rfl | h
        · exact absurd ha hxn
        · exact h
    · rw [List.eraseP_cons_of_neg (by simpa using ha)]
      simp only [List.mem_cons, ih hnd.2]
      constructor
      · rintro (rfl | ⟨h1, h2⟩)
        · exact ⟨Or.inl rfl, ha⟩
        · exact ⟨Or.inr h1, h2⟩
      · rintro ⟨rfl | h1, h2⟩
        · exact Or.inl rfl
        · exact Or.inr ⟨h1, h2⟩

theorem removeNum_nodup (c : Ctr) (n : Nat) (h : c.nums.Nodup) : (c.removeNum n).nums.Nodup := by
  unfold Ctr.nums Ctr.removeNum
  exact List.Nodup.sublist (List.Sublist.map _ (List.eraseP_sublist)) h

theorem removeNums_nodup (c : Ctr) (ns : List Nat) (h : c.nums.Nodup) : (c.removeNums ns).nums.Nodup := by
  induction ns generalizing c with
  | nil => exact h
  | cons n ns ih => exact ih _ (removeNum_nodup c n h)

theorem mem_removeNums (c : Ctr) (ns : List Nat) (h : c.nums.Nodup) (x : Blk) :
    x ∈ (c.removeNums ns).blocks ↔ x ∈ c.blocks ∧ x.num ∉ ns := by
  induction ns generalizing c with
  | nil => simp [Ctr.removeNums]
  | cons n ns ih =>
    simp only [Ctr.removeNums]
    rw [ih _ (removeNum_nodup c n h)]
    simp only [Ctr.removeNum, mem_eraseP_num _ _ h, List.mem_cons, not_or]
    constructor
    · rintro ⟨⟨a, b⟩, c⟩; exact ⟨a, b, c⟩
    · rintro ⟨a, b, c⟩; exact ⟨⟨a, b⟩, c⟩

theorem removeNums_lastNum (c : Ctr) (ns : List Nat) : (c.removeNums ns).lastNum = c.lastNum := by
  induction ns generalizing c with
  | nil => rfl
  | cons n ns ih => simp [Ctr.removeNums, ih, Ctr.removeNum]

/-- a block whose type code is not `t` does not carry a number listed in `ctr.block_type(t)` -/
theorem num_not_in_typeNums (c : Ctr) (h : c.nums.Nodup) (x : Blk) (hx : x ∈ c.blocks) (t : Nat)
    (ht : x.c.typeCode ≠ t) : x.num ∉ c.typeNums t := by
  intro hm
  simp only [Ctr.typeNums, List.mem_map, List.mem_filter, beq_iff_eq] at hm
  obtain ⟨y, ⟨hy, hyt⟩, hn⟩ := hm
  have : y = x := by
    unfold Ctr.nums at h
    exact nodup_map_inj _ _ h _ _ hy hx hn
  subst this
  exact ht hyt

/-! ### removing every block of a type, adding a block -/

theorem removeNums_sublist (c : Ctr) (ns : List Nat) : (c.removeNums ns).blocks.Sublist c.blocks := by
  induction ns generalizing c with
  | nil => exact List.Sublist.refl _
  | cons n ns ih => exact (ih _).trans List.eraseP_sublist

theorem removeType_keep (c : Ctr) (t : Nat) (h : c.nums.Nodup) (x : Blk) (hx : x ∈ c.blocks)
    (ht : x.c.typeCode ≠ t) : x ∈ (c.removeNums (c.typeNums t)).blocks := by
  rw [mem_removeNums _ _ h]
  exact ⟨hx, num_not_in_typeNums c h x hx t ht⟩

theorem removeType_none (c : Ctr) (t : Nat) (h : c.nums.Nodup) :
    ∀ x ∈ (c.removeNums (c.typeNums t)).blocks, x.c.typeCode ≠ t := by
  intro x hx ht
  rw [mem_removeNums _ _ h] at hx
  apply hx.2
  simp only [Ctr.typeNums, List.mem_map, List.mem_filter, beq_iff_eq]
  exact ⟨x, ⟨hx.1, ht⟩, rfl⟩

/-- the fresh extension block `CanonicalBlock() / payload` -/
def newBlk (t n : Nat) (d : Bytes) : Blk :=
  { c := { typeCode := t, blockNum := n, flags := 0, crcType := 0, btsd := some d, crc := none } }

theorem mem_le_maxOf (l : List Nat) (x : Nat) (h : x ∈ l) : x ≤ maxOf l := by
  induction l with
  | nil => simp at h
  | cons a l ih =>
    simp only [maxOf, List.foldr_cons] at ih ⊢
    rcases List.mem_cons.1 h with rfl | h
    · exact Nat.le_max_left _ _
    · exact Nat.le_trans (ih h) (Nat.le_max_right _ _)

theorem nextFree_fresh (used : List Nat) (fuel n : Nat) (h : ∀ x ∈ used, x < n + fuel) :
    nextFree used fuel n ∉ used := by
  induction fuel generalizing n with
  | zero =>
    simp only [nextFree]
    intro hm
    have := h n hm
    omega
  | succ f ih =>
    simp only [nextFree]
    split
    · apply ih
      intro x hx
      have := h x hx
      omega
    · rename_i hc
      simpa using hc

/-- `get_block_num()` returns a number that is not in use (the loop's fuel is enough) -/
theorem getBlockNum_fresh (c : Ctr) : c.getBlockNum ∉ c.used := by
  unfold Ctr.getBlockNum
  apply nextFree_fresh
  intro x hx
  have := mem_le_maxOf _ _ hx
  omega

theorem addBlock_isSome (c : Ctr) (t : Nat) (d : Bytes) : ∃ r, c.addBlock t d = some r := by
  unfold Ctr.addBlock
  have := getBlockNum_fresh c
  simp only []
  rw [if_neg (by simpa using this)]
  exact ⟨_, rfl⟩

theorem addBlock_spec (c : Ctr) (t : Nat) (d : Bytes) (r : Ctr × Nat)
    (h : c.addBlock t d = some r) :
    r.2 ∉ c.used ∧ r.1.blocks = insertBeforeLast (newBlk t r.2 d) c.blocks := by
  unfold Ctr.addBlock at h
  simp only [] at h
  split at h <;> simp at h
  subst h
  rename_i hc
  exact ⟨by simpa using hc, rfl⟩

theorem addBlock_nodup (c : Ctr) (t : Nat) (d : Bytes) (r : Ctr × Nat)
    (h : c.addBlock t d = some r) (hnd : c.nums.Nodup) : r.1.nums.Nodup := by
  obtain ⟨h1, h2⟩ := addBlock_spec c t d r h
  unfold Ctr.nums
  rw [h2]
  have hp := (insertBeforeLast_perm (newBlk t r.2 d) c.blocks).map Blk.num
  rw [hp.nodup_iff]
  simp only [List.map_cons, List.nodup_cons]
  refine ⟨?_, hnd⟩
  intro hm
  exact h1 (List.mem_cons_of_mem _ hm)

/-- what `bumpHop` leaves alone: everything but the in-memory count and the BTSD cache -/
theorem bumpHop_keeps (b : Blk) :
    (bumpHop b).c.typeCode = b.c.typeCode ∧ (bumpHop b).c.blockNum = b.c.blockNum
    ∧ (bumpHop b).c.flags = b.c.flags ∧ (bumpHop b).c.crcType = b.c.crcType
    ∧ (bumpHop b).adminReenc = b.adminReenc ∧ (bumpHop b).num = b.num := by
  unfold bumpHop
  split <;> simp [Blk.num]

theorem bumpHop_not_hop (b : Blk) (h : b.isHop = false) : bumpHop b = b := by
  simp [bumpHop, h]

theorem map_bumpHop_nums (l : List Blk) : (l.map bumpHop).map Blk.num = l.map Blk.num := by
  simp [List.map_map, Function.comp_def, (bumpHop_keeps _).2.2.2.2.2]

/-- the stages of `fwdEdit` -/
structure FwdStages (cfg : Cfg) (st : St) (now : Nat) (c0 : Ctr) (out : Ctr) where
  n : Nat
  c2 : Ctr
  h2 : (c0.removeNums (c0.typeNums typePrevNode)).addBlock typePrevNode (encPrevNode cfg.nodeId) = some (c2, n)
  hout : (c0.primary.ts.time = 0 ∧
            out = ({ c2 with blocks := c2.blocks.map bumpHop } : Ctr).removeNums
                    (({ c2 with blocks := c2.blocks.map bumpHop } : Ctr).typeNums typeAge))
         ∨ (c0.primary.ts.time ≠ 0 ∧ ∃ m,
            (({ c2 with blocks := c2.blocks.map bumpHop } : Ctr).removeNums
                    (({ c2 with blocks := c2.blocks.map bumpHop } : Ctr).typeNums typeAge)).addBlock
              typeAge (encAge now c0.primary.ts.time) = some (out, m))

/-- `_do_fwd`'s edits never raise (fresh block numbers), and go through these stages -/
theorem fwdEdit_stages (cfg : Cfg) (st : St) (now : Nat) (c0 : Ctr) :
    (fwdEdit cfg st now c0).2.2 = true
    ∧ Nonempty (FwdStages cfg st now c0 (fwdEdit cfg st now c0).2.1) := by
  obtain ⟨r, hr⟩ := addBlock_isSome (c0.removeNums (c0.typeNums typePrevNode)) typePrevNode
    (encPrevNode cfg.nodeId)
  have hprim : (({ r.1 with blocks := r.1.blocks.map bumpHop } : Ctr).removeNums
      (({ r.1 with blocks := r.1.blocks.map bumpHop } : Ctr).typeNums typeAge)).primary = c0.primary := by
    rw [(removeNums_meta _ _).2.1]
    exact ((addBlock_meta _ _ _ _ hr).2.1).trans (removeNums_meta _ _).2.1
  obtain ⟨r2, hr2⟩ := addBlock_isSome (({ r.1 with blocks := r.1.blocks.map bumpHop } : Ctr).removeNums
      (({ r.1 with blocks := r.1.blocks.map bumpHop } : Ctr).typeNums typeAge)) typeAge
      (encAge now c0.primary.ts.time)
  simp only [fwdEdit, hr]
  rw [hprim]
  by_cases hz : c0.primary.ts.time = 0
  · have hz' : (c0.primary.ts.time == 0) = true := by simpa using hz
    simp only [hz', if_true]
    exact ⟨trivial, ⟨⟨r.2, r.1, hr, Or.inl ⟨hz, rfl⟩⟩⟩⟩
  · have hz' : (c0.primary.ts.time == 0) = false := by simpa using hz
    simp only [hz', Bool.false_eq_true, if_false, hr2]
    exact ⟨trivial, ⟨⟨r.2, r.1, hr, Or.inr ⟨hz, r2.2, hr2⟩⟩⟩⟩

/-! ### what is encoded -/

/-- a wire block `y` is the encoding-time image of the in-memory block `x` -/
def wireOf (x : Blk) (y : Canonical) : Prop :=
  y.typeCode = x.c.typeCode ∧ y.blockNum = x.c.blockNum ∧ y.flags = x.c.flags
  ∧ y.crcType = x.c.crcType ∧ y.btsd = x.wireBtsd

theorem mem_finalBlocks (bs : List Blk) (crcs : List Bytes) (y : Canonical)
    (h : y ∈ finalBlocks bs crcs) : ∃ x ∈ bs, wireOf x y := by
  induction bs generalizing crcs with
  | nil => simp [finalBlocks] at h
  | cons b bs ih =>
    simp only [finalBlocks, List.mem_cons] at h
    rcases h with rfl | h
    · exact ⟨b, by simp, rfl, rfl, rfl, rfl, rfl⟩
    · obtain ⟨x, hx, hw⟩ := ih _ h
      exact ⟨x, List.mem_cons_of_mem _ hx, hw⟩

theorem finalBlocks_of_mem (bs : List Blk) (crcs : List Bytes) (x : Blk) (h : x ∈ bs) :
    ∃ y ∈ finalBlocks bs crcs, wireOf x y := by
  induction bs generalizing crcs with
  | nil => simp at h
  | cons b bs ih =>
    simp only [finalBlocks]
    rcases List.mem_cons.1 h with rfl | h
    · exact ⟨{ x.c with btsd := x.wireBtsd, crc := (takeCrc x.c.crcType crcs).1 }, List.mem_cons_self,
        rfl, rfl, rfl, rfl, rfl⟩
    · obtain ⟨y, hy, hw⟩ := ih (takeCrc b.c.crcType crcs).2 h
      exact ⟨y, List.mem_cons_of_mem _ hy, hw⟩

theorem finalBlocks_nums (bs : List Blk) (crcs : List Bytes) :
    (finalBlocks bs crcs).map (·.blockNum) = bs.map Blk.num := by
  induction bs generalizing crcs with
  | nil => rfl
  | cons b bs ih => simp [finalBlocks, ih, Blk.num]

theorem finalBlocks_types (bs : List Blk) (crcs : List Bytes) :
    (finalBlocks bs crcs).map (·.typeCode) = bs.map (·.c.typeCode) := by
  induction bs generalizing crcs with
  | nil => rfl
  | cons b bs ih => simp [finalBlocks, ih]

/-- The bundle `_do_fwd` hands to the convergence layer for queue entry `c0` (`Bundle.enc` is
    applied to it), if it gets that far. -/
def fwdOut (cfg : Cfg) (st : St) (now : Nat) (sp : SendParams) (c0 : Ctr) : Option Bundle :=
  if (fwdEdit cfg st now c0).2.2 then
    match (sendAsIs cfg (fwdEdit cfg st now c0).1 now sp (fwdEdit cfg st now c0).2.1).2.2 with
    | .sent b => some b
    | _ => none
  else none

theorem applyPrimary_blocks (cfg : Cfg) (st : St) (now : Nat) (c : Ctr) :
    (applyPrimary cfg st now c).2.blocks = c.blocks := by
  simp only [applyPrimary, apLife, apTs, apRpt, apSrc]
  (repeat' split) <;> rfl

theorem applyPrimary_unchanged (cfg : Cfg) (st : St) (now : Nat) (c : Ctr)
    (hs : c.srcNone = false) (hr : c.rptNone = false) (hts : c.primary.ts.time ≠ 0)
    (hlt : c.primary.lifetime ≠ 0) : (applyPrimary cfg st now c).2.primary = c.primary := by
  have h1 : apSrc cfg c = c := by simp [apSrc, hs]
  have h2 : apRpt cfg c = c := by simp [apRpt, hr]
  have h3 : apTs st now c = (st, c) := by simp [apTs, hts]
  have h4 : apLife c = c := by simp [apLife, hlt]
  simp [applyPrimary, h1, h2, h3, h4]

/-- shape of a successful forward: the edited container, then CRCs (no `_apply_primary`) -/
theorem fwdOut_some (cfg : Cfg) (st : St) (now : Nat) (sp : SendParams) (c0 : Ctr) (b : Bundle)
    (h : fwdOut cfg st now sp c0 = some b) :
    (fwdEdit cfg st now c0).2.2 = true
    ∧ b = (fwdEdit cfg st now c0).2.1.wire sp.crcs := by
  unfold fwdOut at h
  split at h
  · rename_i hok
    refine ⟨hok, ?_⟩
    split at h
    · rename_i b' hb
      simp only [Option.some.injEq] at h
      subst h
      simp only [sendAsIs, sendRes] at hb
      (repeat' split at hb) <;> simp_all
    · simp at h
  · simp at h

/-- every `tx` effect of an idle `_do_fwd` is the encoding of `fwdOut` of the queue head -/
theorem doFwd_tx (cfg : Cfg) (st : St) (now : Nat) (sp : SendParams) (c0 : Ctr) (q : List Ctr)
    (hq : st.fwdQ = c0 :: q) (d : Bytes) (hd : Effect.tx d ∈ (doFwd cfg st now sp).2) :
    ∃ b, fwdOut cfg { st with fwdQ := q } now sp c0 = some b ∧ d = b.enc := by
  unfold doFwd at hd
  simp only [hq] at hd
  unfold fwdOut
  cases hok : (fwdEdit cfg { st with fwdQ := q } now c0).2.2
  · simp only [hok, Bool.not_false, if_true, fwdFail, finish_eff, List.nil_append] at hd
    obtain ⟨_, _, h⟩ := finishEff_mem _ _ hd
    simp at h
  · simp only [hok, Bool.not_true, Bool.false_eq_true, if_false, if_true] at hd ⊢
    cases hres : (sendAsIs cfg (fwdEdit cfg { st with fwdQ := q } now c0).1 now sp
        (fwdEdit cfg { st with fwdQ := q } now c0).2.1).2.2 with
    | sent b =>
      simp only [hres, finish_eff, List.mem_cons] at hd
      rcases hd with hd | hd
      · exact ⟨b, rfl, by simpa using hd⟩
      · obtain ⟨_, _, h⟩ := finishEff_mem _ _ hd
        simp at h
    | consumed =>
      simp only [hres, finish_eff, List.mem_cons] at hd
      rcases hd with hd | hd
      · cases hd
      · obtain ⟨_, _, h⟩ := finishEff_mem _ _ hd
        simp at h
    | noSender =>
      simp only [hres, fwdFail, finish_eff, List.nil_append] at hd
      obtain ⟨_, _, h⟩ := finishEff_mem _ _ hd
      simp at h

/-! ### blocks through `fwdEdit` -/

theorem bumpHop_newBlk6 (n : Nat) (d : Bytes) : bumpHop (newBlk typePrevNode n d) = newBlk typePrevNode n d := by
  apply bumpHop_not_hop
  simp [newBlk, Blk.isHop, typePrevNode, typeHop]

section stages
variable {cfg : Cfg} {st : St} {now : Nat} {c0 out : Ctr}

/-- container after the previous-node edit and the hop-count bump -/
def FwdStages.c3 (S : FwdStages cfg st now c0 out) : Ctr := { S.c2 with blocks := S.c2.blocks.map bumpHop }
/-- … and after removing the age blocks -/
def FwdStages.c4 (S : FwdStages cfg st now c0 out) : Ctr := S.c3.removeNums (S.c3.typeNums typeAge)

theorem FwdStages.c1_nodup (_S : FwdStages cfg st now c0 out) (h : c0.nums.Nodup) :
    (c0.removeNums (c0.typeNums typePrevNode)).nums.Nodup := removeNums_nodup _ _ h

theorem FwdStages.c3_nodup (S : FwdStages cfg st now c0 out) (h : c0.nums.Nodup) : S.c3.nums.Nodup := by
  have := addBlock_nodup _ _ _ _ S.h2 (S.c1_nodup h)
  unfold FwdStages.c3 Ctr.nums
  rw [map_bumpHop_nums]
  exact this

theorem FwdStages.c4_nodup (S : FwdStages cfg st now c0 out) (h : c0.nums.Nodup) : S.c4.nums.Nodup :=
  removeNums_nodup _ _ (S.c3_nodup h)

theorem FwdStages.c3_blocks (S : FwdStages cfg st now c0 out) :
    S.c3.blocks = (insertBeforeLast (newBlk typePrevNode S.n (encPrevNode cfg.nodeId))
      (c0.removeNums (c0.typeNums typePrevNode)).blocks).map bumpHop := by
  have := (addBlock_spec _ _ _ _ S.h2).2
  simp only [FwdStages.c3]
  rw [this]

theorem FwdStages.out_cases (S : FwdStages cfg st now c0 out) :
    (c0.primary.ts.time = 0 ∧ out = S.c4)
    ∨ (c0.primary.ts.time ≠ 0 ∧ ∃ m,
        S.c4.addBlock typeAge (encAge now c0.primary.ts.time) = some (out, m)) := S.hout

theorem FwdStages.out_nodup (S : FwdStages cfg st now c0 out) (h : c0.nums.Nodup) : out.nums.Nodup := by
  rcases S.out_cases with ⟨_, he⟩ | ⟨_, m, h5⟩
  · rw [he]; exact S.c4_nodup h
  · exact addBlock_nodup _ _ _ _ h5 (S.c4_nodup h)

/-- blocks of the edited container, one direction: where each of them comes from -/
theorem FwdStages.mem_out (S : FwdStages cfg st now c0 out) (h : c0.nums.Nodup) (y : Blk) (hy : y ∈ out.blocks) :
    y = newBlk typePrevNode S.n (encPrevNode cfg.nodeId)
    ∨ (c0.primary.ts.time ≠ 0 ∧ ∃ m, y = newBlk typeAge m (encAge now c0.primary.ts.time))
    ∨ (∃ x ∈ c0.blocks, y = bumpHop x ∧ x.c.typeCode ≠ typePrevNode ∧ x.c.typeCode ≠ typeAge) := by
  have hc4 : ∀ y ∈ S.c4.blocks, y = newBlk typePrevNode S.n (encPrevNode cfg.nodeId)
      ∨ (∃ x ∈ c0.blocks, y = bumpHop x ∧ x.c.typeCode ≠ typePrevNode ∧ x.c.typeCode ≠ typeAge) := by
    intro y hy
    have hy7 := removeType_none S.c3 typeAge (S.c3_nodup h) y hy
    simp only [FwdStages.c4] at hy
    rw [mem_removeNums _ _ (S.c3_nodup h)] at hy
    obtain ⟨hy3, _⟩ := hy
    rw [S.c3_blocks, List.mem_map] at hy3
    obtain ⟨x, hx, rfl⟩ := hy3
    rw [mem_insertBeforeLast] at hx
    rcases hx with rfl | hx
    · exact Or.inl (bumpHop_newBlk6 _ _)
    · have hx6 := removeType_none c0 typePrevNode h x hx
      rw [mem_removeNums _ _ h] at hx
      rw [(bumpHop_keeps x).1] at hy7
      exact Or.inr ⟨x, hx.1, rfl, hx6, hy7⟩
  rcases S.out_cases with ⟨_, he⟩ | ⟨hz, m, h5⟩
  · rw [he] at hy
    rcases hc4 y hy with h1 | h1
    · exact Or.inl h1
    · exact Or.inr (Or.inr h1)
  · rw [(addBlock_spec _ _ _ _ h5).2, mem_insertBeforeLast] at hy
    rcases hy with rfl | hy
    · exact Or.inr (Or.inl ⟨hz, m, rfl⟩)
    · rcases hc4 y hy with h1 | h1
      · exact Or.inl h1
      · exact Or.inr (Or.inr h1)

theorem FwdStages.c4_sub_out (S : FwdStages cfg st now c0 out) (y : Blk) (hy : y ∈ S.c4.blocks) :
    y ∈ out.blocks := by
  rcases S.out_cases with ⟨_, he⟩ | ⟨hz, m, h5⟩
  · rw [he]; exact hy
  · rw [(addBlock_spec _ _ _ _ h5).2, mem_insertBeforeLast]
    exact Or.inr hy

/-- the other direction: blocks that are neither previous-node nor age blocks stay (a dissected
    hop-count block with its count bumped and its cache dropped) -/
theorem FwdStages.keep (S : FwdStages cfg st now c0 out) (h : c0.nums.Nodup) (x : Blk) (hx : x ∈ c0.blocks)
    (h6 : x.c.typeCode ≠ typePrevNode) (h7 : x.c.typeCode ≠ typeAge) : bumpHop x ∈ out.blocks := by
  apply S.c4_sub_out
  simp only [FwdStages.c4]
  apply removeType_keep _ _ (S.c3_nodup h)
  · rw [S.c3_blocks]
    apply List.mem_map_of_mem
    rw [mem_insertBeforeLast]
    exact Or.inr (removeType_keep _ _ h x hx h6)
  · rw [(bumpHop_keeps x).1]; exact h7

/-- the new previous-node block is in the edited container -/
theorem FwdStages.new6_mem (S : FwdStages cfg st now c0 out) (h : c0.nums.Nodup) :
    newBlk typePrevNode S.n (encPrevNode cfg.nodeId) ∈ out.blocks := by
  apply S.c4_sub_out
  simp only [FwdStages.c4]
  apply removeType_keep _ _ (S.c3_nodup h)
  · rw [S.c3_blocks]
    rw [← bumpHop_newBlk6]
    apply List.mem_map_of_mem
    rw [mem_insertBeforeLast]
    exact Or.inl rfl
  · simp [newBlk, typePrevNode, typeAge]

end stages

/-! ### the last block -/

theorem eraseP_getLast (l : List Blk) (q : Blk → Bool) (p : Blk) (hl : l.getLast? = some p)
    (hq : q p = false) : (l.eraseP q).getLast? = some p := by
  induction l with
  | nil => simp at hl
  | cons a l ih =>
    cases l with
    | nil =>
      simp only [List.getLast?_singleton, Option.some.injEq] at hl
      subst hl
      simp [hq]
    | cons b r =>
      rw [List.getLast?_cons_cons] at hl
      have ih' := ih hl
      by_cases ha : q a = true
      · rw [List.eraseP_cons_of_pos ha]; exact hl
      · rw [List.eraseP_cons_of_neg ha]
        cases he : (b :: r).eraseP q with
        | nil => rw [he] at ih'; simp at ih'
        | cons c cs => rw [List.getLast?_cons_cons, ← he]; exact ih'

theorem removeNums_getLast (c : Ctr) (ns : List Nat) (p : Blk) (hl : c.blocks.getLast? = some p)
    (hn : p.num ∉ ns) : (c.removeNums ns).blocks.getLast? = some p := by
  induction ns generalizing c with
  | nil => exact hl
  | cons n ns ih =>
    simp only [List.mem_cons, not_or] at hn
    apply ih _ _ hn.2
    simp only [Ctr.removeNum]
    exact eraseP_getLast _ _ _ hl (by simpa using hn.1)

theorem getLast_mem {α : Type} (l : List α) (p : α) (h : l.getLast? = some p) : p ∈ l :=
  List.mem_of_getLast? h

section stages2
variable {cfg : Cfg} {st : St} {now : Nat} {c0 out : Ctr}

/-- a last block that is neither a previous-node nor an age block stays last -/
theorem FwdStages.last (S : FwdStages cfg st now c0 out) (h : c0.nums.Nodup) (p : Blk)
    (hl : c0.blocks.getLast? = some p) (h6 : p.c.typeCode ≠ typePrevNode) (h7 : p.c.typeCode ≠ typeAge) :
    out.blocks.getLast? = some (bumpHop p) := by
  have hp := getLast_mem _ _ hl
  have h1 : (c0.removeNums (c0.typeNums typePrevNode)).blocks.getLast? = some p :=
    removeNums_getLast _ _ _ hl (num_not_in_typeNums c0 h p hp _ h6)
  have hne : (c0.removeNums (c0.typeNums typePrevNode)).blocks ≠ [] := by
    intro he; rw [he] at h1; simp at h1
  have h3 : S.c3.blocks.getLast? = some (bumpHop p) := by
    rw [S.c3_blocks, List.getLast?_map, insertBeforeLast_getLast _ _ hne, h1]; rfl
  have hp3 := getLast_mem _ _ h3
  have h4 : S.c4.blocks.getLast? = some (bumpHop p) := by
    simp only [FwdStages.c4]
    apply removeNums_getLast _ _ _ h3
    exact num_not_in_typeNums S.c3 (S.c3_nodup h) _ hp3 typeAge (by rw [(bumpHop_keeps p).1]; exact h7)
  rcases S.out_cases with ⟨_, he⟩ | ⟨hz, m, h5⟩
  · rw [he]; exact h4
  · rw [(addBlock_spec _ _ _ _ h5).2, insertBeforeLast_getLast _ _ (by intro he; rw [he] at h4; simp at h4)]
    exact h4

end stages2

theorem finalBlocks_getLast (bs : List Blk) (crcs : List Bytes) (x : Blk) (h : bs.getLast? = some x) :
    ∃ y, (finalBlocks bs crcs).getLast? = some y ∧ wireOf x y := by
  induction bs generalizing crcs with
  | nil => simp at h
  | cons b bs ih =>
    cases bs with
    | nil =>
      simp only [List.getLast?_singleton, Option.some.injEq] at h
      subst h
      exact ⟨{ b.c with btsd := b.wireBtsd, crc := (takeCrc b.c.crcType crcs).1 }, by simp [finalBlocks],
        rfl, rfl, rfl, rfl, rfl⟩
    | cons b2 r =>
      rw [List.getLast?_cons_cons] at h
      obtain ⟨y, hy, hw⟩ := ih (takeCrc b.c.crcType crcs).2 h
      refine ⟨y, ?_, hw⟩
      simp only [finalBlocks] at hy ⊢
      rw [List.getLast?_cons_cons]
      exact hy

/-- a duplicate-free list whose `p`-elements all equal `v ∈ l` has exactly one `p`-element -/
theorem filter_len_one {α : Type} (l : List α) (p : α → Bool) (v : α) (hnd : l.Nodup)
    (hall : ∀ x ∈ l, p x = true → x = v) (hv : v ∈ l) (hpv : p v = true) : (l.filter p).length = 1 := by
  have hnd' : (l.filter p).Nodup := hnd.sublist List.filter_sublist
  have hmem : v ∈ l.filter p := List.mem_filter.2 ⟨hv, hpv⟩
  have hall' : ∀ x ∈ l.filter p, x = v := fun x hx => hall x (List.mem_filter.1 hx).1 (List.mem_filter.1 hx).2
  match hf : l.filter p with
  | [] => rw [hf] at hmem; simp at hmem
  | [a] => rfl
  | a :: b :: r =>
    rw [hf] at hnd' hall'
    have h1 := hall' a (by simp)
    have h2 := hall' b (by simp)
    simp only [List.nodup_cons, List.mem_cons, not_or] at hnd'
    exact absurd (h1.trans h2.symm) hnd'.1.1

theorem nodup_of_map {α β : Type} (f : α → β) (l : List α) (h : (l.map f).Nodup) : l.Nodup := by
  induction l with
  | nil => simp
  | cons a l ih =>
    simp only [List.map_cons, List.nodup_cons] at h ⊢
    exact ⟨fun hm => h.1 (List.mem_map_of_mem hm), ih h.2⟩

/-! ### counting blocks of a type -/

def isType (t : Nat) (y : Canonical) : Bool := y.typeCode == t

theorem count_types (bs : List Blk) (crcs : List Bytes) (t : Nat) :
    ((finalBlocks bs crcs).filter (isType t)).length = (bs.filter (fun x => x.c.typeCode == t)).length := by
  induction bs generalizing crcs with
  | nil => rfl
  | cons b bs ih =>
    simp only [finalBlocks, List.filter_cons]
    have : isType t { b.c with btsd := b.wireBtsd, crc := (takeCrc b.c.crcType crcs).1 } = (b.c.typeCode == t) := rfl
    rw [this]
    split <;> simp [ih]

/-- Every report an idle `_do_fwd` schedules is built from a container that still has the
    received primary block and report-to: forwarding never rewrites them. -/
theorem doFwd_report_source (cfg : Cfg) (st : St) (now : Nat) (sp : SendParams) (c0 : Ctr) (q : List Ctr)
    (hq : st.fwdQ = c0 :: q) (e : Effect) (he : e ∈ (doFwd cfg st now sp).2) (hr : isReport e = true) :
    ∃ c', e ∈ finishEff c' ∧ c'.primary = c0.primary ∧ c'.rptNone = c0.rptNone := by
  obtain ⟨_, hp, _, hrn, _⟩ := fwdEdit_meta cfg { st with fwdQ := q } now c0
  unfold doFwd at he
  simp only [hq] at he
  split at he
  · simp only [fwdFail, finish_eff, List.nil_append] at he
    exact ⟨_, he, by simpa [Ctr.record] using hp, by simpa [Ctr.record] using hrn⟩
  · split at he
    · simp only [finish_eff, List.mem_cons] at he
      rcases he with rfl | he
      · simp at hr
      · exact ⟨_, he, by simpa [Ctr.record, sendAsIs_ctr] using hp, by simpa [Ctr.record, sendAsIs_ctr] using hrn⟩
    · simp only [finish_eff, List.mem_cons] at he
      rcases he with rfl | he
      · simp at hr
      · exact ⟨_, he, by simpa [Ctr.record, sendAsIs_ctr] using hp, by simpa [Ctr.record, sendAsIs_ctr] using hrn⟩
    · simp only [fwdFail, finish_eff, List.nil_append] at he
      exact ⟨_, he, by simpa [Ctr.record, sendAsIs_ctr] using hp, by simpa [Ctr.record, sendAsIs_ctr] using hrn⟩

/-! ### the queue advances whether or not a forward succeeds -/

/-- an idle `_do_fwd` takes the head off the forwarding queue, on success and on every failure -/
theorem doFwd_fwdQ (cfg : Cfg) (st : St) (now : Nat) (sp : SendParams) :
    (doFwd cfg st now sp).1.fwdQ = st.fwdQ.tail := by
  unfold doFwd
  split
  · rename_i h; simp [h]
  · rename_i c0 q hq
    simp only [hq, List.tail_cons]
    split
    · simp only [fwdFail, finish_fwdQ, fwdEdit_fwdQ]
    · split <;> simp only [fwdFail, finish_fwdQ, sendAsIs_fwdQ, fwdEdit_fwdQ]

/-- with a matching transmit route, an attached CL and no fragmentation takeover, the edited
    bundle is produced -/
theorem fwdOut_isSome (cfg : Cfg) (st : St) (now : Nat) (sp : SendParams) (c0 : Ctr)
    (hr : sp.txBits.any id = true) (hcl : sp.clOk = true)
    (hf : sp.frag = .none ∨ sp.frag = .raises) : ∃ b, fwdOut cfg st now sp c0 = some b := by
  have hok := (fwdEdit_stages cfg st now c0).1
  unfold fwdOut
  simp only [hok, if_true, sendAsIs, sendRes, hr, hcl]
  rcases hf with h | h <;> simp [h]

/-- … and handed to the convergence layer by the idle `_do_fwd` that finds it at the head -/
theorem doFwd_tx_of_fwdOut (cfg : Cfg) (st : St) (now : Nat) (sp : SendParams) (c0 : Ctr) (q : List Ctr)
    (hq : st.fwdQ = c0 :: q) (b : Bundle) (h : fwdOut cfg { st with fwdQ := q } now sp c0 = some b) :
    Effect.tx b.enc ∈ (doFwd cfg st now sp).2 := by
  unfold fwdOut at h
  unfold doFwd
  simp only [hq]
  cases hok : (fwdEdit cfg { st with fwdQ := q } now c0).2.2
  · simp [hok] at h
  · simp only [hok, if_true] at h
    simp only [Bool.not_true, Bool.false_eq_true, if_false]
    cases hres : (sendAsIs cfg (fwdEdit cfg { st with fwdQ := q } now c0).1 now sp
        (fwdEdit cfg { st with fwdQ := q } now c0).2.1).2.2 with
    | sent b' =>
      simp only [hres, Option.some.injEq] at h
      subst h
      simp
    | consumed => simp [hres] at h
    | noSender => simp [hres] at h

end Agent
end DtnVerif
