/-
  G-rx: the receive side of an endpoint is exactly the ideal receiver applied to the messages it
  processed, whatever else happens (user calls, transmit progress, timers, any peer behaviour).
-/
import DtnVerif.Model.TcpclEp
import DtnVerif.Model.TcpclSpec
namespace DtnVerif
namespace Tcpcl

/-- the receive-relevant projection of an endpoint state -/
structure RxView where
  processed : List Msg
  rxLog : List (Nat × Bytes)
  rxTmp : Option (Nat × Bytes)
  inSess : Bool
  rx : Rx
  rxBytes : Bytes
  deriving DecidableEq

def Ep.rxView (e : Ep) : RxView := ⟨e.processed, e.rxLog, e.rxTmp, e.inSess, e.rx, e.rxBytes⟩

def RxInv (e : Ep) : Prop :=
  e.rxLog = (rxSpec e.processed).done ∧ e.rxTmp = (rxSpec e.processed).cur
    ∧ e.inSess = (rxSpec e.processed).inSess

theorem rxInv_of_view {e e' : Ep} (h : e'.rxView = e.rxView) (hi : RxInv e) : RxInv e' := by
  simp only [Ep.rxView, RxView.mk.injEq] at h
  obtain ⟨h1, h2, h3, h4, _, _⟩ := h
  unfold RxInv at *
  rw [h1, h2, h3, h4]; exact hi

/-! frame lemmas: helpers that never touch the receive projection -/

@[simp] theorem view_kaReset (e : Ep) : (kaReset e).rxView = e.rxView := rfl
@[simp] theorem view_idleReset (e : Ep) : (idleReset e).rxView = e.rxView := rfl
@[simp] theorem view_sendMessage (e : Ep) (m : Msg) : (sendMessage e m).rxView = e.rxView := rfl
@[simp] theorem view_pqTrigger (e : Ep) : (pqTrigger e).rxView = e.rxView := by
  unfold pqTrigger; split <;> rfl
@[simp] theorem view_setState (e : Ep) (s : String) : (setState e s).1.rxView = e.rxView := by
  unfold setState; split <;> rfl
@[simp] theorem view_flush (e : Ep) : (flushPendStart e).1.rxView = e.rxView := rfl
@[simp] theorem view_doClose (e : Ep) : (doClose e).1.rxView = e.rxView := by
  unfold doClose; split <;> rfl
@[simp] theorem view_checkSessTerm (e : Ep) : (checkSessTerm e).1.rxView = e.rxView := by
  unfold checkSessTerm; split
  · exact view_doClose e
  · rfl
@[simp] theorem view_sendContact (e : Ep) : (sendContact e).rxView = e.rxView := rfl
@[simp] theorem view_sendInit (e : Ep) : (sendInit e).rxView = e.rxView := rfl
@[simp] theorem view_sendReject (e : Ep) (r : Nat) (m : Msg) : (sendReject e r m).rxView = e.rxView := rfl
@[simp] theorem view_sendSessTerm (e : Ep) (r : Nat) (b : Bool) :
    (sendSessTerm e r b).1.rxView = e.rxView := by
  unfold sendSessTerm
  split
  · rfl
  · split
    · rfl
    · simp only [view_flush, view_sendMessage, view_setState]; rfl
@[simp] theorem view_sendBufferDecreased (e : Ep) : (sendBufferDecreased e).rxView = e.rxView := by
  unfold sendBufferDecreased; split
  · exact view_pqTrigger e
  · rfl
@[simp] theorem view_mergeSession (e : Ep) (p : PeerInit) : (mergeSession e p).rxView = e.rxView := rfl

@[simp] theorem view_sendSegment (e : Ep) (it : TxItem) (sent : Nat) :
    (sendSegment e it sent).1.rxView = e.rxView := by
  unfold sendSegment
  simp only []
  split
  · rfl
  · split
    · rw [view_pqTrigger]; rfl
    · rfl

@[simp] theorem view_processQueue (e : Ep) : (processQueue e).1.rxView = e.rxView := by
  unfold processQueue
  split
  · exact view_sendSegment e _ _
  · split
    · rfl
    · split
      · simp only [view_checkSessTerm, view_flush]
      · split
        · rfl
        · simp only [view_sendSegment]; rfl

@[simp] theorem view_pullTx (e : Ep) : (pullTx e).rxView = e.rxView := by
  unfold pullTx; split
  · rw [view_sendBufferDecreased]; rfl
  · rfl

@[simp] theorem view_writeConn (e : Ep) (n : Nat) (up : Bool) : (writeConn e n up).1.rxView = e.rxView := by
  unfold writeConn
  split
  · split
    · exact view_checkSessTerm e
    · rfl
  · simp only []
    split
    · rfl
    · split
      · simp only [view_checkSessTerm]; rfl
      · rfl

@[simp] theorem view_pump (e : Ep) (n : Nat) : (pump e n).1.rxView = e.rxView := by
  unfold pump; rw [view_writeConn, view_pullTx]

/-! ### the receive handlers -/

/-- appending a message that the ideal receiver ignores -/
theorem rxInv_append_inert (e : Ep) (m : Msg) (hi : RxInv e)
    (hm : ∀ s, rxSpecStep s m = s) :
    RxInv { e with processed := e.processed ++ [m] } := by
  obtain ⟨h1, h2, h3⟩ := hi
  simp only [RxInv, rxSpec, List.foldl_append, List.foldl_cons, List.foldl_nil, hm]
  exact ⟨h1, h2, h3⟩

theorem rxInv_onContact (e : Ep) (hi : RxInv e) : RxInv (onContact e).1 := by
  refine rxInv_of_view ?_ hi
  unfold onContact
  simp only []
  cases e.cfg.passive <;> simp

theorem rxInv_onSessTerm (e : Ep) (m : Msg) (r : Nat) (hi : RxInv e) : RxInv (onSessTerm e m r).1 := by
  refine rxInv_of_view ?_ hi
  unfold onSessTerm
  split
  · rfl
  · simp only [view_checkSessTerm, view_flush]
    split
    · have := view_sendSessTerm e r true
      simp only [Ep.rxView] at this ⊢
      exact this
    · rfl

theorem rxInv_onAck (e : Ep) (m : Msg) (f t l : Nat) (hi : RxInv e) : RxInv (onAck e m f t l).1 := by
  refine rxInv_of_view ?_ hi
  unfold onAck
  split
  · rfl
  · split
    · rfl
    · split
      · split
        · rfl
        · simp only [view_checkSessTerm]; rfl
      · rfl

theorem rxInv_onRefuse (e : Ep) (m : Msg) (r t : Nat) (hi : RxInv e) : RxInv (onRefuse e m r t).1 := by
  refine rxInv_of_view ?_ hi
  unfold onRefuse
  split
  · rfl
  · split
    · rfl
    · simp only [view_checkSessTerm]
      split
      · split
        · rw [view_pqTrigger]; rfl
        · rfl
      · rfl

theorem rxInv_onSessInit (e0 : Ep) (ka sm xm : Nat) (node ext : Bytes) (hi : RxInv e0) :
    RxInv (onSessInit { e0 with processed := e0.processed ++ [.sessInit ka sm xm node ext] } ⟨ka, sm, xm, node⟩).1 := by
  obtain ⟨h1, h2, h3⟩ := hi
  unfold onSessInit
  simp only []
  have hv : ∀ e1 : Ep, (setState (mergeSession { e1 with peerInit := some ⟨ka, sm, xm, node⟩, inSess := true }
      ⟨ka, sm, xm, node⟩) "established").1.rxView = ⟨e1.processed, e1.rxLog, e1.rxTmp, true, e1.rx, e1.rxBytes⟩ := by
    intro e1; rw [view_setState, view_mergeSession]; rfl
  have key : ∀ e1 : Ep, e1.processed = e0.processed ++ [.sessInit ka sm xm node ext] → e1.rxLog = e0.rxLog →
      e1.rxTmp = e0.rxTmp →
      RxInv (setState (mergeSession { e1 with peerInit := some ⟨ka, sm, xm, node⟩, inSess := true }
        ⟨ka, sm, xm, node⟩) "established").1 := by
    intro e1 hp hl ht
    have := hv e1
    simp only [Ep.rxView, RxView.mk.injEq] at this
    obtain ⟨a1, a2, a3, a4, _, _⟩ := this
    unfold RxInv
    rw [a1, a2, a3, a4, hp, hl, ht]
    simp only [rxSpec, List.foldl_append, List.foldl_cons, List.foldl_nil, rxSpecStep]
    exact ⟨h1, h2, trivial⟩
  split
  · exact key _ rfl rfl rfl
  · exact key _ rfl rfl rfl

/-- what `segAccept` does to the receive projection -/
theorem view_segAccept (e : Ep) (flags tid : Nat) (cur data : Bytes) (o1 : List Out) :
    (segAccept e flags tid cur data o1).1.rxView =
      if hasEnd flags then ⟨e.processed, e.rxLog ++ [(tid, cur ++ data)], none, e.inSess, e.rx, e.rxBytes⟩
      else ⟨e.processed, e.rxLog, some (tid, cur ++ data), e.inSess, e.rx, e.rxBytes⟩ := by
  unfold segAccept
  simp only []
  split
  · simp only [view_checkSessTerm]; rfl
  · rfl

/-- the ideal receiver's segment rule, phrased on the receive projection -/
def viewSeg (v : RxView) (flags tid : Nat) (data : Bytes) : RxView :=
  if !v.inSess then v else
  if hasStart flags then
    if hasEnd flags then { v with rxTmp := none, rxLog := v.rxLog ++ [(tid, [] ++ data)] }
    else { v with rxTmp := some (tid, [] ++ data) }
  else
    match v.rxTmp with
    | some (t, d) =>
      if t == tid then
        if hasEnd flags then { v with rxTmp := none, rxLog := v.rxLog ++ [(tid, d ++ data)] }
        else { v with rxTmp := some (tid, d ++ data) }
      else v
    | none => v

theorem view_onSegment (e : Ep) (m : Msg) (flags tid : Nat) (data : Bytes) :
    (onSegment e m flags tid data).1.rxView = viewSeg e.rxView flags tid data := by
  unfold onSegment viewSeg
  by_cases hs : e.inSess = true
  · simp only [hs, Bool.not_true, Bool.false_eq_true, if_false, Ep.rxView]
    by_cases hst : hasStart flags = true
    · simp only [hst, if_true]
      have := view_segAccept { e with rxTmp := some (tid, []) } flags tid [] data
        [.sig "recv_bundle_started" [.str (natStr tid), .str ""]]
      simp only [Ep.rxView, hs] at this
      rw [this]
    · have hst' : hasStart flags = false := by simpa using hst
      simp only [hst', Bool.false_eq_true, if_false]
      cases hrt : e.rxTmp with
      | none => simp only [sendReject, sendMessage, sendReady, kaReset, idleReset, hrt, hs]
      | some td =>
        obtain ⟨t, d⟩ := td
        simp only []
        by_cases hteq : (t == tid) = true
        · simp only [hteq, if_true]
          have := view_segAccept e flags tid d data []
          simp only [Ep.rxView, hs] at this
          rw [this]
        · have hteq' : (t == tid) = false := by simpa using hteq
          simp only [hteq', Bool.false_eq_true, if_false]
          simp only [sendReject, sendMessage, sendReady, kaReset, idleReset, hrt, hs]
  · have hs' : e.inSess = false := by simpa using hs
    simp only [hs', Bool.not_false, if_true, Ep.rxView]
    simp only [sendReject, sendMessage, sendReady, kaReset, idleReset, hs']

theorem viewSeg_spec (v : RxView) (s : RxSpec) (flags tid : Nat) (ext data : Bytes)
    (h1 : v.rxLog = s.done) (h2 : v.rxTmp = s.cur) (h3 : v.inSess = s.inSess) :
    (viewSeg v flags tid data).rxLog = (rxSpecStep s (.xferSegment flags tid ext data)).done
    ∧ (viewSeg v flags tid data).rxTmp = (rxSpecStep s (.xferSegment flags tid ext data)).cur
    ∧ (viewSeg v flags tid data).inSess = (rxSpecStep s (.xferSegment flags tid ext data)).inSess := by
  unfold viewSeg rxSpecStep
  rw [h3]
  by_cases hs : s.inSess = true
  · simp only [hs, Bool.not_true, Bool.false_eq_true, if_false]
    by_cases hst : hasStart flags = true
    · simp only [hst, if_true]
      by_cases hen : hasEnd flags = true
      · simp [hen, h1, hs, h3]
      · have hen' : hasEnd flags = false := by simpa using hen
        simp [hen', h1, hs, h3]
    · have hst' : hasStart flags = false := by simpa using hst
      simp only [hst', Bool.false_eq_true, if_false]
      rw [h2]
      cases hc : s.cur with
      | none => simp [h1, h2, hc, hs, h3]
      | some td =>
        obtain ⟨t, d⟩ := td
        simp only []
        by_cases hteq : (t == tid) = true
        · have : t = tid := by simpa using hteq
          subst this
          simp only [beq_self_eq_true, if_true]
          by_cases hen : hasEnd flags = true
          · simp [hen, h1, hs, h3]
          · have hen' : hasEnd flags = false := by simpa using hen
            simp [hen', h1, hs, h3]
        · have hteq' : (t == tid) = false := by simpa using hteq
          simp [hteq', h1, h2, hc, hs, h3]
  · have hs' : s.inSess = false := by simpa using hs
    simp [hs', h1, h2, h3]

theorem rxInv_onSegment (e0 : Ep) (flags tid : Nat) (ext data : Bytes) (hi : RxInv e0) :
    RxInv (onSegment { e0 with processed := e0.processed ++ [.xferSegment flags tid ext data] }
      (.xferSegment flags tid ext data) flags tid data).1 := by
  obtain ⟨h1, h2, h3⟩ := hi
  have hv := view_onSegment { e0 with processed := e0.processed ++ [.xferSegment flags tid ext data] }
    (.xferSegment flags tid ext data) flags tid data
  have hp : (onSegment { e0 with processed := e0.processed ++ [.xferSegment flags tid ext data] }
      (.xferSegment flags tid ext data) flags tid data).1.processed
      = e0.processed ++ [.xferSegment flags tid ext data] := by
    have := congrArg RxView.processed hv
    simp only [Ep.rxView] at this
    rw [this]
    unfold viewSeg
    simp only []
    repeat' split
    all_goals rfl
  have hspec := viewSeg_spec ⟨e0.processed ++ [.xferSegment flags tid ext data], e0.rxLog, e0.rxTmp, e0.inSess, e0.rx, e0.rxBytes⟩
    (rxSpec e0.processed) flags tid ext data h1 h2 h3
  unfold RxInv
  rw [hp]
  have hfold : rxSpec (e0.processed ++ [.xferSegment flags tid ext data]) =
      rxSpecStep (rxSpec e0.processed) (.xferSegment flags tid ext data) := by
    simp [rxSpec, List.foldl_append]
  rw [hfold]
  have e1 := congrArg RxView.rxLog hv
  have e2 := congrArg RxView.rxTmp hv
  have e3 := congrArg RxView.inSess hv
  simp only [Ep.rxView] at e1 e2 e3
  rw [e1, e2, e3]
  exact hspec

theorem rxInv_handleMsg (e : Ep) (m : Msg) (hi : RxInv e) : RxInv (handleMsg e m).1 := by
  unfold handleMsg
  cases m with
  | contact f => exact rxInv_onContact _ (rxInv_append_inert e _ hi (fun s => rfl))
  | sessInit ka sm xm node ext => exact rxInv_onSessInit e ka sm xm node ext hi
  | sessTerm f r => exact rxInv_onSessTerm _ _ _ (rxInv_append_inert e _ hi (fun s => rfl))
  | keepalive => exact rxInv_append_inert e _ hi (fun s => rfl)
  | msgReject a b => exact rxInv_append_inert e _ hi (fun s => rfl)
  | xferSegment flags tid ext data => exact rxInv_onSegment e flags tid ext data hi
  | xferAck f t l => exact rxInv_onAck _ _ _ _ _ (rxInv_append_inert e _ hi (fun s => rfl))
  | xferRefuse r t => exact rxInv_onRefuse _ _ _ _ (rxInv_append_inert e _ hi (fun s => rfl))

theorem rxInv_handleMsgs (ms : List Msg) (e : Ep) (hi : RxInv e) : RxInv (handleMsgs e ms).1 := by
  induction ms generalizing e with
  | nil => exact hi
  | cons m ms ih =>
    unfold handleMsgs
    split
    · exact hi
    · exact ih _ (rxInv_handleMsg _ m (rxInv_of_view (e := e) rfl hi))

theorem rxInv_recvRaw (e : Ep) (c : Bytes) (hi : RxInv e) : RxInv (recvRaw e c).1 := by
  unfold recvRaw
  simp only []
  have h0 : RxInv (rxEntry e c) := by
    obtain ⟨a, b, c'⟩ := hi
    exact ⟨a, b, c'⟩
  have h1 := rxInv_handleMsgs (feed e.rx c).2 _ h0
  split
  · exact rxInv_of_view (view_doClose _) h1
  · exact h1

/-- **G-rx for one step**: every event preserves the correspondence with the ideal receiver. -/
theorem rxInv_step (e : Ep) (ev : Ev) (hi : RxInv e) : RxInv (step e ev).1 := by
  unfold step
  cases ev with
  | advance ms => exact rxInv_of_view (by rfl) hi
  | start =>
    simp only []
    split
    · exact hi
    · split
      · exact hi
      · refine rxInv_of_view ?_ hi
        rw [view_setState]; split <;> rfl
  | send d =>
    simp only []
    split
    · exact hi
    · refine rxInv_of_view ?_ hi; simp only [view_pqTrigger]; rfl
  | terminate r =>
    simp only []
    split
    · exact hi
    · exact rxInv_of_view (view_sendSessTerm _ _ _) hi
  | close =>
    simp only []
    split
    · exact hi
    · exact rxInv_of_view (view_doClose _) hi
  | pop t =>
    simp only []
    have : RxInv (popRx e t).1 := by
      refine rxInv_of_view ?_ hi
      unfold popRx; split <;> rfl
    split <;> exact this
  | query q => simp only []; split <;> exact hi
  | procQueue =>
    simp only []
    split
    · exact rxInv_of_view (by rfl) hi
    · split
      · exact hi
      · refine rxInv_of_view ?_ hi
        have := view_processQueue { e with pqPend := false }
        simp only [Ep.rxView] at this ⊢
        exact this
  | pump n =>
    simp only []
    split
    · exact hi
    · split
      · exact hi
      · exact rxInv_of_view (e := { e with txIdle := false }) (view_pump _ _) (rxInv_of_view (e := e) rfl hi)
  | rx c =>
    simp only []
    split
    · exact hi
    · exact rxInv_recvRaw e c hi
  | rxEof =>
    simp only []
    split
    · exact hi
    · exact rxInv_of_view (view_doClose _) hi
  | keepaliveTimer =>
    simp only []
    split
    · exact hi
    · split
      · exact hi
      · exact rxInv_of_view (by rfl) hi
  | idleTimer =>
    simp only []
    split
    · exact hi
    · split
      · exact hi
      · split
        · exact rxInv_of_view (by rw [view_doClose]; rfl) hi
        · exact rxInv_of_view (by rw [view_sendSessTerm]; rfl) hi
  | modulate raw =>
    simp only []
    split
    · exact hi
    · split
      · exact rxInv_of_view rfl hi
      · exact hi

/-! ### the processed log only grows, by exactly the handled messages -/

theorem viewSeg_processed (v : RxView) (flags tid : Nat) (data : Bytes) :
    (viewSeg v flags tid data).processed = v.processed := by
  unfold viewSeg
  repeat' split
  all_goals rfl

theorem viewSeg_rx (v : RxView) (flags tid : Nat) (data : Bytes) :
    (viewSeg v flags tid data).rx = v.rx := by
  unfold viewSeg
  repeat' split
  all_goals rfl

theorem viewSeg_rxBytes (v : RxView) (flags tid : Nat) (data : Bytes) :
    (viewSeg v flags tid data).rxBytes = v.rxBytes := by
  unfold viewSeg
  repeat' split
  all_goals rfl

theorem frame_handleMsg (e : Ep) (m : Msg) :
    (handleMsg e m).1.processed = e.processed ++ [m] ∧ (handleMsg e m).1.rx = e.rx
      ∧ (handleMsg e m).1.rxBytes = e.rxBytes := by
  unfold handleMsg
  cases m with
  | contact f =>
    have : (onContact { e with processed := e.processed ++ [.contact f] }).1.rxView
        = ({ e with processed := e.processed ++ [.contact f] } : Ep).rxView := by
      unfold onContact; simp only []; cases e.cfg.passive <;> simp
    exact ⟨congrArg RxView.processed this, congrArg RxView.rx this, congrArg RxView.rxBytes this⟩
  | sessInit ka sm xm node ext =>
    have hs : ∀ (x : Ep) (s : String), (setState x s).1.processed = x.processed ∧ (setState x s).1.rx = x.rx
        ∧ (setState x s).1.rxBytes = x.rxBytes := by
      intro x s; unfold setState; split <;> exact ⟨rfl, rfl, rfl⟩
    unfold onSessInit
    simp only []
    have h1 : (if e.cfg.passive then sendInit { e with processed := e.processed ++ [.sessInit ka sm xm node ext] }
        else { e with processed := e.processed ++ [.sessInit ka sm xm node ext] }).rxView
        = ({ e with processed := e.processed ++ [.sessInit ka sm xm node ext] } : Ep).rxView := by
      cases e.cfg.passive
      · rfl
      · exact view_sendInit _
    generalize (if e.cfg.passive then sendInit { e with processed := e.processed ++ [.sessInit ka sm xm node ext] }
        else { e with processed := e.processed ++ [.sessInit ka sm xm node ext] }) = e1 at h1 ⊢
    have h2 := view_mergeSession { e1 with peerInit := some ⟨ka, sm, xm, node⟩, inSess := true } ⟨ka, sm, xm, node⟩
    refine ⟨(hs _ _).1.trans ((congrArg RxView.processed h2).trans (congrArg RxView.processed h1)),
      (hs _ _).2.1.trans ((congrArg RxView.rx h2).trans (congrArg RxView.rx h1)),
      (hs _ _).2.2.trans ((congrArg RxView.rxBytes h2).trans (congrArg RxView.rxBytes h1))⟩
  | sessTerm f r =>
    have : (onSessTerm { e with processed := e.processed ++ [.sessTerm f r] } (.sessTerm f r) r).1.rxView
        = ({ e with processed := e.processed ++ [.sessTerm f r] } : Ep).rxView := by
      unfold onSessTerm
      split
      · rfl
      · simp only [view_checkSessTerm, view_flush]
        split
        · have := view_sendSessTerm { e with processed := e.processed ++ [.sessTerm f r] } r true
          simp only [Ep.rxView] at this ⊢
          exact this
        · rfl
    exact ⟨congrArg RxView.processed this, congrArg RxView.rx this, congrArg RxView.rxBytes this⟩
  | keepalive => exact ⟨rfl, rfl, rfl⟩
  | msgReject a b => exact ⟨rfl, rfl, rfl⟩
  | xferSegment flags tid ext data =>
    have := congrArg RxView.processed (view_onSegment { e with processed := e.processed ++ [.xferSegment flags tid ext data] }
      (.xferSegment flags tid ext data) flags tid data)
    have h2 := congrArg RxView.rx (view_onSegment { e with processed := e.processed ++ [.xferSegment flags tid ext data] }
      (.xferSegment flags tid ext data) flags tid data)
    have h3 := congrArg RxView.rxBytes (view_onSegment { e with processed := e.processed ++ [.xferSegment flags tid ext data] }
      (.xferSegment flags tid ext data) flags tid data)
    rw [viewSeg_processed] at this
    rw [viewSeg_rx] at h2
    rw [viewSeg_rxBytes] at h3
    exact ⟨this, h2, h3⟩
  | xferAck f t l =>
    have : (onAck { e with processed := e.processed ++ [.xferAck f t l] } (.xferAck f t l) f t l).1.rxView
        = ({ e with processed := e.processed ++ [.xferAck f t l] } : Ep).rxView := by
      unfold onAck
      split
      · rfl
      · split
        · rfl
        · split
          · split
            · rfl
            · simp only [view_checkSessTerm]; rfl
          · rfl
    exact ⟨congrArg RxView.processed this, congrArg RxView.rx this, congrArg RxView.rxBytes this⟩
  | xferRefuse r t =>
    have : (onRefuse { e with processed := e.processed ++ [.xferRefuse r t] } (.xferRefuse r t) r t).1.rxView
        = ({ e with processed := e.processed ++ [.xferRefuse r t] } : Ep).rxView := by
      unfold onRefuse
      split
      · rfl
      · split
        · rfl
        · simp only [view_checkSessTerm]
          split
          · split
            · rw [view_pqTrigger]; rfl
            · rfl
          · rfl
    exact ⟨congrArg RxView.processed this, congrArg RxView.rx this, congrArg RxView.rxBytes this⟩

theorem processed_handleMsg (e : Ep) (m : Msg) : (handleMsg e m).1.processed = e.processed ++ [m] :=
  (frame_handleMsg e m).1

theorem processed_prefix_handleMsgs (ms : List Msg) (e : Ep) : e.processed <+: (handleMsgs e ms).1.processed := by
  induction ms generalizing e with
  | nil => exact List.prefix_refl _
  | cons m ms ih =>
    unfold handleMsgs
    split
    · exact List.prefix_refl _
    · have h1 : e.processed <+: (handleMsg { e with rxMore := !ms.isEmpty || e.rx.dead } m).1.processed := by
        rw [processed_handleMsg]; exact List.prefix_append _ _
      exact List.IsPrefix.trans h1 (ih _)

/-- along any step the processed log is extended, never rewritten -/
theorem processed_prefix_step (e : Ep) (ev : Ev) : e.processed <+: (step e ev).1.processed := by
  have hv : ∀ e' : Ep, e'.rxView = e.rxView → e.processed <+: e'.processed := by
    intro e' h
    have := congrArg RxView.processed h
    simp only [Ep.rxView] at this
    rw [this]; exact List.prefix_refl _
  unfold step
  cases ev with
  | advance ms => exact List.prefix_refl _
  | start =>
    simp only []
    split
    · exact List.prefix_refl _
    · split
      · exact List.prefix_refl _
      · apply hv; rw [view_setState]; split <;> rfl
  | send d =>
    simp only []
    split
    · exact List.prefix_refl _
    · apply hv; simp only [view_pqTrigger]; rfl
  | terminate r =>
    simp only []
    split
    · exact List.prefix_refl _
    · exact hv _ (view_sendSessTerm _ _ _)
  | close =>
    simp only []
    split
    · exact List.prefix_refl _
    · exact hv _ (view_doClose _)
  | pop t =>
    simp only []
    have : e.processed <+: (popRx e t).1.processed := by
      apply hv; unfold popRx; split <;> rfl
    split <;> exact this
  | query q => simp only []; split <;> exact List.prefix_refl _
  | procQueue =>
    simp only []
    split
    · exact List.prefix_refl _
    · split
      · exact List.prefix_refl _
      · apply hv
        have := view_processQueue { e with pqPend := false }
        simp only [Ep.rxView] at this ⊢
        exact this
  | pump n =>
    simp only []
    split
    · exact List.prefix_refl _
    · split
      · exact List.prefix_refl _
      · exact hv _ (view_pump { e with txIdle := false } n)
  | rx c =>
    simp only []
    split
    · exact List.prefix_refl _
    · unfold recvRaw
      simp only []
      have h1 := processed_prefix_handleMsgs (feed e.rx c).2
        (rxEntry e c)
      split
      · have := congrArg RxView.processed (view_doClose { (handleMsgs (rxEntry e c)
          (feed e.rx c).2).1 with rxMore := false })
        simp only [Ep.rxView] at this
        rw [this]; exact h1
      · exact h1
  | rxEof =>
    simp only []
    split
    · exact List.prefix_refl _
    · exact hv _ (view_doClose _)
  | keepaliveTimer =>
    simp only []
    split
    · exact List.prefix_refl _
    · split <;> exact List.prefix_refl _
  | idleTimer =>
    simp only []
    split
    · exact List.prefix_refl _
    · split
      · exact List.prefix_refl _
      · split
        · apply hv; rw [view_doClose]; rfl
        · apply hv; rw [view_sendSessTerm]; rfl
  | modulate raw =>
    simp only []
    split
    · exact List.prefix_refl _
    · split <;> exact List.prefix_refl _

theorem rxInv_init (cfg : Cfg) : RxInv { cfg := cfg } := by
  simp [RxInv, rxSpec]

theorem rxInv_run (evs : List Ev) (e : Ep) (hi : RxInv e) : RxInv (runEp e evs) := by
  induction evs generalizing e with
  | nil => exact hi
  | cons ev evs ih =>
    simp only [runEp, run]
    exact ih _ (rxInv_step e ev hi)

end Tcpcl
end DtnVerif
