/-
  No deadlock while terminating, for the two-endpoint system: the per-endpoint invariants lifted to
  every reachable state, and the quiescent-state argument of Lemmas/TcpclQuiet applied to both sides.
-/
import DtnVerif.Lemmas.TcpclQuiet
import DtnVerif.Props.C01
namespace DtnVerif
namespace Tcpcl

/-- `CL` is preserved by every event of the system: a read always delivers at least one octet -/
theorem cl_sys_step (s : Sys) (ev : SysEv) (h : CL s.a ∧ CL s.b) : CL (sysStep s ev).a ∧ CL (sysStep s ev).b := by
  obtain ⟨ha, hb⟩ := h
  cases ev with
  | atA ev =>
    simp only [sysStep]; split
    · rename_i hl
      refine ⟨cl_step _ _ ?_ ha, hb⟩
      intro c hc; subst hc; simp [Ev.isLocal] at hl
    · exact ⟨ha, hb⟩
  | atB ev =>
    simp only [sysStep]; split
    · rename_i hl
      refine ⟨ha, cl_step _ _ ?_ hb⟩
      intro c hc; subst hc; simp [Ev.isLocal] at hl
    · exact ⟨ha, hb⟩
  | deliverB k =>
    simp only [sysStep]; split
    · exact ⟨ha, hb⟩
    · rename_i hg
      refine ⟨ha, cl_step _ _ ?_ hb⟩
      intro c hc
      injection hc with hc
      subst hc
      intro he
      apply hg
      simp [he]
  | deliverA k =>
    simp only [sysStep]; split
    · exact ⟨ha, hb⟩
    · rename_i hg
      refine ⟨cl_step _ _ ?_ ha, hb⟩
      intro c hc
      injection hc with hc
      subst hc
      intro he
      apply hg
      simp [he]
  | eofB =>
    simp only [sysStep]; split
    · exact ⟨ha, cl_step _ _ (by intro c hc; cases hc) hb⟩
    · exact ⟨ha, hb⟩
  | eofA =>
    simp only [sysStep]; split
    · exact ⟨cl_step _ _ (by intro c hc; cases hc) ha, hb⟩
    · exact ⟨ha, hb⟩

theorem cl_sys_run (sch : List SysEv) : ∀ s : Sys, CL s.a ∧ CL s.b → CL (runSys s sch).a ∧ CL (runSys s sch).b := by
  induction sch with
  | nil => intro s h; exact h
  | cons ev sch ih => intro s h; rw [runSys_cons]; exact ih _ (cl_sys_step s ev h)

/-- all endpoint invariants at every reachable state -/
theorem epAll_reachable (cfgA cfgB : Cfg) (sch : List SysEv)
    (a1 : 0 < cfgA.segInit) (a2 : cfgA.privExt = false) (a3 : 0 < cfgA.segMru)
    (b1 : 0 < cfgB.segInit) (b2 : cfgB.privExt = false) (b3 : 0 < cfgB.segMru)
    (hwf : ∀ pre, pre <+: sch → SysWF (runSys (initSys cfgA cfgB) pre))
    (hs : ∀ ev ∈ sch, ev.sendOK) :
    EpAll (runSys (initSys cfgA cfgB) sch).a ∧ EpAll (runSys (initSys cfgA cfgB) sch).b := by
  have hcs : CS (runSys (initSys cfgA cfgB) sch) := cs_run sch _ (cs_init cfgA cfgB a1 a2 a3 b1 b2 b3) hwf hs
  obtain ⟨wa, wb⟩ := C01_no_lost_wakeup cfgA cfgB sch a1 a2 a3 b1 b2 b3 hwf hs
  obtain ⟨qa, qb⟩ := sys_lift_init (fun e => QInv e ∧ SP e)
    (fun e ev h => ⟨h.1.step e ev, sp_step e ev h.1 h.2⟩)
    (fun cfg => ⟨QInv.init cfg, sp_init cfg⟩) cfgA cfgB sch
  obtain ⟨sa, sb⟩ := sys_lift_init ASInv asInv_step asInv_init cfgA cfgB sch
  obtain ⟨ta, tb⟩ := sys_lift_init TSok ts_step ts_init cfgA cfgB sch
  obtain ⟨pa, pb⟩ := sys_lift_init PEInv pe_step pe_init cfgA cfgB sch
  obtain ⟨ga, gb⟩ := sys_lift_init GotInv got_step got_init cfgA cfgB sch
  obtain ⟨ra, rb⟩ := sys_lift_init (fun e => e.rxMore = false) rxMore_step (fun _ => rfl) cfgA cfgB sch
  obtain ⟨ca, cb⟩ := cl_sys_run sch (initSys cfgA cfgB)
    ⟨cl_step _ _ (by intro c h; cases h) (cl_init cfgA), cl_step _ _ (by intro c h; cases h) (cl_init cfgB)⟩
  exact ⟨⟨hcs.inv.ia, wa, qa.1, qa.2, sa, hcs.ka, hcs.ca, ta, pa, ga, ca, ra⟩,
         ⟨hcs.inv.ib, wb, qb.1, qb.2, sb, hcs.kb, hcs.cb, tb, pb, gb, cb, rb⟩⟩

/-- the peer's SESS_TERM, once processed, has been recorded and answered -/
theorem term_reaches (x y : Ep) (hx : EpAll x) (hy : EpAll y) (hxy : y.processed = x.emitted) (xt : x.inTerm = true) :
    y.gotTerm = true ∧ y.inTerm = true := by
  obtain ⟨P, hP⟩ := hx.inv.tx
  have hL := hP.L
  simp only [Ep.txView] at hL
  have hts : (⟨phaseOf x.txView, x.inTerm, curL x.txView, x.nStarted⟩ : LState).termSeen = true := xt
  rcases termSeen_of_run x.emitted {} _ hL hts with h | ⟨m, hm, hmt⟩
  · cases h
  · cases m with
    | sessTerm f r =>
      have hproc : Msg.sessTerm f r ∈ y.processed := by rw [hxy]; exact hm
      rcases hy.got.2 f r hproc with hg | ⟨z, hz, hzr⟩
      · exact ⟨hg, hy.got.1 hg⟩
      · have := hy.ci.norej
        simp only [rejsOf, List.filter_eq_nil_iff] at this
        exact absurd hzr (this z hz)
    | _ => simp [Msg.isTerm'] at hmt

/-- what a quiescent wire gives one direction: everything emitted has been received and processed -/
theorem quiet_wire (w r : Ep) (pipe : Bytes) (hw : EpAll w) (hr : EpAll r) (hwf : ∀ m ∈ w.emitted, m.WF)
    (hwire : r.rxBytes ++ pipe = w.accepted) (hp : pipe = []) (wo : w.closed = false) (ro : r.closed = false)
    (hsrc : w.txSrc = 0) : r.processed = w.emitted ∧ r.rxBytes = encodeAll w.emitted := by
  obtain ⟨b1, b2⟩ := no_src_buffers hw.ts wo hsrc
  refine ⟨drained_processed w r pipe hw.inv hr.inv hwf hwire b1 b2 hp ro, ?_⟩
  have hacc : encodeAll w.emitted = w.accepted ++ w.connBuf ++ w.txBuf := hw.inv.pump
  rw [hacc, b1, b2, ← hwire, hp]; simp

end Tcpcl
end DtnVerif
