/-
  Frame lemmas for the acknowledgement-causality invariant: which functions can emit a segment or a
  MSG_REJECT, and which can change `txTmp` / `txPendAck`.
  (Generated from the patterns of Lemmas/TcpclAckSeq.lean and Lemmas/TcpclSucc.lean; the lemmas for
  the functions that do change these are stated separately in Lemmas/TcpclCausal.lean.)
-/
import DtnVerif.Lemmas.TcpclOwed
import DtnVerif.Lemmas.TcpclAckSucc
namespace DtnVerif
namespace Tcpcl

def rejsOf (ms : List Msg) : List Msg := ms.filter Msg.isRej

@[simp] theorem segInfo_append (a b : List Msg) : segInfo (a ++ b) = segInfo a ++ segInfo b := by
  simp [segInfo, List.flatMap_append]
@[simp] theorem segInfo_nil : segInfo [] = [] := rfl
@[simp] theorem segInfo_cons (m : Msg) (ms : List Msg) : segInfo (m :: ms) = segInfoOf m ++ segInfo ms := by
  simp [segInfo, List.flatMap_cons]
attribute [simp] segInfoOf
@[simp] theorem rejsOf_append (a b : List Msg) : rejsOf (a ++ b) = rejsOf a ++ rejsOf b := by simp [rejsOf]
@[simp] theorem rejsOf_nil : rejsOf [] = [] := rfl
@[simp] theorem rejsOf_cons (m : Msg) (ms : List Msg) :
    rejsOf (m :: ms) = if m.isRej then m :: rejsOf ms else rejsOf ms := by
  simp [rejsOf, List.filter_cons]
attribute [simp] Msg.isRej

@[simp] theorem si_sendMessage (e : Ep) (m : Msg) :
    segInfo (sendMessage e m).emitted = segInfo e.emitted ++ segInfoOf m := by
  simp [sendMessage, sendReady, kaReset, idleReset]
@[simp] theorem rj_sendMessage (e : Ep) (m : Msg) :
    rejsOf (sendMessage e m).emitted = rejsOf e.emitted ++ rejsOf [m] := by
  simp [sendMessage, sendReady, kaReset, idleReset]

/-! segments -/

@[simp] theorem si_kaReset (e : Ep) : segInfo (kaReset e).emitted = segInfo e.emitted := by first | rfl | simp [sendContact, sendInit, sendReject, flushPendStart, mergeSession]
@[simp] theorem si_idleReset (e : Ep) : segInfo (idleReset e).emitted = segInfo e.emitted := by first | rfl | simp [sendContact, sendInit, sendReject, flushPendStart, mergeSession]
@[simp] theorem si_pqTrigger (e : Ep) : segInfo (pqTrigger e).emitted = segInfo e.emitted := by
  unfold pqTrigger; split <;> rfl
@[simp] theorem si_setState (e : Ep) (s : String) : segInfo (setState e s).1.emitted = segInfo e.emitted := by
  unfold setState; split <;> rfl
@[simp] theorem si_flush (e : Ep) : segInfo (flushPendStart e).1.emitted = segInfo e.emitted := by first | rfl | simp [sendContact, sendInit, sendReject, flushPendStart, mergeSession]
@[simp] theorem si_doClose (e : Ep) : segInfo (doClose e).1.emitted = segInfo e.emitted := by
  unfold doClose; split <;> rfl
@[simp] theorem si_checkSessTerm (e : Ep) : segInfo (checkSessTerm e).1.emitted = segInfo e.emitted := by
  unfold checkSessTerm; split
  · exact si_doClose e
  · first | rfl | simp
@[simp] theorem si_sendBufferDecreased (e : Ep) : segInfo (sendBufferDecreased e).emitted = segInfo e.emitted := by
  unfold sendBufferDecreased; split
  · exact si_pqTrigger e
  · first | rfl | simp
@[simp] theorem si_mergeSession (e : Ep) (p : PeerInit) : segInfo (mergeSession e p).emitted = segInfo e.emitted := by first | rfl | simp [sendContact, sendInit, sendReject, flushPendStart, mergeSession]
@[simp] theorem si_sendContact (e : Ep) : segInfo (sendContact e).emitted = segInfo e.emitted := by first | rfl | simp [sendContact, sendInit, sendReject, flushPendStart, mergeSession]
@[simp] theorem si_sendInit (e : Ep) : segInfo (sendInit e).emitted = segInfo e.emitted := by first | rfl | simp [sendContact, sendInit, sendReject, flushPendStart, mergeSession]
@[simp] theorem si_sendReject (e : Ep) (r : Nat) (m : Msg) : segInfo (sendReject e r m).emitted = segInfo e.emitted := by first | rfl | simp [sendContact, sendInit, sendReject, flushPendStart, mergeSession]
@[simp] theorem si_sendSessTerm (e : Ep) (r : Nat) (b : Bool) : segInfo (sendSessTerm e r b).1.emitted = segInfo e.emitted := by
  unfold sendSessTerm
  split
  · first | rfl | simp
  · split
    · first | rfl | simp
    · simp
@[simp] theorem si_pullTx (e : Ep) : segInfo (pullTx e).emitted = segInfo e.emitted := by
  unfold pullTx; split <;> simp

@[simp] theorem si_onContact (e : Ep) : segInfo (onContact e).1.emitted = segInfo e.emitted := by
  unfold onContact; simp only []; cases e.cfg.passive <;> simp
@[simp] theorem si_onSessInit (e : Ep) (p : PeerInit) : segInfo (onSessInit e p).1.emitted = segInfo e.emitted := by
  unfold onSessInit; simp only []; cases e.cfg.passive <;> simp
@[simp] theorem si_onSessTerm (e : Ep) (m : Msg) (r : Nat) : segInfo (onSessTerm e m r).1.emitted = segInfo e.emitted := by
  unfold onSessTerm
  split
  · first | rfl | simp
  · simp only [si_checkSessTerm, si_flush]
    split <;> simp
@[simp] theorem si_onAck (e : Ep) (m : Msg) (f t l : Nat) : segInfo (onAck e m f t l).1.emitted = segInfo e.emitted := by
  unfold onAck
  split
  · first | rfl | simp
  · split
    · first | rfl | simp
    · split
      · split <;> simp
      · first | rfl | simp
@[simp] theorem si_onRefuse (e : Ep) (m : Msg) (r t : Nat) : segInfo (onRefuse e m r t).1.emitted = segInfo e.emitted := by
  unfold onRefuse
  split
  · first | rfl | simp
  · split
    · first | rfl | simp
    · simp only [si_checkSessTerm]
      split
      · split <;> simp
      · first | rfl | simp

@[simp] theorem si_writeConn (e : Ep) (n : Nat) (up : Bool) : segInfo (writeConn e n up).1.emitted = segInfo e.emitted := by
  unfold writeConn
  split
  · split <;> simp
  · simp only []
    split
    · simp
    · split <;> simp
@[simp] theorem si_pump (e : Ep) (n : Nat) : segInfo (pump e n).1.emitted = segInfo e.emitted := by
  unfold pump; simp

/-! rejects -/

@[simp] theorem rj_kaReset (e : Ep) : rejsOf (kaReset e).emitted = rejsOf e.emitted := by first | rfl | simp [sendContact, sendInit, sendReject, flushPendStart, mergeSession]
@[simp] theorem rj_idleReset (e : Ep) : rejsOf (idleReset e).emitted = rejsOf e.emitted := by first | rfl | simp [sendContact, sendInit, sendReject, flushPendStart, mergeSession]
@[simp] theorem rj_pqTrigger (e : Ep) : rejsOf (pqTrigger e).emitted = rejsOf e.emitted := by
  unfold pqTrigger; split <;> rfl
@[simp] theorem rj_setState (e : Ep) (s : String) : rejsOf (setState e s).1.emitted = rejsOf e.emitted := by
  unfold setState; split <;> rfl
@[simp] theorem rj_flush (e : Ep) : rejsOf (flushPendStart e).1.emitted = rejsOf e.emitted := by first | rfl | simp [sendContact, sendInit, sendReject, flushPendStart, mergeSession]
@[simp] theorem rj_doClose (e : Ep) : rejsOf (doClose e).1.emitted = rejsOf e.emitted := by
  unfold doClose; split <;> rfl
@[simp] theorem rj_checkSessTerm (e : Ep) : rejsOf (checkSessTerm e).1.emitted = rejsOf e.emitted := by
  unfold checkSessTerm; split
  · exact rj_doClose e
  · first | rfl | simp
@[simp] theorem rj_sendBufferDecreased (e : Ep) : rejsOf (sendBufferDecreased e).emitted = rejsOf e.emitted := by
  unfold sendBufferDecreased; split
  · exact rj_pqTrigger e
  · first | rfl | simp
@[simp] theorem rj_mergeSession (e : Ep) (p : PeerInit) : rejsOf (mergeSession e p).emitted = rejsOf e.emitted := by first | rfl | simp [sendContact, sendInit, sendReject, flushPendStart, mergeSession]
@[simp] theorem rj_sendContact (e : Ep) : rejsOf (sendContact e).emitted = rejsOf e.emitted := by first | rfl | simp [sendContact, sendInit, sendReject, flushPendStart, mergeSession]
@[simp] theorem rj_sendInit (e : Ep) : rejsOf (sendInit e).emitted = rejsOf e.emitted := by first | rfl | simp [sendContact, sendInit, sendReject, flushPendStart, mergeSession]
@[simp] theorem rj_sendSessTerm (e : Ep) (r : Nat) (b : Bool) : rejsOf (sendSessTerm e r b).1.emitted = rejsOf e.emitted := by
  unfold sendSessTerm
  split
  · first | rfl | simp
  · split
    · first | rfl | simp
    · simp
@[simp] theorem rj_sendSegment (e : Ep) (it : TxItem) (s : Nat) : rejsOf (sendSegment e it s).1.emitted = rejsOf e.emitted := by
  unfold sendSegment
  simp only []
  split
  · first | rfl | simp
  · split <;> simp
@[simp] theorem rj_processQueue (e : Ep) : rejsOf (processQueue e).1.emitted = rejsOf e.emitted := by
  unfold processQueue
  split
  · simp
  · split
    · first | rfl | simp
    · split
      · simp
      · split
        · first | rfl | simp
        · simp
@[simp] theorem rj_pullTx (e : Ep) : rejsOf (pullTx e).emitted = rejsOf e.emitted := by
  unfold pullTx; split <;> simp

@[simp] theorem rj_onContact (e : Ep) : rejsOf (onContact e).1.emitted = rejsOf e.emitted := by
  unfold onContact; simp only []; cases e.cfg.passive <;> simp
@[simp] theorem rj_onSessInit (e : Ep) (p : PeerInit) : rejsOf (onSessInit e p).1.emitted = rejsOf e.emitted := by
  unfold onSessInit; simp only []; cases e.cfg.passive <;> simp
@[simp] theorem rj_writeConn (e : Ep) (n : Nat) (up : Bool) : rejsOf (writeConn e n up).1.emitted = rejsOf e.emitted := by
  unfold writeConn
  split
  · split <;> simp
  · simp only []
    split
    · simp
    · split <;> simp
@[simp] theorem rj_pump (e : Ep) (n : Nat) : rejsOf (pump e n).1.emitted = rejsOf e.emitted := by
  unfold pump; simp

/-! txTmp -/

@[simp] theorem tt_kaReset (e : Ep) : (kaReset e).txTmp = e.txTmp := rfl
@[simp] theorem tt_idleReset (e : Ep) : (idleReset e).txTmp = e.txTmp := rfl
@[simp] theorem tt_sendMessage (e : Ep) (m : Msg) : (sendMessage e m).txTmp = e.txTmp := rfl
@[simp] theorem tt_pqTrigger (e : Ep) : (pqTrigger e).txTmp = e.txTmp := by
  unfold pqTrigger; split <;> rfl
@[simp] theorem tt_setState (e : Ep) (s : String) : (setState e s).1.txTmp = e.txTmp := by
  unfold setState; split <;> rfl
@[simp] theorem tt_flush (e : Ep) : (flushPendStart e).1.txTmp = e.txTmp := rfl
@[simp] theorem tt_doClose (e : Ep) : (doClose e).1.txTmp = e.txTmp := by
  unfold doClose; split <;> rfl
@[simp] theorem tt_checkSessTerm (e : Ep) : (checkSessTerm e).1.txTmp = e.txTmp := by
  unfold checkSessTerm; split
  · exact tt_doClose e
  · rfl
@[simp] theorem tt_sendBufferDecreased (e : Ep) : (sendBufferDecreased e).txTmp = e.txTmp := by
  unfold sendBufferDecreased; split
  · exact tt_pqTrigger e
  · rfl
@[simp] theorem tt_mergeSession (e : Ep) (p : PeerInit) : (mergeSession e p).txTmp = e.txTmp := rfl
@[simp] theorem tt_sendContact (e : Ep) : (sendContact e).txTmp = e.txTmp := rfl
@[simp] theorem tt_sendInit (e : Ep) : (sendInit e).txTmp = e.txTmp := rfl
@[simp] theorem tt_sendReject (e : Ep) (r : Nat) (m : Msg) : (sendReject e r m).txTmp = e.txTmp := rfl
@[simp] theorem tt_sendSessTerm (e : Ep) (r : Nat) (b : Bool) : (sendSessTerm e r b).1.txTmp = e.txTmp := by
  unfold sendSessTerm
  split
  · rfl
  · split
    · rfl
    · simp
@[simp] theorem tt_pullTx (e : Ep) : (pullTx e).txTmp = e.txTmp := by
  unfold pullTx; split <;> simp

@[simp] theorem tt_writeConn (e : Ep) (n : Nat) (up : Bool) : (writeConn e n up).1.txTmp = e.txTmp := by
  unfold writeConn
  split
  · split <;> simp
  · simp only []
    split
    · simp
    · split <;> simp
@[simp] theorem tt_pump (e : Ep) (n : Nat) : (pump e n).1.txTmp = e.txTmp := by
  unfold pump; simp

@[simp] theorem tt_onContact (e : Ep) : (onContact e).1.txTmp = e.txTmp := by
  unfold onContact; simp only []; cases e.cfg.passive <;> simp
@[simp] theorem tt_onSessInit (e : Ep) (p : PeerInit) : (onSessInit e p).1.txTmp = e.txTmp := by
  unfold onSessInit; simp only []; cases e.cfg.passive <;> simp
@[simp] theorem tt_onSessTerm (e : Ep) (m : Msg) (r : Nat) : (onSessTerm e m r).1.txTmp = e.txTmp := by
  unfold onSessTerm
  split
  · rfl
  · simp only [tt_checkSessTerm, tt_flush]
    split <;> simp
@[simp] theorem tt_segAccept (e : Ep) (f t : Nat) (c d : Bytes) (o : List Out) :
    (segAccept e f t c d o).1.txTmp = e.txTmp := by
  unfold segAccept; simp only []; split <;> simp
@[simp] theorem tt_onSegment (e : Ep) (m : Msg) (f t : Nat) (d : Bytes) :
    (onSegment e m f t d).1.txTmp = e.txTmp := by
  unfold onSegment
  split
  · rfl
  · split
    · simp
    · split
      · split <;> simp
      · rfl
/-! txPendAck -/

@[simp] theorem pa_kaReset (e : Ep) : (kaReset e).txPendAck = e.txPendAck := rfl
@[simp] theorem pa_idleReset (e : Ep) : (idleReset e).txPendAck = e.txPendAck := rfl
@[simp] theorem pa_sendMessage (e : Ep) (m : Msg) : (sendMessage e m).txPendAck = e.txPendAck := rfl
@[simp] theorem pa_pqTrigger (e : Ep) : (pqTrigger e).txPendAck = e.txPendAck := by
  unfold pqTrigger; split <;> rfl
@[simp] theorem pa_setState (e : Ep) (s : String) : (setState e s).1.txPendAck = e.txPendAck := by
  unfold setState; split <;> rfl
@[simp] theorem pa_flush (e : Ep) : (flushPendStart e).1.txPendAck = e.txPendAck := rfl
@[simp] theorem pa_doClose (e : Ep) : (doClose e).1.txPendAck = e.txPendAck := by
  unfold doClose; split <;> rfl
@[simp] theorem pa_checkSessTerm (e : Ep) : (checkSessTerm e).1.txPendAck = e.txPendAck := by
  unfold checkSessTerm; split
  · exact pa_doClose e
  · rfl
@[simp] theorem pa_sendBufferDecreased (e : Ep) : (sendBufferDecreased e).txPendAck = e.txPendAck := by
  unfold sendBufferDecreased; split
  · exact pa_pqTrigger e
  · rfl
@[simp] theorem pa_mergeSession (e : Ep) (p : PeerInit) : (mergeSession e p).txPendAck = e.txPendAck := rfl
@[simp] theorem pa_sendContact (e : Ep) : (sendContact e).txPendAck = e.txPendAck := rfl
@[simp] theorem pa_sendInit (e : Ep) : (sendInit e).txPendAck = e.txPendAck := rfl
@[simp] theorem pa_sendReject (e : Ep) (r : Nat) (m : Msg) : (sendReject e r m).txPendAck = e.txPendAck := rfl
@[simp] theorem pa_sendSessTerm (e : Ep) (r : Nat) (b : Bool) : (sendSessTerm e r b).1.txPendAck = e.txPendAck := by
  unfold sendSessTerm
  split
  · rfl
  · split
    · rfl
    · simp
@[simp] theorem pa_pullTx (e : Ep) : (pullTx e).txPendAck = e.txPendAck := by
  unfold pullTx; split <;> simp

@[simp] theorem pa_writeConn (e : Ep) (n : Nat) (up : Bool) : (writeConn e n up).1.txPendAck = e.txPendAck := by
  unfold writeConn
  split
  · split <;> simp
  · simp only []
    split
    · simp
    · split <;> simp
@[simp] theorem pa_pump (e : Ep) (n : Nat) : (pump e n).1.txPendAck = e.txPendAck := by
  unfold pump; simp

@[simp] theorem pa_onContact (e : Ep) : (onContact e).1.txPendAck = e.txPendAck := by
  unfold onContact; simp only []; cases e.cfg.passive <;> simp
@[simp] theorem pa_onSessInit (e : Ep) (p : PeerInit) : (onSessInit e p).1.txPendAck = e.txPendAck := by
  unfold onSessInit; simp only []; cases e.cfg.passive <;> simp
@[simp] theorem pa_onSessTerm (e : Ep) (m : Msg) (r : Nat) : (onSessTerm e m r).1.txPendAck = e.txPendAck := by
  unfold onSessTerm
  split
  · rfl
  · simp only [pa_checkSessTerm, pa_flush]
    split <;> simp
@[simp] theorem pa_segAccept (e : Ep) (f t : Nat) (c d : Bytes) (o : List Out) :
    (segAccept e f t c d o).1.txPendAck = e.txPendAck := by
  unfold segAccept; simp only []; split <;> simp
@[simp] theorem pa_onSegment (e : Ep) (m : Msg) (f t : Nat) (d : Bytes) :
    (onSegment e m f t d).1.txPendAck = e.txPendAck := by
  unfold onSegment
  split
  · rfl
  · split
    · simp
    · split
      · split <;> simp
      · rfl
