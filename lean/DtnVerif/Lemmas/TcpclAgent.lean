/-
  Agent-level termination (tcpcl/agent.py): `stop()` leaves no contact open, `shutdown()` leaves
  every remaining contact terminating and closes only contacts which have no session, and the
  `on_stop` callback runs only when no contact is left.
-/
import DtnVerif.Model.TcpclAgent
namespace DtnVerif
namespace TcpclAgent

def ids (a : Agent) : List Nat := a.handlers.map (·.id)

/-! ### a contact closing -/

theorem unbind_handlers (a : Agent) (id : Nat) :
    (unbind a id).1.handlers = a.handlers.filter (·.id != id) := by
  unfold unbind; simp only []; split <;> rfl

theorem unbind_flags (a : Agent) (id : Nat) :
    (unbind a id).1.inShutdown = a.inShutdown ∧ (unbind a id).1.stopOnClose = a.stopOnClose := by
  unfold unbind; simp only []; split <;> exact ⟨rfl, rfl⟩

theorem contactClosed_handlers (a : Agent) (id : Nat) :
    (contactClosed a id).1.handlers = a.handlers.filter (·.id != id) := by
  unfold contactClosed
  split
  · exact unbind_handlers a id
  · rename_i h
    simp only [List.any_eq_true, beq_iff_eq, not_exists, not_and] at h
    symm
    apply List.filter_eq_self.mpr
    intro c hc
    simp only [bne_iff_ne, ne_eq]
    exact h c hc

theorem contactClosed_flags (a : Agent) (id : Nat) :
    (contactClosed a id).1.inShutdown = a.inShutdown ∧ (contactClosed a id).1.stopOnClose = a.stopOnClose := by
  unfold contactClosed
  split
  · exact unbind_flags a id
  · exact ⟨rfl, rfl⟩

/-- the `on_stop` callback is reached from a closing contact only when that empties the list while
    shutting down or with `stop_on_close` -/
theorem contactClosed_stopped (a : Agent) (id : Nat) (h : AOut.stopped ∈ (contactClosed a id).2) :
    (contactClosed a id).1.handlers = [] ∧ (a.inShutdown = true ∨ a.stopOnClose = true) := by
  unfold contactClosed at h ⊢
  split at h
  · rename_i hin
    simp only [hin, if_true]
    unfold unbind at h ⊢
    simp only [] at h ⊢
    split at h
    · rename_i hc
      simp only [hc, if_true]
      simp only [Bool.and_eq_true, List.isEmpty_iff, Bool.or_eq_true] at hc
      exact hc
    · simp at h
  · simp at h

/-- … and it reports exactly that contact as closed -/
theorem contactClosed_closed (a : Agent) (id x : Nat) (h : AOut.closed x ∈ (contactClosed a id).2) :
    x = id ∧ ∃ c ∈ a.handlers, c.id = id := by
  unfold contactClosed at h
  split at h
  · rename_i hin
    simp only [List.any_eq_true, beq_iff_eq] at hin
    unfold unbind at h
    simp only [] at h
    split at h <;> simp at h <;> exact ⟨h, hin⟩
  · simp at h

/-! ### `stop()` -/

theorem closeAll_handlers (l : List Nat) (a : Agent) :
    (closeAll a l).1.handlers = a.handlers.filter (fun c => !l.contains c.id) := by
  induction l generalizing a with
  | nil =>
    simp only [closeAll]; symm
    apply List.filter_eq_self.mpr
    intro c _; simp
  | cons x l ih =>
    simp only [closeAll]
    rw [ih, contactClosed_handlers, List.filter_filter]
    apply List.filter_congr
    intro c _
    simp only [List.contains_cons, Bool.not_or, bne, Bool.and_comm]

/-- **`stop()` leaves no contact open.** -/
theorem stop_closes_all (a : Agent) : (stop a).1.handlers = [] := by
  unfold stop
  simp only []
  rw [closeAll_handlers]
  apply List.filter_eq_nil_iff.mpr
  intro c hc
  have hm : (a.handlers.map (·.id)).contains c.id = true := by
    simp only [List.contains_eq_mem, decide_eq_true_eq]
    exact List.mem_map.mpr ⟨c, hc, rfl⟩
  rw [hm]; simp

/-! ### `shutdown()` -/

theorem uniq_of_nodup_map {α β : Type} (f : α → β) : ∀ (l : List α), (l.map f).Nodup →
    ∀ x ∈ l, ∀ y ∈ l, f x = f y → x = y := by
  intro l
  induction l with
  | nil => intro _ x hx; cases hx
  | cons z l ih =>
    intro h x hx y hy hxy
    simp only [List.map_cons, List.nodup_cons, List.mem_map, not_exists, not_and] at h
    rcases List.mem_cons.mp hx with rfl | hx' <;> rcases List.mem_cons.mp hy with rfl | hy'
    · rfl
    · exact absurd hxy.symm (h.1 y hy')
    · exact absurd hxy (h.1 x hx')
    · exact ih h.2 x hx' y hy' hxy

theorem shutdownOne_flags (a : Agent) (c : Contact) :
    (shutdownOne a c).1.inShutdown = a.inShutdown ∧ (shutdownOne a c).1.stopOnClose = a.stopOnClose := by
  unfold shutdownOne
  split
  · exact ⟨rfl, rfl⟩
  · split
    · exact ⟨rfl, rfl⟩
    · split
      · exact ⟨rfl, rfl⟩
      · exact contactClosed_flags a c.id

/-- ids only disappear -/
theorem shutdownOne_ids_sub (a : Agent) (c : Contact) : ∀ x ∈ (shutdownOne a c).1.handlers, x.id ∈ ids a := by
  unfold shutdownOne
  split
  · intro x hx; exact List.mem_map.mpr ⟨x, hx, rfl⟩
  · split
    · intro x hx
      simp only [List.mem_map] at hx
      obtain ⟨y, hy, rfl⟩ := hx
      have : (if y.id == c.id then { y with inTerm := true } else y).id = y.id := by split <;> rfl
      rw [this]; exact List.mem_map.mpr ⟨y, hy, rfl⟩
    · split
      · intro x hx; exact List.mem_map.mpr ⟨x, hx, rfl⟩
      · intro x hx
        rw [contactClosed_handlers] at hx
        exact List.mem_map.mpr ⟨x, (List.mem_filter.mp hx).1, rfl⟩

/-- what one iteration does to a contact which stays: `inTerm` only ever becomes true -/
theorem shutdownOne_keeps (a : Agent) (c : Contact) :
    ∀ x ∈ (shutdownOne a c).1.handlers, ∃ y ∈ a.handlers, y.id = x.id ∧ (y.inTerm = true → x.inTerm = true) := by
  unfold shutdownOne
  split
  · intro x hx; exact ⟨x, hx, rfl, id⟩
  · split
    · intro x hx
      simp only [List.mem_map] at hx
      obtain ⟨y, hy, rfl⟩ := hx
      refine ⟨y, hy, ?_, ?_⟩
      · split <;> rfl
      · intro h; split
        · rfl
        · exact h
    · split
      · intro x hx; exact ⟨x, hx, rfl, id⟩
      · intro x hx
        rw [contactClosed_handlers] at hx
        exact ⟨x, (List.mem_filter.mp hx).1, rfl, id⟩

/-- after the iteration for `c`, a remaining contact with that id is terminating (ids are distinct) -/
theorem shutdownOne_done (a : Agent) (c : Contact) (hnd : (ids a).Nodup) :
    ∀ x ∈ (shutdownOne a c).1.handlers, x.id = c.id → x.inTerm = true := by
  unfold shutdownOne
  split
  · rename_i hnone
    intro x hx hid
    have := List.find?_eq_none.mp hnone x hx
    simp [hid] at this
  · rename_i cur hcur
    have hmem : cur ∈ a.handlers := List.mem_of_find?_eq_some hcur
    have hcid : cur.id = c.id := by
      have := List.find?_some hcur; simpa using this
    -- by distinct ids `cur` is the only contact with that id
    have huniq : ∀ x ∈ a.handlers, x.id = c.id → x = cur := by
      intro x hx hid
      have h1 : x.id = cur.id := by rw [hid, hcid]
      exact uniq_of_nodup_map (fun z : Contact => z.id) a.handlers hnd x hx cur hmem h1
    split
    · intro x hx hid
      simp only [List.mem_map] at hx
      obtain ⟨y, hy, rfl⟩ := hx
      split
      · rfl
      · rename_i hne
        exfalso; apply hne
        have : (if y.id == c.id then { y with inTerm := true } else y).id = y.id := by split <;> rfl
        rw [this] at hid
        simp [hid]
    · split
      · rename_i hterm
        intro x hx hid
        rw [huniq x hx hid]; exact hterm
      · intro x hx hid
        rw [contactClosed_handlers] at hx
        have := (List.mem_filter.mp hx).2
        simp [hid] at this

theorem nodup_filter_ids (a : Agent) (p : Contact → Bool) (h : (ids a).Nodup) :
    ((a.handlers.filter p).map (·.id)).Nodup := by
  unfold ids at h
  exact List.Nodup.sublist (List.Sublist.map _ List.filter_sublist) h

theorem shutdownOne_nodup (a : Agent) (c : Contact) (h : (ids a).Nodup) : (ids (shutdownOne a c).1).Nodup := by
  unfold shutdownOne
  split
  · exact h
  · split
    · unfold ids
      simp only [List.map_map]
      have : ((fun x : Contact => x.id) ∘ fun x => if x.id == c.id then { x with inTerm := true } else x)
          = fun x : Contact => x.id := by
        funext x; simp only [Function.comp]; split <;> rfl
      rw [this]; exact h
    · split
      · exact h
      · unfold ids; rw [contactClosed_handlers]; exact nodup_filter_ids a _ h

/-- the loop invariant: contacts whose turn has come are terminating -/
theorem shutdownLoop_inv (cs : List Contact) : ∀ (a : Agent) (done : List Nat), (ids a).Nodup →
    (∀ x ∈ a.handlers, x.id ∈ done → x.inTerm = true) →
    (∀ x ∈ (shutdownLoop a cs).1.handlers, (x.id ∈ done ∨ x.id ∈ cs.map (·.id)) → x.inTerm = true)
    ∧ (∀ x ∈ (shutdownLoop a cs).1.handlers, x.id ∈ ids a) := by
  induction cs with
  | nil =>
    intro a done _ h
    refine ⟨?_, fun x hx => List.mem_map.mpr ⟨x, hx, rfl⟩⟩
    intro x hx hor
    rcases hor with h1 | h1
    · exact h x hx h1
    · simp at h1
  | cons c cs ih =>
    intro a done hnd h
    simp only [shutdownLoop]
    have hnd1 := shutdownOne_nodup a c hnd
    have h1 : ∀ x ∈ (shutdownOne a c).1.handlers, x.id ∈ c.id :: done → x.inTerm = true := by
      intro x hx hmem
      rcases List.mem_cons.mp hmem with he | hd
      · exact shutdownOne_done a c hnd x hx he
      · obtain ⟨y, hy, hyid, hyt⟩ := shutdownOne_keeps a c x hx
        exact hyt (h y hy (hyid ▸ hd))
    obtain ⟨i1, i2⟩ := ih (shutdownOne a c).1 (c.id :: done) hnd1 h1
    refine ⟨?_, ?_⟩
    · intro x hx hor
      apply i1 x hx
      rcases hor with hd | hc
      · exact Or.inl (List.mem_cons_of_mem _ hd)
      · simp only [List.map_cons, List.mem_cons] at hc
        rcases hc with he | hc
        · exact Or.inl (by rw [he]; exact List.mem_cons_self)
        · exact Or.inr hc
    · intro x hx
      have := i2 x hx
      unfold ids at this
      obtain ⟨y, hy, hyid⟩ := List.mem_map.mp this
      rw [← hyid]
      exact shutdownOne_ids_sub a c y hy

/-- **`shutdown()` leaves every remaining contact terminating.** -/
theorem shutdown_all_terminating (a : Agent) (hnd : (ids a).Nodup) :
    ∀ x ∈ (shutdown a).1.handlers, x.inTerm = true := by
  unfold shutdown
  simp only []
  split
  · intro x hx
    rw [stop_closes_all] at hx
    cases hx
  · intro x hx
    have hnd1 : (ids { a with inShutdown := true }).Nodup := hnd
    obtain ⟨i1, i2⟩ := shutdownLoop_inv a.handlers { a with inShutdown := true } [] hnd1 (by intro _ _ h; cases h)
    apply i1 x hx
    right
    exact i2 x hx

/-- contacts closed by one iteration of `shutdown()` had no session -/
theorem shutdownOne_closed (a : Agent) (c : Contact) (x : Nat) (h : AOut.closed x ∈ (shutdownOne a c).2) :
    ∃ y ∈ a.handlers, y.id = x ∧ y.inSess = false ∧ y.inTerm = false := by
  unfold shutdownOne at h
  split at h
  · simp at h
  · rename_i cur hcur
    have hmem : cur ∈ a.handlers := List.mem_of_find?_eq_some hcur
    have hcid : cur.id = c.id := by
      have := List.find?_some hcur; simpa using this
    split at h
    · simp at h
    · rename_i h1
      split at h
      · simp at h
      · rename_i h2
        obtain ⟨hx, _⟩ := contactClosed_closed a c.id x h
        refine ⟨cur, hmem, by rw [hcid, hx], ?_, by simpa using h2⟩
        cases hs : cur.inSess
        · rfl
        · simp [hs] at h1; simp [h1] at h2

theorem shutdownOne_sess (a : Agent) (c : Contact) :
    ∀ x ∈ (shutdownOne a c).1.handlers, ∃ y ∈ a.handlers, y.id = x.id ∧ y.inSess = x.inSess := by
  unfold shutdownOne
  split
  · intro x hx; exact ⟨x, hx, rfl, rfl⟩
  · split
    · intro x hx
      simp only [List.mem_map] at hx
      obtain ⟨y, hy, rfl⟩ := hx
      refine ⟨y, hy, ?_, ?_⟩ <;> (split <;> rfl)
    · split
      · intro x hx; exact ⟨x, hx, rfl, rfl⟩
      · intro x hx
        rw [contactClosed_handlers] at hx
        exact ⟨x, (List.mem_filter.mp hx).1, rfl, rfl⟩

theorem shutdownLoop_closed (cs : List Contact) : ∀ (a : Agent) (x : Nat),
    AOut.closed x ∈ (shutdownLoop a cs).2 → ∃ y ∈ a.handlers, y.id = x ∧ y.inSess = false := by
  induction cs with
  | nil => intro a x h; simp [shutdownLoop] at h
  | cons c cs ih =>
    intro a x h
    simp only [shutdownLoop, List.mem_append] at h
    rcases h with h | h
    · obtain ⟨y, hy, h1, h2, _⟩ := shutdownOne_closed a c x h
      exact ⟨y, hy, h1, h2⟩
    · obtain ⟨y, hy, h1, h2⟩ := ih _ x h
      obtain ⟨z, hz, g1, g2⟩ := shutdownOne_sess a c y hy
      exact ⟨z, hz, by rw [g1, h1], by rw [g2, h2]⟩

/-- **`shutdown()` never closes an established contact**: what it closes had no session to end. -/
theorem shutdown_closes_only_sessionless (a : Agent) (x : Nat) (h : AOut.closed x ∈ (shutdown a).2) :
    ∃ y ∈ a.handlers, y.id = x ∧ y.inSess = false := by
  unfold shutdown at h
  simp only [] at h
  split at h
  · rename_i he
    simp only [List.isEmpty_iff] at he
    simp only [stop, he, List.map_nil, closeAll, List.nil_append, List.mem_append, List.mem_cons, reduceCtorEq,
      List.not_mem_nil, or_self] at h
  · simp only [List.mem_append, List.mem_singleton, reduceCtorEq, or_false] at h
    exact shutdownLoop_closed a.handlers { a with inShutdown := true } x h

theorem shutdownOne_stopped (a : Agent) (c : Contact) (h : AOut.stopped ∈ (shutdownOne a c).2) :
    (shutdownOne a c).1.handlers = [] := by
  unfold shutdownOne at h ⊢
  cases hf : a.handlers.find? (·.id == c.id) with
  | none => rw [hf] at h; simp at h
  | some cur =>
    rw [hf] at h
    simp only [] at h ⊢
    by_cases h1 : (cur.inSess && !cur.inTerm) = true
    · rw [if_pos h1] at h; simp at h
    · rw [if_neg h1] at h ⊢
      by_cases h2 : cur.inTerm = true
      · rw [if_pos h2] at h; simp at h
      · rw [if_neg h2] at h ⊢
        exact (contactClosed_stopped a c.id h).1

theorem shutdownOne_empty (a : Agent) (c : Contact) (h : a.handlers = []) : (shutdownOne a c).1.handlers = [] := by
  unfold shutdownOne; simp [h]

theorem shutdownLoop_empty (cs : List Contact) (a : Agent) (h : a.handlers = []) : (shutdownLoop a cs).1.handlers = [] := by
  induction cs generalizing a with
  | nil => exact h
  | cons c cs ih => simp only [shutdownLoop]; exact ih _ (shutdownOne_empty a c h)

theorem shutdownLoop_stopped (cs : List Contact) : ∀ (a : Agent), AOut.stopped ∈ (shutdownLoop a cs).2 →
    (shutdownLoop a cs).1.handlers = [] := by
  induction cs with
  | nil => intro a h; simp [shutdownLoop] at h
  | cons c cs ih =>
    intro a h
    simp only [shutdownLoop, List.mem_append] at h ⊢
    rcases h with h | h
    · exact shutdownLoop_empty cs _ (shutdownOne_stopped a c h)
    · exact ih _ h

/-- **The agent stops only when no contact is left**, whichever way `on_stop` is reached. -/
theorem shutdown_stopped (a : Agent) (h : AOut.stopped ∈ (shutdown a).2) : (shutdown a).1.handlers = [] := by
  unfold shutdown at h ⊢
  simp only [] at h ⊢
  split
  · exact stop_closes_all _
  · rename_i hne
    simp only [hne, Bool.false_eq_true, if_false, List.mem_append, List.mem_singleton, reduceCtorEq, or_false] at h
    exact shutdownLoop_stopped a.handlers _ h

/-- `shutdown()` answers `True` exactly when nothing is left to wait for -/
theorem shutdown_ret (a : Agent) : AOut.ret ((shutdown a).1.handlers.isEmpty) ∈ (shutdown a).2 := by
  unfold shutdown
  simp only []
  split
  · simp [stop_closes_all]
  · simp

/-! ### distinct contact ids along any history -/

theorem step_nodup (a : Agent) (op : Op) (h : (ids a).Nodup) : (ids (step a op).1).Nodup := by
  have hmap : ∀ (f : Contact → Contact), (∀ x, (f x).id = x.id) → (ids { a with handlers := a.handlers.map f }).Nodup := by
    intro f hf
    unfold ids
    simp only [List.map_map]
    have : ((fun x : Contact => x.id) ∘ f) = fun x : Contact => x.id := by funext x; exact hf x
    rw [this]; exact h
  cases op with
  | bind id =>
    simp only [step]
    split
    · exact h
    · rename_i hn
      unfold ids
      simp only [List.map_append, List.map_cons, List.map_nil]
      refine List.nodup_append.mpr ⟨h, by simp, ?_⟩
      intro x hx y hy
      simp only [List.mem_singleton] at hy
      subst hy
      intro he
      apply hn
      simp only [List.any_eq_true, beq_iff_eq]
      obtain ⟨c, hc, hcid⟩ := List.mem_map.mp hx
      exact ⟨c, hc, by rw [hcid, he]⟩
  | establish id => exact hmap _ (fun x => by split <;> rfl)
  | contactTerm id => exact hmap _ (fun x => by split <;> rfl)
  | contactClosed id =>
    simp only [step]; unfold ids; rw [contactClosed_handlers]; exact nodup_filter_ids a _ h
  | stop =>
    simp only [step]; unfold ids; rw [stop_closes_all]; simp
  | shutdown =>
    simp only [step]
    unfold shutdown
    simp only []
    split
    · unfold ids; rw [stop_closes_all]; simp
    · have : ∀ (cs : List Contact) (b : Agent), (ids b).Nodup → (ids (shutdownLoop b cs).1).Nodup := by
        intro cs
        induction cs with
        | nil => intro b hb; exact hb
        | cons c cs ih => intro b hb; simp only [shutdownLoop]; exact ih _ (shutdownOne_nodup b c hb)
      exact this a.handlers _ h

theorem run_nodup (ops : List Op) : ∀ (a : Agent), (ids a).Nodup → (ids (run a ops).1).Nodup := by
  induction ops with
  | nil => intro a h; exact h
  | cons op ops ih => intro a h; simp only [run]; exact ih _ (step_nodup a op h)

end TcpclAgent
end DtnVerif
