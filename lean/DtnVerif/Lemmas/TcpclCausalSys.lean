/-
  Acknowledgement causality in the two-endpoint system: at every reachable state the acknowledgements
  one side has processed are a prefix of what the ideal receiver owes for the segments that side has
  emitted (alignment), hence the endpoint invariant `CI` holds on both sides — in particular neither
  endpoint ever emits a MSG_REJECT.
-/
import DtnVerif.Lemmas.TcpclCausal
import DtnVerif.Lemmas.TcpclSysLift
namespace DtnVerif
namespace Tcpcl

theorem specAcksFrom_app (s : RxSpec) (a b : List Msg) :
    specAcksFrom s (a ++ b) = specAcksFrom s a ++ specAcksFrom (a.foldl rxSpecStep s) b := by
  induction a generalizing s with
  | nil => rfl
  | cons x a ih => simp [specAcksFrom, ih, List.append_assoc]

theorem specAcks_prefix {a b : List Msg} (h : a <+: b) : specAcks a <+: specAcks b := by
  obtain ⟨t, rfl⟩ := h
  unfold specAcks
  rw [specAcksFrom_app]
  exact List.prefix_append _ _

/-- alignment of one side from transport, the peer's acknowledgement sequence and legality of the own
    emitted sequence -/
theorem aligned_of (w r : Ep) (hw : EpInv w) (hrA : AckSeqInv r) (t1 : w.processed <+: r.emitted)
    (t2 : r.processed <+: w.emitted) : (acksOf w.processed).map ackInfo <+: segInfo w.emitted := by
  have h1 : acksOf w.processed <+: acksOf r.emitted := acksOf_prefix t1
  have h2 : acksOf r.emitted = specAcks r.processed := hrA
  have h3 : specAcks r.processed <+: specAcks w.emitted := specAcks_prefix t2
  have h4 : (specAcks w.emitted).map ackInfo = segInfo w.emitted := owed_info_legal _ (emitted_legal hw)
  rw [h2] at h1
  rw [← h4]
  exact List.IsPrefix.map ackInfo (List.IsPrefix.trans h1 h3)

structure CS (s : Sys) : Prop where
  inv : SysInv s
  qa : QInv s.a
  qb : QInv s.b
  ka : AckSeqInv s.a
  kb : AckSeqInv s.b
  ca : CI s.a
  cb : CI s.b

theorem CS.aligned {s : Sys} (h : CS s) (hwf : SysWF s) :
    (acksOf s.a.processed).map ackInfo <+: segInfo s.a.emitted
    ∧ (acksOf s.b.processed).map ackInfo <+: segInfo s.b.emitted := by
  obtain ⟨tB, tA⟩ := transport s h.inv hwf
  exact ⟨aligned_of s.a s.b h.inv.ia h.kb tA tB, aligned_of s.b s.a h.inv.ib h.ka tB tA⟩

theorem nAcks_le_of_aligned {e : Ep} (h : (acksOf e.processed).map ackInfo <+: segInfo e.emitted) :
    nAcks e ≤ (segInfo e.emitted).length := by
  have := h.length_le
  simpa [nAcks] using this

/-- one endpoint moves: the conditions `CI` needs are supplied by the invariants of the state *after* the move -/
theorem ci_move (w w' r : Ep) (ev : Ev) (hmove : w' = (step w ev).1)
    (hw : EpInv w) (hw' : EpInv w') (hq : QInv w) (hc : CI w)
    (hal : (acksOf w.processed).map ackInfo <+: segInfo w.emitted)
    (hal' : (acksOf w'.processed).map ackInfo <+: segInfo w'.emitted) : CI w' := by
  subst hmove
  obtain ⟨P, hP⟩ := hw.tx
  by_cases hrx : ∃ c, ev = .rx c
  · obtain ⟨c, rfl⟩ := hrx
    obtain ⟨P', hP'⟩ := hw'.tx
    have hleg : (legalRun {} (step w (.rx c)).1.processed).isSome := by
      have := hP'.hP; simp only [Ep.txView] at this; rw [this]; rfl
    have hok := hw'.okProc
    revert hleg hok hal'
    unfold step
    simp only []
    split
    · intro _ _ _; exact hc
    · intro hal' hleg hok
      rw [si_recvRaw] at hal'
      exact ci_recvRaw w c P hc hq hw.rx hP hleg hok hal'
  · exact ci_step_local w ev (fun c h => hrx ⟨c, h⟩) hP.noPriv (nAcks_le_of_aligned hal) hc

theorem cs_step (s : Sys) (ev : SysEv) (h : CS s) (hwf : SysWF s) (hwf' : SysWF (sysStep s ev)) (hs : ev.sendOK) :
    CS (sysStep s ev) := by
  have hinv' : SysInv (sysStep s ev) := sysInv_step s ev h.inv hwf hs
  obtain ⟨qa', qb'⟩ := sys_lift_step QInv (fun e ev hq => hq.step e ev) s ev ⟨h.qa, h.qb⟩
  obtain ⟨ka', kb'⟩ := sys_lift_step (fun e => RxInv e ∧ AckSeqInv e)
    (fun e ev hh => ⟨rxInv_step e ev hh.1, ackSeq_step e ev hh.1 hh.2⟩) s ev ⟨⟨h.inv.ia.rx, h.ka⟩, ⟨h.inv.ib.rx, h.kb⟩⟩
  obtain ⟨alA, alB⟩ := h.aligned hwf
  have hpost : (acksOf (sysStep s ev).a.processed).map ackInfo <+: segInfo (sysStep s ev).a.emitted
      ∧ (acksOf (sysStep s ev).b.processed).map ackInfo <+: segInfo (sysStep s ev).b.emitted := by
    obtain ⟨tB, tA⟩ := transport _ hinv' hwf'
    exact ⟨aligned_of _ _ hinv'.ia kb'.2 tA tB, aligned_of _ _ hinv'.ib ka'.2 tB tA⟩
  refine ⟨hinv', qa', qb', ka'.2, kb'.2, ?_, ?_⟩
  · -- endpoint A
    revert hinv' hpost
    cases ev with
    | atA ev =>
      simp only [sysStep]
      split
      · intro hinv' hpost; exact ci_move s.a _ s.b ev rfl h.inv.ia hinv'.ia h.qa h.ca alA hpost.1
      · intro _ _; exact h.ca
    | atB ev => simp only [sysStep]; split <;> (intro _ _; exact h.ca)
    | deliverB k => simp only [sysStep]; split <;> (intro _ _; exact h.ca)
    | deliverA k =>
      simp only [sysStep]
      split
      · intro _ _; exact h.ca
      · intro hinv' hpost; exact ci_move s.a _ s.b _ rfl h.inv.ia hinv'.ia h.qa h.ca alA hpost.1
    | eofB => simp only [sysStep]; split <;> (intro _ _; exact h.ca)
    | eofA =>
      simp only [sysStep]
      split
      · intro hinv' hpost; exact ci_move s.a _ s.b _ rfl h.inv.ia hinv'.ia h.qa h.ca alA hpost.1
      · intro _ _; exact h.ca
  · -- endpoint B
    revert hinv' hpost
    cases ev with
    | atB ev =>
      simp only [sysStep]
      split
      · intro hinv' hpost; exact ci_move s.b _ s.a ev rfl h.inv.ib hinv'.ib h.qb h.cb alB hpost.2
      · intro _ _; exact h.cb
    | atA ev => simp only [sysStep]; split <;> (intro _ _; exact h.cb)
    | deliverA k => simp only [sysStep]; split <;> (intro _ _; exact h.cb)
    | deliverB k =>
      simp only [sysStep]
      split
      · intro _ _; exact h.cb
      · intro hinv' hpost; exact ci_move s.b _ s.a _ rfl h.inv.ib hinv'.ib h.qb h.cb alB hpost.2
    | eofA => simp only [sysStep]; split <;> (intro _ _; exact h.cb)
    | eofB =>
      simp only [sysStep]
      split
      · intro hinv' hpost; exact ci_move s.b _ s.a _ rfl h.inv.ib hinv'.ib h.qb h.cb alB hpost.2
      · intro _ _; exact h.cb

theorem cs_run (sch : List SysEv) : ∀ (s : Sys), CS s → (∀ pre, pre <+: sch → SysWF (runSys s pre)) →
    (∀ ev ∈ sch, ev.sendOK) → CS (runSys s sch) := by
  induction sch with
  | nil => intro s h _ _; exact h
  | cons ev sch ih =>
    intro s h hwf hs
    rw [runSys_cons]
    have hwf0 : SysWF s := hwf [] List.nil_prefix
    have hwf1 : SysWF (sysStep s ev) := by
      have := hwf [ev] (by simp)
      simpa [runSys] using this
    refine ih _ (cs_step s ev h hwf0 hwf1 (hs ev List.mem_cons_self)) ?_ ?_
    · intro pre hpre
      have := hwf (ev :: pre) (List.cons_prefix_cons.mpr ⟨rfl, hpre⟩)
      rwa [runSys_cons] at this
    · intro ev' hev'; exact hs ev' (List.mem_cons_of_mem _ hev')

end Tcpcl
end DtnVerif
