/-
  Every processed final XFER_ACK either made its transfer succeed or was answered by a MSG_REJECT.
  (Generated from the pattern of Lemmas/TcpclEmit.lean via TcpclAck.lean.)
-/
import DtnVerif.Model.TcpclEp
namespace DtnVerif
namespace Tcpcl

def Msg.isRej : Msg → Bool
  | .msgReject .. => true
  | _ => false

/-- a processed final acknowledgement either made its transfer succeed or was answered by a MSG_REJECT -/
def asOK (su : List Nat) (em : List Msg) : Msg → Prop
  | .xferAck f t _ => hasEnd f = true → t ∈ su ∨ ∃ r ∈ em, r.isRej = true
  | _ => True

theorem asOK_mono {su : List Nat} {em : List Msg} (x : List Nat) (y : List Msg) {m : Msg} (h : asOK su em m) :
    asOK (su ++ x) (em ++ y) m := by
  cases m <;> simp only [asOK] at h ⊢
  intro he
  rcases h he with h | ⟨r, hr, hj⟩
  · exact Or.inl (List.mem_append_left _ h)
  · exact Or.inr ⟨r, List.mem_append_left _ hr, hj⟩

def ASInv (e : Ep) : Prop := ∀ m ∈ e.processed, asOK e.successLog e.emitted m

structure ASView where
  processed : List Msg
  successLog : List Nat
  emitted : List Msg

def Ep.asView (e : Ep) : ASView := ⟨e.processed, e.successLog, e.emitted⟩

theorem asInv_of_view {e e' : Ep} (h : e'.asView = e.asView) (hi : ASInv e) : ASInv e' := by
  simp only [Ep.asView, ASView.mk.injEq] at h
  obtain ⟨h1, h2, h3⟩ := h
  unfold ASInv at *
  rw [h1, h2, h3]; exact hi

@[simp] theorem sv_kaReset (e : Ep) : (kaReset e).asView = e.asView := rfl
@[simp] theorem sv_idleReset (e : Ep) : (idleReset e).asView = e.asView := rfl
@[simp] theorem sv_pqTrigger (e : Ep) : (pqTrigger e).asView = e.asView := by
  unfold pqTrigger; split <;> rfl
@[simp] theorem sv_setState (e : Ep) (s : String) : (setState e s).1.asView = e.asView := by
  unfold setState; split <;> rfl
@[simp] theorem sv_flush (e : Ep) : (flushPendStart e).1.asView = e.asView := rfl
@[simp] theorem sv_doClose (e : Ep) : (doClose e).1.asView = e.asView := by
  unfold doClose; split <;> rfl
@[simp] theorem sv_checkSessTerm (e : Ep) : (checkSessTerm e).1.asView = e.asView := by
  unfold checkSessTerm; split
  · exact sv_doClose e
  · rfl
@[simp] theorem sv_sendBufferDecreased (e : Ep) : (sendBufferDecreased e).asView = e.asView := by
  unfold sendBufferDecreased; split
  · exact sv_pqTrigger e
  · rfl
@[simp] theorem sv_mergeSession (e : Ep) (p : PeerInit) : (mergeSession e p).asView = e.asView := rfl

theorem asInv_sendMessage (e : Ep) (m : Msg) (hi : ASInv e) : ASInv (sendMessage e m) := by
  intro x hx
  have := asOK_mono [] [m] (hi x hx)
  simpa [sendMessage, sendReady, kaReset, idleReset] using this

theorem asInv_sendContact (e : Ep) (hi : ASInv e) : ASInv (sendContact e) :=
  asInv_of_view (e := sendMessage e (.contact 0)) rfl (asInv_sendMessage e _ hi)

theorem asInv_sendInit (e : Ep) (hi : ASInv e) : ASInv (sendInit e) :=
  asInv_of_view (e := sendMessage e (.sessInit e.cfg.keepalive e.cfg.segMru sizeMax e.cfg.nodeId (sessionExt e.cfg)))
    rfl (asInv_sendMessage e _ hi)

theorem asInv_sendReject (e : Ep) (r : Nat) (m : Msg) (hi : ASInv e) : ASInv (sendReject e r m) :=
  asInv_sendMessage e _ hi

theorem asInv_sendSessTerm (e : Ep) (r : Nat) (b : Bool) (hi : ASInv e) :
    ASInv (sendSessTerm e r b).1 := by
  unfold sendSessTerm
  split
  · exact hi
  · split
    · exact hi
    · simp only []
      refine asInv_of_view (sv_flush _) (asInv_sendMessage _ _ ?_)
      exact asInv_of_view (by rw [sv_setState]; rfl) hi

theorem asInv_sendSegment (e : Ep) (it : TxItem) (sent : Nat) (hi : ASInv e) :
    ASInv (sendSegment e it sent).1 := by
  unfold sendSegment
  simp only []
  split
  · exact asInv_of_view rfl hi
  · split
    · refine asInv_of_view (by rw [sv_pqTrigger]; rfl) (asInv_sendMessage e _ hi)
    · exact asInv_of_view rfl (asInv_sendMessage e _ hi)

theorem asInv_processQueue (e : Ep) (hi : ASInv e) : ASInv (processQueue e).1 := by
  unfold processQueue
  split
  · exact asInv_sendSegment e _ _ hi
  · split
    · exact hi
    · split
      · exact asInv_of_view (by simp only [sv_checkSessTerm, sv_flush]) hi
      · split
        · exact hi
        · exact asInv_sendSegment _ _ _ (asInv_of_view rfl hi)

theorem asInv_pullTx (e : Ep) (hi : ASInv e) : ASInv (pullTx e) := by
  unfold pullTx
  split
  · exact asInv_of_view (by rw [sv_sendBufferDecreased]; rfl) hi
  · exact hi

theorem asInv_writeConn (e : Ep) (n : Nat) (up : Bool) (hi : ASInv e) : ASInv (writeConn e n up).1 := by
  unfold writeConn
  split
  · split
    · exact asInv_of_view (sv_checkSessTerm e) hi
    · exact hi
  · simp only []
    split
    · exact hi
    · split
      · exact asInv_of_view (by rw [sv_checkSessTerm]; rfl) hi
      · exact asInv_of_view rfl hi

theorem asInv_pump (e : Ep) (n : Nat) (hi : ASInv e) : ASInv (pump e n).1 :=
  asInv_writeConn _ _ _ (asInv_pullTx e hi)

/-! receive handlers -/

theorem asInv_onContact (e : Ep) (hi : ASInv e) : ASInv (onContact e).1 := by
  unfold onContact
  simp only []
  have h1 : ASInv (if e.cfg.passive then sendContact e else e) := by
    split
    · exact asInv_sendContact e hi
    · exact hi
  have h2 : ASInv (setState (if e.cfg.passive then sendContact e else e) "session-negotiating").1 :=
    asInv_of_view (sv_setState _ _) h1
  split
  · exact asInv_sendInit _ h2
  · exact h2

theorem asInv_onSessInit (e : Ep) (p : PeerInit) (hi : ASInv e) : ASInv (onSessInit e p).1 := by
  unfold onSessInit
  simp only []
  have h1 : ASInv (if e.cfg.passive then sendInit e else e) := by
    split
    · exact asInv_sendInit e hi
    · exact hi
  refine asInv_of_view ?_ h1
  rw [sv_setState, sv_mergeSession]; rfl

theorem asInv_onSessTerm (e : Ep) (m : Msg) (r : Nat) (hi : ASInv e) : ASInv (onSessTerm e m r).1 := by
  unfold onSessTerm
  split
  · exact asInv_sendReject e _ _ hi
  · simp only []
    refine asInv_of_view (by rw [sv_checkSessTerm, sv_flush]) (e := { (if !e.inTerm then sendSessTerm e r true else (e, [])).1 with gotTerm := true }) ?_
    refine asInv_of_view (e := (if !e.inTerm then sendSessTerm e r true else (e, [])).1) rfl ?_
    split
    · exact asInv_sendSessTerm e r true hi
    · exact hi

theorem asInv_segAccept (e : Ep) (flags tid : Nat) (cur data : Bytes) (o1 : List Out) (hi : ASInv e) :
    ASInv (segAccept e flags tid cur data o1).1 := by
  unfold segAccept
  simp only []
  split
  · exact asInv_of_view (by rw [sv_checkSessTerm]; rfl) (asInv_sendMessage e _ hi)
  · exact asInv_sendMessage _ _ (asInv_of_view rfl hi)

theorem asInv_onSegment (e : Ep) (m : Msg) (flags tid : Nat) (data : Bytes) (hi : ASInv e) :
    ASInv (onSegment e m flags tid data).1 := by
  unfold onSegment
  split
  · exact asInv_sendReject e _ _ hi
  · split
    · exact asInv_segAccept _ _ _ _ _ _ (asInv_of_view rfl hi)
    · split
      · split
        · exact asInv_segAccept _ _ _ _ _ _ hi
        · exact asInv_sendReject e _ _ hi
      · exact asInv_sendReject e _ _ hi

/-- `hi`: the invariant for the messages processed before this acknowledgement; the acknowledgement
    itself is the last element of `processed` -/
theorem asInv_onAck (e0 : Ep) (f t l : Nat) (hi : ASInv e0) :
    ASInv (onAck { e0 with processed := e0.processed ++ [.xferAck f t l] } (.xferAck f t l) f t l).1 := by
  have hold : ∀ (e1 : Ep), e1.processed = e0.processed ++ [.xferAck f t l] →
      (∀ x ∈ e0.processed, asOK e1.successLog e1.emitted x) →
      (hasEnd f = true → t ∈ e1.successLog ∨ ∃ r ∈ e1.emitted, r.isRej = true) → ASInv e1 := by
    intro e1 hp h1 h2 x hx
    rw [hp] at hx
    rcases List.mem_append.mp hx with hx | hx
    · exact h1 x hx
    · simp only [List.mem_singleton] at hx; subst hx; exact h2
  have rej : ∀ (e1 : Ep), e1.processed = e0.processed ++ [.xferAck f t l] → e1.successLog = e0.successLog →
      e1.emitted = e0.emitted → ∀ r, ASInv (sendReject e1 r (.xferAck f t l)) := by
    intro e1 hp hs he r
    refine hold _ (by simpa [sendReject, sendMessage, sendReady, kaReset, idleReset] using hp) ?_ ?_
    · intro x hx
      have := asOK_mono [] [Msg.msgReject (Msg.xferAck f t l).type r] (hi x hx)
      simpa [sendReject, sendMessage, sendReady, kaReset, idleReset, hs, he] using this
    · intro _
      exact Or.inr ⟨.msgReject (Msg.xferAck f t l).type r, by simp [sendReject, sendMessage, sendReady, kaReset, idleReset], rfl⟩
  unfold onAck
  split
  · (refine rej _ ?_ ?_ ?_ _ <;> rfl)
  · split
    · (refine rej _ ?_ ?_ ?_ _ <;> rfl)
    · split
      · rename_i hend
        split
        · (refine rej _ ?_ ?_ ?_ _ <;> rfl)
        · refine asInv_of_view (sv_checkSessTerm _) ?_
          refine hold _ rfl ?_ ?_
          · intro x hx
            have := asOK_mono [t] [] (hi x hx)
            simpa using this
          · intro _; exact Or.inl (by simp)
      · rename_i hend
        refine hold _ rfl (fun x hx => hi x hx) ?_
        intro he; exact absurd he hend

theorem asInv_onRefuse (e : Ep) (m : Msg) (r t : Nat) (hi : ASInv e) : ASInv (onRefuse e m r t).1 := by
  unfold onRefuse
  split
  · exact asInv_sendReject e _ _ hi
  · split
    · exact asInv_sendReject e _ _ hi
    · refine asInv_of_view ?_ hi
      simp only [sv_checkSessTerm]
      split
      · split
        · rw [sv_pqTrigger]; rfl
        · rfl
      · rfl

theorem asInv_handleMsg (e : Ep) (m : Msg) (hi : ASInv e) : ASInv (handleMsg e m).1 := by
  have h0 : ∀ (hm : ∀ f t l, m ≠ .xferAck f t l), ASInv { e with processed := e.processed ++ [m] } := by
    intro hm x hx
    simp only [List.mem_append, List.mem_singleton] at hx
    rcases hx with hx | hx
    · exact hi x hx
    · subst hx
      cases x <;> simp only [asOK]
      exact absurd rfl (hm _ _ _)
  unfold handleMsg
  cases m with
  | contact f => exact asInv_onContact _ (h0 (by intro _ _ _ h; cases h))
  | sessInit ka sm xm node ext => exact asInv_onSessInit _ _ (h0 (by intro _ _ _ h; cases h))
  | sessTerm f r => exact asInv_onSessTerm _ _ _ (h0 (by intro _ _ _ h; cases h))
  | keepalive => exact h0 (by intro _ _ _ h; cases h)
  | msgReject a b => exact h0 (by intro _ _ _ h; cases h)
  | xferSegment flags tid ext data => exact asInv_onSegment _ _ _ _ _ (h0 (by intro _ _ _ h; cases h))
  | xferAck f t l => exact asInv_onAck e f t l hi
  | xferRefuse r t => exact asInv_onRefuse _ _ _ _ (h0 (by intro _ _ _ h; cases h))

theorem asInv_handleMsgs (ms : List Msg) (e : Ep) (hi : ASInv e) : ASInv (handleMsgs e ms).1 := by
  induction ms generalizing e with
  | nil => exact hi
  | cons m ms ih =>
    unfold handleMsgs
    split
    · exact hi
    · exact ih _ (asInv_handleMsg _ m (asInv_of_view (e := e) rfl hi))

theorem asInv_recvRaw (e : Ep) (c : Bytes) (hi : ASInv e) : ASInv (recvRaw e c).1 := by
  unfold recvRaw
  simp only []
  have h0 : ASInv (rxEntry e c) := asInv_of_view rfl hi
  have h1 := asInv_handleMsgs (feed e.rx c).2 _ h0
  split
  · exact asInv_of_view (sv_doClose _) h1
  · exact h1

theorem asInv_step (e : Ep) (ev : Ev) (hi : ASInv e) : ASInv (step e ev).1 := by
  unfold step
  cases ev with
  | advance ms => exact asInv_of_view rfl hi
  | start =>
    simp only []
    split
    · exact hi
    · split
      · exact hi
      · refine asInv_of_view (sv_setState _ _) ?_
        split
        · exact asInv_sendContact _ (asInv_of_view rfl hi)
        · exact asInv_of_view rfl hi
  | send d =>
    simp only []
    split
    · exact hi
    · exact asInv_of_view (by rw [sv_pqTrigger]; rfl) hi
  | terminate r =>
    simp only []
    split
    · exact hi
    · exact asInv_sendSessTerm _ _ _ hi
  | close =>
    simp only []
    split
    · exact hi
    · exact asInv_of_view (sv_doClose _) hi
  | pop t =>
    simp only []
    have : ASInv (popRx e t).1 := by
      refine asInv_of_view ?_ hi
      unfold popRx; split <;> rfl
    split <;> exact this
  | query q => simp only []; split <;> exact hi
  | procQueue =>
    simp only []
    split
    · exact asInv_of_view rfl hi
    · split
      · exact hi
      · exact asInv_of_view rfl (asInv_processQueue _ (asInv_of_view (e := e) rfl hi))
  | pump n =>
    simp only []
    split
    · exact hi
    · split
      · exact hi
      · exact asInv_of_view rfl (asInv_pump _ _ (asInv_of_view (e := e) rfl hi))
  | rx c =>
    simp only []
    split
    · exact hi
    · exact asInv_recvRaw e c hi
  | rxEof =>
    simp only []
    split
    · exact hi
    · exact asInv_of_view (sv_doClose _) hi
  | keepaliveTimer =>
    simp only []
    split
    · exact hi
    · split
      · exact hi
      · exact asInv_sendMessage _ _ (asInv_of_view rfl hi)
  | idleTimer =>
    simp only []
    split
    · exact hi
    · split
      · exact hi
      · split
        · exact asInv_of_view (by rw [sv_doClose]; rfl) hi
        · exact asInv_sendSessTerm _ _ _ (asInv_of_view rfl hi)
  | modulate raw =>
    simp only []
    split
    · exact hi
    · split
      · exact asInv_of_view rfl hi
      · exact hi

theorem asInv_init (cfg : Cfg) : ASInv { cfg := cfg } := by
  intro m hm; simp at hm

theorem asInv_run (evs : List Ev) (e : Ep) (hi : ASInv e) : ASInv (runEp e evs) := by
  induction evs generalizing e with
  | nil => exact hi
  | cons ev evs ih =>
    simp only [runEp, run]
    exact ih _ (asInv_step e ev hi)

end Tcpcl
end DtnVerif
