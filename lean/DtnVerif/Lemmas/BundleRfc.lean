/- The independent RFC 9171 encoder agrees with the model encoder, and the independent shape
   recogniser accepts the model encoder's output (lemmas for Props/C02). -/
import DtnVerif.Lemmas.BundleDec
namespace DtnVerif
namespace Bp
open Cbor

/-! ### rfcHead = head -/

theorem beBytes_snoc (k n : Nat) :
    beBytes (k + 1) n = beBytes k (n / 256) ++ [UInt8.ofNat (n % 256)] := by
  induction k generalizing n with
  | zero => simp [beBytes]
  | succ k ih =>
    rw [beBytes, ih (n % 256 ^ (k + 1))]
    conv => rhs; rw [beBytes]
    have e1 : n / 256 / 256 ^ k = n / 256 ^ (k + 1) := by
      rw [Nat.div_div_eq_div_mul, Nat.pow_succ, Nat.mul_comm]
    have e2 : n % 256 ^ (k + 1) / 256 = n / 256 % 256 ^ k := by
      rw [Nat.pow_succ, Nat.mul_comm, Nat.mod_mul_right_div_self]
    have e3 : n % 256 ^ (k + 1) % 256 = n % 256 := by
      apply Nat.mod_mod_of_dvd
      exact ⟨256 ^ k, by rw [Nat.pow_succ, Nat.mul_comm]⟩
    rw [e1, e2, e3]
    simp

theorem rfcBE_eq (k n : Nat) : rfcBE k n = beBytes k n := by
  induction k generalizing n with
  | zero => rfl
  | succ k ih => rw [rfcBE, ih, beBytes_snoc]

theorem shl5_or (mt n : Nat) (h : n < 32) : mt <<< 5 ||| n = mt * 32 + n := by
  rw [← Nat.shiftLeft_add_eq_or_of_lt (by simpa using h), Nat.shiftLeft_eq]

theorem rfcHead_eq (mt n : Nat) : rfcHead mt n = head mt n := by
  unfold rfcHead head
  by_cases h1 : n < 24
  · have : n ≤ 23 := by omega
    simp only [h1, this, if_true, shl5_or mt n (by omega)]
  · have h1' : ¬ n ≤ 23 := by omega
    simp only [h1, h1', if_false, rfcBE_eq, shl5_or mt 24 (by omega), shl5_or mt 25 (by omega),
      shl5_or mt 26 (by omega), shl5_or mt 27 (by omega)]
    have e2 : (n ≤ 0xff) ↔ (n < 256) := by omega
    have e3 : (n ≤ 0xffff) ↔ (n < 65536) := by omega
    have e4 : (n ≤ 0xffffffff) ↔ (n < 4294967296) := by omega
    simp only [e2, e3, e4]

/-! ### rfcEncode = Bundle.enc -/

theorem encItems_append (xs ys : List Item) : encItems (xs ++ ys) = encItems xs ++ encItems ys := by
  induction xs with
  | nil => simp [encItems]
  | cons x xs ih => simp [encItems, ih]

theorem encItems_uints (ps : List Nat) : encItems (ps.map Item.uint) = encNatList ps := by
  induction ps with
  | nil => simp [encItems, encNatList]
  | cons p ps ih => simp [encItems, encItem, encNatList, encUint, rfcHead_eq, ih]

theorem encItem_eid (e : Eid) : encItem (eidItem e) = e.enc := by
  cases e with
  | dtnNone => simp [eidItem, encItem, encItems, Eid.enc, rfcHead_eq, encArrHead, encUint]
  | dtn ssp => simp [eidItem, encItem, encItems, Eid.enc, rfcHead_eq, encArrHead, encUint, encTstr]
  | ipn ps =>
    simp [eidItem, encItem, encItems, Eid.enc, rfcHead_eq, encArrHead, encUint, encItems_uints]

theorem encItem_optBstr (o : Option Bytes) : encItem (optBstrItem o) = encOptBstr o := by
  cases o <;> simp [optBstrItem, encItem, encOptBstr, encNull, encBstr, rfcHead_eq]

theorem encItem_primary (p : Primary) : encItem (primaryItem p) = p.enc := by
  unfold primaryItem Primary.enc Primary.fields Primary.count
  by_cases hf : p.flags % 2 = 1 <;> by_cases hc : p.crcType = 0 <;>
    simp [hf, hc, isFragment, encItem, encItems, encItem_eid, encItem_optBstr,
      rfcHead_eq, encArrHead, encUint, Timestamp.enc]

theorem encItem_canonical (c : Canonical) : encItem (canonicalItem c) = c.enc := by
  unfold canonicalItem Canonical.enc Canonical.fields Canonical.count
  by_cases hc : c.crcType = 0 <;>
    simp [hc, encItem, encItems, encItem_optBstr, rfcHead_eq, encArrHead, encUint]

theorem encItems_canonicals (cs : List Canonical) :
    encItems (cs.map canonicalItem) = encBlocks cs := by
  induction cs with
  | nil => simp [encItems, encBlocks]
  | cons c cs ih => simp [encItems, encBlocks, encItem_canonical, ih]

/-- The RFC encoder and the model of the repository's encoder agree on every bundle value. -/
theorem rfcEncode_eq (b : Bundle) : rfcEncode b = b.enc := by
  simp [rfcEncode, Bundle.enc, encItem_primary, encItems_canonicals]

/-! ### the shape recogniser accepts encoder output -/

theorem rdHead_eq (b : Bytes) : rdHead b = decHead b := by
  cases b with
  | nil => rfl
  | cons x r =>
    simp only [rdHead, decHead]
    by_cases h0 : x.toNat % 32 < 24
    · simp only [h0, if_true]
    · simp only [h0, if_false]
      by_cases h24 : x.toNat % 32 = 24
      · simp only [h24, if_true]
        rcases r with _ | ⟨a, r⟩ <;> simp [beNat]
      · simp only [h24, if_false]
        by_cases h25 : x.toNat % 32 = 25
        · simp only [h25, if_true]
          rcases r with _ | ⟨a, _ | ⟨b, r⟩⟩ <;> simp [beNat]
        · simp only [h25, if_false]
          by_cases h26 : x.toNat % 32 = 26
          · simp only [h26, if_true]
            rcases r with _ | ⟨a, _ | ⟨b, _ | ⟨c, _ | ⟨d, r⟩⟩⟩⟩ <;> simp [beNat]
          · simp only [h26, if_false]
            by_cases h27 : x.toNat % 32 = 27
            · simp only [h27, if_true]
              rcases r with _ | ⟨a, _ | ⟨b, _ | ⟨c, _ | ⟨d, _ | ⟨e, _ | ⟨f, _ | ⟨g, _ | ⟨h, r⟩⟩⟩⟩⟩⟩⟩⟩ <;>
                simp [beNat]
            · simp [h27]

theorem rdUint_eq (b : Bytes) : rdUint b = decUint b := by
  simp only [rdUint, decUint, rdHead_eq]
  rcases decHead b with _ | ⟨_ | mt, n, r⟩ <;> rfl

theorem rdUint_enc (n : Nat) (r : Bytes) (h : n < 2 ^ 64) : rdUint (encUint n ++ r) = some (n, r) := by
  rw [rdUint_eq, decUint_enc n r h]

theorem rdBstr_enc (d r : Bytes) (h : d.length < 2 ^ 64) :
    rdBstr (encBstr d ++ r) = some (d.length, r) := by
  simp [rdBstr, rdHead_eq, encBstr, List.append_assoc, decHead_head 2 d.length (d ++ r) (by omega) h]

theorem skip_uint (f n v : Nat) (r : Bytes) (h : v < 2 ^ 64) :
    skipItems (f + 1) (n + 1) (encUint v ++ r) = skipItems f n r := by
  simp [skipItems, rdHead_eq, encUint, decHead_head 0 v r (by omega) h]

theorem skip_arr (f n k : Nat) (r : Bytes) (h : k < 2 ^ 64) :
    skipItems (f + 1) (n + 1) (encArrHead k ++ r) = skipItems f (n + k) r := by
  simp [skipItems, rdHead_eq, encArrHead, decHead_head 4 k r (by omega) h]

theorem skip_tstr (f n : Nat) (d r : Bytes) (h : d.length < 2 ^ 64) :
    skipItems (f + 1) (n + 1) (encTstr d ++ r) = skipItems f n r := by
  simp [skipItems, rdHead_eq, encTstr, List.append_assoc,
    decHead_head 3 d.length (d ++ r) (by omega) h]
  intro h'; omega

theorem skip_natlist (f n : Nat) (ps : List Nat) (r : Bytes) (h : ps.all u64 = true) :
    skipItems (f + ps.length) (n + ps.length) (encNatList ps ++ r) = skipItems f n r := by
  induction ps generalizing f n with
  | nil => simp [encNatList]
  | cons p ps ih =>
    simp only [List.all_cons, Bool.and_eq_true] at h
    simp only [List.length_cons, encNatList, List.append_assoc]
    rw [← Nat.add_assoc, ← Nat.add_assoc, skip_uint _ _ _ _ ((u64_iff _).1 h.1), ih _ _ h.2]

/-- number of CBOR heads in an encoded EID -/
def eidSteps : Eid → Nat
  | .ipn ps => 3 + ps.length
  | _ => 3

theorem eidSteps_le (e : Eid) : eidSteps e ≤ e.enc.length := by
  cases e with
  | dtnNone => simp [eidSteps, Eid.enc]; have := headLen_pos 2; have := headLen_pos 1; have := headLen_pos 0; omega
  | dtn ssp =>
    simp [eidSteps, Eid.enc]
    have := headLen_pos 2; have := headLen_pos 1; have := headLen_pos ssp.length; omega
  | ipn ps =>
    simp [eidSteps, Eid.enc]
    have := headLen_pos 2; have := headLen_pos ps.length; have := encNatList_length_ge ps; omega

theorem skip_eid (f n : Nat) (e : Eid) (r : Bytes) (h : sizeEid e = true) :
    skipItems (f + eidSteps e) (n + 1) (e.enc ++ r) = skipItems f n r := by
  cases e with
  | dtnNone =>
    simp only [eidSteps, Eid.enc, List.append_assoc]
    rw [show f + 3 = f + 1 + 1 + 1 by omega, skip_arr _ _ _ _ (by omega),
      skip_uint _ _ _ _ (by omega), skip_uint _ _ _ _ (by omega)]
  | dtn ssp =>
    have hl : ssp.length < 2 ^ 64 := (u64_iff _).1 (by simpa [sizeEid] using h)
    simp only [eidSteps, Eid.enc, List.append_assoc]
    rw [show f + 3 = f + 1 + 1 + 1 by omega, skip_arr _ _ _ _ (by omega),
      skip_uint _ _ _ _ (by omega), skip_tstr _ _ _ _ hl]
  | ipn ps =>
    simp only [sizeEid, Bool.and_eq_true] at h
    obtain ⟨⟨_, h2⟩, h3⟩ := h
    simp only [eidSteps, Eid.enc, List.append_assoc]
    rw [show f + (3 + ps.length) = f + ps.length + 1 + 1 + 1 by omega, skip_arr _ _ _ _ (by omega),
      skip_uint _ _ _ _ (by omega), skip_arr _ _ _ _ ((u64_iff _).1 h2), skip_natlist _ _ _ _ h3]

theorem skip_ts (f n : Nat) (t : Timestamp) (r : Bytes) (h1 : u64 t.time = true) (h2 : u64 t.seq = true) :
    skipItems (f + 3) (n + 1) (t.enc ++ r) = skipItems f n r := by
  simp only [Timestamp.enc, List.append_assoc]
  rw [show f + 3 = f + 1 + 1 + 1 by omega, skip_arr _ _ _ _ (by omega),
    skip_uint _ _ _ _ ((u64_iff _).1 h1), skip_uint _ _ _ _ ((u64_iff _).1 h2)]

theorem crcFieldOk_cases {t : Nat} {o : Option Bytes} (ht : t ≤ 2) (h : crcFieldOk t o = true) :
    (t = 0 ∧ o = none) ∨ (t ≠ 0 ∧ ∃ d, o = some d ∧ d.length = 2 * t) := by
  cases o with
  | none => left; simpa [crcFieldOk] using h
  | some d =>
    right
    simp only [crcFieldOk, Bool.and_eq_true, bne_iff_ne, ne_eq, beq_iff_eq] at h
    refine ⟨h.1, d, rfl, ?_⟩
    have : t = 1 ∨ t = 2 := by omega
    rcases this with rfl | rfl <;> simpa [crcWidth] using h.2

theorem shapeCanonical_enc (c : Canonical) (r : Bytes) (h : wfCanonical c = true)
    (hb : c.btsd.isSome = true) (hk : crcFieldOk c.crcType c.crc = true) :
    shapeCanonical (c.enc ++ r) = some (c.typeCode, r) := by
  simp only [wfCanonical, Bool.and_eq_true, decide_eq_true_eq] at h
  obtain ⟨⟨⟨⟨⟨ht, hn⟩, hf⟩, hc⟩, hbt⟩, _⟩ := h
  obtain ⟨d, hd⟩ := Option.isSome_iff_exists.1 hb
  have hdl : d.length < 2 ^ 64 := (u64_iff _).1 (by simpa [hd, wfOptBytes] using hbt)
  have hc' : ¬ (c.crcType > 2) := by omega
  rcases crcFieldOk_cases hc hk with ⟨h0, hnone⟩ | ⟨h0, v, hv, hvl⟩
  · simp only [Canonical.enc, Canonical.fields, Canonical.count, List.append_assoc, shapeCanonical,
      rdHead_eq, hd, hnone, h0, encOptBstr]
    simp [encArrHead, decHead_head 4 5 _ (by omega) (by omega),
      rdUint_enc _ _ ((u64_iff _).1 ht), rdUint_enc _ _ ((u64_iff _).1 hn),
      rdUint_enc _ _ ((u64_iff _).1 hf), rdUint_enc 0 _ (by omega), rdBstr_enc _ _ hdl]
  · have hvl' : v.length < 2 ^ 64 := by omega
    have hne : (c.crcType != 0) = true := by simpa using h0
    simp only [Canonical.enc, Canonical.fields, Canonical.count, List.append_assoc, shapeCanonical,
      rdHead_eq, hd, hv, hne, if_true, encOptBstr]
    simp [encArrHead, decHead_head 4 6 _ (by omega) (by omega),
      rdUint_enc _ _ ((u64_iff _).1 ht), rdUint_enc _ _ ((u64_iff _).1 hn),
      rdUint_enc _ _ ((u64_iff _).1 hf), rdUint_enc c.crcType _ (by omega), rdBstr_enc _ _ hdl,
      rdBstr_enc _ _ hvl', hc', h0, hvl]

/-- the five (or seven) items between the CRC type and the CRC field of a primary block -/
theorem skip_mid (d s q : Eid) (ts : Timestamp) (l o t : Nat) (c : Bool) (R : Bytes)
    (hd : sizeEid d = true) (hs : sizeEid s = true) (hq : sizeEid q = true)
    (ht1 : u64 ts.time = true) (ht2 : u64 ts.seq = true) (hl : u64 l = true)
    (ho : u64 o = true) (ht : u64 t = true) (F : Nat)
    (hF : eidSteps d + eidSteps s + eidSteps q + 3 + 1 + (if c then 2 else 0) ≤ F) :
    skipItems F (5 + (if c then 2 else 0))
      (d.enc ++ (s.enc ++ (q.enc ++ (ts.enc ++ (encUint l ++
        ((if c then encUint o ++ encUint t else []) ++ R)))))) = some R := by
  cases c with
  | true =>
    simp only [if_true] at hF
    obtain ⟨f0, rfl⟩ : ∃ f0, F = f0 + 1 + 1 + 1 + 3 + eidSteps q + eidSteps s + eidSteps d :=
      ⟨F - (eidSteps d + eidSteps s + eidSteps q + 3 + 1 + 2), by omega⟩
    simp only [if_true, List.append_assoc]
    rw [show 5 + 2 = 6 + 1 by rfl, skip_eid _ _ _ _ hd, skip_eid _ _ _ _ hs, skip_eid _ _ _ _ hq,
      skip_ts _ _ _ _ ht1 ht2, skip_uint _ _ _ _ ((u64_iff _).1 hl),
      skip_uint _ _ _ _ ((u64_iff _).1 ho), skip_uint _ _ _ _ ((u64_iff _).1 ht)]
    simp [skipItems]
  | false =>
    simp only [Bool.false_eq_true, if_false, Nat.add_zero] at hF
    obtain ⟨f0, rfl⟩ : ∃ f0, F = f0 + 1 + 3 + eidSteps q + eidSteps s + eidSteps d :=
      ⟨F - (eidSteps d + eidSteps s + eidSteps q + 3 + 1), by omega⟩
    simp only [Bool.false_eq_true, if_false, List.nil_append, Nat.add_zero]
    rw [show 5 = 4 + 1 by rfl, skip_eid _ _ _ _ hd, skip_eid _ _ _ _ hs, skip_eid _ _ _ _ hq,
      skip_ts _ _ _ _ ht1 ht2, skip_uint _ _ _ _ ((u64_iff _).1 hl)]
    simp [skipItems]

theorem shapePrimary_enc (p : Primary) (r : Bytes) (h : wfPrimary p = true)
    (hver : p.version = 7) (hk : crcFieldOk p.crcType p.crc = true) :
    shapePrimary (p.enc ++ r) = some r := by
  simp only [wfPrimary, Bool.and_eq_true, decide_eq_true_eq] at h
  obtain ⟨⟨⟨⟨⟨⟨⟨⟨⟨⟨hv, hf⟩, hc⟩, hd⟩, hs⟩, hr⟩, ht⟩, hq⟩, hl⟩, hfr⟩, _⟩ := h
  have hcount : p.count < 2 ^ 64 := by
    unfold Primary.count; split <;> split <;> omega
  have hc' : ¬ (p.crcType > 2) := by omega
  have hfrag : (p.flags % 2 = 1) ↔ isFragment p.flags = true := by simp [isFragment]
  -- fragment fields are 64-bit in either case
  have ho : u64 p.fragOff = true ∧ u64 p.totalLen = true := by
    cases hfv : isFragment p.flags <;> simp only [hfv, if_true, Bool.false_eq_true, if_false,
      Bool.and_eq_true, beq_iff_eq] at hfr
    · rw [hfr.1, hfr.2]; exact ⟨by decide, by decide⟩
    · exact hfr
  have hcnt : p.count = 8 + (if p.flags % 2 = 1 then 2 else 0) + (if p.crcType = 0 then 0 else 1) := by
    unfold Primary.count
    by_cases h1 : p.flags % 2 = 1 <;> by_cases h2 : p.crcType = 0 <;>
      simp [h1, h2, isFragment]
  have hrange : ¬ (p.count < 8 ∨ 11 < p.count) := by
    rw [hcnt]; split <;> split <;> omega
  have hsteps := eidSteps_le p.dest
  have hsteps2 := eidSteps_le p.src
  have hsteps3 := eidSteps_le p.rpt
  have hfragif : (if p.flags % 2 = 1 then 2 else 0) = (if isFragment p.flags = true then 2 else 0) := by
    by_cases h1 : p.flags % 2 = 1 <;> simp [h1, isFragment]
  have hsk := fun (R : Bytes) => skip_mid p.dest p.src p.rpt p.ts p.lifetime p.fragOff p.totalLen
    (isFragment p.flags) R (wfEid_size hd) (wfEid_size hs) (wfEid_size hr) ht hq hl ho.1 ho.2
    (p.dest.enc ++ (p.src.enc ++ (p.rpt.enc ++ (p.ts.enc ++ (encUint p.lifetime ++
        ((if isFragment p.flags then encUint p.fragOff ++ encUint p.totalLen else []) ++ R)))))).length
    (by
      simp only [List.length_append, Timestamp.enc, encUint_length, encArrHead_length]
      have := headLen_pos 2; have := headLen_pos p.ts.time; have := headLen_pos p.ts.seq
      have := headLen_pos p.lifetime
      have := headLen_pos p.fragOff; have := headLen_pos p.totalLen
      cases hfv : isFragment p.flags <;>
        simp only [if_true, Bool.false_eq_true, if_false, List.length_append, List.length_nil,
          encUint_length] <;> omega)
  simp only [Primary.enc, Primary.fields, List.append_assoc, shapePrimary, rdHead_eq, encArrHead,
    decHead_head 4 p.count _ (by omega) hcount, hrange, if_false,
    rdUint_enc _ _ ((u64_iff _).1 hf),
    rdUint_enc p.crcType _ (by omega), rdUint_enc 7 _ (by omega), hver, hc', ne_eq,
    not_true_eq_false, hfragif, hsk]
  rcases crcFieldOk_cases hc hk with ⟨h0, hnone⟩ | ⟨h0, v, hv, hvl⟩
  · simp [h0]
    rw [hcnt, hfragif]; simp [h0]
  · have hvl' : v.length < 2 ^ 64 := by omega
    simp [h0, hv, encOptBstr, rdBstr_enc _ _ hvl', hvl]
    rw [hcnt, hfragif]; simp [h0]

/-- invariant of `shapeBlocks`: what is still required of the remaining blocks given the previous type -/
def okSeq (last : Option Nat) : List Canonical → Bool
  | [] => last == some 1
  | c :: cs => last != some 1 && payloadLast (c :: cs)

theorem shapeBlocks_enc (cs : List Canonical) (last : Option Nat) (fuel : Nat) (hf : cs.length < fuel)
    (h : cs.all (fun c => wfCanonical c && (c.btsd.isSome && crcFieldOk c.crcType c.crc)) = true)
    (hok : okSeq last cs = true) :
    shapeBlocks fuel last (encBlocks cs ++ [0xff]) = true := by
  induction cs generalizing fuel last with
  | nil =>
    cases fuel with
    | zero => simp at hf
    | succ f =>
      simp only [okSeq] at hok
      simp [encBlocks, shapeBlocks, hok]
  | cons c cs ih =>
    cases fuel with
    | zero => simp at hf
    | succ f =>
      simp only [List.all_cons, Bool.and_eq_true] at h
      simp only [List.length_cons] at hf
      simp only [okSeq, Bool.and_eq_true] at hok
      obtain ⟨⟨hw, hb, hk⟩, hrest⟩ := h
      obtain ⟨x, t, hx, hne⟩ := Canonical.enc_cons c
      have hd := shapeCanonical_enc c (encBlocks cs ++ [0xff]) hw hb hk
      have hlast : (last == some 1) = false := by
        have := hok.1; simpa [bne] using this
      simp only [encBlocks, List.append_assoc]
      rw [hx] at hd ⊢
      simp only [List.cons_append, shapeBlocks, hne, hlast] at hd ⊢
      simp only [Bool.false_eq_true, if_false, hd]
      apply ih _ _ (by omega) hrest
      cases cs with
      | nil => simpa [okSeq, payloadLast] using hok.2
      | cons c' cs' =>
        have := hok.2
        simp only [payloadLast, Bool.and_eq_true] at this
        simp only [okSeq, Bool.and_eq_true]
        exact ⟨this.1, this.2⟩

theorem rfc9171Shape_enc (b : Bundle) (h : rfcWf b = true) : rfc9171Shape b.enc = true := by
  simp only [rfcWf, wf, Bool.and_eq_true, beq_iff_eq] at h
  obtain ⟨⟨⟨⟨⟨hp, hcs⟩, hver⟩, hk⟩, hall⟩, hpl⟩ := h
  have hsp := shapePrimary_enc b.primary (encBlocks b.blocks ++ [0xff]) hp hver hk
  simp only [Bundle.enc, List.append_assoc, List.cons_append, List.nil_append, rfc9171Shape, hsp]
  apply shapeBlocks_enc
  · have := encBlocks_length_ge b.blocks
    simp only [List.length_append, List.length_cons, List.length_nil]; omega
  · rw [List.all_eq_true] at hcs hall ⊢
    intro c hc
    have h1 := hcs c hc
    have h2 := hall c hc
    simp only [Bool.and_eq_true] at h2 ⊢
    exact ⟨h1, h2.1, h2.2⟩
  · cases hb : b.blocks with
    | nil => rw [hb] at hpl; simp [payloadLast] at hpl
    | cons c cs => rw [hb] at hpl; simp [okSeq, hpl]

/-! ### RFC 9171 well-formed EIDs are fixed points of the code's normalisation -/

theorem forall_u8 (P : UInt8 → Bool) (h : ∀ n, n < 256 → P (UInt8.ofNat n) = true) (c : UInt8) :
    P c = true := by
  have := h c.toNat c.toNat_lt
  simpa using this

theorem nameChar_facts (c : UInt8) :
    (!isNameChar c || (!isDelim c && !oddAuth c && !isQF c && (c != 9 && c != 10 && c != 13))) = true :=
  forall_u8 (fun c => !isNameChar c || (!isDelim c && !oddAuth c && !isQF c && (c != 9 && c != 10 && c != 13)))
    (by decide +kernel) c

theorem vchar_facts (c : UInt8) : (!isVchar c || (c != 9 && c != 10 && c != 13)) = true :=
  forall_u8 (fun c => !isVchar c || (c != 9 && c != 10 && c != 13)) (by decide +kernel) c

theorem mem_takeWhile_sat {α} (p : α → Bool) (l : List α) : ∀ a ∈ l.takeWhile p, p a = true := by
  induction l with
  | nil => simp
  | cons x xs ih =>
    intro a ha
    rw [List.takeWhile_cons] at ha
    by_cases hx : p x = true
    · simp only [hx, if_true, List.mem_cons] at ha
      rcases ha with rfl | ha
      · exact hx
      · exact ih a ha
    · simp [hx] at ha

theorem takeWhile_app {α} (p : α → Bool) (l₁ : List α) (x : α) (l₂ : List α)
    (h : ∀ a ∈ l₁, p a = true) (hx : p x = false) : (l₁ ++ x :: l₂).takeWhile p = l₁ := by
  induction l₁ with
  | nil => simp [hx]
  | cons a l ih =>
    simp only [List.cons_append, List.takeWhile_cons, h a (by simp), if_true]
    rw [ih (fun b hb => h b (by simp [hb]))]

theorem dropWhile_app {α} (p : α → Bool) (l₁ l₂ : List α) (h : ∀ a ∈ l₁, p a = true) :
    (l₁ ++ l₂).dropWhile p = l₂.dropWhile p := by
  induction l₁ with
  | nil => rfl
  | cons a l ih =>
    simp only [List.cons_append, List.dropWhile_cons, h a (by simp), if_true]
    exact ih (fun b hb => h b (by simp [hb]))

theorem normSsp_rfc (name dm : Bytes) (hn : ∀ c ∈ name, isNameChar c = true) (hne : name ≠ [])
    (hd : ∀ c ∈ dm, isVchar c = true) :
    normSsp ([0x2f, 0x2f] ++ (name ++ 0x2f :: dm)) = some ([0x2f, 0x2f] ++ (name ++ 0x2f :: dm)) := by
  have fN : ∀ c ∈ name, (!isDelim c) = true ∧ (!oddAuth c) = true ∧ (!isQF c) = true
      ∧ (c != 9 && c != 10 && c != 13) = true := by
    intro c hc
    have := nameChar_facts c
    simp only [hn c hc, Bool.not_true, Bool.false_or, Bool.and_eq_true] at this
    exact ⟨this.1.1.1, this.1.1.2, this.1.2, by simpa [Bool.and_eq_true] using this.2⟩
  have fD : ∀ c ∈ dm, (c != 9 && c != 10 && c != 13) = true := by
    intro c hc
    have := vchar_facts c
    simpa [hd c hc] using this
  have hstrip : stripTRN ([0x2f, 0x2f] ++ (name ++ 0x2f :: dm)) = [0x2f, 0x2f] ++ (name ++ 0x2f :: dm) := by
    unfold stripTRN
    rw [List.filter_eq_self]
    intro c hc
    simp only [List.mem_append, List.mem_cons, List.not_mem_nil, or_false] at hc
    rcases hc with (rfl | rfl) | hc | rfl | hc
    · decide
    · decide
    · exact (fN c hc).2.2.2
    · decide
    · exact fD c hc
  have htw : (name ++ 0x2f :: dm).takeWhile (fun c => !isDelim c) = name :=
    takeWhile_app _ name 0x2f dm (fun c hc => (fN c hc).1) (by decide)
  have hdw : (name ++ 0x2f :: dm).dropWhile (fun c => !isDelim c) = 0x2f :: dm := by
    rw [dropWhile_app _ name _ (fun c hc => (fN c hc).1)]
    simp [show isDelim 0x2f = true by decide]
  have hany : name.any oddAuth = false := by
    rw [List.any_eq_false]
    intro c hc
    have := (fN c hc).2.1
    simpa using this
  have hemp : name.isEmpty = false := by
    cases name with
    | nil => exact absurd rfl hne
    | cons => rfl
  have htail : tailQF ([0x2f, 0x2f] ++ (name ++ 0x2f :: dm)) = tailQF dm := by
    unfold tailQF
    rw [show ([0x2f, 0x2f] ++ (name ++ 0x2f :: dm) : Bytes) = ([0x2f, 0x2f] ++ name ++ [0x2f]) ++ dm by simp]
    apply dropWhile_app
    intro c hc
    simp only [List.mem_append, List.mem_cons, List.not_mem_nil, or_false] at hc
    rcases hc with ((rfl | rfl) | hc) | rfl
    · decide
    · decide
    · exact (fN c hc).2.2.1
    · decide
  have hcut : cutQF (0x2f :: dm) = 0x2f :: cutQF dm := by
    simp [cutQF, show isQF 0x2f = false by decide]
  unfold normSsp
  simp only [hstrip, htail]
  simp only [List.take_append_of_le_length (show 2 ≤ ([0x2f, 0x2f] : Bytes).length by simp), List.take,
    List.drop_append_of_le_length (show 2 ≤ ([0x2f, 0x2f] : Bytes).length by simp), List.drop,
    beq_self_eq_true, if_true, htw, hdw, hany, hemp, Bool.false_eq_true, if_false, hcut,
    List.head?_cons, List.nil_append]
  simp only [cutQF, tailQF, List.append_assoc, List.cons_append, List.takeWhile_append_dropWhile]

theorem rfcEid_wf (e : Eid) (h : rfcEid e = true) : wfEid e = true := by
  cases e with
  | dtnNone => decide
  | ipn ps =>
    simp only [rfcEid, Bool.and_eq_true, beq_iff_eq] at h
    have hne : ps.isEmpty = false := by
      cases ps with
      | nil => simp at h
      | cons => rfl
    simp [wfEid, normEid, hne, h.1, h.2, u64]
  | dtn ssp =>
    simp only [rfcEid, Bool.and_eq_true, beq_iff_eq, Bool.not_eq_true'] at h
    obtain ⟨⟨hlen, htake⟩, ⟨hname, hhead⟩, hall⟩ := h
    have hsplit : ssp = [0x2f, 0x2f] ++ ((ssp.drop 2).takeWhile isNameChar
        ++ 0x2f :: ((ssp.drop 2).dropWhile isNameChar).tail) := by
      have h1 : ssp = ssp.take 2 ++ ssp.drop 2 := (List.take_append_drop 2 ssp).symm
      have h2 : ssp.drop 2 = (ssp.drop 2).takeWhile isNameChar ++ (ssp.drop 2).dropWhile isNameChar :=
        (List.takeWhile_append_dropWhile).symm
      have h3 : (ssp.drop 2).dropWhile isNameChar
          = 0x2f :: ((ssp.drop 2).dropWhile isNameChar).tail := by
        cases hd : (ssp.drop 2).dropWhile isNameChar with
        | nil => rw [hd] at hhead; simp at hhead
        | cons x xs => rw [hd] at hhead; simp at hhead; simp [hhead]
      rw [htake] at h1
      refine h1.trans ?_
      congr 1
      rw [← h3]; exact h2
    have hnorm := normSsp_rfc ((ssp.drop 2).takeWhile isNameChar)
      (((ssp.drop 2).dropWhile isNameChar).tail)
      (mem_takeWhile_sat _ _)
      (by intro hnil; rw [hnil] at hname; simp at hname)
      (by rw [List.all_eq_true] at hall; exact hall)
    rw [← hsplit] at hnorm
    have hnn : (ssp == sspNone) = false := by
      rw [hsplit]; simp [sspNone]
    simp [wfEid, normEid, hnn, hnorm, hlen]

end Bp
end DtnVerif
