/- Round-trip lemmas for the BPv7 decoders of Model/BundleDec.lean. -/
import DtnVerif.Model.BundleDec
import DtnVerif.Lemmas.Cbor
namespace DtnVerif
namespace Bp
open Cbor

theorem u64_iff (n : Nat) : u64 n = true ↔ n < 2 ^ 64 := by
  simp [u64]

theorem decNatList_enc (ps : List Nat) (r : Bytes) (h : ps.all u64 = true) :
    decNatList ps.length (encNatList ps ++ r) = some (ps, r) := by
  induction ps with
  | nil => rfl
  | cons p ps ih =>
    simp only [List.all_cons, Bool.and_eq_true] at h
    simp only [List.length_cons, encNatList, List.append_assoc, decNatList,
      decUint_enc p _ ((u64_iff p).1 h.1), ih h.2]

theorem encNatList_length_ge (ps : List Nat) : ps.length ≤ (encNatList ps).length := by
  induction ps with
  | nil => simp [encNatList]
  | cons p ps ih =>
    simp only [encNatList, List.length_cons, List.length_append, encUint_length]
    have := headLen_pos p
    omega

/-- size side conditions of an EID (the part of `wfEid` the raw decoder needs) -/
def sizeEid : Eid → Bool
  | .dtnNone => true
  | .dtn ssp => u64 ssp.length
  | .ipn ps => !ps.isEmpty && u64 ps.length && ps.all u64

theorem wfEid_size {e : Eid} (h : wfEid e = true) : sizeEid e = true := by
  unfold wfEid at h
  simp only [Bool.and_eq_true] at h
  cases e <;> simp [sizeEid] <;> simpa using h.2

theorem wfEid_norm {e : Eid} (h : wfEid e = true) : normEid e = some e := by
  unfold wfEid at h
  simp only [Bool.and_eq_true, beq_iff_eq] at h
  exact h.1

theorem decEidRaw_enc (e : Eid) (r : Bytes) (h : sizeEid e = true) :
    decEidRaw (e.enc ++ r) = some (e, r) := by
  cases e with
  | dtnNone =>
    simp only [Eid.enc, List.append_assoc, decEidRaw, decArrHead_enc 2 _ (by omega),
      decUint_enc 1 _ (by omega)]
    simp [encUint, decHead_head 0 0 r (by omega) (by omega)]
  | dtn ssp =>
    have hl : ssp.length < 2 ^ 64 := (u64_iff _).1 (by simpa [sizeEid] using h)
    simp only [Eid.enc, List.append_assoc, decEidRaw, decArrHead_enc 2 _ (by omega),
      decUint_enc 1 _ (by omega)]
    simp [encTstr, decHead_head 3 ssp.length (ssp ++ r) (by omega) hl]
  | ipn ps =>
    simp only [sizeEid, Bool.and_eq_true] at h
    obtain ⟨⟨h1, h2⟩, h3⟩ := h
    have hl : ps.length < 2 ^ 64 := (u64_iff _).1 h2
    have hne : (ps.length == 0) = false := by
      cases ps with
      | nil => simp at h1
      | cons => simp
    simp only [Eid.enc, List.append_assoc, decEidRaw, decArrHead_enc 2 _ (by omega),
      decUint_enc 2 _ (by omega), decArrHead_enc ps.length _ hl, hne, decNatList_enc ps r h3]
    simp

theorem decTimestamp_enc (t : Timestamp) (r : Bytes) (h1 : u64 t.time = true) (h2 : u64 t.seq = true) :
    decTimestamp (t.enc ++ r) = some (t, r) := by
  simp only [Timestamp.enc, List.append_assoc, decTimestamp, decArrHead_enc 2 _ (by omega),
    decUint_enc _ _ ((u64_iff _).1 h1), decUint_enc _ _ ((u64_iff _).1 h2)]
  simp

theorem decOptBstr_enc (o : Option Bytes) (r : Bytes) (h : wfOptBytes o = true) :
    decOptBstr (encOptBstr o ++ r) = some (o, r) := by
  cases o with
  | none =>
    simp [encOptBstr, encNull, decOptBstr, decBstr, decUint, decTstr, decHead]
  | some d =>
    simp only [encOptBstr, decOptBstr, decBstr_enc d r ((u64_iff _).1 (by simpa [wfOptBytes] using h))]

theorem decCrcSlot_enc (t : Nat) (o : Option Bytes) (r : Bytes)
    (h : (if t != 0 then wfOptBytes o else o.isNone) = true) :
    decCrcSlot (t != 0) ((if t != 0 then encOptBstr o else []) ++ r) = some (o, r) := by
  unfold decCrcSlot
  split
  · rename_i ht; simp only [ht, if_true] at h ⊢; exact decOptBstr_enc o r h
  · rename_i ht
    simp only [ht] at h ⊢
    cases o <;> simp_all

theorem decFragPair_enc (c : Bool) (o t : Nat) (r : Bytes)
    (h : (if c then u64 o && u64 t else o == 0 && t == 0) = true) :
    decFragPair c ((if c then encUint o ++ encUint t else []) ++ r) = some (o, t, r) := by
  unfold decFragPair
  cases c with
  | true =>
    simp only [if_true, Bool.and_eq_true] at h ⊢
    simp only [List.append_assoc, decUint_enc _ _ ((u64_iff _).1 h.1), decUint_enc _ _ ((u64_iff _).1 h.2)]
  | false =>
    simp only [Bool.false_eq_true, if_false, Bool.and_eq_true, beq_iff_eq] at h ⊢
    simp [h.1, h.2]

theorem decPrimaryRaw_enc (p : Primary) (r : Bytes) (h : wfPrimary p = true) :
    decPrimaryRaw (p.enc ++ r) = some (p, r) := by
  simp only [wfPrimary, Bool.and_eq_true, decide_eq_true_eq] at h
  obtain ⟨⟨⟨⟨⟨⟨⟨⟨⟨⟨hv, hf⟩, hc⟩, hd⟩, hs⟩, hr⟩, ht⟩, hq⟩, hl⟩, hfr⟩, hcrc⟩ := h
  have hcount : p.count < 2 ^ 64 := by
    unfold Primary.count; split <;> split <;> omega
  have hc' : ¬ (p.crcType > 2) := by omega
  simp only [Primary.enc, Primary.fields, List.append_assoc, decPrimaryRaw,
    decArrHead_enc _ _ hcount, decUint_enc _ _ ((u64_iff _).1 hv),
    decUint_enc _ _ ((u64_iff _).1 hf), decUint_enc p.crcType _ (by omega), hc', if_false,
    decEidRaw_enc _ _ (wfEid_size hd), decEidRaw_enc _ _ (wfEid_size hs),
    decEidRaw_enc _ _ (wfEid_size hr), decTimestamp_enc _ _ ht hq,
    decUint_enc _ _ ((u64_iff _).1 hl), decFragPair_enc _ _ _ _ hfr, decCrcSlot_enc _ _ _ hcrc]
  simp

theorem decCanonical_enc (c : Canonical) (r : Bytes) (h : wfCanonical c = true) :
    decCanonical (c.enc ++ r) = some (c, r) := by
  simp only [wfCanonical, Bool.and_eq_true, decide_eq_true_eq] at h
  obtain ⟨⟨⟨⟨⟨ht, hn⟩, hf⟩, hc⟩, hb⟩, hcrc⟩ := h
  have hcount : c.count < 2 ^ 64 := by
    unfold Canonical.count; split <;> omega
  have hc' : ¬ (c.crcType > 2) := by omega
  simp only [Canonical.enc, Canonical.fields, List.append_assoc, decCanonical,
    decArrHead_enc _ _ hcount, decUint_enc _ _ ((u64_iff _).1 ht),
    decUint_enc _ _ ((u64_iff _).1 hn), decUint_enc _ _ ((u64_iff _).1 hf),
    decUint_enc c.crcType _ (by omega), hc', if_false, decOptBstr_enc _ _ hb,
    decCrcSlot_enc _ _ _ hcrc]
  simp

/-- a canonical block never starts with the break octet -/
theorem Canonical.enc_cons (c : Canonical) :
    ∃ x t, c.enc = x :: t ∧ (x == 0xff) = false := by
  unfold Canonical.enc Canonical.count
  split
  · exact ⟨0x86, _, rfl, by decide⟩
  · exact ⟨0x85, _, rfl, by decide⟩

theorem Canonical.enc_length_pos (c : Canonical) : 0 < c.enc.length := by
  obtain ⟨x, t, h, _⟩ := Canonical.enc_cons c
  rw [h]; simp

theorem encBlocks_length_ge (cs : List Canonical) : cs.length ≤ (encBlocks cs).length := by
  induction cs with
  | nil => simp [encBlocks]
  | cons c cs ih =>
    have := Canonical.enc_length_pos c
    simp only [encBlocks, List.length_cons, List.length_append]; omega

theorem decBlocks_enc (cs : List Canonical) (r : Bytes) (fuel : Nat) (hf : cs.length < fuel)
    (h : cs.all wfCanonical = true) :
    decBlocks fuel (encBlocks cs ++ 0xff :: r) = some (cs, r) := by
  induction cs generalizing fuel with
  | nil =>
    cases fuel with
    | zero => simp at hf
    | succ f => simp [encBlocks, decBlocks]
  | cons c cs ih =>
    cases fuel with
    | zero => simp at hf
    | succ f =>
      simp only [List.all_cons, Bool.and_eq_true] at h
      simp only [List.length_cons] at hf
      obtain ⟨x, t, hx, hne⟩ := Canonical.enc_cons c
      have hd := decCanonical_enc c (encBlocks cs ++ 0xff :: r) h.1
      simp only [encBlocks, List.append_assoc]
      rw [hx] at hd ⊢
      simp only [List.cons_append, decBlocks, hne] at hd ⊢
      simp only [Bool.false_eq_true, if_false, hd, ih f (by omega) h.2]

theorem normPrimary_wf (p : Primary) (h : wfPrimary p = true) : normPrimary p = some p := by
  simp only [wfPrimary, Bool.and_eq_true] at h
  obtain ⟨⟨⟨⟨⟨⟨⟨⟨⟨⟨_, _⟩, _⟩, hd⟩, hs⟩, hr⟩, _⟩, _⟩, _⟩, _⟩, _⟩ := h
  simp [normPrimary, wfEid_norm hd, wfEid_norm hs, wfEid_norm hr]

theorem decodeBundleRaw_enc (b : Bundle) (h : wf b = true) : decodeBundleRaw b.enc = some b := by
  simp only [wf, Bool.and_eq_true] at h
  have hp := decPrimaryRaw_enc b.primary (encBlocks b.blocks ++ [0xff]) h.1
  simp only [Bundle.enc, List.append_assoc, List.cons_append, List.nil_append, decodeBundleRaw]
  simp only [show ((0x9f : UInt8) == 0x9f) = true by decide, if_true, hp]
  rw [decBlocks_enc b.blocks [] _ _ h.2]
  have := encBlocks_length_ge b.blocks
  simp only [List.length_append, List.length_cons, List.length_nil]; omega

theorem decodeBundle_enc (b : Bundle) (h : wf b = true) : decodeBundle b.enc = some b := by
  have hp : wfPrimary b.primary = true := by
    simp only [wf, Bool.and_eq_true] at h; exact h.1
  simp [decodeBundle, decodeBundleRaw_enc b h, normBundle, normPrimary_wf _ hp]

end Bp
end DtnVerif
