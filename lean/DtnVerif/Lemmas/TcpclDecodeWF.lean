/-
  Whatever octets arrive, every message the framing layer hands to `recv_message` has in-range fields
  (`Msg.WF`: what fits the fixed-width wire fields), and the data it carries was really received: the
  data octets of the messages extracted from a buffer are no more than the octets consumed.
  (Used for the numeric ranges of the D-Bus arguments, C18.)
-/
import DtnVerif.Model.TcpclCodec
import DtnVerif.Lemmas.Bytes
namespace DtnVerif
namespace Tcpcl

/-- data octets carried by a message -/
def dataLen : Msg → Nat
  | .xferSegment _ _ _ d => d.length
  | _ => 0

theorem bind_some {α β} (p : P α) (f : α → P β) (b : Bytes) (y : β) (r : Bytes)
    (h : (p.bind f) b = some (y, r)) : ∃ a r1, p b = some (a, r1) ∧ f a r1 = some (y, r) := by
  unfold P.bind at h
  split at h
  · cases h
  · rename_i a r1 heq
    exact ⟨a, r1, heq, h⟩

theorem takeNat_some {k : Nat} {b : Bytes} {n : Nat} {r : Bytes} (h : takeNat k b = some (n, r)) :
    n < 256 ^ k ∧ r.length + k = b.length := by
  unfold takeNat at h
  split at h
  · cases h
  · rename_i hlt
    injection h with h
    injection h with h1 h2
    subst h1; subst h2
    constructor
    · have := beNat_lt (b.take k)
      rw [List.length_take, Nat.min_eq_left (by omega)] at this
      exact this
    · rw [List.length_drop]; omega

theorem takeBytes_some {k : Nat} {b d r : Bytes} (h : takeBytes k b = some (d, r)) :
    d.length = k ∧ r.length + k = b.length := by
  unfold takeBytes at h
  split at h
  · cases h
  · rename_i hlt
    injection h with h
    injection h with h1 h2
    subst h1; subst h2
    constructor
    · rw [List.length_take]; omega
    · rw [List.length_drop]; omega

theorem pure_some {α} {a y : α} {b r : Bytes} (h : P.pure a b = some (y, r)) : y = a ∧ r = b := by
  unfold P.pure at h
  injection h with h
  injection h with h1 h2
  exact ⟨h1.symm, h2.symm⟩

/-- a successfully parsed body is well-formed, and its data was in the buffer -/
theorem parseBody_wf (t : Nat) (b : Bytes) (m : Msg) (r : Bytes) (h : parseBody t b = some (m, r)) :
    m.WF ∧ dataLen m + r.length ≤ b.length := by
  unfold parseBody at h
  split at h
  · -- segment
    unfold pSegment at h
    obtain ⟨flags, r1, h1, h⟩ := bind_some _ _ _ _ _ h
    obtain ⟨tid, r2, h2, h⟩ := bind_some _ _ _ _ _ h
    obtain ⟨f1, l1⟩ := takeNat_some h1
    obtain ⟨f2, l2⟩ := takeNat_some h2
    split at h
    · rename_i hst
      obtain ⟨es, r3, h3, h⟩ := bind_some _ _ _ _ _ h
      obtain ⟨ext, r4, h4, h⟩ := bind_some _ _ _ _ _ h
      obtain ⟨len, r5, h5, h⟩ := bind_some _ _ _ _ _ h
      obtain ⟨data, r6, h6, h⟩ := bind_some _ _ _ _ _ h
      obtain ⟨f3, l3⟩ := takeNat_some h3
      obtain ⟨f4, l4⟩ := takeBytes_some h4
      obtain ⟨f5, l5⟩ := takeNat_some h5
      obtain ⟨f6, l6⟩ := takeBytes_some h6
      obtain ⟨rfl, rfl⟩ := pure_some h
      refine ⟨⟨by simpa using f1, by simpa using f2, by rw [f4]; simpa using f3, by rw [f6]; simpa using f5, ?_⟩, ?_⟩
      · intro hn; rw [hst] at hn; cases hn
      · simp only [dataLen]; omega
    · rename_i hst
      obtain ⟨len, r5, h5, h⟩ := bind_some _ _ _ _ _ h
      obtain ⟨data, r6, h6, h⟩ := bind_some _ _ _ _ _ h
      obtain ⟨f5, l5⟩ := takeNat_some h5
      obtain ⟨f6, l6⟩ := takeBytes_some h6
      obtain ⟨rfl, rfl⟩ := pure_some h
      refine ⟨⟨by simpa using f1, by simpa using f2, by simp, by rw [f6]; simpa using f5, fun _ => rfl⟩, ?_⟩
      simp only [dataLen]; omega
  · split at h
    · unfold pAck at h
      obtain ⟨flags, r1, h1, h⟩ := bind_some _ _ _ _ _ h
      obtain ⟨tid, r2, h2, h⟩ := bind_some _ _ _ _ _ h
      obtain ⟨len, r3, h3, h⟩ := bind_some _ _ _ _ _ h
      obtain ⟨f1, l1⟩ := takeNat_some h1
      obtain ⟨f2, l2⟩ := takeNat_some h2
      obtain ⟨f3, l3⟩ := takeNat_some h3
      obtain ⟨rfl, rfl⟩ := pure_some h
      exact ⟨⟨by simpa using f1, by simpa using f2, by simpa using f3⟩, by simp only [dataLen]; omega⟩
    · split at h
      · unfold pRefuse at h
        obtain ⟨reason, r1, h1, h⟩ := bind_some _ _ _ _ _ h
        obtain ⟨tid, r2, h2, h⟩ := bind_some _ _ _ _ _ h
        obtain ⟨f1, l1⟩ := takeNat_some h1
        obtain ⟨f2, l2⟩ := takeNat_some h2
        obtain ⟨rfl, rfl⟩ := pure_some h
        exact ⟨⟨by simpa using f1, by simpa using f2⟩, by simp only [dataLen]; omega⟩
      · split at h
        · obtain ⟨rfl, rfl⟩ := pure_some h
          exact ⟨trivial, by simp [dataLen]⟩
        · split at h
          · unfold pTerm at h
            obtain ⟨flags, r1, h1, h⟩ := bind_some _ _ _ _ _ h
            obtain ⟨reason, r2, h2, h⟩ := bind_some _ _ _ _ _ h
            obtain ⟨f1, l1⟩ := takeNat_some h1
            obtain ⟨f2, l2⟩ := takeNat_some h2
            obtain ⟨rfl, rfl⟩ := pure_some h
            exact ⟨⟨by simpa using f1, by simpa using f2⟩, by simp only [dataLen]; omega⟩
          · split at h
            · unfold pReject at h
              obtain ⟨rid, r1, h1, h⟩ := bind_some _ _ _ _ _ h
              obtain ⟨reason, r2, h2, h⟩ := bind_some _ _ _ _ _ h
              obtain ⟨f1, l1⟩ := takeNat_some h1
              obtain ⟨f2, l2⟩ := takeNat_some h2
              obtain ⟨rfl, rfl⟩ := pure_some h
              exact ⟨⟨by simpa using f1, by simpa using f2⟩, by simp only [dataLen]; omega⟩
            · split at h
              · unfold pInit at h
                obtain ⟨ka, r1, h1, h⟩ := bind_some _ _ _ _ _ h
                obtain ⟨sm, r2, h2, h⟩ := bind_some _ _ _ _ _ h
                obtain ⟨xm, r3, h3, h⟩ := bind_some _ _ _ _ _ h
                obtain ⟨nl, r4, h4, h⟩ := bind_some _ _ _ _ _ h
                obtain ⟨node, r5, h5, h⟩ := bind_some _ _ _ _ _ h
                obtain ⟨es, r6, h6, h⟩ := bind_some _ _ _ _ _ h
                obtain ⟨ext, r7, h7, h⟩ := bind_some _ _ _ _ _ h
                obtain ⟨f1, l1⟩ := takeNat_some h1
                obtain ⟨f2, l2⟩ := takeNat_some h2
                obtain ⟨f3, l3⟩ := takeNat_some h3
                obtain ⟨f4, l4⟩ := takeNat_some h4
                obtain ⟨f5, l5⟩ := takeBytes_some h5
                obtain ⟨f6, l6⟩ := takeNat_some h6
                obtain ⟨f7, l7⟩ := takeBytes_some h7
                obtain ⟨rfl, rfl⟩ := pure_some h
                exact ⟨⟨by simpa using f1, by simpa using f2, by simpa using f3, by rw [f5]; simpa using f4,
                  by rw [f7]; simpa using f6⟩, by simp only [dataLen]; omega⟩
              · cases h

/-- **A framed message is well-formed**, lies inside the buffer and its data is part of what it consumes. -/
theorem probe_wf (ic : Bool) (buf : Bytes) (m : Msg) (n : Nat) (h : probe ic buf = .got m n) :
    m.WF ∧ n ≤ buf.length ∧ dataLen m ≤ n := by
  unfold probe at h
  split at h
  · split at h
    · cases h
    · rename_i t rest
      split at h
      · cases h
      · split at h
        · rename_i m' r heq
          injection h with h1 h2
          subst h1; subst h2
          obtain ⟨hw, hl⟩ := parseBody_wf _ _ _ _ heq
          refine ⟨hw, by simp, ?_⟩
          simp only [List.length_cons]; omega
        · cases h
  · split at h
    · cases h
    · split at h
      · cases h
      · split at h
        · cases h
        · rename_i f hf
          injection h with h1 h2
          subst h1; subst h2
          have hl : 6 ≤ buf.length := by
            cases hd : buf.drop 5 with
            | nil => rw [hd] at hf; cases hf
            | cons x xs =>
              have := congrArg List.length hd
              simp only [List.length_drop, List.length_cons] at this
              omega
          refine ⟨?_, hl, by simp [dataLen]⟩
          show f.toNat < 256
          exact f.toNat_lt

def sumData (ms : List Msg) : Nat := (ms.map dataLen).sum

@[simp] theorem sumData_nil : sumData [] = 0 := rfl
@[simp] theorem sumData_append (a b : List Msg) : sumData (a ++ b) = sumData a + sumData b := by
  simp [sumData, List.sum_append]

theorem drainAux_wf (fuel : Nat) (rx : Rx) (acc : List Msg) (hacc : ∀ m ∈ acc, m.WF) :
    (∀ m ∈ (drainAux fuel rx acc).2, m.WF)
    ∧ sumData (drainAux fuel rx acc).2 + (drainAux fuel rx acc).1.buf.length ≤ sumData acc + rx.buf.length := by
  induction fuel generalizing rx acc with
  | zero => exact ⟨hacc, Nat.le_refl _⟩
  | succ k ih =>
    unfold drainAux
    split
    · exact ⟨hacc, Nat.le_refl _⟩
    · split
      · exact ⟨hacc, Nat.le_refl _⟩
      · exact ⟨hacc, by simp⟩
      · rename_i m n hp
        obtain ⟨hw, hn, hd⟩ := probe_wf _ _ _ _ hp
        have hacc' : ∀ x ∈ acc ++ [m], x.WF := by
          intro x hx
          rcases List.mem_append.mp hx with h | h
          · exact hacc x h
          · rw [List.mem_singleton.mp h]; exact hw
        obtain ⟨i1, i2⟩ := ih { rx with buf := rx.buf.drop n, inConn := rx.inConn || m.isContact } (acc ++ [m]) hacc'
        refine ⟨i1, ?_⟩
        simp only [sumData_append, List.length_drop] at i2
        have : sumData [m] = dataLen m := by simp [sumData]
        omega

/-- every message extracted by one `recv_raw` call is well-formed, and together they carry no more
    data octets than the call consumed -/
theorem feed_wf (rx : Rx) (chunk : Bytes) :
    (∀ m ∈ (feed rx chunk).2, m.WF)
    ∧ sumData (feed rx chunk).2 + (feed rx chunk).1.buf.length ≤ rx.buf.length + chunk.length := by
  unfold feed
  split
  · exact ⟨by simp, by simp⟩
  · unfold drain
    obtain ⟨h1, h2⟩ := drainAux_wf (({ rx with buf := rx.buf ++ chunk } : Rx).buf.length + 1) { rx with buf := rx.buf ++ chunk } []
      (by simp)
    refine ⟨h1, ?_⟩
    simpa using h2

end Tcpcl
end DtnVerif
