/-
  The final acknowledgements an endpoint has emitted are, in order, exactly its completely received
  transfers (id and length): `endAcks emitted = rxLog.map (id, length)`.
  (Frame lemmas generated from the pattern of Lemmas/TcpclAcc.lean.)
-/
import DtnVerif.Model.TcpclEp
namespace DtnVerif
namespace Tcpcl

def endAck : Msg → List (Nat × Nat)
  | .xferAck f t l => if hasEnd f then [(t, l)] else []
  | _ => []

def endAcks (ms : List Msg) : List (Nat × Nat) := ms.flatMap endAck

@[simp] theorem endAcks_append (a b : List Msg) : endAcks (a ++ b) = endAcks a ++ endAcks b := by
  simp [endAcks, List.flatMap_append]
@[simp] theorem endAcks_single (m : Msg) : endAcks [m] = endAck m := by simp [endAcks]
@[simp] theorem emitted_sendMessage (e : Ep) (m : Msg) : (sendMessage e m).emitted = e.emitted ++ [m] := rfl

@[simp] theorem ea_kaReset (e : Ep) : endAcks (kaReset e).emitted = endAcks e.emitted := by first | rfl | simp [sendContact, sendInit, sendReject, flushPendStart, mergeSession, endAck]
@[simp] theorem ea_idleReset (e : Ep) : endAcks (idleReset e).emitted = endAcks e.emitted := by first | rfl | simp [sendContact, sendInit, sendReject, flushPendStart, mergeSession, endAck]
@[simp] theorem ea_pqTrigger (e : Ep) : endAcks (pqTrigger e).emitted = endAcks e.emitted := by
  unfold pqTrigger; split <;> rfl
@[simp] theorem ea_setState (e : Ep) (s : String) : (setState e s).1.accepted = e.accepted := by
  unfold setState; split <;> rfl
@[simp] theorem ea_flush (e : Ep) : (flushPendStart e).1.accepted = e.accepted := by first | rfl | simp [sendContact, sendInit, sendReject, flushPendStart, mergeSession, endAck]
@[simp] theorem ea_doClose (e : Ep) : (doClose e).1.accepted = e.accepted := by
  unfold doClose; split <;> rfl
@[simp] theorem ea_checkSessTerm (e : Ep) : (checkSessTerm e).1.accepted = e.accepted := by
  unfold checkSessTerm; split
  · exact ea_doClose e
  · rfl
@[simp] theorem ea_sendBufferDecreased (e : Ep) : endAcks (sendBufferDecreased e).emitted = endAcks e.emitted := by
  unfold sendBufferDecreased; split
  · exact ea_pqTrigger e
  · rfl
@[simp] theorem ea_mergeSession (e : Ep) (p : PeerInit) : endAcks (mergeSession e p).emitted = endAcks e.emitted := by first | rfl | simp [sendContact, sendInit, sendReject, flushPendStart, mergeSession, endAck]
@[simp] theorem ea_sendContact (e : Ep) : endAcks (sendContact e).emitted = endAcks e.emitted := by first | rfl | simp [sendContact, sendInit, sendReject, flushPendStart, mergeSession, endAck]
@[simp] theorem ea_sendInit (e : Ep) : endAcks (sendInit e).emitted = endAcks e.emitted := by first | rfl | simp [sendContact, sendInit, sendReject, flushPendStart, mergeSession, endAck]
@[simp] theorem ea_sendReject (e : Ep) (r : Nat) (m : Msg) : endAcks (sendReject e r m).emitted = endAcks e.emitted := by first | rfl | simp [sendContact, sendInit, sendReject, flushPendStart, mergeSession, endAck]
@[simp] theorem ea_sendSessTerm (e : Ep) (r : Nat) (b : Bool) : (sendSessTerm e r b).1.accepted = e.accepted := by
  unfold sendSessTerm
  split
  · rfl
  · split
    · rfl
    · simp
@[simp] theorem ea_sendSegment (e : Ep) (it : TxItem) (s : Nat) : (sendSegment e it s).1.accepted = e.accepted := by
  unfold sendSegment
  simp only []
  split
  · rfl
  · split <;> simp
@[simp] theorem ea_processQueue (e : Ep) : (processQueue e).1.accepted = e.accepted := by
  unfold processQueue
  split
  · simp
  · split
    · rfl
    · split
      · simp
      · split
        · rfl
        · simp
@[simp] theorem ea_pullTx (e : Ep) : endAcks (pullTx e).emitted = endAcks e.emitted := by
  unfold pullTx; split <;> simp

@[simp] theorem ea_writeConn (e : Ep) (n : Nat) (up : Bool) : endAcks (writeConn e n up).1.emitted = endAcks e.emitted := by
  unfold writeConn
  split
  · split <;> simp
  · simp only []
    split
    · simp
    · split <;> simp
@[simp] theorem ea_pump (e : Ep) (n : Nat) : endAcks (pump e n).1.emitted = endAcks e.emitted := by
  unfold pump; simp

@[simp] theorem ea_onContact (e : Ep) : (onContact e).1.accepted = e.accepted := by
  unfold onContact; simp only []; cases e.cfg.passive <;> simp
@[simp] theorem ea_onSessInit (e : Ep) (p : PeerInit) : (onSessInit e p).1.accepted = e.accepted := by
  unfold onSessInit; simp only []; cases e.cfg.passive <;> simp
@[simp] theorem ea_onSessTerm (e : Ep) (m : Msg) (r : Nat) : (onSessTerm e m r).1.accepted = e.accepted := by
  unfold onSessTerm
  split
  · rfl
  · simp only [ea_checkSessTerm, ea_flush]
    split <;> simp
@[simp] theorem ea_onAck (e : Ep) (m : Msg) (f t l : Nat) : (onAck e m f t l).1.accepted = e.accepted := by
  unfold onAck
  split
  · rfl
  · split
    · rfl
    · split
      · split <;> simp
      · rfl
@[simp] theorem ea_onRefuse (e : Ep) (m : Msg) (r t : Nat) : (onRefuse e m r t).1.accepted = e.accepted := by
  unfold onRefuse
  split
  · rfl
  · split
    · rfl
    · simp only [ea_checkSessTerm]
      split
      · split <;> simp
      · rfl

end Tcpcl
end DtnVerif
