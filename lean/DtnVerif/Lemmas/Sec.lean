/-
  Prefix-freeness (self-delimitation) of the encoders that make up the BPSec external AAD and the
  COSE structures: `enc a ++ r = enc b ++ r' → a = b ∧ r = r'`, from `decHead_head`.
-/
import DtnVerif.Model.Sec
import DtnVerif.Lemmas.Cbor
namespace DtnVerif
namespace Sec
open Cbor Bp

theorem head_inj {mt mt' n n' : Nat} {r r' : Bytes} (hmt : mt < 8) (hmt' : mt' < 8)
    (hn : n < 2 ^ 64) (hn' : n' < 2 ^ 64) (h : head mt n ++ r = head mt' n' ++ r') :
    mt = mt' ∧ n = n' ∧ r = r' := by
  have h1 := decHead_head mt n r hmt hn
  have h2 := decHead_head mt' n' r' hmt' hn'
  rw [h, h2] at h1
  simp only [Option.some.injEq, Prod.mk.injEq] at h1
  exact ⟨h1.1.symm, h1.2.1.symm, h1.2.2.symm⟩

theorem uint_inj {a b : Nat} {r r' : Bytes} (ha : a < 2 ^ 64) (hb : b < 2 ^ 64)
    (h : encUint a ++ r = encUint b ++ r') : a = b ∧ r = r' :=
  (head_inj (by omega) (by omega) ha hb h).2

theorem arrHead_inj {a b : Nat} {r r' : Bytes} (ha : a < 2 ^ 64) (hb : b < 2 ^ 64)
    (h : encArrHead a ++ r = encArrHead b ++ r') : a = b ∧ r = r' :=
  (head_inj (by omega) (by omega) ha hb h).2

theorem mapHead_inj {a b : Nat} {r r' : Bytes} (ha : a < 2 ^ 64) (hb : b < 2 ^ 64)
    (h : encMapHead a ++ r = encMapHead b ++ r') : a = b ∧ r = r' :=
  (head_inj (by omega) (by omega) ha hb h).2

theorem bstr_inj {a b r r' : Bytes} (ha : a.length < 2 ^ 64) (hb : b.length < 2 ^ 64)
    (h : encBstr a ++ r = encBstr b ++ r') : a = b ∧ r = r' := by
  simp only [encBstr, List.append_assoc] at h
  obtain ⟨_, hl, hr⟩ := head_inj (by omega) (by omega) ha hb h
  exact List.append_inj hr hl

theorem tstr_inj {a b r r' : Bytes} (ha : a.length < 2 ^ 64) (hb : b.length < 2 ^ 64)
    (h : encTstr a ++ r = encTstr b ++ r') : a = b ∧ r = r' := by
  simp only [encTstr, List.append_assoc] at h
  obtain ⟨_, hl, hr⟩ := head_inj (by omega) (by omega) ha hb h
  exact List.append_inj hr hl

/-- integers that fit a CBOR head -/
def intBounded : Int → Prop
  | .ofNat n => n < 2 ^ 64
  | .negSucc n => n < 2 ^ 64

theorem int_inj {a b : Int} {r r' : Bytes} (ha : intBounded a) (hb : intBounded b)
    (h : encInt a ++ r = encInt b ++ r') : a = b ∧ r = r' := by
  cases a <;> cases b <;> simp only [encInt, intBounded] at *
  · obtain ⟨_, h1, h2⟩ := head_inj (by omega) (by omega) ha hb h
    exact ⟨by rw [h1], h2⟩
  · obtain ⟨h0, _, _⟩ := head_inj (by omega) (by omega) ha hb h
    omega
  · obtain ⟨h0, _, _⟩ := head_inj (by omega) (by omega) ha hb h
    omega
  · obtain ⟨_, h1, h2⟩ := head_inj (by omega) (by omega) ha hb h
    exact ⟨by rw [h1], h2⟩

theorem decHead_null (r : Bytes) : decHead (encNull ++ r) = some (7, 22, r) := by
  simp [encNull, decHead]

theorem optBstr_inj {a b : Option Bytes} {r r' : Bytes}
    (ha : ∀ d, a = some d → d.length < 2 ^ 64) (hb : ∀ d, b = some d → d.length < 2 ^ 64)
    (h : encOptBstr a ++ r = encOptBstr b ++ r') : a = b ∧ r = r' := by
  cases a with
  | none =>
    cases b with
    | none => simpa [encOptBstr, encNull] using h
    | some d =>
      exfalso
      have h1 := decHead_null r
      simp only [encOptBstr] at h
      rw [h] at h1
      simp only [encBstr, List.append_assoc] at h1
      rw [decHead_head 2 d.length _ (by omega) (hb d rfl)] at h1
      simp at h1
  | some c =>
    cases b with
    | none =>
      exfalso
      have h1 := decHead_null r'
      simp only [encOptBstr] at h
      rw [← h] at h1
      simp only [encBstr, List.append_assoc] at h1
      rw [decHead_head 2 c.length _ (by omega) (ha c rfl)] at h1
      simp at h1
    | some d =>
      simp only [encOptBstr] at h
      obtain ⟨h1, h2⟩ := bstr_inj (ha c rfl) (hb d rfl) h
      exact ⟨by rw [h1], h2⟩

theorem natList_inj : ∀ {a b : List Nat} {r r' : Bytes}, a.length = b.length →
    (∀ x ∈ a, x < 2 ^ 64) → (∀ x ∈ b, x < 2 ^ 64) →
    encNatList a ++ r = encNatList b ++ r' → a = b ∧ r = r'
  | [], [], _, _, _, _, _, h => ⟨rfl, by simpa [encNatList] using h⟩
  | [], _ :: _, _, _, hl, _, _, _ => by simp at hl
  | _ :: _, [], _, _, hl, _, _, _ => by simp at hl
  | x :: xs, y :: ys, r, r', hl, ha, hb, h => by
    simp only [encNatList, List.append_assoc] at h
    obtain ⟨h1, h2⟩ := uint_inj (ha x (by simp)) (hb y (by simp)) h
    obtain ⟨h3, h4⟩ := natList_inj (by simpa using hl) (fun z hz => ha z (by simp [hz]))
      (fun z hz => hb z (by simp [hz])) h2
    exact ⟨by rw [h1, h3], h4⟩

/-- all integers and lengths of an EID fit a CBOR head -/
def eidBounded : Eid → Prop
  | .dtnNone => True
  | .dtn ssp => ssp.length < 2 ^ 64
  | .ipn parts => parts.length < 2 ^ 64 ∧ ∀ x ∈ parts, x < 2 ^ 64

theorem eid_inj {a b : Eid} {r r' : Bytes} (ha : eidBounded a) (hb : eidBounded b)
    (h : a.enc ++ r = b.enc ++ r') : a = b ∧ r = r' := by
  have two : (2 : Nat) < 2 ^ 64 := by omega
  have one : (1 : Nat) < 2 ^ 64 := by omega
  have zero : (0 : Nat) < 2 ^ 64 := by omega
  cases a <;> cases b <;> simp only [Eid.enc, List.append_assoc, eidBounded] at h ha hb
  all_goals (obtain ⟨_, h⟩ := arrHead_inj two two h)
  all_goals (obtain ⟨hs, h⟩ := uint_inj (by omega) (by omega) h)
  all_goals (first | omega | skip)
  · exact ⟨rfl, (uint_inj zero zero h).2⟩
  · exfalso
    simp only [encUint, encTstr, List.append_assoc] at h
    have := (head_inj (by omega) (by omega) zero hb h).1
    omega
  · exfalso
    simp only [encUint, encTstr, List.append_assoc] at h
    have := (head_inj (by omega) (by omega) ha zero h).1
    omega
  · obtain ⟨h1, h2⟩ := tstr_inj ha hb h
    exact ⟨by rw [h1], h2⟩
  · obtain ⟨h1, h2⟩ := arrHead_inj ha.1 hb.1 h
    obtain ⟨h3, h4⟩ := natList_inj h1 ha.2 hb.2 h2
    exact ⟨by rw [h3], h4⟩

/-- every integer and every string length of a primary block fits a CBOR head -/
structure PrimaryBounded (p : Primary) : Prop where
  version : p.version < 2 ^ 64
  flags : p.flags < 2 ^ 64
  crcType : p.crcType < 2 ^ 64
  dest : eidBounded p.dest
  src : eidBounded p.src
  rpt : eidBounded p.rpt
  time : p.ts.time < 2 ^ 64
  seq : p.ts.seq < 2 ^ 64
  lifetime : p.lifetime < 2 ^ 64
  fragOff : p.fragOff < 2 ^ 64
  totalLen : p.totalLen < 2 ^ 64
  crc : ∀ d, p.crc = some d → d.length < 2 ^ 64

/-- the fields the encoder does not emit carry their default -/
def PrimaryNormal (p : Primary) : Prop :=
  ((p.crcType != 0) = false → p.crc = none) ∧
  (isFragment p.flags = false → p.fragOff = 0 ∧ p.totalLen = 0)

theorem count_lt (p : Primary) : p.count < 2 ^ 64 := by
  unfold Primary.count
  split <;> split <;> omega

theorem primary_inj {p q : Primary} {r r' : Bytes} (bp : PrimaryBounded p) (bq : PrimaryBounded q)
    (np : PrimaryNormal p) (nq : PrimaryNormal q) (h : p.enc ++ r = q.enc ++ r') :
    p = q ∧ r = r' := by
  have two : (2 : Nat) < 2 ^ 64 := by omega
  have cp := count_lt p
  have cq := count_lt q
  obtain ⟨bp1, bp2, bp3, bp4, bp5, bp6, bp7, bp8, bp9, bp10, bp11, bp12⟩ := bp
  obtain ⟨bq1, bq2, bq3, bq4, bq5, bq6, bq7, bq8, bq9, bq10, bq11, bq12⟩ := bq
  obtain ⟨np1, np2⟩ := np
  obtain ⟨nq1, nq2⟩ := nq
  obtain ⟨v, f, c, d, s, rp, ⟨t1, t2⟩, l, fo, tl, crc⟩ := p
  obtain ⟨v', f', c', d', s', rp', ⟨t1', t2'⟩, l', fo', tl', crc'⟩ := q
  simp only [Primary.enc, Primary.fields, Timestamp.enc, List.append_assoc] at h
  simp only at bp1 bp2 bp3 bp4 bp5 bp6 bp7 bp8 bp9 bp10 bp11 bp12 bq1 bq2 bq3 bq4 bq5 bq6 bq7 bq8 bq9 bq10 bq11 bq12 np1 np2 nq1 nq2
  obtain ⟨_, e1⟩ := arrHead_inj cp cq h
  obtain ⟨hv, e2⟩ := uint_inj bp1 bq1 e1
  obtain ⟨hf, e3⟩ := uint_inj bp2 bq2 e2
  obtain ⟨hc, e4⟩ := uint_inj bp3 bq3 e3
  obtain ⟨hd, e5⟩ := eid_inj bp4 bq4 e4
  obtain ⟨hs, e6⟩ := eid_inj bp5 bq5 e5
  obtain ⟨hr, e7⟩ := eid_inj bp6 bq6 e6
  obtain ⟨_, e8⟩ := arrHead_inj two two e7
  obtain ⟨ht1, e9⟩ := uint_inj bp7 bq7 e8
  obtain ⟨ht2, e10⟩ := uint_inj bp8 bq8 e9
  obtain ⟨hl, e11⟩ := uint_inj bp9 bq9 e10
  clear h e1 e2 e3 e4 e5 e6 e7 e8 e9 e10
  subst hv hf hc hd hs hr ht1 ht2 hl
  have hfrag : (fo = fo' ∧ tl = tl') ∧
      (if (c != 0) = true then encOptBstr crc else []) ++ r =
      (if (c != 0) = true then encOptBstr crc' else []) ++ r' := by
    cases hfr : isFragment f with
    | false =>
      simp only [hfr, Bool.false_eq_true, ↓reduceIte, List.nil_append] at e11
      have a := np2 hfr
      have b := nq2 hfr
      exact ⟨⟨by omega, by omega⟩, e11⟩
    | true =>
      simp only [hfr, ↓reduceIte, List.append_assoc] at e11
      obtain ⟨h1, e12⟩ := uint_inj bp10 bq10 e11
      obtain ⟨h2, e13⟩ := uint_inj bp11 bq11 e12
      exact ⟨⟨h1, h2⟩, e13⟩
  obtain ⟨⟨hfo, htl⟩, h⟩ := hfrag
  clear e11
  subst hfo htl
  have hcrc : crc = crc' ∧ r = r' := by
    cases hcc : (c != 0) with
    | false =>
      simp only [hcc, Bool.false_eq_true, ↓reduceIte, List.nil_append] at h
      rw [np1 hcc, nq1 hcc]
      exact ⟨rfl, h⟩
    | true =>
      simp only [hcc, ↓reduceIte] at h
      exact optBstr_inj bp12 bq12 h
  obtain ⟨h1, h2⟩ := hcrc
  subst h1
  exact ⟨rfl, h2⟩

/-! ## scope map -/

def ScopeBounded (s : List (Int × Nat)) : Prop :=
  s.length < 2 ^ 64 ∧ ∀ e ∈ s, intBounded e.1 ∧ e.2 < 2 ^ 64

theorem scopeItems_inj : ∀ {a b : List (Int × Nat)} {r r' : Bytes}, a.length = b.length →
    (∀ e ∈ a, intBounded e.1 ∧ e.2 < 2 ^ 64) → (∀ e ∈ b, intBounded e.1 ∧ e.2 < 2 ^ 64) →
    encScopeItems a ++ r = encScopeItems b ++ r' → a = b ∧ r = r'
  | [], [], _, _, _, _, _, h => ⟨rfl, by simpa [encScopeItems] using h⟩
  | [], _ :: _, _, _, hl, _, _, _ => by simp at hl
  | _ :: _, [], _, _, hl, _, _, _ => by simp at hl
  | (k, f) :: xs, (k', f') :: ys, r, r', hl, ha, hb, h => by
    simp only [encScopeItems, List.append_assoc] at h
    have a0 := ha (k, f) (by simp)
    have b0 := hb (k', f') (by simp)
    obtain ⟨h1, e1⟩ := int_inj a0.1 b0.1 h
    obtain ⟨h2, e2⟩ := uint_inj a0.2 b0.2 e1
    obtain ⟨h3, h4⟩ := scopeItems_inj (by simpa using hl) (fun z hz => ha z (by simp [hz]))
      (fun z hz => hb z (by simp [hz])) e2
    simp only at h1 h2
    exact ⟨by rw [h1, h2, h3], h4⟩

theorem scope_inj {a b : List (Int × Nat)} {r r' : Bytes} (ba : ScopeBounded a) (bb : ScopeBounded b)
    (h : encScope a ++ r = encScope b ++ r') : a = b ∧ r = r' := by
  simp only [encScope, List.append_assoc] at h
  obtain ⟨hl, e⟩ := mapHead_inj ba.1 bb.1 h
  exact scopeItems_inj hl ba.2 bb.2 e

/-! ## items -/

/-- which parts an item has -/
def Item.shape : Item → Nat × Bool × Bool
  | .prim p => (0, p.isSome, false)
  | .canon m d => (1, m.isSome, d.isSome)

/-- the shape a scope entry produces -/
def entryShape (e : Int × Nat) : Nat × Bool × Bool :=
  if e.1 = 0 then (0, hasFlag e.2 flagMetadata, false)
  else (1, hasFlag e.2 flagMetadata, hasFlag e.2 flagBtsd)

def ItemBounded : Item → Prop
  | .prim none => True
  | .prim (some p) => PrimaryBounded p
  | .canon m d =>
    (∀ t n f, m = some (t, n, f) → t < 2 ^ 64 ∧ n < 2 ^ 64 ∧ f < 2 ^ 64) ∧
    (∀ x, d = some x → x.length < 2 ^ 64)

def ItemNormal : Item → Prop
  | .prim (some p) => PrimaryNormal p
  | _ => True

theorem meta_inj {a b : Option (Nat × Nat × Nat)} {r r' : Bytes} (hs : a.isSome = b.isSome)
    (ha : ∀ t n f, a = some (t, n, f) → t < 2 ^ 64 ∧ n < 2 ^ 64 ∧ f < 2 ^ 64)
    (hb : ∀ t n f, b = some (t, n, f) → t < 2 ^ 64 ∧ n < 2 ^ 64 ∧ f < 2 ^ 64)
    (h : encMeta a ++ r = encMeta b ++ r') : a = b ∧ r = r' := by
  cases a with
  | none =>
    cases b with
    | none => exact ⟨rfl, by simpa [encMeta] using h⟩
    | some y => simp at hs
  | some x =>
    cases b with
    | none => simp at hs
    | some y =>
      obtain ⟨t, n, f⟩ := x
      obtain ⟨t', n', f'⟩ := y
      simp only [encMeta, List.append_assoc] at h
      have a0 := ha t n f rfl
      have b0 := hb t' n' f' rfl
      obtain ⟨h1, e1⟩ := uint_inj a0.1 b0.1 h
      obtain ⟨h2, e2⟩ := uint_inj a0.2.1 b0.2.1 e1
      obtain ⟨h3, e3⟩ := uint_inj a0.2.2 b0.2.2 e2
      exact ⟨by rw [h1, h2, h3], e3⟩

theorem data_inj {a b : Option Bytes} {r r' : Bytes} (hs : a.isSome = b.isSome)
    (ha : ∀ x, a = some x → x.length < 2 ^ 64) (hb : ∀ x, b = some x → x.length < 2 ^ 64)
    (h : encData a ++ r = encData b ++ r') : a = b ∧ r = r' := by
  cases a with
  | none =>
    cases b with
    | none => exact ⟨rfl, by simpa [encData] using h⟩
    | some y => simp at hs
  | some x =>
    cases b with
    | none => simp at hs
    | some y =>
      simp only [encData] at h
      obtain ⟨h1, e1⟩ := bstr_inj (ha x rfl) (hb y rfl) h
      exact ⟨by rw [h1], e1⟩

theorem item_inj {a b : Item} {r r' : Bytes} (hs : a.shape = b.shape)
    (ba : ItemBounded a) (bb : ItemBounded b) (na : ItemNormal a) (nb : ItemNormal b)
    (h : a.enc ++ r = b.enc ++ r') : a = b ∧ r = r' := by
  cases a with
  | prim p =>
    cases b with
    | canon m d => simp [Item.shape] at hs
    | prim q =>
      cases p with
      | none =>
        cases q with
        | none => exact ⟨rfl, by simpa [Item.enc] using h⟩
        | some y => simp [Item.shape] at hs
      | some x =>
        cases q with
        | none => simp [Item.shape] at hs
        | some y =>
          simp only [Item.enc] at h
          obtain ⟨h1, h2⟩ := primary_inj ba bb na nb h
          exact ⟨by rw [h1], h2⟩
  | canon m d =>
    cases b with
    | prim q => simp [Item.shape] at hs
    | canon m' d' =>
      simp only [Item.shape, Prod.mk.injEq, true_and] at hs
      simp only [Item.enc, List.append_assoc] at h
      obtain ⟨h1, e1⟩ := meta_inj hs.1 ba.1 bb.1 h
      obtain ⟨h2, e2⟩ := data_inj hs.2 ba.2 bb.2 e1
      exact ⟨by rw [h1, h2], e2⟩

theorem items_inj : ∀ {a b : List Item} {r r' : Bytes}, a.map Item.shape = b.map Item.shape →
    (∀ i ∈ a, ItemBounded i) → (∀ i ∈ b, ItemBounded i) →
    (∀ i ∈ a, ItemNormal i) → (∀ i ∈ b, ItemNormal i) →
    encItems a ++ r = encItems b ++ r' → a = b ∧ r = r'
  | [], [], _, _, _, _, _, _, _, h => ⟨rfl, by simpa [encItems] using h⟩
  | [], _ :: _, _, _, hs, _, _, _, _, _ => by simp at hs
  | _ :: _, [], _, _, hs, _, _, _, _, _ => by simp at hs
  | x :: xs, y :: ys, r, r', hs, ba, bb, na, nb, h => by
    simp only [List.map_cons, List.cons.injEq] at hs
    simp only [encItems, List.append_assoc] at h
    obtain ⟨h1, e1⟩ := item_inj hs.1 (ba x (by simp)) (bb y (by simp)) (na x (by simp)) (nb y (by simp)) h
    obtain ⟨h2, e2⟩ := items_inj hs.2 (fun z hz => ba z (by simp [hz])) (fun z hz => bb z (by simp [hz]))
      (fun z hz => na z (by simp [hz])) (fun z hz => nb z (by simp [hz])) e1
    exact ⟨by rw [h1, h2], e2⟩

/-! ## the view and the AAD -/

structure ViewBounded (v : View) : Prop where
  ssrc : eidBounded v.ssrc
  scope : ScopeBounded v.scope
  items : ∀ i ∈ v.items, ItemBounded i
  addl : v.addlProt.length < 2 ^ 64

/-- the items are what the scope asks for, with primary blocks in normal form -/
def ViewConform (v : View) : Prop :=
  v.items.map Item.shape = v.scope.map entryShape ∧ ∀ i ∈ v.items, ItemNormal i

theorem view_inj {v w : View} (bv : ViewBounded v) (bw : ViewBounded w)
    (cv : ViewConform v) (cw : ViewConform w) (h : v.enc = w.enc) : v = w := by
  obtain ⟨s, sc, its, ap⟩ := v
  obtain ⟨s', sc', its', ap'⟩ := w
  simp only [View.enc, List.append_assoc] at h
  obtain ⟨h1, e1⟩ := eid_inj bv.ssrc bw.ssrc h
  obtain ⟨h2, e2⟩ := scope_inj bv.scope bw.scope e1
  have hsh : its.map Item.shape = its'.map Item.shape := by
    have a := cv.1
    have b := cw.1
    simp only at a b h2
    rw [a, b, h2]
  obtain ⟨h3, e3⟩ := items_inj hsh bv.items bw.items cv.2 cw.2 e2
  have e4 : encBstr ap ++ [] = encBstr ap' ++ [] := by simpa using e3
  obtain ⟨h4, _⟩ := bstr_inj bv.addl bw.addl e4
  simp only at h1 h2 h3 h4
  rw [h1, h2, h3, h4]

theorem normFrag_flags (p : Primary) : (normFrag p).flags = p.flags := by
  unfold normFrag; split <;> rfl

theorem normFrag_zero (p : Primary) (h : isFragment p.flags = false) :
    (normFrag p).fragOff = 0 ∧ (normFrag p).totalLen = 0 := by
  unfold normFrag; simp [h]

theorem refreshPrimary_normal (crcFn : Nat → Bytes → Bytes) (p : Primary) :
    PrimaryNormal (refreshPrimary crcFn p) := by
  unfold refreshPrimary PrimaryNormal
  by_cases hc : ((normFrag p).crcType == 0) = true
  · simp only [hc, ↓reduceIte]
    refine ⟨fun _ => trivial, fun hf => ?_⟩
    rw [normFrag_flags] at hf
    exact normFrag_zero p hf
  · simp only [hc, Bool.false_eq_true, ↓reduceIte]
    refine ⟨fun h => ?_, fun hf => ?_⟩
    · exfalso
      apply hc
      simpa [bne] using h
    · rw [normFrag_flags] at hf
      exact normFrag_zero p hf

theorem scopeItem_shape {crcFn : Nat → Bytes → Bytes} {ctx : AadCtx} {k : Int} {f : Nat} {it : Item}
    (h : scopeItem crcFn ctx k f = some it) : it.shape = entryShape (k, f) ∧ ItemNormal it := by
  unfold scopeItem at h
  by_cases hk : k = 0
  · simp only [hk, ↓reduceIte, Option.some.injEq] at h
    subst h
    by_cases hm : hasFlag f flagMetadata = true
    · simp [hm, Item.shape, entryShape, hk, ItemNormal, refreshPrimary_normal]
    · simp [hm, Item.shape, entryShape, hk, ItemNormal]
  · simp only [hk, ↓reduceIte] at h
    cases hb : scopeBlock ctx k with
    | none => simp [hb] at h
    | some c =>
      simp only [hb] at h
      by_cases hd : hasFlag f flagBtsd = true
      · simp only [hd, ↓reduceIte] at h
        cases hbt : c.btsd with
        | none => simp [hbt] at h
        | some d =>
          simp only [hbt, Option.some.injEq] at h
          subst h
          by_cases hm : hasFlag f flagMetadata = true <;>
            simp [hm, hd, Item.shape, entryShape, hk, ItemNormal]
      · simp only [hd, Bool.false_eq_true, ↓reduceIte, Option.some.injEq] at h
        subst h
        by_cases hm : hasFlag f flagMetadata = true <;>
          simp [hm, hd, Item.shape, entryShape, hk, ItemNormal]

theorem itemsOf_conform {crcFn : Nat → Bytes → Bytes} {ctx : AadCtx} :
    ∀ {sc : List (Int × Nat)} {its : List Item}, itemsOf crcFn ctx sc = some its →
      its.map Item.shape = sc.map entryShape ∧ ∀ i ∈ its, ItemNormal i
  | [], its, h => by
    simp only [itemsOf, Option.some.injEq] at h
    subst h
    simp
  | (k, f) :: r, its, h => by
    simp only [itemsOf] at h
    cases h1 : scopeItem crcFn ctx k f with
    | none => simp [h1] at h
    | some it =>
      simp only [h1] at h
      cases h2 : itemsOf crcFn ctx r with
      | none => simp [h2] at h
      | some rest =>
        simp only [h2, Option.some.injEq] at h
        subst h
        have a := scopeItem_shape h1
        have b := itemsOf_conform h2
        refine ⟨by simp [a.1, b.1], ?_⟩
        intro i hi
        simp only [List.mem_cons] at hi
        cases hi with
        | inl e => rw [e]; exact a.2
        | inr e => exact b.2 i e

theorem coveredView_conform {crcFn : Nat → Bytes → Bytes} {ctx : AadCtx} {v : View}
    (h : coveredView crcFn ctx = some v) : ViewConform v := by
  unfold coveredView at h
  cases h1 : itemsOf crcFn ctx (canonScope ctx.scope) with
  | none => simp [h1] at h
  | some its =>
    simp only [h1, Option.some.injEq] at h
    subst h
    exact itemsOf_conform h1

theorem aadLoop_eq (crcFn : Nat → Bytes → Bytes) (ctx : AadCtx) :
    ∀ (sc : List (Int × Nat)) (acc : Bytes),
      aadLoop crcFn ctx sc acc = (itemsOf crcFn ctx sc).map (fun its => acc ++ encItems its)
  | [], acc => by simp [aadLoop, itemsOf, encItems]
  | (k, f) :: r, acc => by
    simp only [aadLoop, itemsOf]
    cases h1 : scopeItem crcFn ctx k f with
    | none => simp
    | some it =>
      simp only
      rw [aadLoop_eq crcFn ctx r (acc ++ it.enc)]
      cases h2 : itemsOf crcFn ctx r with
      | none => simp
      | some rest => simp [encItems, List.append_assoc]

/-- `get_external_aad` is the encoding of the covered view (and raises exactly when no view exists). -/
theorem externalAad_eq_view (crcFn : Nat → Bytes → Bytes) (ctx : AadCtx) :
    externalAad crcFn ctx = (coveredView crcFn ctx).map View.enc := by
  unfold externalAad coveredView
  simp only [aadLoop_eq]
  cases h : itemsOf crcFn ctx (canonScope ctx.scope) with
  | none => simp
  | some its => simp [View.enc, List.append_assoc]

theorem coveredView_ssrc {crcFn : Nat → Bytes → Bytes} {ctx : AadCtx} {v : View}
    (h : coveredView crcFn ctx = some v) : v.ssrc = ctx.ssrc := by
  unfold coveredView at h
  cases h1 : itemsOf crcFn ctx (canonScope ctx.scope) with
  | none => simp [h1] at h
  | some its =>
    simp only [h1, Option.some.injEq] at h
    subst h
    rfl

/-! ## Executable versions of the size side conditions (for concrete instances) -/

def lt64 (n : Nat) : Bool := decide (n < 2 ^ 64)

def eidBoundedB : Eid → Bool
  | .dtnNone => true
  | .dtn s => lt64 s.length
  | .ipn p => lt64 p.length && p.all lt64

theorem eidBoundedB_sound {e : Eid} (h : eidBoundedB e = true) : eidBounded e := by
  cases e with
  | dtnNone => trivial
  | dtn s => simpa [eidBoundedB, lt64, eidBounded] using h
  | ipn p =>
    simp only [eidBoundedB, lt64, Bool.and_eq_true, decide_eq_true_eq, List.all_eq_true] at h
    exact ⟨h.1, h.2⟩

def primaryBoundedB (p : Primary) : Bool :=
  lt64 p.version && lt64 p.flags && lt64 p.crcType && eidBoundedB p.dest && eidBoundedB p.src &&
  eidBoundedB p.rpt && lt64 p.ts.time && lt64 p.ts.seq && lt64 p.lifetime && lt64 p.fragOff &&
  lt64 p.totalLen && (match p.crc with | none => true | some d => lt64 d.length)

theorem primaryBoundedB_sound {p : Primary} (h : primaryBoundedB p = true) : PrimaryBounded p := by
  simp only [primaryBoundedB, lt64, Bool.and_eq_true, decide_eq_true_eq] at h
  obtain ⟨⟨⟨⟨⟨⟨⟨⟨⟨⟨⟨h1, h2⟩, h3⟩, h4⟩, h5⟩, h6⟩, h7⟩, h8⟩, h9⟩, h10⟩, h11⟩, h12⟩ := h
  refine ⟨h1, h2, h3, eidBoundedB_sound h4, eidBoundedB_sound h5, eidBoundedB_sound h6, h7, h8, h9, h10, h11, ?_⟩
  intro d hd
  rw [hd] at h12
  simpa using h12

def itemBoundedB : Item → Bool
  | .prim none => true
  | .prim (some p) => primaryBoundedB p
  | .canon m d =>
    (match m with | none => true | some (t, n, f) => lt64 t && lt64 n && lt64 f) &&
    (match d with | none => true | some x => lt64 x.length)

theorem itemBoundedB_sound {i : Item} (h : itemBoundedB i = true) : ItemBounded i := by
  cases i with
  | prim p =>
    cases p with
    | none => trivial
    | some q => exact primaryBoundedB_sound h
  | canon m d =>
    simp only [itemBoundedB, Bool.and_eq_true] at h
    refine ⟨?_, ?_⟩
    · intro t n f hm
      have := h.1
      rw [hm] at this
      simpa [lt64, and_assoc] using this
    · intro x hd
      have := h.2
      rw [hd] at this
      simpa [lt64] using this

def intBoundedB : Int → Bool
  | .ofNat n => lt64 n
  | .negSucc n => lt64 n

def viewBoundedB (v : View) : Bool :=
  eidBoundedB v.ssrc && lt64 v.scope.length && v.scope.all (fun e => intBoundedB e.1 && lt64 e.2) &&
  v.items.all itemBoundedB && lt64 v.addlProt.length

theorem viewBoundedB_sound {v : View} (h : viewBoundedB v = true) : ViewBounded v := by
  simp only [viewBoundedB, Bool.and_eq_true, List.all_eq_true] at h
  obtain ⟨⟨⟨⟨h1, h2⟩, h3⟩, h4⟩, h5⟩ := h
  refine ⟨eidBoundedB_sound h1, ⟨by simpa [lt64] using h2, ?_⟩, fun i hi => itemBoundedB_sound (h4 i hi),
    by simpa [lt64] using h5⟩
  intro e he
  have := h3 e he
  obtain ⟨k, f⟩ := e
  cases k <;> simpa [intBoundedB, lt64, intBounded] using this

end Sec
end DtnVerif
