/- Helper lemmas for C18 (UDPCL): lengths that reach D-Bus 't' arguments stay below 2^64. -/
import DtnVerif.Model.Udpcl
import DtnVerif.Lemmas.Bytes
import DtnVerif.Lemmas.UdpclQueue
namespace DtnVerif
namespace Udpcl
open Cbor

private theorem decHead_k (x : UInt8) (rest : Bytes) (mt n k : Nat) (r : Bytes) (hk : 0 < k) (hk8 : k ≤ 8)
    (h : (if rest.length < k then none else some (x.toNat / 32, beNat (rest.take k), rest.drop k)) =
      some (mt, n, r)) : n < 2 ^ 64 ∧ r.length < (x :: rest).length := by
  by_cases hl : rest.length < k
  · rw [if_pos hl] at h; cases h
  · rw [if_neg hl] at h
    simp only [Option.some.injEq, Prod.mk.injEq] at h
    obtain ⟨_, rfl, rfl⟩ := h
    refine ⟨?_, ?_⟩
    · have hlt := beNat_lt (rest.take k)
      have hlen : (rest.take k).length ≤ 8 := by rw [List.length_take]; omega
      have : (256 : Nat) ^ (rest.take k).length ≤ 256 ^ 8 := Nat.pow_le_pow_right (by decide) hlen
      have e : (256 : Nat) ^ 8 = 2 ^ 64 := by decide
      omega
    · simp only [List.length_drop, List.length_cons]; omega

theorem decHead_spec (b : Bytes) (mt n : Nat) (r : Bytes) (h : decHead b = some (mt, n, r)) :
    n < 2 ^ 64 ∧ r.length < b.length := by
  cases b with
  | nil => simp [decHead] at h
  | cons x rest =>
    simp only [decHead] at h
    by_cases h24 : x.toNat % 32 < 24
    · simp only [h24, if_true, Option.some.injEq, Prod.mk.injEq] at h
      obtain ⟨_, rfl, rfl⟩ := h
      exact ⟨by omega, by simp⟩
    · simp only [h24, if_false] at h
      by_cases a24 : x.toNat % 32 = 24
      · simp only [a24, if_true, show ¬ ((1 : Nat) = 0) by decide, if_false] at h
        exact decHead_k x rest mt n 1 r (by decide) (by decide) h
      · by_cases a25 : x.toNat % 32 = 25
        · simp only [a25, show ¬ ((25 : Nat) = 24) by decide, if_true, if_false,
            show ¬ ((2 : Nat) = 0) by decide] at h
          exact decHead_k x rest mt n 2 r (by decide) (by decide) h
        · by_cases a26 : x.toNat % 32 = 26
          · simp only [a26, show ¬ ((26 : Nat) = 24) by decide, show ¬ ((26 : Nat) = 25) by decide,
              if_true, if_false, show ¬ ((4 : Nat) = 0) by decide] at h
            exact decHead_k x rest mt n 4 r (by decide) (by decide) h
          · by_cases a27 : x.toNat % 32 = 27
            · simp only [a27, show ¬ ((27 : Nat) = 24) by decide, show ¬ ((27 : Nat) = 25) by decide,
                show ¬ ((27 : Nat) = 26) by decide, if_true, if_false,
                show ¬ ((8 : Nat) = 0) by decide] at h
              exact decHead_k x rest mt n 8 r (by decide) (by decide) h
            · simp only [a24, a25, a26, a27, if_false, if_true] at h
              cases h

theorem decUint_spec (b : Bytes) (n : Nat) (r : Bytes) (h : decUint b = some (n, r)) :
    n < 2 ^ 64 ∧ r.length < b.length := by
  unfold decUint at h
  cases hd : decHead b with
  | none => rw [hd] at h; cases h
  | some p =>
    obtain ⟨mt, n', r'⟩ := p
    rw [hd] at h
    have := decHead_spec b mt n' r' hd
    match mt, h with
    | 0, h => simp only [Option.some.injEq, Prod.mk.injEq] at h; obtain ⟨rfl, rfl⟩ := h; exact this

theorem decArrHead_len (b : Bytes) (n : Nat) (r : Bytes) (h : decArrHead b = some (n, r)) :
    r.length < b.length := by
  unfold decArrHead at h
  cases hd : decHead b with
  | none => rw [hd] at h; cases h
  | some p =>
    obtain ⟨mt, n', r'⟩ := p
    rw [hd] at h
    have := decHead_spec b mt n' r' hd
    match mt, h with
    | 4, h => simp only [Option.some.injEq, Prod.mk.injEq] at h; obtain ⟨rfl, rfl⟩ := h; exact this.2

theorem decMapHead_len (b : Bytes) (n : Nat) (r : Bytes) (h : decMapHead b = some (n, r)) :
    r.length < b.length := by
  unfold decMapHead at h
  cases hd : decHead b with
  | none => rw [hd] at h; cases h
  | some p =>
    obtain ⟨mt, n', r'⟩ := p
    rw [hd] at h
    have := decHead_spec b mt n' r' hd
    match mt, h with
    | 5, h => simp only [Option.some.injEq, Prod.mk.injEq] at h; obtain ⟨rfl, rfl⟩ := h; exact this.2

theorem decBstr_len (b d r : Bytes) (h : decBstr b = some (d, r)) : r.length < b.length := by
  unfold decBstr at h
  cases hd : decHead b with
  | none => rw [hd] at h; cases h
  | some p =>
    obtain ⟨mt, n', r'⟩ := p
    rw [hd] at h
    have := decHead_spec b mt n' r' hd
    match mt, h with
    | 2, h =>
      simp only [] at h
      split at h
      · cases h
      · simp only [Option.some.injEq, Prod.mk.injEq] at h
        obtain ⟨_, rfl⟩ := h
        simp only [List.length_drop]; omega

theorem parseTransferVal_spec (b : Bytes) (t : Nat × Nat × Nat × Bytes) (r : Bytes)
    (h : parseTransferVal b = some (t, r)) : t.2.1 < 2 ^ 64 ∧ r.length < b.length := by
  unfold parseTransferVal at h
  cases h0 : decArrHead b with
  | none => rw [h0] at h; cases h
  | some p0 =>
    obtain ⟨n, r0⟩ := p0
    rw [h0] at h
    simp only [] at h
    split at h
    · cases h
    · cases h1 : decUint r0 with
      | none => rw [h1] at h; cases h
      | some p1 =>
        obtain ⟨id, r1⟩ := p1
        rw [h1] at h
        simp only [] at h
        cases h2 : decUint r1 with
        | none => rw [h2] at h; cases h
        | some p2 =>
          obtain ⟨total, r2⟩ := p2
          rw [h2] at h
          simp only [] at h
          cases h3 : decUint r2 with
          | none => rw [h3] at h; cases h
          | some p3 =>
            obtain ⟨off, r3⟩ := p3
            rw [h3] at h
            simp only [] at h
            cases h4 : decBstr r3 with
            | none => rw [h4] at h; cases h
            | some p4 =>
              obtain ⟨d, r4⟩ := p4
              rw [h4] at h
              simp only [Option.some.injEq, Prod.mk.injEq] at h
              obtain ⟨rfl, rfl⟩ := h
              have a0 := decArrHead_len _ _ _ h0
              have a1 := decUint_spec _ _ _ h1
              have a2 := decUint_spec _ _ _ h2
              have a3 := decUint_spec _ _ _ h3
              have a4 := decBstr_len _ _ _ h4
              exact ⟨a2.1, by omega⟩

/-- `skipItem` and its companions return a suffix that is not longer than the input -/
theorem skip_len : ∀ f : Nat,
    (∀ b r, skipItem f b = some r → r.length ≤ b.length) ∧
    (∀ n b r, skipN f n b = some r → r.length ≤ b.length) ∧
    (∀ b r, skipIndef f b = some r → r.length ≤ b.length) := by
  intro f
  induction f with
  | zero =>
    refine ⟨?_, ?_, ?_⟩
    · intro b r h; simp [skipItem] at h
    · intro n b r h; simp [skipN] at h
    · intro b r h; simp [skipIndef] at h
  | succ f ih =>
    obtain ⟨ih1, ih2, ih3⟩ := ih
    refine ⟨?_, ?_, ?_⟩
    · intro b r h
      cases b with
      | nil => simp [skipItem] at h
      | cons x rest =>
        simp only [skipItem] at h
        split at h
        · split at h
          · have := ih3 _ _ h; simp only [List.length_cons]; omega
          · cases h
        · cases hd : decHead (x :: rest) with
          | none => rw [hd] at h; cases h
          | some p =>
            obtain ⟨mt, n, r'⟩ := p
            rw [hd] at h
            have hs := (decHead_spec _ _ _ _ hd).2
            simp only [] at h
            split at h
            · split at h
              · cases h
              · simp only [Option.some.injEq] at h; rw [← h]
                simp only [List.length_drop]; omega
            · split at h
              · have := ih2 _ _ _ h; omega
              · split at h
                · have := ih2 _ _ _ h; omega
                · split at h
                  · have := ih1 _ _ h; omega
                  · simp only [Option.some.injEq] at h; rw [← h]; omega
    · intro n b r h
      cases n with
      | zero => simp only [skipN, Option.some.injEq] at h; rw [← h]; exact Nat.le_refl _
      | succ n =>
        simp only [skipN] at h
        cases hs : skipItem f b with
        | none => rw [hs] at h; cases h
        | some r1 =>
          rw [hs] at h
          have := ih1 _ _ hs
          have := ih2 _ _ _ h
          omega
    · intro b r h
      cases b with
      | nil => simp [skipIndef] at h
      | cons x rest =>
        simp only [skipIndef] at h
        split at h
        · simp only [Option.some.injEq] at h; rw [← h]; simp
        · cases hs : skipItem f (x :: rest) with
          | none => rw [hs] at h; cases h
          | some r1 =>
            rw [hs] at h
            have := ih1 _ _ hs
            have := ih3 _ _ h
            omega

theorem parsePairs_spec : ∀ (n : Nat) (b : Bytes) (acc m : ExtMap) (r : Bytes),
    parsePairs n b acc = some (m, r) →
    (∀ t, acc.transfer = some t → t.2.1 < 2 ^ 64) →
    (∀ t, m.transfer = some t → t.2.1 < 2 ^ 64) ∧ r.length ≤ b.length := by
  intro n
  induction n with
  | zero =>
    intro b acc m r h hacc
    simp only [parsePairs, Option.some.injEq, Prod.mk.injEq] at h
    obtain ⟨rfl, rfl⟩ := h
    exact ⟨hacc, Nat.le_refl _⟩
  | succ n ih =>
    intro b acc m r h hacc
    simp only [parsePairs] at h
    cases hk : decUint b with
    | none => rw [hk] at h; cases h
    | some p =>
      obtain ⟨k, r0⟩ := p
      rw [hk] at h
      have hk' := (decUint_spec _ _ _ hk).2
      simp only [] at h
      split at h
      · cases ht : parseTransferVal r0 with
        | none => rw [ht] at h; cases h
        | some q =>
          obtain ⟨t, r1⟩ := q
          rw [ht] at h
          have hts := parseTransferVal_spec _ _ _ ht
          obtain ⟨a, b'⟩ := ih r1 _ m r h (by
            intro t' ht'; simp only [Option.some.injEq] at ht'; rw [← ht']; exact hts.1)
          exact ⟨a, by omega⟩
      · cases hs : skipItem (skipFuel r0) r0 with
        | none => rw [hs] at h; cases h
        | some r1 =>
          rw [hs] at h
          have hl := (skip_len _).1 _ _ hs
          obtain ⟨a, b'⟩ := ih r1 _ m r h hacc
          exact ⟨a, by omega⟩

theorem parseExtMap_spec (b : Bytes) (m : ExtMap) (r : Bytes) (h : parseExtMap b = some (m, r)) :
    (∀ t, m.transfer = some t → t.2.1 < 2 ^ 64) ∧ r.length ≤ b.length := by
  unfold parseExtMap at h
  cases hm : decMapHead b with
  | none => rw [hm] at h; cases h
  | some p =>
    obtain ⟨n, r0⟩ := p
    rw [hm] at h
    have := decMapHead_len _ _ _ hm
    obtain ⟨a, b'⟩ := parsePairs_spec n r0 _ m r h (by intro t ht; cases ht)
    exact ⟨a, by omega⟩

/-! ### the invariant -/

/-- every total length kept in the table and every announced length is below 2^64 -/
def LenOK (s : Rx) : Prop :=
  (∀ e ∈ s.frags, e.2.total < 2 ^ 64) ∧ (∀ e ∈ s.queue, e.2.length < 2 ^ 64)

theorem mem_delX {k : Key} {l : List (Key × Xfer)} {e : Key × Xfer} (h : e ∈ delX k l) : e ∈ l := by
  induction l with
  | nil => cases h
  | cons a l ih =>
    obtain ⟨k', x⟩ := a
    unfold delX at h
    split at h
    · exact List.mem_cons_of_mem _ (ih h)
    · rcases List.mem_cons.mp h with h | h
      · rw [h]; exact List.mem_cons_self
      · exact List.mem_cons_of_mem _ (ih h)

theorem getX_mem {k : Key} {l : List (Key × Xfer)} {x : Xfer} (h : getX k l = some x) :
    ∃ k', (k', x) ∈ l := by
  induction l with
  | nil => cases h
  | cons a l ih =>
    obtain ⟨k', y⟩ := a
    unfold getX at h
    split at h
    · simp only [Option.some.injEq] at h; rw [← h]; exact ⟨k', List.mem_cons_self⟩
    · obtain ⟨k2, hk2⟩ := ih h; exact ⟨k2, List.mem_cons_of_mem _ hk2⟩

theorem applyFrag_lenOK (s : Rx) (k : Key) (x : Xfer) (off : Nat) (chunk : Bytes)
    (hs : LenOK s) (hx : x.total < 2 ^ 64) : LenOK (applyFrag s k x off chunk) := by
  unfold applyFrag
  split
  · refine ⟨?_, ?_⟩
    · intro e he; exact hs.1 e (mem_delX he)
    · intro e he
      simp only [addRx] at he
      rcases List.mem_append.mp he with h | h
      · exact hs.2 e h
      · simp only [List.mem_singleton] at h; rw [h]; exact hx
  · refine ⟨?_, hs.2⟩
    intro e he
    simp only [putX] at he
    rcases List.mem_cons.mp he with h | h
    · rw [h]; exact hx
    · exact hs.1 e (mem_delX h)

theorem recvTransfer_lenOK (s s' : Rx) (k : Key) (total off : Nat) (chunk : Bytes)
    (h : recvTransfer s k total off chunk = .ok s') (hs : LenOK s) (ht : total < 2 ^ 64) :
    LenOK s' := by
  unfold recvTransfer at h
  cases hx : getX k s.frags with
  | none =>
    rw [hx] at h
    simp only [Except.ok.injEq] at h
    rw [← h]; exact applyFrag_lenOK _ _ _ _ _ hs ht
  | some x =>
    rw [hx] at h
    simp only [] at h
    by_cases hne : total ≠ x.total
    · rw [if_pos hne] at h; cases h
    · rw [if_neg hne] at h
      simp only [Except.ok.injEq] at h
      obtain ⟨k', hk'⟩ := getX_mem hx
      rw [← h]; exact applyFrag_lenOK _ _ _ _ _ hs (hs.1 _ hk')

theorem recvExtMap_lenOK (rej : Bool) (s : Rx) (addr : String) (port : Nat) (m : ExtMap)
    (hs : LenOK s) (hm : ∀ t, m.transfer = some t → t.2.1 < 2 ^ 64) :
    LenOK (recvExtMap rej s addr port m).1 := by
  unfold recvExtMap
  split
  · exact hs
  · split
    · exact hs
    · cases ht : m.transfer with
      | none => exact hs
      | some t =>
        obtain ⟨id, total, off, d⟩ := t
        simp only []
        cases hr : recvTransfer s ⟨addr, port, id⟩ total off d with
        | ok s' => exact recvTransfer_lenOK _ _ _ _ _ _ hr hs (hm _ ht)
        | error e => exact hs

theorem recvLoop_lenOK : ∀ (f : Nat) (rej : Bool) (addr : String) (port : Nat) (s : Rx) (b : Bytes),
    LenOK s → b.length < 2 ^ 64 → LenOK (recvLoop f rej addr port s b).1 := by
  intro f
  induction f with
  | zero => intro rej addr port s b hs _; exact hs
  | succ f ih =>
    intro rej addr port s b hs hb
    cases b with
    | nil => exact hs
    | cons x rest =>
      unfold recvLoop
      split
      · exact hs
      · split
        · exact hs
        · split
          · exact hs
          · split
            · split
              · exact hs
              · split
                · exact hs
                · rename_i r hsk
                  have hl := (skip_len _).1 _ _ hsk
                  apply ih
                  · refine ⟨hs.1, ?_⟩
                    intro e he
                    simp only [addRx] at he
                    rcases List.mem_append.mp he with h | h
                    · exact hs.2 e h
                    · simp only [List.mem_singleton] at h; rw [h]
                      simp only [List.length_take]; omega
                  · omega
            · split
              · split
                · exact hs
                · rename_i m r hp
                  obtain ⟨hm, hl⟩ := parseExtMap_spec _ _ _ hp
                  have hmm := recvExtMap_lenOK rej s addr port m hs hm
                  split
                  · rename_i s' heq
                    rw [heq] at hmm
                    exact ih _ _ _ _ _ hmm (by omega)
                  · rename_i s' o _ heq
                    rw [heq] at hmm
                    exact hmm
              · exact hs

theorem recvDatagram_lenOK (rej : Bool) (s : Rx) (addr : String) (port : Nat) (data : Bytes)
    (hs : LenOK s) (hd : data.length < 2 ^ 64) : LenOK (recvDatagram rej s addr port data).1 :=
  recvLoop_lenOK _ _ _ _ _ _ hs hd

end Udpcl
end DtnVerif
