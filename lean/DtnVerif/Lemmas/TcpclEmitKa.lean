/-
  A KEEPALIVE is only emitted while both the configured and the peer's announced keepalive interval
  are positive (`pk` stands for the peer's value; the two-endpoint lemma instantiates it with the
  peer's configuration). Generated from the `emitInv_*` family of Lemmas/TcpclEmit.lean.
-/
import DtnVerif.Lemmas.TcpclEmit
namespace DtnVerif
namespace Tcpcl

def kaOK (pk : Nat) (cfg : Cfg) : Msg → Prop
  | .keepalive => 0 < cfg.keepalive ∧ 0 < pk
  | _ => True

def KaEmit (pk : Nat) (e : Ep) : Prop := ∀ m ∈ e.emitted, kaOK pk e.cfg m

variable {pk : Nat}

theorem kaEmit_of_view {e e' : Ep} (h : e'.emitView = e.emitView) (hi : KaEmit pk e) : KaEmit pk e' := by
  simp only [Ep.emitView, EmitView.mk.injEq] at h
  obtain ⟨h1, h2⟩ := h
  unfold KaEmit at *
  rw [h1, h2]; exact hi

theorem kaEmit_sendMessage (e : Ep) (m : Msg) (hi : KaEmit pk e) (hm : kaOK pk e.cfg m := by trivial) :
    KaEmit pk (sendMessage e m) := by
  unfold KaEmit at *
  intro x hx
  simp only [sendMessage, sendReady, kaReset, idleReset, List.mem_append, List.mem_singleton] at hx
  rcases hx with hx | hx
  · exact hi x hx
  · subst hx; exact hm

theorem kaEmit_sendContact (e : Ep) (hi : KaEmit pk e) : KaEmit pk (sendContact e) :=
  kaEmit_of_view (e := sendMessage e (.contact 0)) rfl (kaEmit_sendMessage e _ hi)

theorem kaEmit_sendInit (e : Ep) (hi : KaEmit pk e) : KaEmit pk (sendInit e) :=
  kaEmit_of_view (e := sendMessage e (.sessInit e.cfg.keepalive e.cfg.segMru sizeMax e.cfg.nodeId (sessionExt e.cfg)))
    rfl (kaEmit_sendMessage e _ hi trivial)

theorem kaEmit_sendReject (e : Ep) (r : Nat) (m : Msg) (hi : KaEmit pk e) : KaEmit pk (sendReject e r m) :=
  kaEmit_sendMessage e _ hi

theorem kaEmit_sendSessTerm (e : Ep) (r : Nat) (b : Bool) (hi : KaEmit pk e) :
    KaEmit pk (sendSessTerm e r b).1 := by
  unfold sendSessTerm
  split
  · exact hi
  · split
    · exact hi
    · simp only []
      refine kaEmit_of_view (ev_flush _) (kaEmit_sendMessage _ _ ?_)
      exact kaEmit_of_view (by rw [ev_setState]; rfl) hi

theorem kaEmit_sendSegment (e : Ep) (it : TxItem) (sent : Nat) (hi : KaEmit pk e) :
    KaEmit pk (sendSegment e it sent).1 := by
  unfold sendSegment
  simp only []
  split
  · exact kaEmit_of_view rfl hi
  · split
    · refine kaEmit_of_view (by rw [ev_pqTrigger]; rfl) (kaEmit_sendMessage e _ hi)
    · exact kaEmit_of_view rfl (kaEmit_sendMessage e _ hi)

theorem kaEmit_processQueue (e : Ep) (hi : KaEmit pk e) : KaEmit pk (processQueue e).1 := by
  unfold processQueue
  split
  · exact kaEmit_sendSegment e _ _ hi
  · split
    · exact hi
    · split
      · exact kaEmit_of_view (by simp only [ev_checkSessTerm, ev_flush]) hi
      · split
        · exact hi
        · exact kaEmit_sendSegment _ _ _ (kaEmit_of_view rfl hi)

theorem kaEmit_pullTx (e : Ep) (hi : KaEmit pk e) : KaEmit pk (pullTx e) := by
  unfold pullTx
  split
  · exact kaEmit_of_view (by rw [ev_sendBufferDecreased]; rfl) hi
  · exact hi

theorem kaEmit_writeConn (e : Ep) (n : Nat) (up : Bool) (hi : KaEmit pk e) : KaEmit pk (writeConn e n up).1 := by
  unfold writeConn
  split
  · split
    · exact kaEmit_of_view (ev_checkSessTerm e) hi
    · exact hi
  · simp only []
    split
    · exact hi
    · split
      · exact kaEmit_of_view (by rw [ev_checkSessTerm]; rfl) hi
      · exact kaEmit_of_view rfl hi

theorem kaEmit_pump (e : Ep) (n : Nat) (hi : KaEmit pk e) : KaEmit pk (pump e n).1 :=
  kaEmit_writeConn _ _ _ (kaEmit_pullTx e hi)

/-! receive handlers -/

theorem kaEmit_onContact (e : Ep) (hi : KaEmit pk e) : KaEmit pk (onContact e).1 := by
  unfold onContact
  simp only []
  have h1 : KaEmit pk (if e.cfg.passive then sendContact e else e) := by
    split
    · exact kaEmit_sendContact e hi
    · exact hi
  have h2 : KaEmit pk (setState (if e.cfg.passive then sendContact e else e) "session-negotiating").1 :=
    kaEmit_of_view (ev_setState _ _) h1
  split
  · exact kaEmit_sendInit _ h2
  · exact h2

theorem kaEmit_onSessInit (e : Ep) (p : PeerInit) (hi : KaEmit pk e) : KaEmit pk (onSessInit e p).1 := by
  unfold onSessInit
  simp only []
  have h1 : KaEmit pk (if e.cfg.passive then sendInit e else e) := by
    split
    · exact kaEmit_sendInit e hi
    · exact hi
  refine kaEmit_of_view ?_ h1
  rw [ev_setState, ev_mergeSession]; rfl

theorem kaEmit_onSessTerm (e : Ep) (m : Msg) (r : Nat) (hi : KaEmit pk e) : KaEmit pk (onSessTerm e m r).1 := by
  unfold onSessTerm
  split
  · exact kaEmit_sendReject e _ _ hi
  · simp only []
    refine kaEmit_of_view (by rw [ev_checkSessTerm, ev_flush]) (e := { (if !e.inTerm then sendSessTerm e r true else (e, [])).1 with gotTerm := true }) ?_
    refine kaEmit_of_view (e := (if !e.inTerm then sendSessTerm e r true else (e, [])).1) rfl ?_
    split
    · exact kaEmit_sendSessTerm e r true hi
    · exact hi

theorem kaEmit_segAccept (e : Ep) (flags tid : Nat) (cur data : Bytes) (o1 : List Out) (hi : KaEmit pk e) :
    KaEmit pk (segAccept e flags tid cur data o1).1 := by
  unfold segAccept
  simp only []
  split
  · exact kaEmit_of_view (by rw [ev_checkSessTerm]; rfl) (kaEmit_sendMessage e _ hi)
  · exact kaEmit_sendMessage _ _ (kaEmit_of_view rfl hi)

theorem kaEmit_onSegment (e : Ep) (m : Msg) (flags tid : Nat) (data : Bytes) (hi : KaEmit pk e) :
    KaEmit pk (onSegment e m flags tid data).1 := by
  unfold onSegment
  split
  · exact kaEmit_sendReject e _ _ hi
  · split
    · exact kaEmit_segAccept _ _ _ _ _ _ (kaEmit_of_view rfl hi)
    · split
      · split
        · exact kaEmit_segAccept _ _ _ _ _ _ hi
        · exact kaEmit_sendReject e _ _ hi
      · exact kaEmit_sendReject e _ _ hi

theorem kaEmit_onAck (e : Ep) (m : Msg) (f t l : Nat) (hi : KaEmit pk e) : KaEmit pk (onAck e m f t l).1 := by
  unfold onAck
  split
  · exact kaEmit_sendReject e _ _ hi
  · split
    · exact kaEmit_sendReject e _ _ hi
    · split
      · split
        · exact kaEmit_sendReject e _ _ hi
        · exact kaEmit_of_view (by rw [ev_checkSessTerm]; rfl) hi
      · exact kaEmit_of_view rfl hi

theorem kaEmit_onRefuse (e : Ep) (m : Msg) (r t : Nat) (hi : KaEmit pk e) : KaEmit pk (onRefuse e m r t).1 := by
  unfold onRefuse
  split
  · exact kaEmit_sendReject e _ _ hi
  · split
    · exact kaEmit_sendReject e _ _ hi
    · refine kaEmit_of_view ?_ hi
      simp only [ev_checkSessTerm]
      split
      · split
        · rw [ev_pqTrigger]; rfl
        · rfl
      · rfl

theorem kaEmit_handleMsg (e : Ep) (m : Msg) (hi : KaEmit pk e) : KaEmit pk (handleMsg e m).1 := by
  have h0 : KaEmit pk { e with processed := e.processed ++ [m] } := kaEmit_of_view rfl hi
  unfold handleMsg
  cases m with
  | contact f => exact kaEmit_onContact _ h0
  | sessInit ka sm xm node ext => exact kaEmit_onSessInit _ _ h0
  | sessTerm f r => exact kaEmit_onSessTerm _ _ _ h0
  | keepalive => exact h0
  | msgReject a b => exact h0
  | xferSegment flags tid ext data => exact kaEmit_onSegment _ _ _ _ _ h0
  | xferAck f t l => exact kaEmit_onAck _ _ _ _ _ h0
  | xferRefuse r t => exact kaEmit_onRefuse _ _ _ _ h0

theorem kaEmit_handleMsgs (ms : List Msg) (e : Ep) (hi : KaEmit pk e) : KaEmit pk (handleMsgs e ms).1 := by
  induction ms generalizing e with
  | nil => exact hi
  | cons m ms ih =>
    unfold handleMsgs
    split
    · exact hi
    · exact ih _ (kaEmit_handleMsg _ m (kaEmit_of_view (e := e) rfl hi))

theorem kaEmit_recvRaw (e : Ep) (c : Bytes) (hi : KaEmit pk e) : KaEmit pk (recvRaw e c).1 := by
  unfold recvRaw
  simp only []
  have h0 : KaEmit pk (rxEntry e c) := kaEmit_of_view rfl hi
  have h1 := kaEmit_handleMsgs (feed e.rx c).2 _ h0
  split
  · exact kaEmit_of_view (ev_doClose _) h1
  · exact h1

theorem kaEmit_step (e : Ep) (ev : Ev) (hi : KaEmit pk e)
    (hk : e.kaDeadline.isSome = true → 0 < e.cfg.keepalive ∧ 0 < pk) : KaEmit pk (step e ev).1 := by
  unfold step
  cases ev with
  | advance ms => exact kaEmit_of_view rfl hi
  | start =>
    simp only []
    split
    · exact hi
    · split
      · exact hi
      · refine kaEmit_of_view (ev_setState _ _) ?_
        split
        · exact kaEmit_sendContact _ (kaEmit_of_view rfl hi)
        · exact kaEmit_of_view rfl hi
  | send d =>
    simp only []
    split
    · exact hi
    · exact kaEmit_of_view (by rw [ev_pqTrigger]; rfl) hi
  | terminate r =>
    simp only []
    split
    · exact hi
    · exact kaEmit_sendSessTerm _ _ _ hi
  | close =>
    simp only []
    split
    · exact hi
    · exact kaEmit_of_view (ev_doClose _) hi
  | pop t =>
    simp only []
    have : KaEmit pk (popRx e t).1 := by
      refine kaEmit_of_view ?_ hi
      unfold popRx; split <;> rfl
    split <;> exact this
  | query q => simp only []; split <;> exact hi
  | procQueue =>
    simp only []
    split
    · exact kaEmit_of_view rfl hi
    · split
      · exact hi
      · exact kaEmit_of_view rfl (kaEmit_processQueue _ (kaEmit_of_view (e := e) rfl hi))
  | pump n =>
    simp only []
    split
    · exact hi
    · split
      · exact hi
      · exact kaEmit_of_view rfl (kaEmit_pump _ _ (kaEmit_of_view (e := e) rfl hi))
  | rx c =>
    simp only []
    split
    · exact hi
    · exact kaEmit_recvRaw e c hi
  | rxEof =>
    simp only []
    split
    · exact hi
    · exact kaEmit_of_view (ev_doClose _) hi
  | keepaliveTimer =>
    simp only []
    split
    · exact hi
    · split
      · exact hi
      · rename_i d hd
        exact kaEmit_sendMessage _ _ (kaEmit_of_view rfl hi) (hk (by rw [hd]; rfl))
  | idleTimer =>
    simp only []
    split
    · exact hi
    · split
      · exact hi
      · split
        · exact kaEmit_of_view (by rw [ev_doClose]; rfl) hi
        · exact kaEmit_sendSessTerm _ _ _ (kaEmit_of_view rfl hi)
  | modulate raw =>
    simp only []
    split
    · exact hi
    · split
      · exact kaEmit_of_view rfl hi
      · exact hi

theorem kaEmit_init (cfg : Cfg) : KaEmit pk { cfg := cfg } := by
  intro m hm; simp at hm

end Tcpcl
end DtnVerif
