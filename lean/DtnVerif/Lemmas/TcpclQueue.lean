/-
  Queue bookkeeping of the TCPCL endpoint against the signals it emits.

  * `QInv`  — `_tx_map` holds exactly the transfers in flight (unstarted, being segmented, awaiting
              the final ACK), each once, all older than the next transfer id.
  * `TxRel` — what one operation does to `_tx_map` is exactly what its `send_bundle_finished` signals say:
              the ids signalled are distinct, were in the map, and are precisely the ids removed.
  * `RxRel` — what one operation does to `_rx_map` and the receive log is exactly what its
              `recv_bundle_finished` signals say.
  Every function of the endpoint model satisfies `QStep` (= preserves `QInv`, meets both relations).
-/
import DtnVerif.Model.TcpclEp
namespace DtnVerif
namespace Tcpcl

def isSig (n : String) : Out → Bool
  | .sig m _ => m == n
  | _ => false

def txFin (os : List Out) : List Out := os.filter (isSig "send_bundle_finished")
def rxFin (os : List Out) : List Out := os.filter (isSig "recv_bundle_finished")

/-- the `send_bundle_finished` signal for (tid, length, result text) -/
def txSig (f : Nat × Nat × String) : Out :=
  .sig "send_bundle_finished" [.str (natStr f.1), .nat f.2.1, .str f.2.2]
/-- the `recv_bundle_finished` signal for a completed transfer -/
def rxSig (p : Nat × Bytes) : Out :=
  .sig "recv_bundle_finished" [.str (natStr p.1), .nat p.2.length, .str "success"]

@[simp] theorem filter_const_true {α} (l : List α) : l.filter (fun _ => true) = l :=
  List.filter_eq_self.mpr (by simp)

@[simp] theorem txFin_nil : txFin [] = [] := rfl
@[simp] theorem rxFin_nil : rxFin [] = [] := rfl
@[simp] theorem txFin_append (a b : List Out) : txFin (a ++ b) = txFin a ++ txFin b := by simp [txFin]
@[simp] theorem rxFin_append (a b : List Out) : rxFin (a ++ b) = rxFin a ++ rxFin b := by simp [rxFin]

def tmpTids (t : Option (TxItem × Nat)) : List Nat :=
  match t with
  | some (it, _) => [it.tid]
  | none => []

/-- transfers in flight: unstarted, being segmented, awaiting the final acknowledgement -/
def Ep.inflight (e : Ep) : List Nat := e.txPendStart.map (·.tid) ++ (tmpTids e.txTmp ++ e.txPendAck)

structure QInv (e : Ep) : Prop where
  fl : e.inflight.Nodup
  nd : e.txMap.Nodup
  iff : ∀ t, t ∈ e.txMap ↔ t ∈ e.inflight
  fresh : ∀ t ∈ e.txMap, t < e.txNextId

def TxRel (e : Ep) (r : Res) : Prop :=
  ∃ fin : List (Nat × Nat × String),
    txFin r.2 = fin.map txSig ∧
    r.1.txMap = e.txMap.filter (fun t => !(fin.map (·.1)).contains t) ∧
    (∀ t ∈ fin.map (·.1), t ∈ e.txMap) ∧ (fin.map (·.1)).Nodup ∧ r.1.txNextId = e.txNextId

def rxIns (m : List (Nat × Bytes)) (new : List (Nat × Bytes)) : List (Nat × Bytes) :=
  new.foldl (fun m p => rxMapSet m p.1 p.2) m

def RxRel (e : Ep) (r : Res) : Prop :=
  ∃ new : List (Nat × Bytes),
    rxFin r.2 = new.map rxSig ∧ r.1.rxLog = e.rxLog ++ new ∧ r.1.rxMap = rxIns e.rxMap new

def QStep (e : Ep) (r : Res) : Prop := QInv e → QInv r.1 ∧ TxRel e r ∧ RxRel e r

/-- the fields the queue statements read -/
def Ep.qv (e : Ep) := (e.rxMap, e.rxLog, e.txMap, e.txPendStart, e.txTmp, e.txPendAck, e.txNextId)

theorem QInv.of_qv {e e' : Ep} (h : e'.qv = e.qv) (hi : QInv e) : QInv e' := by
  simp only [Ep.qv, Prod.mk.injEq] at h
  obtain ⟨_, _, h3, h4, h5, h6, h7⟩ := h
  have hf : e'.inflight = e.inflight := by simp [Ep.inflight, h4, h5, h6]
  exact ⟨hf ▸ hi.fl, h3 ▸ hi.nd, by rw [h3, hf]; exact hi.iff, by rw [h3, h7]; exact hi.fresh⟩

theorem QStep.refl_of_qv {e : Ep} {r : Res} (h : r.1.qv = e.qv) (h1 : txFin r.2 = []) (h2 : rxFin r.2 = []) :
    QStep e r := by
  intro hi
  refine ⟨hi.of_qv h, ⟨[], ?_⟩, ⟨[], ?_⟩⟩
  · simp only [Ep.qv, Prod.mk.injEq] at h
    simp [h1, h.2.2.1, h.2.2.2.2.2.2, filter_const_true]
  · simp only [Ep.qv, Prod.mk.injEq] at h
    simp [h2, h.1, h.2.1, rxIns]

theorem QStep.congr_left {e e' : Ep} {r : Res} (h : e'.qv = e.qv) (hs : QStep e' r) : QStep e r := by
  intro hi
  obtain ⟨h1, ⟨fin, hf⟩, ⟨new, hn⟩⟩ := hs (hi.of_qv h)
  simp only [Ep.qv, Prod.mk.injEq] at h
  obtain ⟨g1, g2, g3, _, _, _, g7⟩ := h
  exact ⟨h1, ⟨fin, by rw [← g3, ← g7]; exact hf⟩, ⟨new, by rw [← g1, ← g2]; exact hn⟩⟩

theorem QStep.congr_right {e : Ep} {r r' : Res} (h : r'.1.qv = r.1.qv) (ho : r'.2 = r.2) (hs : QStep e r) :
    QStep e r' := by
  intro hi
  obtain ⟨h1, ⟨fin, hf⟩, ⟨new, hn⟩⟩ := hs hi
  have h' := h
  simp only [Ep.qv, Prod.mk.injEq] at h
  obtain ⟨g1, g2, g3, _, _, _, g7⟩ := h
  exact ⟨h1.of_qv h', ⟨fin, by rw [ho, g3, g7]; exact hf⟩, ⟨new, by rw [ho, g1, g2]; exact hn⟩⟩

theorem rxIns_append (m : List (Nat × Bytes)) (a b : List (Nat × Bytes)) :
    rxIns m (a ++ b) = rxIns (rxIns m a) b := by simp [rxIns, List.foldl_append]

theorem QStep.comp {e : Ep} {r1 r2 : Res} (h1 : QStep e r1) (h2 : QStep r1.1 r2) :
    QStep e (r2.1, r1.2 ++ r2.2) := by
  intro hi
  obtain ⟨i1, ⟨f1, a1, a2, a3, a4, a5⟩, ⟨n1, b1, b2, b3⟩⟩ := h1 hi
  obtain ⟨i2, ⟨f2, c1, c2, c3, c4, c5⟩, ⟨n2, d1, d2, d3⟩⟩ := h2 i1
  refine ⟨i2, ⟨f1 ++ f2, ?_, ?_, ?_, ?_, ?_⟩, ⟨n1 ++ n2, ?_, ?_, ?_⟩⟩
  · simp [a1, c1]
  · show r2.1.txMap = _
    rw [c2, a2, List.filter_filter]
    congr 1; funext t
    simp only [List.map_append, List.contains_append, Bool.not_or, Bool.and_comm]
  · intro t ht
    simp only [List.map_append, List.mem_append] at ht
    rcases ht with ht | ht
    · exact a3 t ht
    · have := c3 t ht
      rw [a2] at this
      exact (List.mem_filter.mp this).1
  · simp only [List.map_append]
    refine List.nodup_append.mpr ⟨a4, c4, ?_⟩
    intro x hx y hy hxy
    subst hxy
    have := c3 x hy
    rw [a2] at this
    have hn := (List.mem_filter.mp this).2
    simp at hn
    simp at hx
    obtain ⟨a, b, hab⟩ := hx
    exact hn a b hab
  · show r2.1.txNextId = _
    rw [c5, a5]
  · simp [b1, d1]
  · show r2.1.rxLog = _
    rw [d2, b2, List.append_assoc]
  · show r2.1.rxMap = _
    rw [d3, b3, rxIns_append]

/-- composition where the first part is given by its state and outputs -/
theorem QStep.comp' {e e1 : Ep} {o1 : List Out} {r2 : Res} (h1 : QStep e (e1, o1)) (h2 : QStep e1 r2) :
    QStep e (r2.1, o1 ++ r2.2) := QStep.comp (r1 := (e1, o1)) h1 h2

theorem QStep.id (e : Ep) : QStep e (e, []) := QStep.refl_of_qv rfl rfl rfl

/- ------------------------------------------------------------------ helpers leave the view alone -/

@[simp] theorem qv_kaReset (e : Ep) : (kaReset e).qv = e.qv := rfl
@[simp] theorem qv_idleReset (e : Ep) : (idleReset e).qv = e.qv := rfl
@[simp] theorem qv_sendMessage (e : Ep) (m : Msg) : (sendMessage e m).qv = e.qv := rfl
@[simp] theorem qv_pqTrigger (e : Ep) : (pqTrigger e).qv = e.qv := by unfold pqTrigger; split <;> rfl
@[simp] theorem qv_sendReject (e : Ep) (r : Nat) (m : Msg) : (sendReject e r m).qv = e.qv := rfl
@[simp] theorem qv_mergeSession (e : Ep) (p : PeerInit) : (mergeSession e p).qv = e.qv := rfl
@[simp] theorem qv_sendContact (e : Ep) : (sendContact e).qv = e.qv := rfl
@[simp] theorem qv_sendInit (e : Ep) : (sendInit e).qv = e.qv := rfl
@[simp] theorem qv_sendBufferDecreased (e : Ep) : (sendBufferDecreased e).qv = e.qv := by
  unfold sendBufferDecreased; split <;> simp
@[simp] theorem qv_pullTx (e : Ep) : (pullTx e).qv = e.qv := by
  unfold pullTx; split
  · simp; rfl
  · rfl
@[simp] theorem qv_setState (e : Ep) (s : String) : (setState e s).1.qv = e.qv := by
  unfold setState; split <;> rfl

/- ------------------------------------------------------------------ per-function steps -/

@[simp] theorem txFin_setState (e : Ep) (s : String) : txFin (setState e s).2 = [] := by
  unfold setState; split <;> simp [txFin, isSig]
@[simp] theorem rxFin_setState (e : Ep) (s : String) : rxFin (setState e s).2 = [] := by
  unfold setState; split <;> simp [rxFin, isSig]

theorem q_setState (e : Ep) (s : String) : QStep e (setState e s) :=
  QStep.refl_of_qv (by simp) (by simp) (by simp)

theorem QStep.cons_then {e e1 : Ep} {o : Out} {r2 : Res} (h2 : QStep e1 r2) (h1 : QStep e (e1, [o])) :
    QStep e (r2.1, o :: r2.2) := QStep.comp' h1 h2
theorem QStep.app_then {e e1 : Ep} {o1 : List Out} {r2 : Res} (h2 : QStep e1 r2) (h1 : QStep e (e1, o1)) :
    QStep e (r2.1, o1 ++ r2.2) := QStep.comp' h1 h2

theorem q_flush (e : Ep) : QStep e (flushPendStart e) := by
  intro hi
  have hfl := List.nodup_append.mp hi.fl
  refine ⟨⟨?_, ?_, ?_, ?_⟩, ⟨e.txPendStart.map (fun it => (it.tid, 0, "session terminating")), ?_, ?_, ?_, ?_, rfl⟩,
    ⟨[], ?_, ?_, ?_⟩⟩
  · simp only [flushPendStart, Ep.inflight, List.map_nil, List.nil_append]
    exact hfl.2.1
  · exact hi.nd.filter _
  · intro t
    simp only [flushPendStart, Ep.inflight, List.map_nil, List.nil_append, List.mem_filter]
    have := hi.iff t
    simp only [Ep.inflight, List.mem_append, List.mem_map] at this
    constructor
    · rintro ⟨h1, h2⟩
      rcases this.mp h1 with ⟨it, hit, rfl⟩ | h
      · simp at h2
        exact absurd rfl (h2 it hit)
      · simpa using h
    · intro h
      refine ⟨this.mpr (Or.inr (by simpa using h)), ?_⟩
      simp only [Bool.not_eq_true', List.any_eq_false, beq_iff_eq]
      intro it hit heq
      exact hfl.2.2 it.tid (by simp; exact ⟨it, hit, rfl⟩) t (by simpa using h) heq
  · intro t ht
    exact hi.fresh t (List.mem_filter.mp ht).1
  · simp [flushPendStart, txFin, isSig, List.filter_map, txSig, Function.comp_def, filter_const_true]
  · simp only [flushPendStart, List.map_map]
    congr 1; funext t
    rw [Bool.eq_iff_iff]
    simp only [Bool.not_eq_true', List.any_eq_false, beq_iff_eq, List.contains_eq_mem,
      decide_eq_false_iff_not, List.mem_map, Function.comp, not_exists, not_and]
  · intro t ht
    simp only [List.map_map, List.mem_map, Function.comp] at ht
    obtain ⟨it, hit, rfl⟩ := ht
    exact (hi.iff it.tid).mpr (by simp [Ep.inflight]; exact Or.inl ⟨it, hit, rfl⟩)
  · simp only [List.map_map, Function.comp_def]
    exact hfl.1
  · simp [flushPendStart, rxFin, isSig, List.filter_map, Function.comp_def]
  · simp [flushPendStart]
  · simp [flushPendStart, rxIns]

theorem q_doClose (e : Ep) : QStep e (doClose e) := by
  unfold doClose
  split
  · exact QStep.id e
  · have h := QStep.comp (q_flush e) (QStep.id (flushPendStart e).1)
    refine QStep.congr_right ?_ ?_ (QStep.comp (q_flush e)
      (QStep.refl_of_qv (r := ((flushPendStart e).1, [Out.closed])) rfl rfl rfl))
    · rfl
    · rfl

theorem q_checkSessTerm (e : Ep) : QStep e (checkSessTerm e) := by
  unfold checkSessTerm; split
  · exact q_doClose e
  · exact QStep.id e

theorem q_sendSessTerm (e : Ep) (r : Nat) (b : Bool) : QStep e (sendSessTerm e r b) := by
  unfold sendSessTerm
  split
  · exact QStep.refl_of_qv rfl rfl rfl
  · split
    · exact QStep.refl_of_qv rfl rfl rfl
    · simp only []
      refine QStep.comp' (e1 := sendMessage (setState { e with inTerm := true } "ending").1
          (.sessTerm (if b then 1 else 0) r)) ?_ (q_flush _)
      refine QStep.refl_of_qv ?_ ?_ ?_
      · simp; rfl
      · have := q_setState { e with inTerm := true } "ending"
        unfold setState; split <;> simp [txFin, isSig]
      · unfold setState; split <;> simp [rxFin, isSig]

/- ------------------------------------------------------------------ generic shapes of a change -/

/-- a rearrangement of the in-flight transfers that finishes nothing -/
theorem QStep.perm {e e' : Ep} {o : List Out} (h1 : e'.rxMap = e.rxMap) (h2 : e'.rxLog = e.rxLog)
    (h3 : e'.txMap = e.txMap) (h4 : e'.txNextId = e.txNextId) (hp : e'.inflight.Perm e.inflight)
    (o1 : txFin o = []) (o2 : rxFin o = []) : QStep e (e', o) := by
  intro hi
  refine ⟨⟨hp.nodup_iff.mpr hi.fl, h3 ▸ hi.nd, ?_, ?_⟩, ⟨[], ?_⟩, ⟨[], ?_⟩⟩
  · intro t; rw [h3, hp.mem_iff]; exact hi.iff t
  · rw [h3, h4]; exact hi.fresh
  · simp [o1, h3, h4]
  · simp [o2, h1, h2, rxIns]

/-- exactly one transfer finishes: one signal, removed from the map and from the in-flight set -/
theorem QStep.remove {e e' : Ep} {o : List Out} (tid len : Nat) (txt : String)
    (h1 : e'.rxMap = e.rxMap) (h2 : e'.rxLog = e.rxLog)
    (h3 : e'.txMap = e.txMap.erase tid) (h4 : e'.txNextId = e.txNextId) (hm : tid ∈ e.txMap)
    (hp : e'.inflight.Perm (e.inflight.filter (· != tid)))
    (o1 : txFin o = [txSig (tid, len, txt)]) (o2 : rxFin o = []) : QStep e (e', o) := by
  intro hi
  have he : e.txMap.erase tid = e.txMap.filter (· != tid) := hi.nd.erase_eq_filter tid
  refine ⟨⟨hp.nodup_iff.mpr (hi.fl.filter _), ?_, ?_, ?_⟩, ⟨[(tid, len, txt)], ?_, ?_, ?_, ?_, ?_⟩, ⟨[], ?_⟩⟩
  · rw [h3]; exact hi.nd.erase _
  · intro t
    rw [h3, he, hp.mem_iff, List.mem_filter, List.mem_filter, hi.iff t]
  · intro t ht
    rw [h3] at ht
    rw [h4]; exact hi.fresh t (List.mem_of_mem_erase ht)
  · simp [o1]
  · show e'.txMap = _
    rw [h3, he]
    congr 1; funext t
    by_cases h : t = tid <;> simp [h]
  · simpa using hm
  · simp
  · exact h4
  · simp [o2, h1, h2, rxIns]

/-- exactly one received transfer completes -/
theorem QStep.rxAdd {e e' : Ep} {o : List Out} (tid : Nat) (d : Bytes)
    (h1 : e'.rxMap = rxMapSet e.rxMap tid d) (h2 : e'.rxLog = e.rxLog ++ [(tid, d)])
    (h3 : e'.txMap = e.txMap) (h4 : e'.txNextId = e.txNextId) (hp : e'.inflight = e.inflight)
    (o1 : txFin o = []) (o2 : rxFin o = [rxSig (tid, d)]) : QStep e (e', o) := by
  intro hi
  refine ⟨⟨hp ▸ hi.fl, h3 ▸ hi.nd, ?_, ?_⟩, ⟨[], ?_⟩, ⟨[(tid, d)], ?_⟩⟩
  · intro t; rw [h3, hp]; exact hi.iff t
  · rw [h3, h4]; exact hi.fresh
  · simp [o1, h3, h4]
  · simp [o2, h1, h2, rxIns]

/- ------------------------------------------------------------------ transmit side -/

@[simp] theorem pq_rxMap (e : Ep) : (pqTrigger e).rxMap = e.rxMap := by unfold pqTrigger; split <;> rfl
@[simp] theorem ss_rxMap (e : Ep) (s : String) : (setState e s).1.rxMap = e.rxMap := by unfold setState; split <;> rfl
@[simp] theorem pq_rxLog (e : Ep) : (pqTrigger e).rxLog = e.rxLog := by unfold pqTrigger; split <;> rfl
@[simp] theorem ss_rxLog (e : Ep) (s : String) : (setState e s).1.rxLog = e.rxLog := by unfold setState; split <;> rfl
@[simp] theorem pq_txMap (e : Ep) : (pqTrigger e).txMap = e.txMap := by unfold pqTrigger; split <;> rfl
@[simp] theorem ss_txMap (e : Ep) (s : String) : (setState e s).1.txMap = e.txMap := by unfold setState; split <;> rfl
@[simp] theorem pq_txPendStart (e : Ep) : (pqTrigger e).txPendStart = e.txPendStart := by unfold pqTrigger; split <;> rfl
@[simp] theorem ss_txPendStart (e : Ep) (s : String) : (setState e s).1.txPendStart = e.txPendStart := by unfold setState; split <;> rfl
@[simp] theorem pq_txTmp (e : Ep) : (pqTrigger e).txTmp = e.txTmp := by unfold pqTrigger; split <;> rfl
@[simp] theorem ss_txTmp (e : Ep) (s : String) : (setState e s).1.txTmp = e.txTmp := by unfold setState; split <;> rfl
@[simp] theorem pq_txPendAck (e : Ep) : (pqTrigger e).txPendAck = e.txPendAck := by unfold pqTrigger; split <;> rfl
@[simp] theorem ss_txPendAck (e : Ep) (s : String) : (setState e s).1.txPendAck = e.txPendAck := by unfold setState; split <;> rfl
@[simp] theorem pq_txNextId (e : Ep) : (pqTrigger e).txNextId = e.txNextId := by unfold pqTrigger; split <;> rfl
@[simp] theorem ss_txNextId (e : Ep) (s : String) : (setState e s).1.txNextId = e.txNextId := by unfold setState; split <;> rfl
@[simp] theorem inflight_pqTrigger (e : Ep) : (pqTrigger e).inflight = e.inflight := by simp [Ep.inflight]

theorem q_sendSegment (e : Ep) (it : TxItem) (s : Nat) (ht : tmpTids e.txTmp = [it.tid]) :
    QStep e ((sendSegment e it s).1, (sendSegment e it s).2.1) := by
  unfold sendSegment
  simp only []
  split
  · refine QStep.perm rfl rfl rfl rfl ?_ rfl rfl
    simp only [Ep.inflight, ht]; simp [tmpTids]
  · split
    · refine QStep.perm (by simp [sendMessage, sendReady, idleReset, kaReset]) (by simp [sendMessage, sendReady, idleReset, kaReset])
        (by simp [sendMessage, sendReady, idleReset, kaReset]) (by simp [sendMessage, sendReady, idleReset, kaReset]) ?_ rfl rfl
      rw [inflight_pqTrigger]
      simp only [Ep.inflight, ht]
      simp only [sendMessage, sendReady, idleReset, kaReset, tmpTids, List.nil_append]
      exact List.Perm.append_left _ List.perm_append_comm
    · refine QStep.perm rfl rfl rfl rfl ?_ rfl rfl
      simp only [Ep.inflight, ht]; simp [tmpTids, sendMessage, sendReady, idleReset, kaReset]

theorem q_processQueue (e : Ep) : QStep e ((processQueue e).1, (processQueue e).2.1) := by
  unfold processQueue
  split
  · rename_i it sent h
    exact q_sendSegment e it sent (by simp [h, tmpTids])
  · rename_i h
    split
    · exact QStep.id e
    · split
      · exact QStep.comp (q_flush e) (q_checkSessTerm _)
      · split
        · exact QStep.id e
        · rename_i it rest hps
          simp only []
          refine QStep.cons_then (r2 := ((sendSegment _ it 0).1, (sendSegment _ it 0).2.1))
            (q_sendSegment _ it 0 (by simp [tmpTids])) ?_
          refine QStep.perm rfl rfl rfl rfl ?_ rfl rfl
          simp only [Ep.inflight, h, hps]
          simp only [tmpTids, List.map_cons, List.nil_append, List.cons_append]
          exact List.perm_middle

theorem q_writeConn (e : Ep) (n : Nat) (up : Bool) : QStep e (writeConn e n up) := by
  unfold writeConn
  split
  · split
    · exact q_checkSessTerm e
    · exact QStep.id e
  · simp only []
    split
    · exact QStep.id e
    · split
      · refine QStep.cons_then (q_checkSessTerm _) ?_
        exact QStep.refl_of_qv rfl rfl rfl
      · exact QStep.refl_of_qv rfl rfl rfl

theorem q_pump (e : Ep) (n : Nat) : QStep e (pump e n) := by
  unfold pump
  exact QStep.congr_left (qv_pullTx e) (q_writeConn (pullTx e) n (upEmpty e))

theorem q_onContact (e : Ep) : QStep e (onContact e) := by
  unfold onContact
  simp only []
  refine QStep.refl_of_qv ?_ ?_ ?_
  · cases e.cfg.passive <;> simp
  · simp
  · simp

theorem q_onSessInit (e : Ep) (p : PeerInit) : QStep e (onSessInit e p) := by
  unfold onSessInit
  simp only []
  refine QStep.refl_of_qv ?_ ?_ ?_
  · cases e.cfg.passive <;> simp <;> rfl
  · simp
  · simp

theorem q_onSessTerm (e : Ep) (m : Msg) (r : Nat) : QStep e (onSessTerm e m r) := by
  unfold onSessTerm
  split
  · exact QStep.refl_of_qv (by simp) rfl rfl
  · simp only []
    have h1 : QStep e (if (!e.inTerm) = true then sendSessTerm e r true else (e, [])) := by
      split
      · exact q_sendSessTerm e r true
      · exact QStep.id e
    have h2 := QStep.comp h1 (QStep.congr_left (e' := { (if (!e.inTerm) = true then sendSessTerm e r true else (e, [])).1 with gotTerm := true })
      rfl (q_flush _))
    have h3 := QStep.comp h2 (q_checkSessTerm _)
    simpa [List.append_assoc] using h3

/- ------------------------------------------------------------------ receive side -/

theorem q_segAccept (e : Ep) (f t : Nat) (c d : Bytes) (o : List Out) (ho1 : txFin o = []) (ho2 : rxFin o = []) :
    QStep e (segAccept e f t c d o) := by
  unfold segAccept
  simp only []
  split
  · refine QStep.app_then (q_checkSessTerm _) ?_
    refine QStep.rxAdd t (c ++ d) rfl rfl rfl rfl rfl ?_ ?_
    · rw [txFin_append, ho1]; simp [txFin, isSig]
    · rw [rxFin_append, ho2]; simp [rxFin, isSig, rxSig]
  · refine QStep.refl_of_qv rfl ?_ ?_
    · rw [txFin_append, ho1]; simp [txFin, isSig]
    · rw [rxFin_append, ho2]; simp [rxFin, isSig]

theorem q_onSegment (e : Ep) (m : Msg) (f t : Nat) (d : Bytes) : QStep e (onSegment e m f t d) := by
  unfold onSegment
  split
  · exact QStep.refl_of_qv (by simp) rfl rfl
  · split
    · exact QStep.congr_left (e' := { e with rxTmp := some (t, []) }) rfl
        (q_segAccept _ f t [] d _ (by simp [txFin, isSig]) (by simp [rxFin, isSig]))
    · split
      · split
        · exact q_segAccept e f t _ d [] rfl rfl
        · exact QStep.refl_of_qv (by simp) rfl rfl
      · exact QStep.refl_of_qv (by simp) rfl rfl

theorem filter_ne_self_of_not_mem {l : List Nat} {a : Nat} (h : a ∉ l) : l.filter (· != a) = l := by
  apply List.filter_eq_self.mpr
  intro x hx
  simp only [bne_iff_ne, ne_eq]
  intro hxa; exact h (hxa ▸ hx)

theorem q_onAck (e : Ep) (m : Msg) (f t l : Nat) : QStep e (onAck e m f t l) := by
  unfold onAck
  split
  · exact QStep.refl_of_qv (by simp) rfl rfl
  · split
    · exact QStep.refl_of_qv (by simp) rfl rfl
    · rename_i hmap
      split
      · split
        · exact QStep.refl_of_qv (by simp) rfl rfl
        · rename_i hack
          simp only []
          refine QStep.cons_then (q_checkSessTerm _) ?_
          · intro hi
            have hfl := hi.fl
            simp only [Ep.inflight, List.nodup_append] at hfl
            have hta : t ∈ e.txPendAck := by simpa using hack
            refine QStep.remove t l "success" rfl rfl rfl rfl (by simpa using hmap) ?_ ?_ rfl hi
            · simp only [Ep.inflight, List.filter_append]
              rw [filter_ne_self_of_not_mem (l := e.txPendStart.map (·.tid)), filter_ne_self_of_not_mem (l := tmpTids e.txTmp),
                hfl.2.1.2.1.erase_eq_filter]
              · intro h; exact hfl.2.1.2.2 t h t hta rfl
              · intro h; exact hfl.2.2 t h t (by simp [hta]) rfl
            · simp [txFin, isSig, txSig]
      · exact QStep.refl_of_qv rfl (by simp [txFin, isSig]) (by simp [rxFin, isSig])

theorem q_onRefuse (e : Ep) (m : Msg) (r t : Nat) : QStep e (onRefuse e m r t) := by
  unfold onRefuse
  split
  · exact QStep.refl_of_qv (by simp) rfl rfl
  · split
    · exact QStep.refl_of_qv (by simp) rfl rfl
    · rename_i hmap
      simp only []
      refine QStep.cons_then (q_checkSessTerm _) ?_
      intro hi
      have hfl := hi.fl
      simp only [Ep.inflight, List.nodup_append] at hfl
      refine QStep.remove t ((e.ackLen.find? (·.1 == t)).map (·.2) |>.getD 0) ("refused with code " ++ natStr r)
        ?_ ?_ ?_ ?_ (by simpa using hmap) ?_ ?_ ?_ hi
      · split <;> (try split) <;> simp
      · split <;> (try split) <;> simp
      · split <;> (try split) <;> simp
      · split <;> (try split) <;> simp
      · have hps : (e.txPendStart.filter (·.tid != t)).map (·.tid) = (e.txPendStart.map (·.tid)).filter (· != t) := by
          rw [List.filter_map]; rfl
        have hack : e.txPendAck.erase t = e.txPendAck.filter (· != t) := hfl.2.1.2.1.erase_eq_filter t
        cases htmp : e.txTmp with
        | none =>
          simp only [htmp, Ep.inflight, List.filter_append, hps, hack, tmpTids, List.filter_nil]
          exact List.Perm.refl _
        | some p =>
          obtain ⟨it, sent⟩ := p
          by_cases hit : it.tid = t
          · simp only [hit, beq_self_eq_true, if_true, inflight_pqTrigger]
            simp only [Ep.inflight, List.filter_append, hps, hack, tmpTids, htmp]
            simp [hit]
          · have : (it.tid == t) = false := by simpa using hit
            simp only [this]
            simp only [Ep.inflight, List.filter_append, hack, tmpTids, htmp]
            simp [hit, hps]
      · simp [txFin, isSig, txSig]
      · simp [rxFin, isSig]

theorem q_handleMsg (e : Ep) (m : Msg) : QStep e (handleMsg e m) := by
  unfold handleMsg
  simp only []
  refine QStep.congr_left (e' := { e with processed := e.processed ++ [m] }) rfl ?_
  cases m with
  | contact f => exact q_onContact _
  | sessInit ka sm xm node ext => exact q_onSessInit _ _
  | sessTerm f r => exact q_onSessTerm _ _ _
  | keepalive => exact QStep.id _
  | msgReject a b => exact QStep.id _
  | xferSegment f t x d => exact q_onSegment _ _ _ _ _
  | xferAck f t l => exact q_onAck _ _ _ _ _
  | xferRefuse r t => exact q_onRefuse _ _ _ _

theorem q_handleMsgs (e : Ep) (ms : List Msg) : QStep e (handleMsgs e ms) := by
  induction ms generalizing e with
  | nil => exact QStep.id e
  | cons m ms ih =>
    unfold handleMsgs
    split
    · exact QStep.id e
    · exact QStep.comp (QStep.congr_left (e' := { e with rxMore := !ms.isEmpty || e.rx.dead }) rfl (q_handleMsg _ m)) (ih _)

theorem q_recvRaw (e : Ep) (chunk : Bytes) : QStep e (recvRaw e chunk) := by
  unfold recvRaw
  simp only []
  have h1 : QStep e (handleMsgs (rxEntry e chunk) (feed e.rx chunk).2) :=
    QStep.congr_left (e' := rxEntry e chunk) rfl (q_handleMsgs _ _)
  have h2 : QStep e ({ (handleMsgs (rxEntry e chunk) (feed e.rx chunk).2).1 with rxMore := false },
      (handleMsgs (rxEntry e chunk) (feed e.rx chunk).2).2) :=
    QStep.congr_right (r := handleMsgs (rxEntry e chunk) (feed e.rx chunk).2) rfl rfl h1
  split
  · exact QStep.comp' h2 (q_doClose _)
  · exact h2

/- ------------------------------------------------------------------ one event -/

def Ev.isSend : Ev → Bool | .send _ => true | _ => false
def Ev.isPop : Ev → Bool | .pop _ => true | _ => false

/-- every event other than the user's `send` and `pop` calls -/
theorem q_step (e : Ep) (ev : Ev) (h1 : ev.isSend = false) (h2 : ev.isPop = false) : QStep e (step e ev) := by
  unfold step
  cases ev with
  | send d => simp [Ev.isSend] at h1
  | pop t => simp [Ev.isPop] at h2
  | advance ms => exact QStep.refl_of_qv rfl rfl rfl
  | start =>
    simp only []
    split
    · exact QStep.id e
    · split
      · exact QStep.id e
      · refine QStep.congr_left (e' := (if (!e.cfg.passive) = true then sendContact { e with started := true } else { e with started := true })) ?_
          (q_setState _ _)
        split <;> rfl
  | terminate r =>
    simp only []
    split
    · exact QStep.id e
    · exact q_sendSessTerm e r false
  | close =>
    simp only []
    split
    · exact QStep.id e
    · exact q_doClose e
  | query q =>
    simp only []
    split <;> exact QStep.refl_of_qv rfl rfl rfl
  | procQueue =>
    simp only []
    split
    · exact QStep.refl_of_qv rfl rfl rfl
    · split
      · exact QStep.id e
      · exact QStep.congr_right (r := ((processQueue { e with pqPend := false }).1, (processQueue { e with pqPend := false }).2.1))
          rfl rfl (QStep.congr_left (e' := { e with pqPend := false }) rfl (q_processQueue _))
  | pump n =>
    simp only []
    split
    · exact QStep.id e
    · split
      · exact QStep.id e
      · exact QStep.congr_right (r := pump { e with txIdle := false } n) rfl rfl (QStep.congr_left (e' := { e with txIdle := false }) rfl (q_pump _ n))
  | rx chunk =>
    simp only []
    split
    · exact QStep.id e
    · exact q_recvRaw e chunk
  | rxEof =>
    simp only []
    split
    · exact QStep.id e
    · exact q_doClose e
  | keepaliveTimer =>
    simp only []
    split
    · exact QStep.id e
    · split
      · exact QStep.id e
      · exact QStep.refl_of_qv rfl rfl rfl
  | idleTimer =>
    simp only []
    split
    · exact QStep.id e
    · split
      · exact QStep.id e
      · split
        · exact QStep.congr_left (e' := { e with idleDeadline := none }) rfl (q_doClose _)
        · exact QStep.congr_left (e' := { e with idleDeadline := none }) rfl (q_sendSessTerm _ _ _)
  | modulate raw =>
    simp only []
    split
    · exact QStep.id e
    · split <;> exact QStep.refl_of_qv rfl rfl rfl

/-- the user's `send`: a fresh id is returned, queued, and nothing finishes -/
theorem q_step_send_fields (e : Ep) (d : Bytes) (hc : e.closed = false) :
    (step e (.send d)).2 = [.ret (.str (natStr e.txNextId))] ∧
    (step e (.send d)).1.txMap = e.txMap ++ [e.txNextId] ∧
    (step e (.send d)).1.txNextId = e.txNextId + 1 ∧
    (step e (.send d)).1.rxMap = e.rxMap ∧ (step e (.send d)).1.rxLog = e.rxLog ∧
    (step e (.send d)).1.inflight = e.txPendStart.map (·.tid) ++ e.txNextId :: (tmpTids e.txTmp ++ e.txPendAck) := by
  unfold step
  simp only [hc]
  refine ⟨rfl, by simp, by simp, by simp, by simp, ?_⟩
  simp only [Bool.false_eq_true, ↓reduceIte, inflight_pqTrigger]
  simp [Ep.inflight]

theorem q_step_send (e : Ep) (d : Bytes) (hc : e.closed = false) (hi : QInv e) : QInv (step e (.send d)).1 := by
  obtain ⟨_, hm, hx, _, _, hf⟩ := q_step_send_fields e d hc
  have hn : e.txNextId ∉ e.txMap := fun h => Nat.lt_irrefl _ (hi.fresh _ h)
  have hn' : e.txNextId ∉ e.inflight := fun h => hn ((hi.iff _).mpr h)
  have hfl : (step e (.send d)).1.inflight.Perm (e.txNextId :: e.inflight) := by
    rw [hf]; exact List.perm_middle
  refine ⟨hfl.nodup_iff.mpr (List.nodup_cons.mpr ⟨hn', hi.fl⟩), ?_, ?_, ?_⟩
  · rw [hm]
    exact List.nodup_append.mpr ⟨hi.nd, by simp, by intro a ha b hb hab; simp at hb; exact hn (hb ▸ hab ▸ ha)⟩
  · intro t
    rw [hfl.mem_iff, hm]
    simp only [List.mem_append, List.mem_cons, List.not_mem_nil, or_false]
    rw [hi.iff t]
    exact Or.comm
  · intro t ht
    rw [hm] at ht
    simp only [List.mem_append, List.mem_cons, List.not_mem_nil, or_false] at ht
    rw [hx]
    rcases ht with ht | ht
    · exact Nat.lt_succ_of_lt (hi.fresh t ht)
    · exact ht ▸ Nat.lt_succ_self _

/-- the user's `pop`: the transmit side is untouched -/
theorem q_step_pop (e : Ep) (tid : Nat) : (step e (.pop tid)) = popRx e tid := by
  unfold step; simp only []; split <;> rfl

theorem qv_tx_popRx (e : Ep) (tid : Nat) :
    (popRx e tid).1.txMap = e.txMap ∧ (popRx e tid).1.txNextId = e.txNextId ∧ (popRx e tid).1.inflight = e.inflight
    ∧ (popRx e tid).1.rxLog = e.rxLog ∧ txFin (popRx e tid).2 = [] ∧ rxFin (popRx e tid).2 = [] := by
  unfold popRx; split <;> simp [Ep.inflight, txFin, rxFin, isSig]

/-- closed endpoints ignore `send` -/
theorem q_step_send_closed (e : Ep) (d : Bytes) (hc : e.closed = true) : step e (.send d) = (e, []) := by
  unfold step; simp [hc]

end Tcpcl
end DtnVerif
