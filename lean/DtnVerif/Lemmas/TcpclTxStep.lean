/-
  Lifting the view-level transmit lemmas to endpoint steps: one event preserves `TxInv`.
-/
import DtnVerif.Lemmas.TcpclTx
import DtnVerif.Lemmas.TcpclTimer
import DtnVerif.Lemmas.TcpclRx
namespace DtnVerif
namespace Tcpcl

/-- what the peer may send for the guarantees of this file: no XFER_REFUSE, and a positive segment MRU -/
def okMsg : Msg → Prop
  | .xferRefuse .. => False
  | .sessInit _ sm _ _ _ => 0 < sm
  | _ => True

/-! frame facts on the transmit projection -/

@[simp] theorem txv_kaReset (e : Ep) : (kaReset e).txView = e.txView := rfl
@[simp] theorem txv_idleReset (e : Ep) : (idleReset e).txView = e.txView := rfl
@[simp] theorem txv_pqTrigger (e : Ep) : (pqTrigger e).txView = e.txView := txView_pqTrigger e
@[simp] theorem txv_setState (e : Ep) (s : String) : (setState e s).1.txView = e.txView := by
  unfold setState; split <;> rfl
theorem txv_flush (e : Ep) : (flushPendStart e).1.txView = { e.txView with txPendStart := [] } := rfl

theorem txInv_flush (e : Ep) (P : LState) (hi : TxInv e P) (ht : e.inTerm = true ∨ e.closed = true) :
    TxInv (flushPendStart e).1 P := by
  unfold TxInv; rw [txv_flush]; exact txInvV_flush _ _ hi ht

theorem txInv_doClose (e : Ep) (P : LState) (hi : TxInv e P) : TxInv (doClose e).1 P := by
  unfold doClose
  split
  · exact hi
  · exact txInvV_close _ _ hi

theorem txInv_checkSessTerm (e : Ep) (P : LState) (hi : TxInv e P) : TxInv (checkSessTerm e).1 P := by
  unfold checkSessTerm; split
  · exact txInv_doClose e P hi
  · exact hi

theorem txInv_emit_inert (e : Ep) (P : LState) (m : Msg) (hi : TxInv e P) (hm : m.inert = true)
    (hs : e.inSess = true) : TxInv (sendMessage e m) P := by
  unfold TxInv; rw [txView_sendMessage]; exact txInvV_emit_inert _ _ _ hi hm hs

theorem txInv_sendSessTerm (e : Ep) (P : LState) (r : Nat) (b : Bool) (hi : TxInv e P) :
    TxInv (sendSessTerm e r b).1 P := by
  unfold sendSessTerm
  split
  · exact hi
  · rename_i hs
    split
    · exact hi
    · rename_i ht
      have hs' : e.inSess = true := by simpa using hs
      have ht' : e.inTerm = false := by simpa using ht
      have := txInvV_sessTerm e.txView P (if b then 1 else 0) r hi hs' ht'
      unfold TxInv
      have hv : (flushPendStart (sendMessage (setState { e with inTerm := true } "ending").1
          (.sessTerm (if b then 1 else 0) r))).1.txView =
          { e.txView with inTerm := true, emitted := e.txView.emitted ++ [.sessTerm (if b then 1 else 0) r],
                          txPendStart := [] } := by
        rw [txv_flush, txView_sendMessage, txv_setState]; rfl
      simp only []
      rw [hv]; exact this

theorem txInv_sendSegment (e : Ep) (P : LState) (it : TxItem) (sent : Nat) (hi : TxInv e P)
    (ht : e.txTmp = some (it, sent)) : TxInv (sendSegment e it sent).1 P := by
  unfold TxInv
  rw [view_sendSegment_tx e it sent hi.noPriv]
  exact txInvV_seg_cont _ _ _ _ hi ht

theorem txInv_processQueue (e : Ep) (P : LState) (hi : TxInv e P) (hc : e.closed = false) :
    TxInv (processQueue e).1 P := by
  unfold processQueue
  split
  · rename_i it sent ht
    exact txInv_sendSegment e P it sent hi ht
  · rename_i ht
    split
    · exact hi
    · rename_i hs
      have hs' : e.inSess = true := by simpa using hs
      split
      · rename_i hterm
        exact txInv_checkSessTerm _ _ (txInv_flush e P hi (Or.inl hterm))
      · rename_i hterm
        have hterm' : e.inTerm = false := by simpa using hterm
        split
        · exact hi
        · rename_i it rest hq
          unfold TxInv
          simp only []
          have hv := view_sendSegment_tx { e with txPendStart := rest, txTmp := some (it, 0), nStarted := e.nStarted + 1 }
            it 0 hi.noPriv
          rw [hv]
          exact txInvV_seg_start e.txView P it rest hi ht hs' hterm' hc hq

/-! handlers -/

theorem txv_onContact (e : Ep) :
    (onContact e).1.txView =
      if e.cfg.passive then { e.txView with sentContact := true, emitted := e.emitted ++ [.contact 0] }
      else { e.txView with
             sentInit := true,
             emitted := e.emitted ++ [.sessInit e.cfg.keepalive e.cfg.segMru sizeMax e.cfg.nodeId (sessionExt e.cfg)] } := by
  unfold onContact
  simp only []
  cases hp : e.cfg.passive
  · simp only [Bool.false_eq_true, if_false, Bool.not_false, if_true]
    unfold sendInit setState
    split <;> rfl
  · simp only [if_true, Bool.not_true, Bool.false_eq_true, if_false]
    rw [txv_setState]; rfl

theorem txv_sendInit (e : Ep) : (sendInit e).txView =
    { e.txView with
      sentInit := true,
      emitted := e.emitted ++ [.sessInit e.cfg.keepalive e.cfg.segMru sizeMax e.cfg.nodeId (sessionExt e.cfg)] } := rfl

theorem txv_mergeSession (e : Ep) (p : PeerInit) : (mergeSession e p).txView =
    { e.txView with kaTime := min e.cfg.keepalive p.keepalive, idleTime := e.cfg.idle,
                    sendSegSize := min e.cfg.segInit p.segMru } := rfl

theorem txv_onSessInit (e : Ep) (p : PeerInit) :
    (onSessInit e p).1.txView =
      if e.cfg.passive then
        { e.txView with
          sentInit := true,
          emitted := e.emitted ++ [.sessInit e.cfg.keepalive e.cfg.segMru sizeMax e.cfg.nodeId (sessionExt e.cfg)],
          inSess := true, kaTime := min e.cfg.keepalive p.keepalive, idleTime := e.cfg.idle,
          sendSegSize := min e.cfg.segInit p.segMru, peerInit := some p }
      else
        { e.txView with
          inSess := true, kaTime := min e.cfg.keepalive p.keepalive, idleTime := e.cfg.idle,
          sendSegSize := min e.cfg.segInit p.segMru, peerInit := some p } := by
  unfold onSessInit
  simp only []
  rw [txv_setState, txv_mergeSession]
  cases hp : e.cfg.passive
  · simp only [Bool.false_eq_true, if_false]; rfl
  · simp only [if_true]
    have h0 : ∀ e1 : Ep, ({ e1 with peerInit := some p, inSess := true } : Ep).txView
        = { e1.txView with peerInit := some p, inSess := true } := fun _ => rfl
    rw [h0, txv_sendInit]
    rfl

theorem txInv_onContact (e : Ep) (P P' : LState) (f : Nat) (hi : TxInv e P)
    (hstep : legalStep P (.contact f) = some P') :
    TxInv (onContact { e with processed := e.processed ++ [.contact f] }).1 P' := by
  unfold TxInv
  rw [txv_onContact]
  have := txInvV_contact e.txView P P' f (.contact 0)
    (.sessInit e.cfg.keepalive e.cfg.segMru sizeMax e.cfg.nodeId (sessionExt e.cfg)) rfl
    ⟨_, _, _, _, _, rfl⟩ hi hstep
  exact this

theorem txInv_onSessInit (e : Ep) (P P' : LState) (ka sm xm : Nat) (node ext : Bytes) (hi : TxInv e P)
    (hsm : 0 < sm) (hstep : legalStep P (.sessInit ka sm xm node ext) = some P') :
    TxInv (onSessInit { e with processed := e.processed ++ [.sessInit ka sm xm node ext] } ⟨ka, sm, xm, node⟩).1 P' := by
  unfold TxInv
  rw [txv_onSessInit]
  have := txInvV_sessInit e.txView P P' ka sm xm node ext
    (.sessInit e.cfg.keepalive e.cfg.segMru sizeMax e.cfg.nodeId (sessionExt e.cfg))
    ⟨_, _, _, _, _, rfl⟩ hsm hi hstep
  exact this

/-- appending a body message of the peer: the monitor stays in phase 2 -/
theorem txInv_processed_body (e : Ep) (P P' : LState) (m : Msg) (hi : TxInv e P)
    (hstep : legalStep P m = some P')
    (hb : match m with | .contact _ => False | .sessInit .. => False | _ => True) :
    TxInv { e with processed := e.processed ++ [m] } P' ∧ e.inSess = true := by
  obtain ⟨h2, h2'⟩ := legalStep_body_phase P P' m hstep hb
  refine ⟨txInvV_processed_samePhase e.txView P P' m hi hstep (by rw [h2, h2']), ?_⟩
  have := hi.sess
  simp only [Ep.txView] at this
  rw [this]; simp [h2]

theorem txInv_onSessTerm (e : Ep) (P : LState) (m : Msg) (r : Nat) (hi : TxInv e P) (hs : e.inSess = true) :
    TxInv (onSessTerm e m r).1 P := by
  unfold onSessTerm
  split
  · rename_i h; simp [hs] at h
  simp only []
  have h1 : TxInv (if !e.inTerm then sendSessTerm e r true else (e, [])).1 P := by
    split
    · exact txInv_sendSessTerm e P r true hi
    · exact hi
  have hterm : (if !e.inTerm then sendSessTerm e r true else (e, [])).1.inTerm = true := by
    split
    · rename_i h
      have h' : e.inTerm = false := by simpa using h
      unfold sendSessTerm
      split
      · rename_i h2; simp [hs] at h2
      · split
        · rename_i h2; simp [h'] at h2
        · simp only [flushPendStart, sendMessage, sendReady, kaReset, idleReset, setState]
          split <;> rfl
    · rename_i h; simpa using h
  have h2 : TxInv { (if !e.inTerm then sendSessTerm e r true else (e, [])).1 with gotTerm := true } P :=
    txInv_of_view rfl h1
  exact txInv_checkSessTerm _ _ (txInv_flush _ P h2 (Or.inl hterm))

theorem txInv_segAccept (e : Ep) (P : LState) (flags tid : Nat) (cur data : Bytes) (o1 : List Out)
    (hi : TxInv e P) (hs : e.inSess = true) : TxInv (segAccept e flags tid cur data o1).1 P := by
  unfold segAccept
  simp only []
  split
  · refine txInv_checkSessTerm _ _ (txInv_of_view (e := sendMessage e (.xferAck flags tid (cur ++ data).length)) rfl ?_)
    exact txInv_emit_inert e P _ hi rfl hs
  · exact txInv_emit_inert _ P _ (txInv_of_view rfl hi) rfl hs

theorem txInv_onSegment (e : Ep) (P : LState) (m : Msg) (flags tid : Nat) (data : Bytes)
    (hi : TxInv e P) (hs : e.inSess = true) : TxInv (onSegment e m flags tid data).1 P := by
  unfold onSegment
  split
  · rename_i h; simp [hs] at h
  split
  · exact txInv_segAccept _ P _ _ _ _ _ (txInv_of_view rfl hi) hs
  · split
    · split
      · exact txInv_segAccept e P _ _ _ _ _ hi hs
      · exact txInv_emit_inert e P _ hi rfl hs
    · exact txInv_emit_inert e P _ hi rfl hs

theorem txInv_onAck (e : Ep) (P : LState) (m : Msg) (f t l : Nat)
    (hi : TxInv e P) (hs : e.inSess = true) : TxInv (onAck e m f t l).1 P := by
  unfold onAck
  split
  · rename_i h; simp [hs] at h
  split
  · exact txInv_emit_inert e P _ hi rfl hs
  · split
    · split
      · exact txInv_emit_inert e P _ hi rfl hs
      · exact txInv_checkSessTerm _ _ (txInv_of_view rfl hi)
    · exact txInv_of_view rfl hi

theorem txInv_handleMsg (e : Ep) (P P' : LState) (m : Msg) (hi : TxInv e P)
    (hstep : legalStep P m = some P') (hok : okMsg m) : TxInv (handleMsg e m).1 P' := by
  unfold handleMsg
  cases m with
  | contact f => exact txInv_onContact e P P' f hi hstep
  | sessInit ka sm xm node ext => exact txInv_onSessInit e P P' ka sm xm node ext hi hok hstep
  | sessTerm f r =>
    obtain ⟨h1, h2⟩ := txInv_processed_body e P P' _ hi hstep trivial
    exact txInv_onSessTerm _ P' _ r h1 h2
  | keepalive => exact (txInv_processed_body e P P' _ hi hstep trivial).1
  | msgReject a b => exact (txInv_processed_body e P P' _ hi hstep trivial).1
  | xferSegment flags tid ext data =>
    obtain ⟨h1, h2⟩ := txInv_processed_body e P P' _ hi hstep trivial
    exact txInv_onSegment _ P' _ flags tid data h1 h2
  | xferAck f t l =>
    obtain ⟨h1, h2⟩ := txInv_processed_body e P P' _ hi hstep trivial
    exact txInv_onAck _ P' _ f t l h1 h2
  | xferRefuse r t => exact absurd hok (by simp [okMsg])

theorem legal_of_prefix {a b : List Msg} (hp : a <+: b) (hb : (legalRun {} b).isSome) :
    (legalRun {} a).isSome := by
  obtain ⟨t, rfl⟩ := hp
  exact legalRun_prefix _ _ _ hb

theorem txInv_handleMsgs (ms : List Msg) (e : Ep) (P : LState) (hi : TxInv e P)
    (hleg : (legalRun {} (handleMsgs e ms).1.processed).isSome)
    (hok : ∀ m ∈ (handleMsgs e ms).1.processed, okMsg m) :
    ∃ P', TxInv (handleMsgs e ms).1 P' := by
  induction ms generalizing e P with
  | nil => exact ⟨P, hi⟩
  | cons m ms ih =>
    unfold handleMsgs at hleg hok ⊢
    split
    · exact ⟨P, hi⟩
    · rename_i hc
      have hc' : ¬ (e.closed = true) := by simpa using hc
      rw [if_neg hc'] at hleg hok
      simp only [] at hleg hok
      have hi' : TxInv { e with rxMore := !ms.isEmpty || e.rx.dead } P := txInv_of_view (e := e) rfl hi
      have hpre := processed_prefix_handleMsgs ms (handleMsg { e with rxMore := !ms.isEmpty || e.rx.dead } m).1
      have hl1 := legal_of_prefix hpre hleg
      have hP0 : legalRun {} e.processed = some P := hi.hP
      rw [processed_handleMsg, legalRun_snoc _ _ _ _ hP0] at hl1
      obtain ⟨P1, hP1⟩ := Option.isSome_iff_exists.mp hl1
      have hokm : okMsg m := by
        apply hok
        apply hpre.subset
        rw [processed_handleMsg]; simp
      exact ih _ P1 (txInv_handleMsg _ P P1 m hi' hP1 hokm) hleg hok

theorem txInv_recvRaw (e : Ep) (c : Bytes) (P : LState) (hi : TxInv e P)
    (hleg : (legalRun {} (recvRaw e c).1.processed).isSome)
    (hok : ∀ m ∈ (recvRaw e c).1.processed, okMsg m) : ∃ P', TxInv (recvRaw e c).1 P' := by
  unfold recvRaw at hleg hok ⊢
  simp only [] at hleg hok ⊢
  have h0 : TxInv (rxEntry e c) P := txInv_of_view rfl hi
  split
  · rename_i hd
    simp only [hd, if_true] at hleg hok
    have hp : (doClose { (handleMsgs (rxEntry e c)
        (feed e.rx c).2).1 with rxMore := false }).1.processed =
        (handleMsgs (rxEntry e c) (feed e.rx c).2).1.processed := by
      have := congrArg RxView.processed (view_doClose { (handleMsgs (rxEntry e c)
        (feed e.rx c).2).1 with rxMore := false })
      simpa [Ep.rxView] using this
    rw [hp] at hleg hok
    obtain ⟨P', h⟩ := txInv_handleMsgs _ _ P h0 hleg hok
    exact ⟨P', txInv_doClose _ _ (txInv_of_view rfl h)⟩
  · rename_i hd
    simp only [hd, Bool.false_eq_true, if_false] at hleg hok
    obtain ⟨P', h⟩ := txInv_handleMsgs _ _ P h0 hleg hok
    exact ⟨P', txInv_of_view rfl h⟩

theorem txInv_pump (e : Ep) (n : Nat) (P : LState) (hi : TxInv e P) : TxInv (pump e n).1 P := by
  unfold pump writeConn
  have h1 : TxInv (pullTx e) P := by
    refine txInv_of_view ?_ hi
    unfold pullTx; split
    · unfold sendBufferDecreased; split
      · rw [txv_pqTrigger]; rfl
      · rfl
    · rfl
  split
  · split
    · exact txInv_checkSessTerm _ _ h1
    · exact h1
  · simp only []
    split
    · exact h1
    · split
      · exact txInv_checkSessTerm _ _ (txInv_of_view rfl h1)
      · exact txInv_of_view rfl h1

/-- **G-tx, one step.** -/
theorem txInv_step (e : Ep) (ev : Ev) (P : LState) (hi : TxInv e P) (htm : TimerInv e)
    (hsend : ∀ d, ev = .send d → d.length < 2 ^ 64)
    (hleg : (legalRun {} (step e ev).1.processed).isSome)
    (hok : ∀ m ∈ (step e ev).1.processed, okMsg m) :
    ∃ P', TxInv (step e ev).1 P' := by
  unfold step at hleg hok ⊢
  cases ev with
  | advance ms => exact ⟨P, txInv_of_view rfl hi⟩
  | start =>
    simp only []
    split
    · exact ⟨P, hi⟩
    · have hs : e.started = true := hi.started
      simp only [hs, if_true]
      exact ⟨P, hi⟩
  | send d =>
    simp only []
    split
    · exact ⟨P, hi⟩
    · refine ⟨P, ?_⟩
      unfold TxInv
      rw [txv_pqTrigger]
      exact txInvV_send e.txView P d hi (hsend d rfl)
  | terminate r =>
    simp only []
    split
    · exact ⟨P, hi⟩
    · exact ⟨P, txInv_sendSessTerm e P r false hi⟩
  | close =>
    simp only []
    split
    · exact ⟨P, hi⟩
    · exact ⟨P, txInv_doClose e P hi⟩
  | pop t =>
    simp only []
    have : TxInv (popRx e t).1 P := by
      refine txInv_of_view ?_ hi
      unfold popRx; split <;> rfl
    split <;> exact ⟨P, this⟩
  | query q => simp only []; split <;> exact ⟨P, hi⟩
  | procQueue =>
    simp only []
    split
    · exact ⟨P, txInv_of_view rfl hi⟩
    · rename_i hc
      have hc' : e.closed = false := by simpa using hc
      split
      · exact ⟨P, hi⟩
      · refine ⟨P, txInv_of_view rfl (txInv_processQueue { e with pqPend := false } P (txInv_of_view rfl hi) hc')⟩
  | pump n =>
    simp only []
    split
    · exact ⟨P, hi⟩
    · split
      · exact ⟨P, hi⟩
      · exact ⟨P, txInv_of_view rfl (txInv_pump { e with txIdle := false } n P (txInv_of_view (e := e) rfl hi))⟩
  | rx c =>
    simp only [] at hleg hok ⊢
    split
    · exact ⟨P, hi⟩
    · rename_i hc
      simp only [hc, Bool.false_eq_true, if_false] at hleg hok
      exact txInv_recvRaw e c P hi hleg hok
  | rxEof =>
    simp only []
    split
    · exact ⟨P, hi⟩
    · exact ⟨P, txInv_doClose e P hi⟩
  | keepaliveTimer =>
    simp only []
    split
    · exact ⟨P, hi⟩
    · split
      · exact ⟨P, hi⟩
      · rename_i d hd
        have hka : 0 < e.kaTime := htm.1 (by rw [hd]; rfl)
        have hs : e.inSess = true := hi.kaT hka
        exact ⟨P, txInv_emit_inert _ P .keepalive (txInv_of_view rfl hi) rfl hs⟩
  | idleTimer =>
    simp only []
    split
    · exact ⟨P, hi⟩
    · split
      · exact ⟨P, hi⟩
      · split
        · exact ⟨P, txInv_doClose _ _ (txInv_of_view rfl hi)⟩
        · exact ⟨P, txInv_sendSessTerm _ P 1 false (txInv_of_view rfl hi)⟩
  | modulate raw =>
    simp only []
    split
    · exact ⟨P, hi⟩
    · split
      · rename_i p hp
        refine ⟨P, ?_⟩
        have hv : e.txView.peerInit = some p := hp
        obtain ⟨hpos, _, hem⟩ := hi.mru.1 p hv
        have hclamp : clampSeg raw p.segMru ≤ p.segMru := Nat.min_le_right _ _
        have hcpos : 0 < clampSeg raw p.segMru := by
          unfold clampSeg segSizeMin
          have : (10240 : Int) ≤ max raw 10240 := Int.le_max_right _ _
          have h2 : 10240 ≤ (max raw 10240).toNat := by omega
          omega
        exact { hi with seg := fun _ => hcpos,
                        mru := ⟨fun q hq => by
                                  have hq' : e.peerInit = some q := hq
                                  have : q = p := by rw [hp] at hq'; exact (Option.some.inj hq').symm
                                  subst this; exact ⟨hpos, hclamp, hem⟩,
                                hi.mru.2.1, hi.mru.2.2⟩ }
      · exact ⟨P, hi⟩

end Tcpcl
end DtnVerif
