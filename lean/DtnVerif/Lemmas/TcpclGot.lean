/-
  The peer's SESS_TERM: once it has been recorded (`gotTerm`) the endpoint is itself terminating
  (it replied, or had asked first), and every SESS_TERM processed was either recorded or answered
  with a MSG_REJECT (which only happens outside a session).
  (Generated from the pattern of Lemmas/TcpclAck.lean.)
-/
import DtnVerif.Lemmas.TcpclAckSucc
namespace DtnVerif
namespace Tcpcl

def GotInv (e : Ep) : Prop :=
  (e.gotTerm = true → e.inTerm = true)
  ∧ (∀ f r, Msg.sessTerm f r ∈ e.processed → e.gotTerm = true ∨ ∃ x ∈ e.emitted, x.isRej = true)

structure GotView where
  gotTerm : Bool
  inTerm : Bool
  processed : List Msg
  emitted : List Msg

def Ep.gotView (e : Ep) : GotView := ⟨e.gotTerm, e.inTerm, e.processed, e.emitted⟩

theorem got_of_view {e e' : Ep} (h : e'.gotView = e.gotView) (hi : GotInv e) : GotInv e' := by
  simp only [Ep.gotView, GotView.mk.injEq] at h
  obtain ⟨h1, h2, h3, h4⟩ := h
  unfold GotInv at *
  rw [h1, h2, h3, h4]; exact hi

/-- more emitted, `inTerm` possibly switched on -/
theorem got_weaken {e e' : Ep} (h1 : e'.gotTerm = e.gotTerm) (h2 : e.inTerm = true → e'.inTerm = true)
    (h3 : e'.processed = e.processed) (h4 : ∃ y, e'.emitted = e.emitted ++ y) (hi : GotInv e) : GotInv e' := by
  obtain ⟨y, h4⟩ := h4
  refine ⟨?_, ?_⟩
  · rw [h1]; intro hg; exact h2 (hi.1 hg)
  · rw [h1, h3, h4]
    intro f r hm
    rcases hi.2 f r hm with h | ⟨x, hx, hr⟩
    · exact Or.inl h
    · exact Or.inr ⟨x, List.mem_append_left _ hx, hr⟩

@[simp] theorem gv_kaReset (e : Ep) : (kaReset e).gotView = e.gotView := rfl
@[simp] theorem gv_idleReset (e : Ep) : (idleReset e).gotView = e.gotView := rfl
@[simp] theorem gv_pqTrigger (e : Ep) : (pqTrigger e).gotView = e.gotView := by
  unfold pqTrigger; split <;> rfl
@[simp] theorem gv_setState (e : Ep) (s : String) : (setState e s).1.gotView = e.gotView := by
  unfold setState; split <;> rfl
@[simp] theorem gv_flush (e : Ep) : (flushPendStart e).1.gotView = e.gotView := rfl
@[simp] theorem gv_doClose (e : Ep) : (doClose e).1.gotView = e.gotView := by
  unfold doClose; split <;> rfl
@[simp] theorem gv_checkSessTerm (e : Ep) : (checkSessTerm e).1.gotView = e.gotView := by
  unfold checkSessTerm; split
  · exact gv_doClose e
  · rfl
@[simp] theorem gv_sendBufferDecreased (e : Ep) : (sendBufferDecreased e).gotView = e.gotView := by
  unfold sendBufferDecreased; split
  · exact gv_pqTrigger e
  · rfl
@[simp] theorem gv_mergeSession (e : Ep) (p : PeerInit) : (mergeSession e p).gotView = e.gotView := rfl

theorem got_sendMessage (e : Ep) (m : Msg) (hi : GotInv e) : GotInv (sendMessage e m) :=
  got_weaken (e := e) rfl id rfl ⟨[m], rfl⟩ hi

theorem got_sendContact (e : Ep) (hi : GotInv e) : GotInv (sendContact e) :=
  got_of_view (e := sendMessage e (.contact 0)) rfl (got_sendMessage e _ hi)

theorem got_sendInit (e : Ep) (hi : GotInv e) : GotInv (sendInit e) :=
  got_of_view (e := sendMessage e (.sessInit e.cfg.keepalive e.cfg.segMru sizeMax e.cfg.nodeId (sessionExt e.cfg)))
    rfl (got_sendMessage e _ hi)

theorem got_sendReject (e : Ep) (r : Nat) (m : Msg) (hi : GotInv e) : GotInv (sendReject e r m) :=
  got_sendMessage e _ hi

theorem got_sendSessTerm (e : Ep) (r : Nat) (b : Bool) (hi : GotInv e) :
    GotInv (sendSessTerm e r b).1 := by
  unfold sendSessTerm
  split
  · exact hi
  · split
    · exact hi
    · simp only []
      refine got_of_view (gv_flush _) (got_sendMessage _ _ ?_)
      refine got_of_view (e := { e with inTerm := true }) (by rw [gv_setState]) ?_
      exact got_weaken (e := e) rfl (fun _ => rfl) rfl ⟨[], by simp⟩ hi

/-- an accepted termination request switches `inTerm` on -/
theorem inTerm_sendSessTerm (e : Ep) (r : Nat) (b : Bool) (hs : e.inSess = true) :
    (sendSessTerm e r b).1.inTerm = true := by
  unfold sendSessTerm
  simp only [hs, Bool.not_true, Bool.false_eq_true, if_false]
  split
  · rename_i h; exact h
  · simp only [flushPendStart, sendMessage, sendReady, kaReset, idleReset, setState]
    split <;> rfl

theorem got_sendSegment (e : Ep) (it : TxItem) (sent : Nat) (hi : GotInv e) :
    GotInv (sendSegment e it sent).1 := by
  unfold sendSegment
  simp only []
  split
  · exact got_of_view rfl hi
  · split
    · refine got_of_view (by rw [gv_pqTrigger]; rfl) (got_sendMessage e _ hi)
    · exact got_of_view rfl (got_sendMessage e _ hi)

theorem got_processQueue (e : Ep) (hi : GotInv e) : GotInv (processQueue e).1 := by
  unfold processQueue
  split
  · exact got_sendSegment e _ _ hi
  · split
    · exact hi
    · split
      · exact got_of_view (by simp only [gv_checkSessTerm, gv_flush]) hi
      · split
        · exact hi
        · exact got_sendSegment _ _ _ (got_of_view rfl hi)

theorem got_pullTx (e : Ep) (hi : GotInv e) : GotInv (pullTx e) := by
  unfold pullTx
  split
  · exact got_of_view (by rw [gv_sendBufferDecreased]; rfl) hi
  · exact hi

theorem got_writeConn (e : Ep) (n : Nat) (up : Bool) (hi : GotInv e) : GotInv (writeConn e n up).1 := by
  unfold writeConn
  split
  · split
    · exact got_of_view (gv_checkSessTerm e) hi
    · exact hi
  · simp only []
    split
    · exact hi
    · split
      · exact got_of_view (by rw [gv_checkSessTerm]; rfl) hi
      · exact got_of_view rfl hi

theorem got_pump (e : Ep) (n : Nat) (hi : GotInv e) : GotInv (pump e n).1 :=
  got_writeConn _ _ _ (got_pullTx e hi)

/-! receive handlers -/

theorem got_onContact (e : Ep) (hi : GotInv e) : GotInv (onContact e).1 := by
  unfold onContact
  simp only []
  have h1 : GotInv (if e.cfg.passive then sendContact e else e) := by
    split
    · exact got_sendContact e hi
    · exact hi
  have h2 : GotInv (setState (if e.cfg.passive then sendContact e else e) "session-negotiating").1 :=
    got_of_view (gv_setState _ _) h1
  split
  · exact got_sendInit _ h2
  · exact h2

theorem got_onSessInit (e : Ep) (p : PeerInit) (hi : GotInv e) : GotInv (onSessInit e p).1 := by
  unfold onSessInit
  simp only []
  have h1 : GotInv (if e.cfg.passive then sendInit e else e) := by
    split
    · exact got_sendInit e hi
    · exact hi
  refine got_of_view ?_ h1
  rw [gv_setState, gv_mergeSession]; rfl

theorem got_onSessTerm (e : Ep) (f r : Nat) (hi : GotInv e) :
    GotInv (onSessTerm { e with processed := e.processed ++ [.sessTerm f r] } (.sessTerm f r) r).1 := by
  unfold onSessTerm
  split
  · -- outside a session: MSG_REJECT
    refine ⟨hi.1, ?_⟩
    intro f' r' _
    right
    exact ⟨.msgReject (Msg.sessTerm f r).type rejUnexpected, by simp [sendReject, sendMessage, sendReady, kaReset, idleReset], rfl⟩
  · rename_i hs
    have hs' : e.inSess = true := by simpa using hs
    simp only []
    -- recorded, and the endpoint is (now) terminating itself
    have hterm : (if (!e.inTerm) = true then sendSessTerm { e with processed := e.processed ++ [.sessTerm f r] } r true
        else ({ e with processed := e.processed ++ [.sessTerm f r] }, [])).1.inTerm = true := by
      by_cases ht : e.inTerm = true
      · rw [if_neg (by simp [ht])]; exact ht
      · rw [if_pos (by simpa using ht)]; exact inTerm_sendSessTerm _ _ _ hs'
    generalize (if (!e.inTerm) = true then sendSessTerm { e with processed := e.processed ++ [.sessTerm f r] } r true
        else ({ e with processed := e.processed ++ [.sessTerm f r] }, [])).1 = e1 at hterm ⊢
    have hv : (checkSessTerm (flushPendStart { e1 with gotTerm := true }).1).1.gotView
        = ({ e1 with gotTerm := true } : Ep).gotView := by rw [gv_checkSessTerm, gv_flush]
    simp only [Ep.gotView, GotView.mk.injEq] at hv
    obtain ⟨g1, g2, _, _⟩ := hv
    exact ⟨fun _ => g2.trans hterm, fun _ _ _ => Or.inl g1⟩

theorem got_segAccept (e : Ep) (flags tid : Nat) (cur data : Bytes) (o1 : List Out) (hi : GotInv e) :
    GotInv (segAccept e flags tid cur data o1).1 := by
  unfold segAccept
  simp only []
  split
  · exact got_of_view (e := sendMessage e (.xferAck flags tid (cur ++ data).length)) (by rw [gv_checkSessTerm]; rfl)
      (got_sendMessage e _ hi)
  · exact got_sendMessage _ _ (got_of_view rfl hi)

theorem got_onSegment (e : Ep) (m : Msg) (flags tid : Nat) (data : Bytes) (hi : GotInv e) :
    GotInv (onSegment e m flags tid data).1 := by
  unfold onSegment
  split
  · exact got_sendReject e _ _ hi
  · split
    · exact got_segAccept _ _ _ _ _ _ (got_of_view rfl hi)
    · split
      · split
        · exact got_segAccept _ _ _ _ _ _ hi
        · exact got_sendReject e _ _ hi
      · exact got_sendReject e _ _ hi

theorem got_onAck (e : Ep) (m : Msg) (f t l : Nat) (hi : GotInv e) : GotInv (onAck e m f t l).1 := by
  unfold onAck
  split
  · exact got_sendReject e _ _ hi
  · split
    · exact got_sendReject e _ _ hi
    · split
      · split
        · exact got_sendReject e _ _ hi
        · exact got_of_view (by rw [gv_checkSessTerm]; rfl) hi
      · exact got_of_view rfl hi

theorem got_onRefuse (e : Ep) (m : Msg) (r t : Nat) (hi : GotInv e) : GotInv (onRefuse e m r t).1 := by
  unfold onRefuse
  split
  · exact got_sendReject e _ _ hi
  · split
    · exact got_sendReject e _ _ hi
    · refine got_of_view ?_ hi
      simp only [gv_checkSessTerm]
      split
      · split
        · rw [gv_pqTrigger]; rfl
        · rfl
      · rfl

theorem got_handleMsg (e : Ep) (m : Msg) (hi : GotInv e) : GotInv (handleMsg e m).1 := by
  have h0 : ∀ (_ : ∀ f r, m ≠ .sessTerm f r), GotInv { e with processed := e.processed ++ [m] } := by
    intro hm
    refine ⟨hi.1, ?_⟩
    intro f r hmem
    have hmem' : Msg.sessTerm f r ∈ e.processed ++ [m] := hmem
    rcases List.mem_append.mp hmem' with h | h
    · exact hi.2 f r h
    · exact absurd (List.mem_singleton.mp h).symm (hm f r)
  unfold handleMsg
  cases m with
  | contact f => exact got_onContact _ (h0 (by intro _ _ h; cases h))
  | sessInit ka sm xm node ext => exact got_onSessInit _ _ (h0 (by intro _ _ h; cases h))
  | sessTerm f r => exact got_onSessTerm e f r hi
  | keepalive => exact h0 (by intro _ _ h; cases h)
  | msgReject a b => exact h0 (by intro _ _ h; cases h)
  | xferSegment flags tid ext data => exact got_onSegment _ _ _ _ _ (h0 (by intro _ _ h; cases h))
  | xferAck f t l => exact got_onAck _ _ _ _ _ (h0 (by intro _ _ h; cases h))
  | xferRefuse r t => exact got_onRefuse _ _ _ _ (h0 (by intro _ _ h; cases h))

theorem got_handleMsgs (ms : List Msg) (e : Ep) (hi : GotInv e) : GotInv (handleMsgs e ms).1 := by
  induction ms generalizing e with
  | nil => exact hi
  | cons m ms ih =>
    unfold handleMsgs
    split
    · exact hi
    · exact ih _ (got_handleMsg _ m (got_of_view (e := e) rfl hi))

theorem got_recvRaw (e : Ep) (c : Bytes) (hi : GotInv e) : GotInv (recvRaw e c).1 := by
  unfold recvRaw
  simp only []
  have h0 : GotInv (rxEntry e c) := got_of_view rfl hi
  have h1 := got_handleMsgs (feed e.rx c).2 _ h0
  split
  · exact got_of_view (gv_doClose _) h1
  · exact h1

theorem got_step (e : Ep) (ev : Ev) (hi : GotInv e) : GotInv (step e ev).1 := by
  unfold step
  cases ev with
  | advance ms => exact got_of_view rfl hi
  | start =>
    simp only []
    split
    · exact hi
    · split
      · exact hi
      · refine got_of_view (gv_setState _ _) ?_
        split
        · exact got_sendContact _ (got_of_view rfl hi)
        · exact got_of_view rfl hi
  | send d =>
    simp only []
    split
    · exact hi
    · exact got_of_view (by rw [gv_pqTrigger]; rfl) hi
  | terminate r =>
    simp only []
    split
    · exact hi
    · exact got_sendSessTerm _ _ _ hi
  | close =>
    simp only []
    split
    · exact hi
    · exact got_of_view (gv_doClose _) hi
  | pop t =>
    simp only []
    have : GotInv (popRx e t).1 := by
      refine got_of_view ?_ hi
      unfold popRx; split <;> rfl
    split <;> exact this
  | query q => simp only []; split <;> exact hi
  | procQueue =>
    simp only []
    split
    · exact got_of_view rfl hi
    · split
      · exact hi
      · exact got_of_view rfl (got_processQueue _ (got_of_view (e := e) rfl hi))
  | pump n =>
    simp only []
    split
    · exact hi
    · split
      · exact hi
      · exact got_of_view rfl (got_pump _ _ (got_of_view (e := e) rfl hi))
  | rx c =>
    simp only []
    split
    · exact hi
    · exact got_recvRaw e c hi
  | rxEof =>
    simp only []
    split
    · exact hi
    · exact got_of_view (gv_doClose _) hi
  | keepaliveTimer =>
    simp only []
    split
    · exact hi
    · split
      · exact hi
      · exact got_sendMessage _ _ (got_of_view rfl hi)
  | idleTimer =>
    simp only []
    split
    · exact hi
    · split
      · exact hi
      · split
        · exact got_of_view (by rw [gv_doClose]; rfl) hi
        · exact got_sendSessTerm _ _ _ (got_of_view rfl hi)
  | modulate raw =>
    simp only []
    split
    · exact hi
    · split
      · exact got_of_view rfl hi
      · exact hi

theorem got_init (cfg : Cfg) : GotInv { cfg := cfg } :=
  ⟨(by intro h; cases h), (by intro _ _ h; simp at h)⟩

theorem got_run (evs : List Ev) (e : Ep) (hi : GotInv e) : GotInv (runEp e evs) := by
  induction evs generalizing e with
  | nil => exact hi
  | cons ev evs ih =>
    simp only [runEp, run]
    exact ih _ (got_step e ev hi)

end Tcpcl
end DtnVerif
