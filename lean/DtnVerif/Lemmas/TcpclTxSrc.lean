/-
  The TX callback stays registered while there is something to write: whenever the endpoint is open
  and one of its two transmit buffers is non-empty, at least one GLib source whose callback is
  `_avail_tx_notls` is installed (so a `pump` event is enabled); and the two bookkeeping flags
  (`__avail_tx_notls_id`, `__avail_tx_notls_pend`) are only set while such a source exists.
  (Generated from the pattern of Lemmas/TcpclAck.lean.)
-/
import DtnVerif.Model.TcpclEp
namespace DtnVerif
namespace Tcpcl

def TSok (e : Ep) : Prop :=
  ((e.txWatch = true ∨ e.txIdle = true) → 0 < e.txSrc)
  ∧ (e.closed = false → (e.txBuf ≠ [] ∨ e.connBuf ≠ []) → 0 < e.txSrc)

theorem TSok.flag {e : Ep} (h : TSok e) : (e.txWatch = true ∨ e.txIdle = true) → 0 < e.txSrc := h.1
theorem TSok.buf {e : Ep} (h : TSok e) : e.closed = false → (e.txBuf ≠ [] ∨ e.connBuf ≠ []) → 0 < e.txSrc := h.2

structure TsView where
  closed : Bool
  txBuf : Bytes
  connBuf : Bytes
  txWatch : Bool
  txIdle : Bool
  txSrc : Nat

def Ep.tsView (e : Ep) : TsView := ⟨e.closed, e.txBuf, e.connBuf, e.txWatch, e.txIdle, e.txSrc⟩

theorem ts_of_view {e e' : Ep} (h : e'.tsView = e.tsView) (hi : TSok e) : TSok e' := by
  simp only [Ep.tsView, TsView.mk.injEq] at h
  obtain ⟨h1, h2, h3, h4, h5, h6⟩ := h
  exact ⟨by rw [h4, h5, h6]; exact hi.flag, by rw [h1, h2, h3, h6]; exact hi.buf⟩

/-- a closed endpoint with both flags clear -/
theorem ts_closed {e : Ep} (hc : e.closed = true) (h1 : e.txWatch = false) (h2 : e.txIdle = false) : TSok e :=
  ⟨(by rw [h1, h2]; intro h; rcases h with h | h <;> cases h), (by rw [hc]; intro h; cases h)⟩

/-- a TX source is installed -/
theorem ts_pos {e : Ep} (h : 0 < e.txSrc) : TSok e := ⟨fun _ => h, fun _ _ => h⟩

@[simp] theorem t6_kaReset (e : Ep) : (kaReset e).tsView = e.tsView := rfl
@[simp] theorem t6_idleReset (e : Ep) : (idleReset e).tsView = e.tsView := rfl
@[simp] theorem t6_pqTrigger (e : Ep) : (pqTrigger e).tsView = e.tsView := by
  unfold pqTrigger; split <;> rfl
@[simp] theorem t6_setState (e : Ep) (s : String) : (setState e s).1.tsView = e.tsView := by
  unfold setState; split <;> rfl
@[simp] theorem t6_flush (e : Ep) : (flushPendStart e).1.tsView = e.tsView := rfl
theorem ts_doClose (e : Ep) (hi : TSok e) : TSok (doClose e).1 := by
  unfold doClose; split
  · exact hi
  · exact ts_closed rfl rfl rfl
theorem ts_checkSessTerm (e : Ep) (hi : TSok e) : TSok (checkSessTerm e).1 := by
  unfold checkSessTerm; split
  · exact ts_doClose e hi
  · exact hi
@[simp] theorem t6_sendBufferDecreased (e : Ep) : (sendBufferDecreased e).tsView = e.tsView := by
  unfold sendBufferDecreased; split
  · exact t6_pqTrigger e
  · rfl
@[simp] theorem t6_mergeSession (e : Ep) (p : PeerInit) : (mergeSession e p).tsView = e.tsView := rfl

theorem ts_sendMessage (e : Ep) (m : Msg) (hi : TSok e) : TSok (sendMessage e m) := by
  apply ts_pos
  show 0 < e.txSrc + (if e.txWatch then 0 else 1) + (if e.txIdle then 0 else 1)
  cases hw : e.txWatch
  · simp only [Bool.false_eq_true, if_false]; omega
  · have := hi.flag (Or.inl hw); omega

theorem ts_sendContact (e : Ep) (hi : TSok e) : TSok (sendContact e) :=
  ts_of_view (e := sendMessage e (.contact 0)) rfl (ts_sendMessage e _ hi)

theorem ts_sendInit (e : Ep) (hi : TSok e) : TSok (sendInit e) :=
  ts_of_view (e := sendMessage e (.sessInit e.cfg.keepalive e.cfg.segMru sizeMax e.cfg.nodeId (sessionExt e.cfg)))
    rfl (ts_sendMessage e _ hi)

theorem ts_sendReject (e : Ep) (r : Nat) (m : Msg) (hi : TSok e) : TSok (sendReject e r m) :=
  ts_sendMessage e _ hi

theorem ts_sendSessTerm (e : Ep) (r : Nat) (b : Bool) (hi : TSok e) :
    TSok (sendSessTerm e r b).1 := by
  unfold sendSessTerm
  split
  · exact hi
  · split
    · exact hi
    · simp only []
      refine ts_of_view (t6_flush _) (ts_sendMessage _ _ ?_)
      exact ts_of_view (by rw [t6_setState]; rfl) hi

theorem ts_sendSegment (e : Ep) (it : TxItem) (sent : Nat) (hi : TSok e) :
    TSok (sendSegment e it sent).1 := by
  unfold sendSegment
  simp only []
  split
  · exact ts_of_view rfl hi
  · split
    · refine ts_of_view (by rw [t6_pqTrigger]; rfl) (ts_sendMessage e _ hi)
    · exact ts_of_view rfl (ts_sendMessage e _ hi)

theorem ts_processQueue (e : Ep) (hi : TSok e) : TSok (processQueue e).1 := by
  unfold processQueue
  split
  · exact ts_sendSegment e _ _ hi
  · split
    · exact hi
    · split
      · exact ts_checkSessTerm _ (ts_of_view (t6_flush _) hi)
      · split
        · exact hi
        · exact ts_sendSegment _ _ _ (ts_of_view rfl hi)

theorem ts_pullTx (e : Ep) (hi : TSok e) : TSok (pullTx e) := by
  unfold pullTx
  split
  · refine ts_of_view (e := { e with txBuf := e.txBuf.drop chunkSize, connBuf := e.connBuf ++ e.txBuf.take chunkSize })
      (by rw [t6_sendBufferDecreased]) ?_
    refine ⟨hi.flag, ?_⟩
    intro hc hb
    apply hi.buf hc
    simp only [] at hb
    rcases hb with hb | hb
    · left; intro h; rw [h] at hb; simp at hb
    · by_cases h1 : e.connBuf = []
      · left; intro h; rw [h1, h] at hb; simp at hb
      · right; exact h1
  · exact hi

theorem ts_writeConn (e : Ep) (n : Nat) (up : Bool) (hi : TSok e) : TSok (writeConn e n up).1 := by
  unfold writeConn
  split
  · split
    · exact ts_checkSessTerm e hi
    · exact hi
  · simp only []
    split
    · exact hi
    · have key : TSok { e with
          connBuf := e.connBuf.drop (min n (e.connBuf.take chunkSize).length),
          accepted := e.accepted ++ (e.connBuf.take chunkSize).take (min n (e.connBuf.take chunkSize).length) } := by
        refine ⟨hi.flag, ?_⟩
        intro hc hb
        apply hi.buf hc
        simp only [] at hb
        rcases hb with hb | hb
        · exact Or.inl hb
        · right; intro h; rw [h] at hb; simp at hb
      split
      · exact ts_checkSessTerm _ key
      · exact key

theorem ts_pump (e : Ep) (n : Nat) (hi : TSok e) : TSok (pump e n).1 :=
  ts_writeConn _ _ _ (ts_pullTx e hi)

/-! receive handlers -/

theorem ts_onContact (e : Ep) (hi : TSok e) : TSok (onContact e).1 := by
  unfold onContact
  simp only []
  have h1 : TSok (if e.cfg.passive then sendContact e else e) := by
    split
    · exact ts_sendContact e hi
    · exact hi
  have h2 : TSok (setState (if e.cfg.passive then sendContact e else e) "session-negotiating").1 :=
    ts_of_view (t6_setState _ _) h1
  split
  · exact ts_sendInit _ h2
  · exact h2

theorem ts_onSessInit (e : Ep) (p : PeerInit) (hi : TSok e) : TSok (onSessInit e p).1 := by
  unfold onSessInit
  simp only []
  have h1 : TSok (if e.cfg.passive then sendInit e else e) := by
    split
    · exact ts_sendInit e hi
    · exact hi
  refine ts_of_view ?_ h1
  rw [t6_setState, t6_mergeSession]; rfl

theorem ts_onSessTerm (e : Ep) (m : Msg) (r : Nat) (hi : TSok e) : TSok (onSessTerm e m r).1 := by
  unfold onSessTerm
  split
  · exact ts_sendReject e _ _ hi
  · simp only []
    refine ts_checkSessTerm _ (ts_of_view (t6_flush _) ?_)
    refine ts_of_view (e := (if !e.inTerm then sendSessTerm e r true else (e, [])).1) rfl ?_
    split
    · exact ts_sendSessTerm e r true hi
    · exact hi

theorem ts_segAccept (e : Ep) (flags tid : Nat) (cur data : Bytes) (o1 : List Out) (hi : TSok e) :
    TSok (segAccept e flags tid cur data o1).1 := by
  unfold segAccept
  simp only []
  split
  · exact ts_checkSessTerm _ (ts_of_view (e := sendMessage e (.xferAck flags tid (cur ++ data).length)) rfl
      (ts_sendMessage e _ hi))
  · exact ts_sendMessage _ _ (ts_of_view rfl hi)

theorem ts_onSegment (e : Ep) (m : Msg) (flags tid : Nat) (data : Bytes) (hi : TSok e) :
    TSok (onSegment e m flags tid data).1 := by
  unfold onSegment
  split
  · exact ts_sendReject e _ _ hi
  · split
    · exact ts_segAccept _ _ _ _ _ _ (ts_of_view rfl hi)
    · split
      · split
        · exact ts_segAccept _ _ _ _ _ _ hi
        · exact ts_sendReject e _ _ hi
      · exact ts_sendReject e _ _ hi

theorem ts_onAck (e : Ep) (m : Msg) (f t l : Nat) (hi : TSok e) : TSok (onAck e m f t l).1 := by
  unfold onAck
  split
  · exact ts_sendReject e _ _ hi
  · split
    · exact ts_sendReject e _ _ hi
    · split
      · split
        · exact ts_sendReject e _ _ hi
        · exact ts_checkSessTerm _ (ts_of_view rfl hi)
      · exact ts_of_view rfl hi

theorem ts_onRefuse (e : Ep) (m : Msg) (r t : Nat) (hi : TSok e) : TSok (onRefuse e m r t).1 := by
  unfold onRefuse
  split
  · exact ts_sendReject e _ _ hi
  · split
    · exact ts_sendReject e _ _ hi
    · refine ts_checkSessTerm _ (ts_of_view ?_ hi)
      split
      · split
        · rw [t6_pqTrigger]; rfl
        · rfl
      · rfl

theorem ts_handleMsg (e : Ep) (m : Msg) (hi : TSok e) : TSok (handleMsg e m).1 := by
  have h0 : TSok { e with processed := e.processed ++ [m] } := ts_of_view rfl hi
  unfold handleMsg
  cases m with
  | contact f => exact ts_onContact _ h0
  | sessInit ka sm xm node ext => exact ts_onSessInit _ _ h0
  | sessTerm f r => exact ts_onSessTerm _ _ _ h0
  | keepalive => exact h0
  | msgReject a b => exact h0
  | xferSegment flags tid ext data => exact ts_onSegment _ _ _ _ _ h0
  | xferAck f t l => exact ts_onAck _ _ _ _ _ h0
  | xferRefuse r t => exact ts_onRefuse _ _ _ _ h0

theorem ts_handleMsgs (ms : List Msg) (e : Ep) (hi : TSok e) : TSok (handleMsgs e ms).1 := by
  induction ms generalizing e with
  | nil => exact hi
  | cons m ms ih =>
    unfold handleMsgs
    split
    · exact hi
    · exact ih _ (ts_handleMsg _ m (ts_of_view (e := e) rfl hi))

theorem ts_recvRaw (e : Ep) (c : Bytes) (hi : TSok e) : TSok (recvRaw e c).1 := by
  unfold recvRaw
  simp only []
  have h0 : TSok (rxEntry e c) := ts_of_view rfl hi
  have h1 := ts_handleMsgs (feed e.rx c).2 _ h0
  have h2 : TSok { (handleMsgs (rxEntry e c) (feed e.rx c).2).1 with rxMore := false } := ts_of_view rfl h1
  split
  · exact ts_doClose _ h2
  · exact h2

/-- the TX callback as a whole: the flags are cleared and the source is counted out only when the
    callback found nothing to pull and nothing left to write -/
theorem ts_pumpStep (e : Ep) (n : Nat) (hi : TSok e) (hc : e.closed = false) (hsrc : e.txSrc ≠ 0) :
    TSok ({ (pump { e with txIdle := false } n).1 with
        txWatch := (pump { e with txIdle := false } n).1.txWatch &&
          ((pump { e with txIdle := false } n).1.closed || !(pump { e with txIdle := false } n).1.connBuf.isEmpty || !upEmpty e),
        txSrc := if ((pump { e with txIdle := false } n).1.closed || !(pump { e with txIdle := false } n).1.connBuf.isEmpty || !upEmpty e)
          then (pump { e with txIdle := false } n).1.txSrc else (pump { e with txIdle := false } n).1.txSrc - 1 } : Ep) := by
  have hpos : 0 < e.txSrc := Nat.pos_of_ne_zero hsrc
  have h0 : TSok { e with txIdle := false } := ⟨fun _ => hpos, fun _ _ => hpos⟩
  have hp := ts_pump { e with txIdle := false } n h0
  -- what the callback leaves: either closed, or the source count and flags of the entry state
  have hkeep : (pump { e with txIdle := false } n).1.closed = true ∨
      ((pump { e with txIdle := false } n).1.txSrc = e.txSrc ∧ (pump { e with txIdle := false } n).1.txIdle = false
        ∧ (pump { e with txIdle := false } n).1.txBuf = (pullTx { e with txIdle := false }).txBuf) := by
    have hck : ∀ x : Ep, (checkSessTerm x).1.closed = true ∨ (checkSessTerm x).1 = x := by
      intro x; unfold checkSessTerm; split
      · left; unfold doClose; split
        · rename_i h; exact h
        · rfl
      · right; rfl
    have hpull : (pullTx { e with txIdle := false }).txSrc = e.txSrc ∧ (pullTx { e with txIdle := false }).txIdle = false := by
      unfold pullTx; split
      · unfold sendBufferDecreased; split
        · unfold pqTrigger; split <;> exact ⟨rfl, rfl⟩
        · exact ⟨rfl, rfl⟩
      · exact ⟨rfl, rfl⟩
    unfold pump writeConn
    split
    · split
      · rcases hck (pullTx { e with txIdle := false }) with h | h
        · exact Or.inl h
        · right; rw [h]; exact ⟨hpull.1, hpull.2, rfl⟩
      · right; exact ⟨hpull.1, hpull.2, rfl⟩
    · simp only []
      split
      · right; exact ⟨hpull.1, hpull.2, rfl⟩
      · split
        · rcases hck _ with h | h
          · exact Or.inl h
          · right; rw [h]; exact ⟨hpull.1, hpull.2, rfl⟩
        · right; exact ⟨hpull.1, hpull.2, rfl⟩
  rcases hkeep with hcl | ⟨k1, k2, k3⟩
  · -- closed inside the callback: `doClose` has reset everything
    refine ts_of_view ?_ hp
    simp only [Ep.tsView, hcl, Bool.true_or, Bool.and_true, if_true]
  · by_cases hcont : ((pump { e with txIdle := false } n).1.closed || !(pump { e with txIdle := false } n).1.connBuf.isEmpty || !upEmpty e) = true
    · refine ts_of_view ?_ hp
      simp only [Ep.tsView, hcont, Bool.and_true, if_true]
    · -- nothing pulled, nothing left: both buffers are empty and both flags end up clear
      have hcont' : ((pump { e with txIdle := false } n).1.closed || !(pump { e with txIdle := false } n).1.connBuf.isEmpty || !upEmpty e) = false := by
        simpa using hcont
      simp only [Bool.or_eq_false_iff, Bool.not_eq_false', List.isEmpty_iff] at hcont'
      obtain ⟨⟨_, hcb⟩, hup⟩ := hcont'
      refine ⟨?_, ?_⟩
      · simp only [hcont, Bool.and_false, k2]
        intro h; rcases h with h | h <;> cases h
      · intro _ hb
        exfalso
        simp only [] at hb
        rcases hb with hb | hb
        · apply hb
          rw [k3]
          simp only [upEmpty, Bool.and_eq_true, decide_eq_true_eq, List.isEmpty_iff] at hup
          unfold pullTx
          simp only [hup.1, if_true]
          unfold sendBufferDecreased
          split
          · unfold pqTrigger; split <;> simp [hup.2]
          · simp [hup.2]
        · exact hb hcb

theorem ts_step (e : Ep) (ev : Ev) (hi : TSok e) : TSok (step e ev).1 := by
  unfold step
  cases ev with
  | advance ms => exact ts_of_view rfl hi
  | start =>
    simp only []
    split
    · exact hi
    · split
      · exact hi
      · refine ts_of_view (t6_setState _ _) ?_
        split
        · exact ts_sendContact _ (ts_of_view rfl hi)
        · exact ts_of_view rfl hi
  | send d =>
    simp only []
    split
    · exact hi
    · exact ts_of_view (by rw [t6_pqTrigger]; rfl) hi
  | terminate r =>
    simp only []
    split
    · exact hi
    · exact ts_sendSessTerm _ _ _ hi
  | close =>
    simp only []
    split
    · exact hi
    · exact ts_doClose _ hi
  | pop t =>
    simp only []
    have : TSok (popRx e t).1 := by
      refine ts_of_view ?_ hi
      unfold popRx; split <;> rfl
    split <;> exact this
  | query q => simp only []; split <;> exact hi
  | procQueue =>
    simp only []
    split
    · exact ts_of_view rfl hi
    · split
      · exact hi
      · exact ts_of_view rfl (ts_processQueue _ (ts_of_view (e := e) rfl hi))
  | pump n =>
    simp only []
    split
    · exact hi
    · split
      · exact hi
      · rename_i hc hsrc
        exact ts_pumpStep e n hi (by simpa using hc) (by simpa using hsrc)
  | rx c =>
    simp only []
    split
    · exact hi
    · exact ts_recvRaw e c hi
  | rxEof =>
    simp only []
    split
    · exact hi
    · exact ts_doClose _ hi
  | keepaliveTimer =>
    simp only []
    split
    · exact hi
    · split
      · exact hi
      · exact ts_sendMessage _ _ (ts_of_view rfl hi)
  | idleTimer =>
    simp only []
    split
    · exact hi
    · split
      · exact hi
      · split
        · exact ts_doClose _ (ts_of_view rfl hi)
        · exact ts_sendSessTerm _ _ _ (ts_of_view rfl hi)
  | modulate raw =>
    simp only []
    split
    · exact hi
    · split
      · exact ts_of_view rfl hi
      · exact hi

theorem ts_init (cfg : Cfg) : TSok { cfg := cfg } :=
  ⟨(by intro h; rcases h with h | h <;> cases h), (by intro _ h; rcases h with h | h <;> exact absurd rfl h)⟩

theorem ts_run (evs : List Ev) (e : Ep) (hi : TSok e) : TSok (runEp e evs) := by
  induction evs generalizing e with
  | nil => exact hi
  | cons ev evs ih =>
    simp only [runEp, run]
    exact ih _ (ts_step e ev hi)

end Tcpcl
end DtnVerif
