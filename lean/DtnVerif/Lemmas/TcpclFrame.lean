/-
  G-frame: the messages an endpoint has processed are (a prefix of) the complete messages contained
  in the octets it has received, for every chunking of the stream (C07 lifted to the endpoint).
-/
import DtnVerif.Lemmas.TcpclRx
import DtnVerif.Props.C07
namespace DtnVerif
namespace Tcpcl

def FrameInv (e : Ep) : Prop :=
  (feed {} e.rxBytes).1 = e.rx ∧ e.processed <+: (feed {} e.rxBytes).2
    ∧ (e.closed = false → e.processed = (feed {} e.rxBytes).2)

/-- feeding a stream in two reads = feeding it at once -/
theorem feed_two (x c : Bytes) :
    feed {} (x ++ c) = ((feed (feed {} x).1 c).1, (feed {} x).2 ++ (feed (feed {} x).1 c).2) := by
  have h := C07_split_invariance {} C07_init_stable [x, c]
  simp only [feedAll, List.flatten_cons, List.flatten_nil, List.append_nil] at h
  rw [← h]

theorem handleMsgs_frame (ms : List Msg) (e : Ep) :
    (handleMsgs e ms).1.rx = e.rx ∧ (handleMsgs e ms).1.rxBytes = e.rxBytes
    ∧ (handleMsgs e ms).1.processed <+: e.processed ++ ms
    ∧ ((handleMsgs e ms).1.closed = false → (handleMsgs e ms).1.processed = e.processed ++ ms) := by
  induction ms generalizing e with
  | nil => simp [handleMsgs]
  | cons m ms ih =>
    unfold handleMsgs
    split
    · rename_i hc
      refine ⟨rfl, rfl, List.prefix_append _ _, ?_⟩
      intro h; rw [hc] at h; exact absurd h (by simp)
    · obtain ⟨h1, h2, h3⟩ := frame_handleMsg { e with rxMore := !ms.isEmpty || e.rx.dead } m
      obtain ⟨i1, i2, i3, i4⟩ := ih (handleMsg { e with rxMore := !ms.isEmpty || e.rx.dead } m).1
      refine ⟨by rw [i1, h2], by rw [i2, h3], ?_, ?_⟩
      · rw [h1] at i3; simpa [List.append_assoc] using i3
      · intro h; rw [i4 h, h1]; simp

theorem closed_doClose (e : Ep) : (doClose e).1.closed = true := by
  unfold doClose; split
  · rename_i h; exact h
  · rfl

/-- a closed endpoint stays closed -/
theorem closed_step_mono (e : Ep) (ev : Ev) (h : e.closed = true) : (step e ev).1.closed = true := by
  unfold step
  cases ev <;> simp only [h, if_true] <;> (try exact h)
  · rename_i t; unfold popRx; split <;> exact h

/-- every event other than a read leaves the receive projection alone -/
theorem rxView_step_nonrx (e : Ep) (ev : Ev) (hne : ∀ c, ev ≠ .rx c) : (step e ev).1.rxView = e.rxView := by
  unfold step
  cases ev with
  | advance ms => rfl
  | start =>
    simp only []
    split
    · rfl
    · split
      · rfl
      · rw [view_setState]; split <;> rfl
  | send d =>
    simp only []
    split
    · rfl
    · simp only [view_pqTrigger]; rfl
  | terminate r =>
    simp only []
    split
    · rfl
    · exact view_sendSessTerm _ _ _
  | close =>
    simp only []
    split
    · rfl
    · exact view_doClose _
  | pop t =>
    simp only []
    have : (popRx e t).1.rxView = e.rxView := by unfold popRx; split <;> rfl
    split <;> exact this
  | query q => simp only []; split <;> rfl
  | procQueue =>
    simp only []
    split
    · rfl
    · split
      · rfl
      · have := view_processQueue { e with pqPend := false }
        simp only [Ep.rxView] at this ⊢
        exact this
  | pump n =>
    simp only []
    split
    · rfl
    · split
      · rfl
      · exact view_pump { e with txIdle := false } n
  | rx c => exact absurd rfl (hne c)
  | rxEof =>
    simp only []
    split
    · rfl
    · exact view_doClose _
  | keepaliveTimer =>
    simp only []
    split
    · rfl
    · split <;> rfl
  | idleTimer =>
    simp only []
    split
    · rfl
    · split
      · rfl
      · split
        · rw [view_doClose]; rfl
        · rw [view_sendSessTerm]; rfl
  | modulate raw =>
    simp only []
    split
    · rfl
    · split <;> rfl

theorem frameInv_step (e : Ep) (ev : Ev) (hi : FrameInv e) : FrameInv (step e ev).1 := by
  obtain ⟨h1, h2, h3⟩ := hi
  by_cases hrx : ∃ c, ev = .rx c
  · obtain ⟨c, rfl⟩ := hrx
    by_cases hc : e.closed = true
    · have : (step e (.rx c)).1 = e := by unfold step; simp [hc]
      rw [this]; exact ⟨h1, h2, h3⟩
    · have hc' : e.closed = false := by simpa using hc
      have hproc := h3 hc'
      have hstep : (step e (.rx c)).1 = (recvRaw e c).1 := by unfold step; simp [hc']
      rw [hstep]
      unfold recvRaw
      simp only []
      obtain ⟨i1, i2, i3, i4⟩ := handleMsgs_frame (feed e.rx c).2 (rxEntry e c)
      have hent : (rxEntry e c).rx = (feed e.rx c).1 ∧ (rxEntry e c).rxBytes = e.rxBytes ++ c
          ∧ (rxEntry e c).processed = e.processed := ⟨rfl, rfl, rfl⟩
      have hfeed := feed_two e.rxBytes c
      rw [h1] at hfeed
      have key : FrameInv (handleMsgs (rxEntry e c) (feed e.rx c).2).1 := by
        unfold FrameInv
        rw [i1, i2, hent.1, hent.2.1, hfeed]
        refine ⟨rfl, ?_, ?_⟩
        · rw [hent.2.2, hproc] at i3; exact i3
        · intro h; rw [i4 h, hent.2.2, hproc]
      split
      · -- the connection is closed on a bad contact header: only `closed` changes
        obtain ⟨k1, k2, k3⟩ := key
        have hv := view_doClose { (handleMsgs (rxEntry e c) (feed e.rx c).2).1 with rxMore := false }
        have e1 := congrArg RxView.processed hv
        have e2 := congrArg RxView.rx hv
        have e3 := congrArg RxView.rxBytes hv
        simp only [Ep.rxView] at e1 e2 e3
        unfold FrameInv
        rw [e1, e2, e3]
        refine ⟨k1, k2, ?_⟩
        intro h; rw [closed_doClose] at h; exact absurd h (by simp)
      · exact key
  · have hne : ∀ c, ev ≠ .rx c := fun c h => hrx ⟨c, h⟩
    have hv := rxView_step_nonrx e ev hne
    have e1 := congrArg RxView.processed hv
    have e2 := congrArg RxView.rx hv
    have e3 := congrArg RxView.rxBytes hv
    simp only [Ep.rxView] at e1 e2 e3
    unfold FrameInv
    rw [e1, e2, e3]
    refine ⟨h1, h2, ?_⟩
    intro h
    apply h3
    cases hc : e.closed with
    | false => rfl
    | true => rw [closed_step_mono e ev hc] at h; exact absurd h (by simp)

theorem frameInv_init (cfg : Cfg) : FrameInv { cfg := cfg } := by
  have h : feed {} ([] : Bytes) = ({}, []) := by decide
  unfold FrameInv
  show (feed {} []).1 = {} ∧ [] <+: (feed {} []).2 ∧ (false = false → [] = (feed {} []).2)
  rw [h]
  exact ⟨rfl, List.prefix_refl _, fun _ => rfl⟩

theorem frameInv_run (evs : List Ev) (e : Ep) (hi : FrameInv e) : FrameInv (runEp e evs) := by
  induction evs generalizing e with
  | nil => exact hi
  | cons ev evs ih =>
    simp only [runEp, run]
    exact ih _ (frameInv_step e ev hi)

end Tcpcl
end DtnVerif
