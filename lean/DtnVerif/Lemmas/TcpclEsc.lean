/-
  No exception escapes a callback: with private test extensions off, no step of the endpoint —
  under any event, any peer message, in any state — produces an `escaped` output.
-/
import DtnVerif.Lemmas.TcpclCfg
namespace DtnVerif
namespace Tcpcl

def Out.isEsc : Out → Bool
  | .escaped _ => true
  | _ => false

/-- no `escaped` output in the list -/
def noEsc (os : List Out) : Bool := os.all (fun o => !o.isEsc)

@[simp] theorem noEsc_nil : noEsc [] = true := rfl
@[simp] theorem noEsc_append (a b : List Out) : noEsc (a ++ b) = (noEsc a && noEsc b) := by
  simp [noEsc, List.all_append]
@[simp] theorem noEsc_cons (o : Out) (os : List Out) : noEsc (o :: os) = (!o.isEsc && noEsc os) := by
  simp [noEsc]

@[simp] theorem esc_setState (e : Ep) (s : String) : noEsc (setState e s).2 = true := by
  unfold setState; split <;> simp [Out.isEsc]
@[simp] theorem esc_flush (e : Ep) : noEsc (flushPendStart e).2 = true := by
  unfold flushPendStart noEsc
  simp [List.all_map, Out.isEsc]
@[simp] theorem esc_doClose (e : Ep) : noEsc (doClose e).2 = true := by
  unfold doClose; split <;> simp [Out.isEsc]
@[simp] theorem esc_checkSessTerm (e : Ep) : noEsc (checkSessTerm e).2 = true := by
  unfold checkSessTerm; split <;> simp
@[simp] theorem esc_sendSessTerm (e : Ep) (r : Nat) (b : Bool) : noEsc (sendSessTerm e r b).2 = true := by
  unfold sendSessTerm
  split
  · simp [Out.isEsc]
  · split <;> simp [Out.isEsc]

theorem esc_sendSegment (e : Ep) (it : TxItem) (s : Nat) (hp : e.cfg.privExt = false) :
    noEsc (sendSegment e it s).2.1 = true := by
  unfold sendSegment
  simp only [hp, Bool.and_false, Bool.false_eq_true, if_false]
  split <;> simp

theorem esc_processQueue (e : Ep) (hp : e.cfg.privExt = false) : noEsc (processQueue e).2.1 = true := by
  unfold processQueue
  split
  · exact esc_sendSegment e _ _ hp
  · split
    · simp
    · split
      · simp
      · split
        · simp
        · simp only [noEsc_cons, Out.isEsc, Bool.not_false, Bool.true_and]
          exact esc_sendSegment _ _ _ hp

@[simp] theorem esc_writeConn (e : Ep) (n : Nat) (up : Bool) : noEsc (writeConn e n up).2 = true := by
  unfold writeConn
  split
  · split <;> simp
  · simp only []
    split
    · simp
    · split <;> simp [Out.isEsc]
@[simp] theorem esc_pump (e : Ep) (n : Nat) : noEsc (pump e n).2 = true := by unfold pump; simp
@[simp] theorem esc_onContact (e : Ep) : noEsc (onContact e).2 = true := by unfold onContact; simp
@[simp] theorem esc_onSessInit (e : Ep) (p : PeerInit) : noEsc (onSessInit e p).2 = true := by
  unfold onSessInit; simp
@[simp] theorem esc_onSessTerm (e : Ep) (m : Msg) (r : Nat) : noEsc (onSessTerm e m r).2 = true := by
  unfold onSessTerm
  split
  · simp
  · simp only [noEsc_append, esc_flush, esc_checkSessTerm, Bool.and_true]
    split <;> simp
@[simp] theorem esc_segAccept (e : Ep) (f t : Nat) (c d : Bytes) (o : List Out) (ho : noEsc o = true) :
    noEsc (segAccept e f t c d o).2 = true := by
  unfold segAccept; simp only []; split <;> simp [ho, Out.isEsc]
@[simp] theorem esc_onSegment (e : Ep) (m : Msg) (f t : Nat) (d : Bytes) : noEsc (onSegment e m f t d).2 = true := by
  unfold onSegment
  split
  · simp
  · split
    · exact esc_segAccept _ _ _ _ _ _ (by simp [Out.isEsc])
    · split
      · split
        · exact esc_segAccept _ _ _ _ _ _ (by simp)
        · simp
      · simp
@[simp] theorem esc_onAck (e : Ep) (m : Msg) (f t l : Nat) : noEsc (onAck e m f t l).2 = true := by
  unfold onAck
  split
  · simp
  · split
    · simp
    · split
      · split <;> simp [Out.isEsc]
      · simp [Out.isEsc]
@[simp] theorem esc_onRefuse (e : Ep) (m : Msg) (r t : Nat) : noEsc (onRefuse e m r t).2 = true := by
  unfold onRefuse
  split
  · simp
  · split <;> simp [Out.isEsc]
@[simp] theorem esc_handleMsg (e : Ep) (m : Msg) : noEsc (handleMsg e m).2 = true := by
  unfold handleMsg; cases m <;> simp
@[simp] theorem esc_handleMsgs (ms : List Msg) (e : Ep) : noEsc (handleMsgs e ms).2 = true := by
  induction ms generalizing e with
  | nil => rfl
  | cons m ms ih =>
    unfold handleMsgs
    split
    · rfl
    · simp [ih]
@[simp] theorem esc_recvRaw (e : Ep) (c : Bytes) : noEsc (recvRaw e c).2 = true := by
  unfold recvRaw; simp only []; split <;> simp

/-- **No escape, one step.** -/
theorem esc_step (e : Ep) (ev : Ev) (hp : e.cfg.privExt = false) : noEsc (step e ev).2 = true := by
  unfold step
  cases ev with
  | advance ms => rfl
  | start => simp only []; split <;> (try split) <;> simp
  | send d => simp only []; split <;> simp [Out.isEsc]
  | terminate r => simp only []; split <;> simp
  | close => simp only []; split <;> simp
  | pop t =>
    simp only []
    have : noEsc (popRx e t).2 = true := by unfold popRx; split <;> simp [Out.isEsc]
    split <;> simp [this]
  | query q => simp only []; split <;> simp [Out.isEsc]
  | procQueue =>
    simp only []
    split
    · simp
    · split
      · simp
      · exact esc_processQueue { e with pqPend := false } hp
  | pump n => simp only []; split <;> (try split) <;> simp
  | rx c => simp only []; split <;> simp
  | rxEof => simp only []; split <;> simp
  | keepaliveTimer => simp only []; split <;> (try split) <;> simp
  | idleTimer => simp only []; split <;> (try split) <;> (try split) <;> simp
  | modulate raw => simp only []; split <;> (try split) <;> simp

/-- **No escape, any run.** -/
theorem esc_run (evs : List Ev) (e : Ep) (hp : e.cfg.privExt = false) :
    ∀ os ∈ (run e evs).2, noEsc os = true := by
  induction evs generalizing e with
  | nil => intro os h; simp [run] at h
  | cons ev evs ih =>
    intro os h
    simp only [run, List.mem_cons] at h
    rcases h with h | h
    · rw [h]; exact esc_step e ev hp
    · exact ih (step e ev).1 (by rw [cfg_step]; exact hp) os h

end Tcpcl
end DtnVerif
