/-
  Two-endpoint form of the keepalive facts: a KEEPALIVE is only ever emitted when both configured
  keepalive intervals are positive (the negotiated interval is their minimum, `C14_negotiation_sys`).
-/
import DtnVerif.Lemmas.TcpclEmitKa
import DtnVerif.Lemmas.TcpclNegotiated
import DtnVerif.Lemmas.TcpclSysLift
namespace DtnVerif
namespace Tcpcl

def SysKa (s : Sys) : Prop := KaEmit s.b.cfg.keepalive s.a ∧ KaEmit s.a.cfg.keepalive s.b

/-- the keepalive timer of `x` is armed only if both configured intervals are positive -/
theorem armed_both_pos (x y : Ep) (hx : EpInv x) (hy : EpInv y) (hn : NG x) (hpre : x.processed <+: y.emitted) :
    x.kaDeadline.isSome = true → 0 < x.cfg.keepalive ∧ 0 < y.cfg.keepalive := by
  intro hd
  have hk : 0 < x.kaTime := hx.timer.1 hd
  cases hp : x.peerInit with
  | none =>
    have := (hn.2 hp).1
    omega
  | some p =>
    obtain ⟨k1, _, ext, hmem⟩ := hn.1 p hp
    have hem := hy.emit _ (hpre.subset hmem)
    simp only [emitOK] at hem
    obtain ⟨_, e2, _, _⟩ := hem
    rw [k1, e2] at hk
    omega

theorem sysKa_step (s : Sys) (ev : SysEv) (hi : SysInv s) (hw : SysWF s) (hna : NG s.a) (hnb : NG s.b)
    (hk : SysKa s) : SysKa (sysStep s ev) := by
  obtain ⟨pB, pA⟩ := transport s hi hw
  have ha := armed_both_pos s.a s.b hi.ia hi.ib hna pA
  have hb := armed_both_pos s.b s.a hi.ib hi.ia hnb pB
  obtain ⟨ka, kb⟩ := hk
  have stepA : ∀ e, SysKa { s with a := (step s.a e).1 } := by
    intro e
    refine ⟨kaEmit_step s.a e ka ha, ?_⟩
    show KaEmit (step s.a e).1.cfg.keepalive s.b
    rw [cfg_step]; exact kb
  have stepB : ∀ e, SysKa { s with b := (step s.b e).1 } := by
    intro e
    refine ⟨?_, kaEmit_step s.b e kb hb⟩
    show KaEmit (step s.b e).1.cfg.keepalive s.a
    rw [cfg_step]; exact ka
  unfold sysStep
  cases ev with
  | atA e => simp only []; split <;> first | exact ⟨ka, kb⟩ | exact stepA e
  | atB e => simp only []; split <;> first | exact ⟨ka, kb⟩ | exact stepB e
  | deliverB k => simp only []; split <;> first | exact ⟨ka, kb⟩ | exact stepB _
  | deliverA k => simp only []; split <;> first | exact ⟨ka, kb⟩ | exact stepA _
  | eofB => simp only []; split <;> first | exact ⟨ka, kb⟩ | exact stepB _
  | eofA => simp only []; split <;> first | exact ⟨ka, kb⟩ | exact stepA _

theorem sysKa_run (sch : List SysEv) (cfgA cfgB : Cfg)
    (a1 : 0 < cfgA.segInit) (a2 : cfgA.privExt = false) (a3 : 0 < cfgA.segMru)
    (b1 : 0 < cfgB.segInit) (b2 : cfgB.privExt = false) (b3 : 0 < cfgB.segMru)
    (hwf : ∀ pre, pre <+: sch → SysWF (runSys (initSys cfgA cfgB) pre)) (hs : ∀ ev ∈ sch, ev.sendOK) :
    SysKa (runSys (initSys cfgA cfgB) sch) := by
  -- induction over prefixes, carrying the system invariant and NG along
  have gen : ∀ (l : List SysEv) (s : Sys), SysInv s → NG s.a → NG s.b → SysKa s →
      (∀ pre, pre <+: l → SysWF (runSys s pre)) → (∀ ev ∈ l, ev.sendOK) → SysKa (runSys s l) := by
    intro l
    induction l with
    | nil => intro s _ _ _ hk _ _; exact hk
    | cons ev rest ih =>
      intro s hi hna hnb hk hwf' hs'
      rw [runSys_cons]
      have h0 : SysWF s := hwf' [] List.nil_prefix
      have hi1 := sysInv_step s ev hi h0 (hs' ev (by simp))
      obtain ⟨na1, nb1⟩ := sys_lift_step' (fun _ => True) NG (fun e ev _ h => ng_step e ev h) s ev trivial trivial ⟨hna, hnb⟩
      refine ih _ hi1 na1 nb1 (sysKa_step s ev hi h0 hna hnb hk) ?_ (fun e he => hs' e (by simp [he]))
      intro pre hp
      have := hwf' (ev :: pre) (List.cons_prefix_cons.mpr ⟨rfl, hp⟩)
      rw [runSys_cons] at this
      exact this
  have hi0 := sysInv_init cfgA cfgB a1 a2 a3 b1 b2 b3
  have n0 : NG (initSys cfgA cfgB).a ∧ NG (initSys cfgA cfgB).b := ⟨ng_step _ _ (ng_init cfgA), ng_step _ _ (ng_init cfgB)⟩
  have k0 : SysKa (initSys cfgA cfgB) := by
    have h : ∀ cfg pk, KaEmit pk (step { cfg := cfg } .start).1 :=
      fun cfg pk => kaEmit_step _ _ (by intro m hm; simp at hm) (by intro h; cases h)
    exact ⟨h cfgA _, h cfgB _⟩
  exact gen sch _ hi0 n0.1 n0.2 k0 hwf hs

end Tcpcl
end DtnVerif
