import DtnVerif.Model.Frag
import DtnVerif.Lemmas.Cbor
namespace DtnVerif
namespace Frag
open Bp Cbor

/-! ### encoded lengths -/

def optLen : Option Bytes → Nat
  | none => 1
  | some d => headLen d.length + d.length

@[simp] theorem encOptBstr_length (o : Option Bytes) : (encOptBstr o).length = optLen o := by
  cases o <;> simp [encOptBstr, encNull, optLen]

theorem optLen_pos (o : Option Bytes) : 0 < optLen o := by
  cases o with
  | none => simp [optLen]
  | some d => have := headLen_pos d.length; simp [optLen]; omega

/-- octets of a canonical block that do not depend on its data or CRC value -/
def canonFixed (c : Canonical) : Nat :=
  headLen c.count + headLen c.typeCode + headLen c.blockNum + headLen c.flags + headLen c.crcType

def crcLen (t : Nat) (crc : Option Bytes) : Nat := if t != 0 then optLen crc else 0

theorem canon_enc_length (c : Canonical) :
    c.enc.length = canonFixed c + optLen c.btsd + crcLen c.crcType c.crc := by
  simp only [Canonical.enc, Canonical.fields, canonFixed, crcLen]
  split <;> simp <;> omega

def blocksLen : List Canonical → Nat
  | [] => 0
  | c :: cs => c.enc.length + blocksLen cs

theorem encBlocks_length (cs : List Canonical) : (encBlocks cs).length = blocksLen cs := by
  induction cs with
  | nil => rfl
  | cons c cs ih => simp [encBlocks, blocksLen, ih]

/-- encoded length of the blocks of a container (after `ensure`) -/
def blksLen (bs : List Blk) : Nat := blocksLen (bs.map (fun x => x.ensure.c))

theorem size_eq (b : FBundle) : b.size = 2 + b.primary.enc.length + blksLen b.blocks := by
  simp [FBundle.size, FBundle.enc, FBundle.toBundle, Bundle.enc, encBlocks_length, blksLen]; omega

@[simp] theorem blksLen_nil : blksLen [] = 0 := rfl
theorem blksLen_cons (x : Blk) (xs : List Blk) : blksLen (x :: xs) = x.ensure.c.enc.length + blksLen xs := rfl

/-! ### `ensure` -/

theorem ensure_btsd_some (x : Blk) (d : Bytes) (h : x.c.btsd = some d) : x.ensure = x := by
  simp [Blk.ensure, h]

@[simp] theorem ensure_num (x : Blk) : x.ensure.c.blockNum = x.c.blockNum := by
  unfold Blk.ensure; split <;> rfl
@[simp] theorem ensure_flags (x : Blk) : x.ensure.c.flags = x.c.flags := by
  unfold Blk.ensure; split <;> rfl
@[simp] theorem ensure_crcType (x : Blk) : x.ensure.c.crcType = x.c.crcType := by
  unfold Blk.ensure; split <;> rfl
@[simp] theorem ensure_crc (x : Blk) : x.ensure.c.crc = x.c.crc := by
  unfold Blk.ensure; split <;> rfl
@[simp] theorem ensure_typeCode (x : Blk) : x.ensure.c.typeCode = x.c.typeCode := by
  unfold Blk.ensure; split <;> rfl
@[simp] theorem ensure_layer (x : Blk) : x.ensure.layer = x.layer := by
  unfold Blk.ensure; split <;> rfl

theorem ensure_idem (x : Blk) : x.ensure.ensure = x.ensure := by
  rcases x with ⟨⟨t, n, f, ct, btsd, crc⟩, layer⟩
  cases btsd <;> cases layer <;> rfl

/-! ### setting the payload data -/

/-- number of blocks numbered 1 -/
def n1 (bs : List Blk) : Nat := (bs.filter (fun x => x.c.blockNum == 1)).length

theorem setBtsd_of_n1_zero (v : Option Bytes) (bs : List Blk) (h : n1 bs = 0) : setBtsd v bs = bs := by
  induction bs with
  | nil => rfl
  | cons x xs ih =>
    simp only [n1, List.filter_cons] at h
    split at h
    · simp at h
    · rename_i hx
      have hxs : n1 xs = 0 := h
      simp only [setBtsd, List.map_cons]
      have : (x.c.blockNum == 1) = false := by simpa using hx
      simp only [this]
      simp only [setBtsd] at ih
      rw [ih hxs]; rfl

theorem canon_len_setBtsd (x : Blk) (d : Bytes) :
    ({ x with c := { x.c with btsd := some d } } : Blk).ensure.c.enc.length + optLen x.ensure.c.btsd
      = x.ensure.c.enc.length + optLen (some d) := by
  have h1 : ({ x with c := { x.c with btsd := some d } } : Blk).ensure
      = { x with c := { x.c with btsd := some d } } := ensure_btsd_some _ d rfl
  rw [h1, canon_enc_length, canon_enc_length]
  simp [canonFixed, Canonical.count]
  omega

/-- Replacing the data of the (at most one) block numbered 1 by `d` changes the encoded length by
    at most `optLen (some d) - 1`. -/
theorem blksLen_setBtsd_le (d : Bytes) (bs : List Blk) (h : n1 bs ≤ 1) :
    blksLen (setBtsd (some d) bs) + 1 ≤ blksLen bs + optLen (some d) := by
  induction bs with
  | nil => have := optLen_pos (some d); simp [setBtsd]; omega
  | cons x xs ih =>
    by_cases hx : x.c.blockNum == 1
    · have hxs : n1 xs = 0 := by
        simp only [n1, List.filter_cons, hx, if_true, List.length_cons] at h
        simp only [n1]; omega
      have hs : setBtsd (some d) (x :: xs)
          = { x with c := { x.c with btsd := some d } } :: xs := by
        have := setBtsd_of_n1_zero (some d) xs hxs
        simp only [setBtsd] at this
        simp only [setBtsd, List.map_cons, hx, if_true, this]
      rw [hs, blksLen_cons, blksLen_cons]
      have := canon_len_setBtsd x d
      have := optLen_pos x.ensure.c.btsd
      omega
    · have hxs : n1 xs ≤ 1 := by
        simp only [n1, List.filter_cons, hx] at h
        simpa [n1] using h
      have hx' : (x.c.blockNum == 1) = false := by simpa using hx
      have hs : setBtsd (some d) (x :: xs) = x :: setBtsd (some d) xs := by
        simp only [setBtsd, List.map_cons, hx']; rfl
      rw [hs, blksLen_cons, blksLen_cons]
      have := ih hxs
      omega

/-! ### effective canonical block (after `ensure`) of filled / CRC-updated blocks -/

theorem ensure_with_c (y : Blk) (c' : Canonical) (h : c'.btsd = y.ensure.c.btsd) :
    ({ y.ensure with c := c' } : Blk).ensure = { y.ensure with c := c' } := by
  rcases y with ⟨⟨t, n, f, ct, btsd, crc⟩, layer⟩
  cases btsd <;> cases layer <;> simp_all [Blk.ensure]

theorem eff_fillBlk (x : Blk) :
    (fillBlk x).ensure.c = { x.ensure.c with crc := fillCrc x.ensure.c.crcType x.ensure.c.crc } := by
  rcases x with ⟨⟨t, n, f, ct, btsd, crc⟩, layer⟩
  cases btsd <;> cases layer <;> simp [fillBlk, Blk.ensure]

theorem eff_updBlk (crcFn : Nat → Bytes → Bytes) (x : Blk) :
    (updBlk crcFn x).ensure.c = updCanon crcFn x.ensure.c := by
  rcases x with ⟨⟨t, n, f, ct, btsd, crc⟩, layer⟩
  cases btsd <;> cases layer <;> by_cases hct : ct = 0 <;> simp [updBlk, Blk.ensure, updCanon, hct]

/-! ### CRC value widths -/

/-- a CRC value of the width of its type is present (or the type is none) -/
def FilledCrc (t : Nat) (crc : Option Bytes) : Prop := t = 0 ∨ ∃ v, crc = some v ∧ v.length = crcWidth t

def Filled (b : FBundle) : Prop :=
  FilledCrc b.primary.crcType b.primary.crc ∧ ∀ x ∈ b.blocks, FilledCrc x.c.crcType x.c.crc

/-- Input well-formedness: wherever the caller supplied a CRC value it has the width of its CRC type
    (absent / empty values are zero-filled by `fill_fields`). -/
def CrcWf (b : FBundle) : Prop := Filled (fillFields b)

def crcLenStd (t : Nat) : Nat := if t != 0 then 1 + crcWidth t else 0

theorem crcWidth_le (t : Nat) : crcWidth t ≤ 4 := by
  unfold crcWidth; split <;> (try split) <;> omega

theorem crcLen_filled {t : Nat} {crc : Option Bytes} (h : FilledCrc t crc) : crcLen t crc = crcLenStd t := by
  unfold crcLen crcLenStd
  rcases h with h | ⟨v, hv, hl⟩
  · simp [h]
  · split
    · have := crcWidth_le t
      simp [hv, optLen, hl, headLen]; omega
    · rfl

theorem zeros_length (n : Nat) : (zeros n).length = n := by simp [zeros]

theorem filledCrc_fill {t : Nat} {crc : Option Bytes} (h : FilledCrc t crc) : FilledCrc t (fillCrc t crc) := by
  rcases h with h | ⟨v, hv, hl⟩
  · exact Or.inl h
  · by_cases ht : t = 0
    · exact Or.inl ht
    · right
      subst hv
      cases v with
      | nil => exact ⟨zeros (crcWidth t), by simp [fillCrc, ht], zeros_length _⟩
      | cons a as => exact ⟨a :: as, by simp [fillCrc, ht], hl⟩

def primBody (p : Primary) : Nat :=
  headLen p.count + headLen p.version + headLen p.flags + headLen p.crcType + p.dest.enc.length
  + p.src.enc.length + p.rpt.enc.length + p.ts.enc.length + headLen p.lifetime
  + (if isFragment p.flags then headLen p.fragOff + headLen p.totalLen else 0)

theorem primary_enc_length (p : Primary) : p.enc.length = primBody p + crcLen p.crcType p.crc := by
  simp only [Primary.enc, Primary.fields, primBody, crcLen]
  split <;> split <;> simp <;> omega

theorem updPrimary_length (crcFn : Nat → Bytes → Bytes) (hcrc : ∀ t d, (crcFn t d).length = crcWidth t)
    (p : Primary) (h : FilledCrc p.crcType p.crc) : (updPrimary crcFn p).enc.length = p.enc.length := by
  rw [primary_enc_length, primary_enc_length, crcLen_filled h]
  unfold updPrimary
  split
  · rename_i h0
    have : p.crcType = 0 := by simpa using h0
    simp [primBody, Primary.count, crcLen, crcLenStd, this]
  · rename_i h0
    have hf : FilledCrc p.crcType (some (crcFn p.crcType
        ({ p with crc := some (zeros (crcWidth p.crcType)) } : Primary).enc)) := Or.inr ⟨_, rfl, hcrc _ _⟩
    have := crcLen_filled hf
    simp only [primBody, Primary.count] at *
    simp only [this]

theorem updCanon_length (crcFn : Nat → Bytes → Bytes) (hcrc : ∀ t d, (crcFn t d).length = crcWidth t)
    (c : Canonical) (h : FilledCrc c.crcType c.crc) : (updCanon crcFn c).enc.length = c.enc.length := by
  rw [canon_enc_length, canon_enc_length, crcLen_filled h]
  unfold updCanon
  split
  · rename_i h0
    have : c.crcType = 0 := by simpa using h0
    simp [canonFixed, Canonical.count, crcLen, crcLenStd, this]
  · have hf : FilledCrc c.crcType (some (crcFn c.crcType
        ({ c with crc := some (zeros (crcWidth c.crcType)) } : Canonical).enc)) := Or.inr ⟨_, rfl, hcrc _ _⟩
    have := crcLen_filled hf
    simp only [canonFixed, Canonical.count] at *
    simp only [this]

theorem fillCanon_length (c : Canonical) (h : FilledCrc c.crcType c.crc) :
    ({ c with crc := fillCrc c.crcType c.crc } : Canonical).enc.length = c.enc.length := by
  rw [canon_enc_length, canon_enc_length, crcLen_filled h]
  have := crcLen_filled (filledCrc_fill h)
  simp only [canonFixed, Canonical.count] at *
  simp only [this]

theorem fillPrimary_length (p : Primary) (h : FilledCrc p.crcType p.crc) :
    (fillPrimary p).enc.length = p.enc.length := by
  rw [primary_enc_length, primary_enc_length, crcLen_filled h]
  have h2 := crcLen_filled (filledCrc_fill h)
  show primBody p + crcLen p.crcType (fillCrc p.crcType p.crc) = _
  rw [h2]

theorem blksLen_fill (bs : List Blk) (h : ∀ x ∈ bs, FilledCrc x.c.crcType x.c.crc) :
    blksLen (bs.map fillBlk) = blksLen bs := by
  induction bs with
  | nil => rfl
  | cons x xs ih =>
    simp only [List.map_cons, blksLen_cons]
    rw [ih (fun y hy => h y (List.mem_cons_of_mem _ hy)), eff_fillBlk]
    have hx := h x (List.mem_cons_self)
    have := fillCanon_length x.ensure.c (by simpa using hx)
    dsimp only at this ⊢
    rw [this]

theorem blksLen_upd (crcFn : Nat → Bytes → Bytes) (hcrc : ∀ t d, (crcFn t d).length = crcWidth t)
    (bs : List Blk) (h : ∀ x ∈ bs, FilledCrc x.c.crcType x.c.crc) :
    blksLen (bs.map (updBlk crcFn)) = blksLen bs := by
  induction bs with
  | nil => rfl
  | cons x xs ih =>
    simp only [List.map_cons, blksLen_cons]
    rw [ih (fun y hy => h y (List.mem_cons_of_mem _ hy)), eff_updBlk]
    have hx := h x (List.mem_cons_self)
    rw [updCanon_length crcFn hcrc x.ensure.c (by simpa using hx)]

theorem filled_fillFields {b : FBundle} (h : Filled b) : Filled (fillFields b) := by
  refine ⟨filledCrc_fill h.1, ?_⟩
  intro y hy
  simp only [fillFields, List.mem_map] at hy
  obtain ⟨x, hx, rfl⟩ := hy
  have := filledCrc_fill (h.2 x hx)
  simpa [fillBlk] using this

theorem size_fillFields {b : FBundle} (h : Filled b) : (fillFields b).size = b.size := by
  rw [size_eq, size_eq]
  simp only [fillFields]
  rw [fillPrimary_length _ h.1, blksLen_fill _ h.2]

/-- the final refresh of the CRC values does not change the size of a container whose CRC fields
    already have their width -/
theorem finalize_length (cfg : Cfg) (hcrc : ∀ t d, (cfg.crcFn t d).length = crcWidth t)
    (b : FBundle) (h : Filled b) : (finalize cfg b).length = b.size := by
  have hf := filled_fillFields h
  rw [← size_fillFields h]
  show (updateCrcs cfg.crcFn (fillFields b)).size = (fillFields b).size
  rw [size_eq, size_eq]
  simp only [updateCrcs]
  rw [updPrimary_length _ hcrc _ hf.1, blksLen_upd _ hcrc _ hf.2]

/-! ### the fragment produced at one loop iteration -/

/-- the fragment `_create` builds at offset `o` -/
def fragAt (m pe : Nat) (pdata : Bytes) (p : Primary) (bs : List Blk) (o : Nat) : FBundle :=
  let e := emptyFrag p bs o pdata.length
  { e with blocks := setBtsd (some ((pdata.drop o).take (m - (e.size - 1 + pe)))) e.blocks }

/-- budget of the fragment at offset `o` (`frag_size`) -/
def budget (m pe : Nat) (pdata : Bytes) (p : Primary) (bs : List Blk) (o : Nat) : Nat :=
  m - ((emptyFrag p bs o pdata.length).size - 1 + pe)

theorem createLoop_succ (m pe : Nat) (pdata : Bytes) (p : Primary) (bs : List Blk) (fuel off : Nat) :
    createLoop m pe pdata p bs (fuel + 1) off =
      if off < pdata.length then
        if m ≤ (emptyFrag p bs off pdata.length).size - 1 + pe then ([], true)
        else (fragAt m pe pdata p bs off :: (createLoop m pe pdata p bs fuel (off + budget m pe pdata p bs off)).1,
              (createLoop m pe pdata p bs fuel (off + budget m pe pdata p bs off)).2)
      else ([], false) := rfl

theorem mem_createLoop {m pe : Nat} {pdata : Bytes} {p : Primary} {bs : List Blk} :
    ∀ (fuel off : Nat) (f : FBundle), f ∈ (createLoop m pe pdata p bs fuel off).1 →
      ∃ o, off ≤ o ∧ o < pdata.length ∧ (emptyFrag p bs o pdata.length).size - 1 + pe < m ∧
        f = fragAt m pe pdata p bs o := by
  intro fuel
  induction fuel with
  | zero => intro off f h; simp [createLoop] at h
  | succ n ih =>
    intro off f h
    rw [createLoop_succ] at h
    split at h
    · rename_i hlt
      split at h
      · simp at h
      · rename_i hm
        simp only [List.mem_cons] at h
        rcases h with h | h
        · exact ⟨off, Nat.le_refl _, hlt, by omega, h⟩
        · obtain ⟨o, h1, h2, h3, h4⟩ := ih _ f h
          exact ⟨o, by omega, h2, h3, h4⟩
    · simp at h

theorem n1_filter_le (q : Blk → Bool) (bs : List Blk) : n1 (bs.filter q) ≤ n1 bs :=
  ((List.filter_sublist (l := bs) (p := q)).filter _).length_le

theorem n1_map (g : Blk → Blk) (hg : ∀ x, (g x).c.blockNum = x.c.blockNum) (bs : List Blk) :
    n1 (bs.map g) = n1 bs := by
  induction bs with
  | nil => rfl
  | cons x xs ih =>
    simp only [n1, List.map_cons, List.filter_cons, hg] at *
    split <;> simp [ih]

@[simp] theorem fillBlk_num (x : Blk) : (fillBlk x).c.blockNum = x.c.blockNum := by simp [fillBlk]
@[simp] theorem fillBlk_crcType (x : Blk) : (fillBlk x).c.crcType = x.c.crcType := by simp [fillBlk]
@[simp] theorem fillBlk_flags (x : Blk) : (fillBlk x).c.flags = x.c.flags := by simp [fillBlk]

theorem n1_emptyFrag (p : Primary) (bs : List Blk) (o t : Nat) (h : n1 bs ≤ 1) :
    n1 (emptyFrag p bs o t).blocks ≤ 1 := by
  simp only [emptyFrag, fillFields, clearPayload]
  rw [n1_map _ fillBlk_num, n1_map _ (fun x => by split <;> rfl)]
  exact Nat.le_trans (n1_filter_le _ _) h

theorem take_drop_length_le (pdata : Bytes) (o k : Nat) :
    ((pdata.drop o).take k).length ≤ k ∧ ((pdata.drop o).take k).length ≤ pdata.length := by
  simp; omega

/-- **Budget lemma.** A fragment built with a positive budget encodes to at most the MTU. -/
theorem fragAt_size_le (m : Nat) (pdata : Bytes) (p : Primary) (bs : List Blk) (o : Nat)
    (h1 : n1 bs ≤ 1) (hb : (emptyFrag p bs o pdata.length).size - 1 + headLen pdata.length < m) :
    (fragAt m (headLen pdata.length) pdata p bs o).size ≤ m := by
  have hn := n1_emptyFrag p bs o pdata.length h1
  have hle := blksLen_setBtsd_le ((pdata.drop o).take (m - ((emptyFrag p bs o pdata.length).size - 1 + headLen pdata.length)))
    (emptyFrag p bs o pdata.length).blocks hn
  have hl := take_drop_length_le pdata o (m - ((emptyFrag p bs o pdata.length).size - 1 + headLen pdata.length))
  have hh := headLen_mono hl.2
  have he := size_eq (emptyFrag p bs o pdata.length)
  rw [size_eq]
  simp only [fragAt, optLen] at *
  omega

theorem isFragment_setFragFlag (f : Nat) : isFragment (setFragFlag f) = true := by
  unfold setFragFlag
  split
  · assumption
  · rename_i h; simp only [isFragment] at *; simp at h ⊢; omega

theorem fragAt_primary (m pe : Nat) (pdata : Bytes) (p : Primary) (bs : List Blk) (o : Nat) :
    (fragAt m pe pdata p bs o).primary = fillPrimary (fragPrimary p o pdata.length) := rfl

theorem filled_setBtsd {b : FBundle} (v : Option Bytes) (h : Filled b) :
    Filled { b with blocks := setBtsd v b.blocks } := by
  refine ⟨h.1, ?_⟩
  intro y hy
  simp only [setBtsd, List.mem_map] at hy
  obtain ⟨x, hx, rfl⟩ := hy
  have := h.2 x hx
  split <;> simpa using this

theorem filled_fragAt (m pe : Nat) (pdata : Bytes) (p : Primary) (bs : List Blk) (o : Nat)
    (hp : FilledCrc p.crcType p.crc) (hbs : ∀ x ∈ bs, FilledCrc x.c.crcType x.c.crc) :
    Filled (fragAt m pe pdata p bs o) := by
  apply filled_setBtsd
  apply filled_fillFields
  refine ⟨hp, ?_⟩
  intro y hy
  simp only [clearPayload, List.mem_map] at hy
  obtain ⟨x, hx, rfl⟩ := hy
  have := hbs x (List.mem_filter.1 hx).1
  split <;> simpa using this

/-! ### block numbers -/

theorem n1_zero_of_not_mem (bs : List Blk) (h : 1 ∉ bs.map (fun x => x.c.blockNum)) : n1 bs = 0 := by
  induction bs with
  | nil => rfl
  | cons x xs ih =>
    simp only [List.map_cons, List.mem_cons, not_or] at h
    have hx : (x.c.blockNum == 1) = false := by
      simp only [beq_eq_false_iff_ne, ne_eq]; exact fun e => h.1 e.symm
    simp only [n1, List.filter_cons, hx]
    exact ih h.2

theorem n1_le_one_of_nodup (bs : List Blk) (h : (bs.map (fun x => x.c.blockNum)).Nodup) : n1 bs ≤ 1 := by
  induction bs with
  | nil => simp [n1]
  | cons x xs ih =>
    simp only [List.map_cons, List.nodup_cons] at h
    by_cases hx : (x.c.blockNum == 1) = true
    · have h1 : x.c.blockNum = 1 := by simpa using hx
      have := n1_zero_of_not_mem xs (h1 ▸ h.1)
      simp only [n1, List.filter_cons, hx, if_true, List.length_cons] at *
      omega
    · have hx' : (x.c.blockNum == 1) = false := by simpa using hx
      simp only [n1, List.filter_cons, hx'] at *
      exact ih h.2

theorem n1_of_numsOk {b : FBundle} (h : numsOk b = true) : n1 b.blocks ≤ 1 := by
  simp only [numsOk, decide_eq_true_eq, List.nodup_cons] at h
  exact n1_le_one_of_nodup _ h.2

theorem n1_setBtsd (v : Option Bytes) (bs : List Blk) : n1 (setBtsd v bs) = n1 bs := by
  apply n1_map
  intro x; split <;> rfl

/-! ### `send_bundle` -/

/-- the container when the transmit chain reaches `_create`: reloaded, defaults applied, fields
    filled, security steps run -/
def prep (cfg : Cfg) (now : Option Timestamp) (b : FBundle) : FBundle :=
  cfg.secStep (fillFields { b with primary := applyOpt now b.primary })

theorem sendBundle_ok (cfg : Cfg) (now : Option Timestamp) (mtu : Option Nat) (b : FBundle)
    (h1 : numsOk b = true) (h2 : crcTypesOk b = true) :
    sendBundle cfg now mtu b =
      match create mtu (prep cfg now b) with
      | .skip => ⟨false, some (finalize cfg (prep cfg now b)), []⟩
      | .frags fs => ⟨false, none, fs⟩
      | .raised fs true => ⟨true, none, fs⟩
      | .raised fs false => ⟨false, some (finalize cfg (prep cfg now b)), fs⟩ := by
  unfold sendBundle prep
  simp only [h1, h2, Bool.not_true, Bool.or_false, Bool.false_eq_true, if_false]
  split <;> simp_all

theorem sendBundle_bad (cfg : Cfg) (now : Option Timestamp) (mtu : Option Nat) (b : FBundle)
    (h : ¬ (numsOk b = true ∧ crcTypesOk b = true)) : sendBundle cfg now mtu b = ⟨true, none, []⟩ := by
  unfold sendBundle
  split
  · rfl
  · rename_i hh; simp at hh; exact absurd hh h

theorem create_of_isFragment (mtu : Option Nat) (b : FBundle) (h : isFragment b.primary.flags = true) :
    create mtu b = .skip := by
  cases mtu <;> simp [create, h]

theorem applyPrimary_id (now : Timestamp) (p : Primary) (h1 : p.ts.time ≠ 0) (h2 : p.lifetime ≠ 0) :
    applyPrimary now p = p := by
  simp [applyPrimary, h1, h2]

/-- Re-entry of a fragment through `send_bundle`: at most one byte string, of the fragment's size. -/
theorem resend_length (cfg : Cfg) (hsec : cfg.secStep = id)
    (hcrc : ∀ t d, (cfg.crcFn t d).length = crcWidth t) (mtu : Option Nat) (f : FBundle)
    (hf : Filled f) (hfr : isFragment f.primary.flags = true) :
    ∀ out ∈ resend cfg mtu f, out.length = f.size := by
  intro out hout
  unfold resend at hout
  split at hout
  · by_cases hok : numsOk f = true ∧ crcTypesOk f = true
    · rw [sendBundle_ok _ _ _ _ hok.1 hok.2] at hout
      have hp : prep cfg none f = fillFields f := by
        simp only [prep, hsec, id, applyOpt]
      rw [hp, create_of_isFragment _ _ (by simpa [fillFields, fillPrimary] using hfr)] at hout
      simp only [Option.toList, List.mem_singleton] at hout
      subst hout
      rw [finalize_length cfg hcrc _ (filled_fillFields hf), size_fillFields hf]
    · rw [sendBundle_bad _ _ _ _ hok] at hout
      simp at hout
  · simp at hout

/-- when `_create` fragments, this is what it computed -/
theorem create_frags {m : Nat} {b : FBundle} {fs : List FBundle} (h : create (some m) b = .frags fs) :
    ∃ pb pdata, payloadBlk b.blocks = some pb ∧ pb.c.btsd = some pdata ∧
      m < b.size ∧ noFragment b.primary.flags = false ∧ isFragment b.primary.flags = false ∧
      b.size - pdata.length + 3 * headLen pdata.length ≤ m ∧
      (createLoop m (headLen pdata.length) pdata b.primary b.blocks pdata.length 0) = (fs, false) := by
  unfold create at h
  simp only [] at h
  split at h
  · cases h
  · rename_i hc
    split at h
    · cases h
    · rename_i pb hpb
      split at h
      · cases h
      · rename_i pdata hpd
        split at h
        · cases h
        · rename_i hpre
          split at h
          · cases h
          · rename_i hr
            simp only [Bool.or_eq_true, Bool.not_eq_true', decide_eq_false_iff_not, not_or] at hc
            refine ⟨pb, pdata, hpb, hpd, ?_, ?_, ?_, by omega, ?_⟩
            · omega
            · simpa using hc.1.2
            · simpa using hc.2
            · injection h with h
              rw [← h]
              simp only [Bool.not_eq_true] at hr
              rw [← hr]

/-! ### tiling -/

/-- the payload data a container carries (block number 1) -/
def pdataOf (f : FBundle) : Bytes := f.payload.getD []

theorem payload_setBtsd (v : Option Bytes) (bs : List Blk) (h : ∃ x ∈ bs, x.c.blockNum = 1) :
    (payloadBlk (setBtsd v bs)).bind (fun x => x.c.btsd) = v := by
  induction bs with
  | nil => simp at h
  | cons x xs ih =>
    by_cases hx : (x.c.blockNum == 1) = true
    · have e : setBtsd v (x :: xs) = { x with c := { x.c with btsd := v } } :: setBtsd v xs := by
        simp only [setBtsd, List.map_cons, hx, if_true]
      rw [e]
      simp only [payloadBlk, List.find?_cons]
      have hh : (({ x with c := { x.c with btsd := v } } : Blk).c.blockNum == 1) = true := hx
      rw [hh]; rfl
    · have hx' : (x.c.blockNum == 1) = false := by simpa using hx
      have hne : x.c.blockNum ≠ 1 := by simpa using hx
      obtain ⟨y, hy, hy1⟩ := h
      have hy' : y ∈ xs := by
        rcases List.mem_cons.1 hy with e | e
        · exact absurd (e ▸ hy1) hne
        · exact e
      have e : setBtsd v (x :: xs) = x :: setBtsd v xs := by
        simp only [setBtsd, List.map_cons, hx']; rfl
      rw [e]
      have := ih ⟨y, hy', hy1⟩
      simp only [payloadBlk] at this
      simp only [payloadBlk, List.find?_cons, hx']
      exact this

theorem emptyFrag_has_payload (p : Primary) (bs : List Blk) (o t : Nat) (h : ∃ x ∈ bs, x.c.blockNum = 1) :
    ∃ y ∈ (emptyFrag p bs o t).blocks, y.c.blockNum = 1 := by
  obtain ⟨x, hx, h1⟩ := h
  have hb : (x.c.blockNum == 1) = true := by simp [h1]
  refine ⟨fillBlk { c := { x.c with btsd := some [] }, layer := none }, ?_, by simpa using h1⟩
  simp only [emptyFrag, fillFields, selectBlocks, clearPayload, List.mem_map]
  refine ⟨_, ⟨x, List.mem_filter.2 ⟨hx, by simp [h1]⟩, rfl⟩, ?_⟩
  simp only [hb, if_true]

theorem fragAt_payload (m pe : Nat) (pdata : Bytes) (p : Primary) (bs : List Blk) (o : Nat)
    (h : ∃ x ∈ bs, x.c.blockNum = 1) :
    (fragAt m pe pdata p bs o).payload = some ((pdata.drop o).take (budget m pe pdata p bs o)) :=
  payload_setBtsd _ _ (emptyFrag_has_payload p bs o pdata.length h)

theorem createLoop_done (m pe : Nat) (pdata : Bytes) (p : Primary) (bs : List Blk) (fuel off : Nat)
    (h : pdata.length ≤ off) : createLoop m pe pdata p bs fuel off = ([], false) := by
  cases fuel with
  | zero => rfl
  | succ n => rw [createLoop_succ]; simp [Nat.not_lt.2 h]

/-- offsets start at `start` and each fragment begins where the previous one ended -/
def offsetsContiguous : Nat → List FBundle → Prop
  | _, [] => True
  | start, f :: fs => f.primary.fragOff = start ∧ offsetsContiguous (start + (pdataOf f).length) fs

theorem createLoop_tiling (m pe : Nat) (pdata : Bytes) (p : Primary) (bs : List Blk)
    (hp : ∃ x ∈ bs, x.c.blockNum = 1) :
    ∀ (fuel off : Nat) (fs : List FBundle), pdata.length - off ≤ fuel →
      createLoop m pe pdata p bs fuel off = (fs, false) →
      (fs.map pdataOf).flatten = pdata.drop off ∧ offsetsContiguous off fs ∧
        ∀ f ∈ fs, f.payload.isSome ∧ pdataOf f ≠ [] := by
  intro fuel
  induction fuel with
  | zero =>
    intro off fs hf h
    simp only [createLoop] at h
    injection h with h _
    subst h
    simp [offsetsContiguous]; omega
  | succ n ih =>
    intro off fs hf h
    rw [createLoop_succ] at h
    split at h
    · rename_i hlt
      split at h
      · injection h with _ h; cases h
      · rename_i hm
        injection h with h1 h2
        have hb : 0 < budget m pe pdata p bs off := by unfold budget; omega
        have hpay := fragAt_payload m pe pdata p bs off hp
        have hpd : pdataOf (fragAt m pe pdata p bs off) = (pdata.drop off).take (budget m pe pdata p bs off) := by
          simp [pdataOf, hpay]
        obtain ⟨r1, r2, r3⟩ := ih (off + budget m pe pdata p bs off)
          (createLoop m pe pdata p bs n (off + budget m pe pdata p bs off)).1 (by omega)
          (by rw [← h2])
        subst h1
        refine ⟨?_, ⟨rfl, ?_⟩, ?_⟩
        · simp only [List.map_cons, List.flatten_cons, hpd, r1]
          rw [← List.drop_drop, List.take_append_drop]
        · rw [hpd]
          by_cases hle : off + budget m pe pdata p bs off < pdata.length
          · have : ((pdata.drop off).take (budget m pe pdata p bs off)).length = budget m pe pdata p bs off := by
              simp; omega
            rw [this]; exact r2
          · rw [createLoop_done _ _ _ _ _ _ _ (by omega)]
            trivial
        · intro f hf'
          rcases List.mem_cons.1 hf' with e | e
          · subst e
            refine ⟨by simp [hpay], ?_⟩
            rw [hpd]
            intro hnil
            have := congrArg List.length hnil
            simp at this
            omega
          · exact r3 f e
    · rename_i hlt
      injection h with h _
      subst h
      simp [offsetsContiguous]; omega

/-! ### block selection -/

theorem fillCrc_idem (t : Nat) (crc : Option Bytes) : fillCrc t (fillCrc t crc) = fillCrc t crc := by
  unfold fillCrc
  by_cases ht : (t == 0) = true
  · simp [ht]
  · simp only [ht]
    cases crc with
    | none => cases zeros (crcWidth t) <;> simp
    | some v => cases v <;> simp <;> (cases zeros (crcWidth t) <;> simp)

theorem fillBlk_idem (x : Blk) : fillBlk (fillBlk x) = fillBlk x := by
  rcases x with ⟨⟨t, n, f, ct, btsd, crc⟩, layer⟩
  cases btsd <;> cases layer <;> simp [fillBlk, Blk.ensure, fillCrc_idem]

theorem selectBlocks_zero (bs : List Blk) : selectBlocks 0 bs = bs := by
  simp [selectBlocks]

theorem mem_selectBlocks_succ (o : Nat) (bs : List Blk) (x : Blk) :
    x ∈ selectBlocks (o + 1) bs ↔ x ∈ bs ∧ (replicate x.c.flags = true ∨ x.c.blockNum = 1) := by
  simp [selectBlocks]

theorem selectBlocks_setBtsd (v : Option Bytes) (o : Nat) (bs : List Blk) :
    selectBlocks o (setBtsd v bs) = setBtsd v (selectBlocks o bs) := by
  simp only [selectBlocks, setBtsd, List.filter_map]
  congr 1
  apply List.filter_congr
  intro x _
  simp only [Function.comp]
  split <;> rfl

/-- replace the payload block's data and drop its scapy layer (what a fragment's payload block is) -/
def setPayload (d : Bytes) (bs : List Blk) : List Blk :=
  bs.map (fun x => if x.c.blockNum == 1 then { c := { x.c with btsd := some d }, layer := none } else x)

theorem fillCrc_of_fillBlk_eq {x : Blk} (h : fillBlk x = x) : fillCrc x.c.crcType x.c.crc = x.c.crc := by
  have := congrArg (fun y : Blk => y.c.crc) h
  simpa [fillBlk] using this

/-- The blocks of the fragment at offset `o`: the selected blocks of the container, payload data
    replaced (and the payload block's layer dropped). -/
theorem fragAt_blocks (m pe : Nat) (pdata : Bytes) (p : Primary) (bs : List Blk) (o : Nat)
    (hfill : ∀ x ∈ bs, fillBlk x = x) :
    (fragAt m pe pdata p bs o).blocks =
      setPayload ((pdata.drop o).take (budget m pe pdata p bs o)) (selectBlocks o bs) := by
  show setBtsd _ ((clearPayload (selectBlocks o bs)).map fillBlk) = _
  simp only [setBtsd, clearPayload, setPayload, List.map_map]
  apply List.map_congr_left
  intro x hx
  have hf := hfill x (List.mem_filter.1 hx).1
  have hc := fillCrc_of_fillBlk_eq hf
  simp only [Function.comp]
  by_cases hn : (x.c.blockNum == 1) = true
  · simp only [hn, if_true]
    have : (fillBlk { c := { x.c with btsd := some [] }, layer := none }) =
        { c := { x.c with btsd := some [], crc := x.c.crc }, layer := none } := by
      simp [fillBlk, Blk.ensure, hc]
    rw [this]
    simp [hn, budget]
  · have hn' : (x.c.blockNum == 1) = false := by simpa using hn
    simp only [hn', Bool.false_eq_true, if_false, hf]

/-! ### every scheduled fragment is really sent -/

theorem nums_setBtsd (v : Option Bytes) (l : List Blk) :
    (setBtsd v l).map (fun x => x.c.blockNum) = l.map (fun x => x.c.blockNum) := by
  simp only [setBtsd, List.map_map]
  apply List.map_congr_left
  intro x _
  simp only [Function.comp]
  split <;> rfl

theorem nums_fragAt (m pe : Nat) (pdata : Bytes) (p : Primary) (bs : List Blk) (o : Nat) :
    (fragAt m pe pdata p bs o).blocks.map (fun x => x.c.blockNum)
      = (selectBlocks o bs).map (fun x => x.c.blockNum) := by
  show (setBtsd _ ((clearPayload (selectBlocks o bs)).map fillBlk)).map _ = _
  rw [nums_setBtsd, clearPayload, List.map_map, List.map_map]
  apply List.map_congr_left
  intro x _
  simp only [Function.comp, fillBlk_num]
  split <;> rfl

theorem numsOk_fragAt (m pe : Nat) (pdata : Bytes) (p : Primary) (bs : List Blk) (o : Nat)
    (h : (0 :: bs.map (fun x => x.c.blockNum)).Nodup) : numsOk (fragAt m pe pdata p bs o) = true := by
  simp only [numsOk, decide_eq_true_eq, nums_fragAt]
  apply List.Nodup.sublist _ h
  apply List.Sublist.cons_cons
  exact (List.filter_sublist).map _

theorem crcTypesOk_fragAt (m pe : Nat) (pdata : Bytes) (p : Primary) (bs : List Blk) (o : Nat)
    (hp : p.crcType ≤ 2) (hb : ∀ x ∈ bs, x.c.crcType ≤ 2) : crcTypesOk (fragAt m pe pdata p bs o) = true := by
  simp only [crcTypesOk, Bool.and_eq_true, decide_eq_true_eq, List.all_eq_true]
  refine ⟨hp, ?_⟩
  intro y hy
  have hy' : y ∈ setBtsd _ ((clearPayload (selectBlocks o bs)).map fillBlk) := hy
  simp only [setBtsd, clearPayload, List.mem_map] at hy'
  obtain ⟨z, ⟨w, ⟨x, hx, rfl⟩, rfl⟩, rfl⟩ := hy'
  have := hb x (List.mem_filter.1 hx).1
  split <;> split <;> simpa using this

/-- the re-entry of a fragment hands exactly one byte string to the CL -/
theorem resend_eq (cfg : Cfg) (hsec : cfg.secStep = id) (hre : cfg.reroute = true) (mtu : Option Nat)
    (f : FBundle) (hn : numsOk f = true) (hc : crcTypesOk f = true)
    (hfr : isFragment f.primary.flags = true) :
    resend cfg mtu f = [finalize cfg (fillFields f)] := by
  unfold resend
  rw [if_pos hre, sendBundle_ok _ _ _ _ hn hc]
  have hp : prep cfg none f = fillFields f := by
    simp only [prep, hsec, id, applyOpt]
  rw [hp, create_of_isFragment _ _ (by simpa [fillFields, fillPrimary] using hfr)]
  rfl

/-! ### when the pre-check passes the loop cannot raise (payload block without a scapy layer) -/

theorem headLen_setFragFlag (f : Nat) (h : isFragment f = false) : headLen (setFragFlag f) = headLen f := by
  have h2 : f % 2 = 0 := by simp only [isFragment] at h; simp at h; omega
  simp only [setFragFlag, h, Bool.false_eq_true, if_false]
  unfold headLen
  split <;> split <;> (try split) <;> (try split) <;> (try split) <;> (try split) <;> (try split) <;>
    (try split) <;> omega

theorem count_headLen (p : Primary) : headLen p.count = 1 := by
  unfold Primary.count headLen
  split <;> split <;> simp <;> omega

theorem primBody_fragPrimary (p : Primary) (o L : Nat) (h : isFragment p.flags = false) :
    primBody (fragPrimary p o L) = primBody p + headLen o + headLen L := by
  have h1 := isFragment_setFragFlag p.flags
  have h2 := headLen_setFragFlag p.flags h
  have h3 := count_headLen (fragPrimary p o L)
  have h4 := count_headLen p
  simp only [primBody, h3, h4]
  simp only [fragPrimary, h1, h, h2, if_true, Bool.false_eq_true, if_false]
  omega

theorem fragPrimary_enc_length (p : Primary) (o L : Nat) (h : isFragment p.flags = false)
    (hf : FilledCrc p.crcType p.crc) :
    (fillPrimary (fragPrimary p o L)).enc.length = p.enc.length + headLen o + headLen L := by
  have hf' : FilledCrc (fragPrimary p o L).crcType (fragPrimary p o L).crc := hf
  rw [fillPrimary_length _ hf', primary_enc_length, primary_enc_length, primBody_fragPrimary p o L h]
  show _ + crcLen p.crcType p.crc = _
  omega

theorem blksLen_filter_le (q : Blk → Bool) (bs : List Blk) : blksLen (bs.filter q) ≤ blksLen bs := by
  induction bs with
  | nil => simp
  | cons x xs ih =>
    simp only [List.filter_cons]
    split
    · simp only [blksLen_cons]; omega
    · simp only [blksLen_cons]; omega

theorem clearPayload_of_n1_zero (bs : List Blk) (h : n1 bs = 0) : clearPayload bs = bs := by
  induction bs with
  | nil => rfl
  | cons x xs ih =>
    simp only [n1, List.filter_cons] at h
    split at h
    · simp at h
    · rename_i hx
      have hx' : (x.c.blockNum == 1) = false := by simpa using hx
      have hxs : n1 xs = 0 := h
      simp only [clearPayload, List.map_cons, hx', Bool.false_eq_true, if_false]
      simp only [clearPayload] at ih
      rw [ih hxs]

theorem selectBlocks_clearPayload (o : Nat) (bs : List Blk) :
    selectBlocks o (clearPayload bs) = clearPayload (selectBlocks o bs) := by
  simp only [selectBlocks, clearPayload, List.filter_map]
  congr 1
  apply List.filter_congr
  intro x _
  simp only [Function.comp]
  split <;> rfl

/-- emptying the payload block (data := b'', layer dropped) shrinks its data field to one octet -/
theorem blksLen_clearPayload (bs : List Blk) (pb : Blk) (pdata : Bytes) (h1 : n1 bs ≤ 1)
    (hpb : payloadBlk bs = some pb) (hd : pb.c.btsd = some pdata) :
    blksLen (clearPayload bs) + optLen (some pdata) = blksLen bs + 1 := by
  induction bs with
  | nil => simp [payloadBlk] at hpb
  | cons x xs ih =>
    by_cases hx : (x.c.blockNum == 1) = true
    · have hxs : n1 xs = 0 := by
        simp only [n1, List.filter_cons, hx, if_true, List.length_cons] at h1
        simp only [n1]; omega
      have hxp : x = pb := by
        simp only [payloadBlk, List.find?_cons, hx] at hpb
        exact Option.some.inj hpb
      subst hxp
      have hs : clearPayload (x :: xs) = { c := { x.c with btsd := some [] }, layer := none } :: xs := by
        have := clearPayload_of_n1_zero xs hxs
        simp only [clearPayload] at this
        simp only [clearPayload, List.map_cons, hx, if_true, this]
      rw [hs, blksLen_cons, blksLen_cons]
      have e1 : ({ c := { x.c with btsd := some [] }, layer := none } : Blk).ensure
          = { c := { x.c with btsd := some [] }, layer := none } := ensure_btsd_some _ [] rfl
      have e2 : x.ensure = x := ensure_btsd_some x pdata hd
      rw [e1, e2, canon_enc_length, canon_enc_length, hd]
      simp [canonFixed, Canonical.count, optLen, headLen]
      omega
    · have hx' : (x.c.blockNum == 1) = false := by simpa using hx
      have hxs : n1 xs ≤ 1 := by
        simp only [n1, List.filter_cons, hx'] at h1
        simpa [n1] using h1
      have hpb' : payloadBlk xs = some pb := by
        simpa only [payloadBlk, List.find?_cons, hx'] using hpb
      have hs : clearPayload (x :: xs) = x :: clearPayload xs := by
        simp only [clearPayload, List.map_cons, hx']; rfl
      rw [hs, blksLen_cons, blksLen_cons]
      have := ih hxs hpb'
      omega

/-- size of the "empty" fragment at any offset below the payload length -/
theorem emptyFrag_size_le (b : FBundle) (pb : Blk) (pdata : Bytes) (o : Nat) (hfl : Filled b)
    (hfr : isFragment b.primary.flags = false) (h1 : n1 b.blocks ≤ 1)
    (hpb : payloadBlk b.blocks = some pb) (hd : pb.c.btsd = some pdata)
    (ho : o < pdata.length) :
    (emptyFrag b.primary b.blocks o pdata.length).size + pdata.length
      ≤ b.size + headLen pdata.length + 1 := by
  have hsel : ∀ y ∈ clearPayload (selectBlocks o b.blocks), FilledCrc y.c.crcType y.c.crc := by
    intro y hy
    simp only [clearPayload, List.mem_map] at hy
    obtain ⟨x, hx, rfl⟩ := hy
    have := hfl.2 x (List.mem_filter.1 hx).1
    split <;> simpa using this
  have hb1 := blksLen_fill _ hsel
  have hb2 := blksLen_filter_le (fun x => o == 0 || replicate x.c.flags || x.c.blockNum == 1) (clearPayload b.blocks)
  have hb3 := blksLen_clearPayload b.blocks pb pdata h1 hpb hd
  have hb4 := selectBlocks_clearPayload o b.blocks
  have hp := fragPrimary_enc_length b.primary o pdata.length hfr hfl.1
  have hm := headLen_mono (Nat.le_of_lt ho)
  have hs := size_eq b
  rw [size_eq]
  simp only [emptyFrag, fillFields]
  rw [hb1, ← hb4]
  simp only [selectBlocks, optLen] at *
  omega

theorem createLoop_no_raise (m pe : Nat) (pdata : Bytes) (p : Primary) (bs : List Blk)
    (h : ∀ o, o < pdata.length → (emptyFrag p bs o pdata.length).size - 1 + pe < m) :
    ∀ fuel off, (createLoop m pe pdata p bs fuel off).2 = false := by
  intro fuel
  induction fuel with
  | zero => intro off; rfl
  | succ n ih =>
    intro off
    rw [createLoop_succ]
    split
    · rename_i hlt
      have := h off hlt
      split
      · omega
      · exact ih _
    · rfl

/-! ### exact size of a fragment -/

/-- replacing the data of the payload block (effective data `old`) by `d`: exact change of length -/
theorem blksLen_setBtsd_eq (d : Bytes) (bs : List Blk) (pb : Blk) (h1 : n1 bs ≤ 1)
    (hpb : payloadBlk bs = some pb) :
    blksLen (setBtsd (some d) bs) + optLen pb.ensure.c.btsd = blksLen bs + optLen (some d) := by
  induction bs with
  | nil => simp [payloadBlk] at hpb
  | cons x xs ih =>
    by_cases hx : (x.c.blockNum == 1) = true
    · have hxs : n1 xs = 0 := by
        simp only [n1, List.filter_cons, hx, if_true, List.length_cons] at h1
        simp only [n1]; omega
      have hxp : x = pb := by
        simp only [payloadBlk, List.find?_cons, hx] at hpb
        exact Option.some.inj hpb
      subst hxp
      have hs : setBtsd (some d) (x :: xs) = { x with c := { x.c with btsd := some d } } :: xs := by
        have := setBtsd_of_n1_zero (some d) xs hxs
        simp only [setBtsd] at this
        simp only [setBtsd, List.map_cons, hx, if_true, this]
      rw [hs, blksLen_cons, blksLen_cons]
      have := canon_len_setBtsd x d
      omega
    · have hx' : (x.c.blockNum == 1) = false := by simpa using hx
      have hxs : n1 xs ≤ 1 := by
        simp only [n1, List.filter_cons, hx'] at h1
        simpa [n1] using h1
      have hpb' : payloadBlk xs = some pb := by
        simpa only [payloadBlk, List.find?_cons, hx'] using hpb
      have hs : setBtsd (some d) (x :: xs) = x :: setBtsd (some d) xs := by
        simp only [setBtsd, List.map_cons, hx']; rfl
      rw [hs, blksLen_cons, blksLen_cons]
      have := ih hxs hpb'
      omega

/-- the payload block of the "empty" fragment carries the empty string (one octet) -/
theorem emptyFrag_payloadBlk (p : Primary) (bs : List Blk) (o t : Nat) (h : ∃ x ∈ bs, x.c.blockNum = 1) :
    ∃ pb, payloadBlk (emptyFrag p bs o t).blocks = some pb ∧ pb.ensure.c.btsd = some [] := by
  have hex : ∃ y ∈ selectBlocks o bs, y.c.blockNum = 1 := by
    obtain ⟨x, hx, h1⟩ := h
    exact ⟨x, List.mem_filter.2 ⟨hx, by simp [h1]⟩, h1⟩
  simp only [emptyFrag, fillFields, clearPayload, List.map_map]
  generalize selectBlocks o bs = l at hex
  induction l with
  | nil => simp at hex
  | cons x xs ih =>
    by_cases hx : (x.c.blockNum == 1) = true
    · refine ⟨fillBlk { c := { x.c with btsd := some [] }, layer := none }, ?_, ?_⟩
      · have hb : ((fillBlk { c := { x.c with btsd := some [] }, layer := none }).c.blockNum == 1) = true := by
          rw [fillBlk_num]; exact hx
        simp only [payloadBlk, List.map_cons, List.find?_cons, Function.comp, hx, if_true, hb]
      · simp [fillBlk, Blk.ensure]
    · have hx' : (x.c.blockNum == 1) = false := by simpa using hx
      have hne : x.c.blockNum ≠ 1 := by simpa using hx
      obtain ⟨y, hy, hy1⟩ := hex
      have hy' : y ∈ xs := by
        rcases List.mem_cons.1 hy with e | e
        · exact absurd (e ▸ hy1) hne
        · exact e
      obtain ⟨pb, h1, h2⟩ := ih ⟨y, hy', hy1⟩
      refine ⟨pb, ?_, h2⟩
      simp only [payloadBlk, List.map_cons, List.find?_cons, Function.comp, hx', Bool.false_eq_true, if_false,
        fillBlk_num]
      simpa [payloadBlk, Function.comp] using h1

/-- **Exact size of a fragment** ("payload swap"): the empty fragment, minus the one-octet empty
    string, plus the CBOR head of the fragment's OWN payload length, plus the payload. -/
theorem fragAt_size_eq (m pe : Nat) (pdata : Bytes) (p : Primary) (bs : List Blk) (o : Nat)
    (h1 : n1 bs ≤ 1) (hp : ∃ x ∈ bs, x.c.blockNum = 1) :
    (fragAt m pe pdata p bs o).size + 1 =
      (emptyFrag p bs o pdata.length).size + headLen (pdataOf (fragAt m pe pdata p bs o)).length
        + (pdataOf (fragAt m pe pdata p bs o)).length := by
  obtain ⟨pb, hpb, hbt⟩ := emptyFrag_payloadBlk p bs o pdata.length hp
  have hn := n1_emptyFrag p bs o pdata.length h1
  have hpd : pdataOf (fragAt m pe pdata p bs o) = (pdata.drop o).take (budget m pe pdata p bs o) := by
    simp [pdataOf, fragAt_payload m pe pdata p bs o hp]
  have heq := blksLen_setBtsd_eq ((pdata.drop o).take (budget m pe pdata p bs o)) _ pb hn hpb
  rw [hbt] at heq
  have h0 : optLen (some ([] : Bytes)) = 1 := by decide
  rw [h0] at heq
  rw [hpd, size_eq, size_eq]
  simp only [optLen] at heq
  simp only [fragAt, budget] at *
  omega

/-! ### a CL sender that raises -/

theorem runIdle_handed (cfg : Cfg) (mtu : Option Nat) (fail : Nat → Bool) :
    ∀ (fs : List FBundle) (i : Nat), (runIdle cfg mtu fail i fs).1 = fs.flatMap (resend cfg mtu) := by
  intro fs
  induction fs with
  | nil => intro i; rfl
  | cons f fs ih => intro i; simp only [runIdle, List.flatMap_cons, ih]

end Frag
end DtnVerif
