/-
  No deadlock while terminating.  Two endpoints which have processed everything the other one
  emitted, with no idle source and no TX source left at either, both terminating: neither can still
  be open — unless a KEEPALIVE was the last thing one of them heard (then the keepalive timer, which
  is still armed, is what will close it; that case is excluded by hypothesis here).
-/
import DtnVerif.Lemmas.TcpclLive
import DtnVerif.Lemmas.TcpclCausalSys
import DtnVerif.Lemmas.TcpclClose
import DtnVerif.Lemmas.TcpclGot
import DtnVerif.Lemmas.TcpclPendEnd
import DtnVerif.Lemmas.TcpclLegalMore
namespace DtnVerif
namespace Tcpcl

/-- everything about one endpoint the argument uses -/
structure EpAll (e : Ep) : Prop where
  inv : EpInv e
  wake : WakeInv e
  q : QInv e
  sp : SP e
  as : ASInv e
  ak : AckSeqInv e
  ci : CI e
  ts : TSok e
  pe : PEInv e
  got : GotInv e
  cl : CL e
  rm : e.rxMore = false

/-- a whole legal, well-formed stream leaves nothing in the receive buffer -/
theorem stream_full_rx (ms : List Msg) (hl : (legalRun {} ms).isSome) (hwf : ∀ m ∈ ms, m.WF) :
    (feed {} (encodeAll ms)).1.buf = [] := by
  rcases legal_shape ms hl with rfl | ⟨f, rest, rfl, hrest⟩
  · have h : feed {} (encodeAll ([] : List Msg)) = ({}, []) := by decide
    rw [h]
  · have hf : f < 256 := hwf (.contact f) (by simp)
    have hall : ∀ m ∈ rest, m.WF ∧ m.isContact = false :=
      fun m hm => ⟨hwf m (by simp [hm]), hrest m hm⟩
    rw [C07_stream f hf rest hall]

theorem no_src_buffers {e : Ep} (ht : TSok e) (ho : e.closed = false) (hs : e.txSrc = 0) :
    e.txBuf = [] ∧ e.connBuf = [] := by
  constructor
  · cases h : e.txBuf with
    | nil => rfl
    | cons x l =>
      have := ht.buf ho (Or.inl (by rw [h]; simp))
      rw [hs] at this; exact absurd this (Nat.lt_irrefl 0)
  · cases h : e.connBuf with
    | nil => rfl
    | cons x l =>
      have := ht.buf ho (Or.inr (by rw [h]; simp))
      rw [hs] at this; exact absurd this (Nat.lt_irrefl 0)

theorem no_wake_tx {e : Ep} (hw : WakeInv e) (ho : e.closed = false) (hp : e.pqSources = 0) (hb : e.txBuf = []) :
    e.txTmp = none ∧ e.txPendStart = [] := by
  have htmp : e.txTmp = none := by
    cases h : e.txTmp with
    | none => rfl
    | some p =>
      rcases hw.tmp ho (by simp [h]) with h1 | h1
      · rw [hp] at h1; exact absurd h1 (Nat.lt_irrefl 0)
      · exact absurd hb h1
  refine ⟨htmp, ?_⟩
  cases h : e.txPendStart with
  | nil => rfl
  | cons a l =>
    have := hw.start ho htmp (by simp [h])
    rw [hp] at this; exact absurd this (Nat.lt_irrefl 0)

theorem mem_of_getLast? {α : Type} {l : List α} {x : α} (h : l.getLast? = some x) : x ∈ l := by
  obtain ⟨pre, rfl⟩ := List.getLast?_eq_some_iff.mp h
  simp

theorem acksOf_getLast? {ms : List Msg} {m : Msg} (h : ms.getLast? = some m) (ha : isAck m = true) :
    (acksOf ms).getLast? = some m := by
  obtain ⟨pre, rfl⟩ := List.getLast?_eq_some_iff.mp h
  rw [acksOf_append]
  have : acksOf [m] = [m] := by
    simp only [acksOf, List.filter_cons, ha, if_true, List.filter_nil]
  rw [this]; simp

theorem endSeg_segInfo {t : Nat} {ms : List Msg} (h : endSeg t ms) : (t, true) ∈ segInfo ms := by
  obtain ⟨f, x, d, he, hm⟩ := h
  simp only [segInfo, List.mem_flatMap]
  exact ⟨_, hm, by simp [segInfoOf, he]⟩

/-- **The core.** `x` and `y` have each processed everything the other emitted, neither has a wake-up
    source left, both are terminating and `x` has the peer's SESS_TERM: then `x` is not open. -/
theorem quiet_not_open (x y : Ep) (hx : EpAll x) (hy : EpAll y)
    (hxy : y.processed = x.emitted) (hyx : x.processed = y.emitted)
    (hxrx : x.rxBytes = encodeAll y.emitted) (hwfy : ∀ m ∈ y.emitted, m.WF)
    (yo : y.closed = false)
    (xpq : x.pqSources = 0) (xsrc : x.txSrc = 0) (ypq : y.pqSources = 0) (ysrc : y.txSrc = 0)
    (xterm : x.inTerm = true) (xgot : x.gotTerm = true) (yterm : y.inTerm = true)
    (noka : ∀ m ∈ y.emitted, m ≠ .keepalive) : x.closed = true := by
  apply Classical.byContradiction
  intro hne
  have xo : x.closed = false := by simpa using hne
  clear hne
  obtain ⟨Px, hPx⟩ := hx.inv.tx
  obtain ⟨Py, hPy⟩ := hy.inv.tx
  -- nothing buffered, nothing being sent
  obtain ⟨xb1, xb2⟩ := no_src_buffers hx.ts xo xsrc
  obtain ⟨yb1, _⟩ := no_src_buffers hy.ts yo ysrc
  obtain ⟨xtmp, xps⟩ := no_wake_tx hx.wake xo xpq xb1
  obtain ⟨ytmp, _⟩ := no_wake_tx hy.wake yo ypq yb1
  -- nothing half-received
  have xrxbuf : x.rx.buf = [] := by
    have h1 : (feed {} x.rxBytes).1 = x.rx := hx.inv.frame.1
    rw [← h1, hxrx]
    exact stream_full_rx _ (emitted_legal hy.inv) hwfy
  have xrxtmp : x.rxTmp = none := by
    rw [hx.inv.rx.2.1, hyx]
    have hD := hPy.D
    simp only [Ep.txView] at hD
    rw [hD]
    simp [curD, ytmp]
  -- nothing awaiting its final acknowledgement
  have xpa : x.txPendAck = [] := by
    cases hpa : x.txPendAck with
    | nil => rfl
    | cons t l =>
      exfalso
      have htm : t ∈ x.txPendAck := by rw [hpa]; simp
      have hseg := endSeg_segInfo (hx.pe t htm)
      have hleg : (legalRun {} x.emitted).isSome := emitted_legal hx.inv
      rw [← owed_info_legal x.emitted hleg] at hseg
      obtain ⟨a, ha, hai⟩ := List.mem_map.mp hseg
      have hak : acksOf y.emitted = specAcks x.emitted := by
        have := hy.ak; unfold AckSeqInv at this; rw [this, hxy]
      rw [← hak] at ha
      have hay : a ∈ y.emitted := (List.mem_filter.mp ha).1
      have haa : isAck a = true := (List.mem_filter.mp ha).2
      cases a with
      | xferAck f t' l' =>
        simp only [ackInfo, ackTid, ackIsEnd, Prod.mk.injEq] at hai
        obtain ⟨rfl, hend⟩ := hai
        have hproc : Msg.xferAck f t' l' ∈ x.processed := by rw [hyx]; exact hay
        have := hx.as _ hproc
        simp only [asOK] at this
        rcases this hend with hsu | ⟨r, hr, hrj⟩
        · have hnm := (hx.sp.succ t' hsu).1
          apply hnm
          apply (hx.q.iff t').mpr
          simp only [Ep.inflight, List.mem_append]
          exact Or.inr (Or.inr htm)
        · have := hx.ci.norej
          simp only [rejsOf, List.filter_eq_nil_iff] at this
          exact this r hr hrj
      | _ => simp [isAck] at haa
  -- so the session is idle and the closing condition holds
  have hdone : Done x = true := by
    simp [Done, isSessIdle, xterm, xgot, xrxbuf, hx.rm, xb1, xb2, xrxtmp, xtmp, xps, xpa]
  rcases hx.cl xo hdone with h | h | ⟨m, hlast, htrail⟩
  · rw [xpq] at h; exact absurd h (Nat.lt_irrefl 0)
  · rw [xsrc] at h; exact absurd h (Nat.lt_irrefl 0)
  · -- the last message processed is not one after which the code re-checks: impossible here
    rw [hyx] at hlast
    have hmem : m ∈ y.emitted := mem_of_getLast? hlast
    have hLy := hPy.L
    simp only [Ep.txView] at hLy
    cases m with
    | sessInit ka sm xm node ext =>
      have hnot := last_not_init y.emitted _ hLy ka sm xm node ext hlast
      have hts : (⟨phaseOf y.txView, y.inTerm, curL y.txView, y.nStarted⟩ : LState).termSeen = true := yterm
      rcases termSeen_of_run y.emitted {} _ hLy hts with h | ⟨z, hz, hzt⟩
      · cases h
      · rw [hnot z hz] at hzt; cases hzt
    | keepalive => exact noka _ hmem rfl
    | msgReject a b =>
      have := hy.ci.norej
      simp only [rejsOf, List.filter_eq_nil_iff] at this
      exact this _ hmem rfl
    | xferAck f t l =>
      have hne : hasEnd f = false := by simpa [Msg.isTrail] using htrail
      have h1 := acksOf_getLast? hlast rfl
      have hak : acksOf y.emitted = specAcks x.emitted := by
        have := hy.ak; unfold AckSeqInv at this; rw [this, hxy]
      rw [hak] at h1
      have hleg : (legalRun {} x.emitted).isSome := emitted_legal hx.inv
      have h2 : ((specAcks x.emitted).map ackInfo).getLast? = some (t, false) := by
        rw [List.getLast?_map, h1]; simp [ackInfo, ackTid, ackIsEnd, hne]
      rw [owed_info_legal x.emitted hleg] at h2
      have hLx := hPx.L
      simp only [Ep.txView] at hLx
      have := cur_of_last_seg x.emitted {} _ hLx
      rw [h2] at this
      simp only [curL, xtmp, Option.map_none, Option.isSome_none] at this
      cases this
    | contact f => simp [Msg.isTrail] at htrail
    | sessTerm f r => simp [Msg.isTrail] at htrail
    | xferSegment f t e d => simp [Msg.isTrail] at htrail
    | xferRefuse r t => simp [Msg.isTrail] at htrail

end Tcpcl
end DtnVerif
