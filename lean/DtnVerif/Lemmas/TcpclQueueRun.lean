/-
  History-level queue statements: over any event list, the send queue is exactly "ids handed out by
  `send` minus ids signalled finished", no id is signalled finished twice, and the receive queue
  follows the `recv_bundle_finished` signals and the `pop` calls.
-/
import DtnVerif.Lemmas.TcpclQueue
namespace DtnVerif
namespace Tcpcl

theorem run_cons_fst (e : Ep) (ev : Ev) (evs : List Ev) : (run e (ev :: evs)).1 = (run (step e ev).1 evs).1 := by
  simp [run]
theorem run_cons_snd (e : Ep) (ev : Ev) (evs : List Ev) :
    (run e (ev :: evs)).2 = (step e ev).2 :: (run (step e ev).1 evs).2 := by
  simp [run]

/-- what `send` calls returned during a trace -/
def sendRets : List Ev → List (List Out) → List Out
  | ev :: evs, os :: oss => (if ev.isSend then os else []) ++ sendRets evs oss
  | _, _ => []

def retId (t : Nat) : Out := .ret (.str (natStr t))

/-- the transmit history between `e0` and `e`, `fin` = finished signals so far (id, length, text) -/
structure TxHist (e0 e : Ep) (fin : List (Nat × Nat × String)) : Prop where
  inv : QInv e
  fresh0 : ∀ t ∈ e0.txMap, t < e0.txNextId
  le : e0.txNextId ≤ e.txNextId
  nd : (fin.map (·.1)).Nodup
  was : ∀ t ∈ fin.map (·.1), t ∈ e0.txMap ∨ (e0.txNextId ≤ t ∧ t < e.txNextId)
  live : ∀ t, t ∈ e.txMap ↔ (t ∈ e0.txMap ∨ (e0.txNextId ≤ t ∧ t < e.txNextId)) ∧ t ∉ fin.map (·.1)

theorem TxHist.init {e0 : Ep} (hi : QInv e0) : TxHist e0 e0 [] :=
  ⟨hi, hi.fresh, Nat.le_refl _, by simp, by simp, by
    intro t; simp only [List.map_nil, List.not_mem_nil, not_false_eq_true, and_true]
    constructor
    · exact Or.inl
    · rintro (h | ⟨h1, h2⟩)
      · exact h
      · omega⟩

/-- a step that hands out no id -/
theorem TxHist.step_rel {e0 e : Ep} {fin} (h : TxHist e0 e fin) {r : Res} (hi : QInv r.1) (hr : TxRel e r) :
    ∃ f1, txFin r.2 = f1.map txSig ∧ TxHist e0 r.1 (fin ++ f1) := by
  obtain ⟨f1, a1, a2, a3, a4, a5⟩ := hr
  refine ⟨f1, a1, ⟨hi, h.fresh0, a5 ▸ h.le, ?_, ?_, ?_⟩⟩
  · simp only [List.map_append]
    refine List.nodup_append.mpr ⟨h.nd, a4, ?_⟩
    intro x hx y hy hxy
    subst hxy
    exact ((h.live x).mp (a3 x hy)).2 hx
  · intro t ht
    simp only [List.map_append, List.mem_append] at ht
    rw [a5]
    rcases ht with ht | ht
    · exact h.was t ht
    · exact ((h.live t).mp (a3 t ht)).1
  · intro t
    rw [a2, a5, List.mem_filter, h.live t]
    simp only [List.map_append, List.mem_append, not_or, Bool.not_eq_true', List.contains_eq_mem,
      decide_eq_false_iff_not, and_assoc]

theorem TxHist.step_send {e0 e : Ep} {fin} (h : TxHist e0 e fin) (d : Bytes) (hc : e.closed = false) :
    TxHist e0 (step e (.send d)).1 fin := by
  obtain ⟨_, hm, hx, _, _, _⟩ := q_step_send_fields e d hc
  refine ⟨q_step_send e d hc h.inv, h.fresh0, by rw [hx]; exact Nat.le_succ_of_le h.le, h.nd, ?_, ?_⟩
  · intro t ht
    rw [hx]
    rcases h.was t ht with h1 | ⟨h1, h2⟩
    · exact Or.inl h1
    · exact Or.inr ⟨h1, Nat.lt_succ_of_lt h2⟩
  · intro t
    rw [hm, hx]
    simp only [List.mem_append, List.mem_cons, List.not_mem_nil, or_false]
    rw [h.live t]
    have hle := h.le
    constructor
    · rintro (⟨h1 | ⟨h1, h2⟩, h3⟩ | h1)
      · exact ⟨Or.inl h1, h3⟩
      · exact ⟨Or.inr ⟨h1, Nat.lt_succ_of_lt h2⟩, h3⟩
      · subst h1
        refine ⟨Or.inr ⟨hle, Nat.lt_succ_self _⟩, ?_⟩
        intro hf
        rcases h.was _ hf with h1 | ⟨_, h2⟩
        · have := h.fresh0 _ h1; omega
        · omega
    · rintro ⟨h1 | ⟨h1, h2⟩, h3⟩
      · exact Or.inl ⟨Or.inl h1, h3⟩
      · by_cases ht : t = e.txNextId
        · exact Or.inr ht
        · exact Or.inl ⟨Or.inr ⟨h1, by omega⟩, h3⟩

theorem txFin_step_send (e : Ep) (d : Bytes) : txFin (step e (.send d)).2 = [] := by
  cases hc : e.closed
  · rw [(q_step_send_fields e d hc).1]; rfl
  · rw [q_step_send_closed e d hc]; rfl

theorem TxHist.step_any {e0 e : Ep} {fin} (h : TxHist e0 e fin) (ev : Ev) :
    ∃ f1, txFin (step e ev).2 = f1.map txSig ∧ TxHist e0 (step e ev).1 (fin ++ f1) ∧
      (if ev.isSend then (step e ev).2 else []) =
        (List.range' e.txNextId ((step e ev).1.txNextId - e.txNextId)).map retId := by
  by_cases hs : ev.isSend = true
  · cases ev with
    | send d =>
      refine ⟨[], by simp [txFin_step_send], ?_, ?_⟩
      · cases hc : e.closed
        · simpa using h.step_send d hc
        · rw [q_step_send_closed e d hc]; simpa using h
      · cases hc : e.closed
        · obtain ⟨ho, _, hx, _⟩ := q_step_send_fields e d hc
          simp [Ev.isSend, ho, hx, retId, List.range'_one]
        · rw [q_step_send_closed e d hc]; simp [Ev.isSend]
    | _ => simp [Ev.isSend] at hs
  · have hs' : ev.isSend = false := by simpa using hs
    by_cases hp : ev.isPop = true
    · cases ev with
      | pop tid =>
        rw [q_step_pop]
        obtain ⟨p1, p2, p3, _, p5, _⟩ := qv_tx_popRx e tid
        refine ⟨[], by simp [p5], ?_, by simp [Ev.isSend, p2]⟩
        simp only [List.append_nil]
        refine ⟨⟨p3 ▸ h.inv.fl, p1 ▸ h.inv.nd, by rw [p1, p3]; exact h.inv.iff, by rw [p1, p2]; exact h.inv.fresh⟩,
          h.fresh0, p2 ▸ h.le, h.nd, by rw [p2]; exact h.was, by rw [p1, p2]; exact h.live⟩
      | _ => simp [Ev.isPop] at hp
    · have hp' : ev.isPop = false := by simpa using hp
      obtain ⟨hi, hr, _⟩ := q_step e ev hs' hp' h.inv
      obtain ⟨f1, a, b⟩ := h.step_rel hi hr
      refine ⟨f1, a, b, ?_⟩
      obtain ⟨_, _, _, _, _, hx⟩ := hr
      simp [hs', hx]

theorem q_run_tx_aux (evs : List Ev) : ∀ (e0 e : Ep) (fin : List (Nat × Nat × String)), TxHist e0 e fin →
    ∃ f, txFin (run e evs).2.flatten = f.map txSig ∧ TxHist e0 (run e evs).1 (fin ++ f) ∧
      sendRets evs (run e evs).2 = (List.range' e.txNextId ((run e evs).1.txNextId - e.txNextId)).map retId := by
  induction evs with
  | nil => intro e0 e fin h; exact ⟨[], by simp [run], by simpa [run] using h, by simp [run, sendRets]⟩
  | cons ev evs ih =>
    intro e0 e fin h
    obtain ⟨f1, a1, a2, a3⟩ := h.step_any ev
    obtain ⟨f2, b1, b2, b3⟩ := ih e0 (step e ev).1 (fin ++ f1) a2
    refine ⟨f1 ++ f2, ?_, ?_, ?_⟩
    · rw [run_cons_snd, List.flatten_cons, txFin_append, a1, b1, List.map_append]
    · rw [run_cons_fst, ← List.append_assoc]; exact b2
    · rw [run_cons_snd, run_cons_fst]
      simp only [sendRets]
      rw [a3, b3, ← List.map_append]
      congr 1
      have l1 := a2.le
      have l2 := b2.le
      have l0 := h.le
      have l3 : e.txNextId ≤ (step e ev).1.txNextId := by
        by_cases hs : ev.isSend = true
        · cases ev with
          | send d =>
            cases hc : e.closed
            · rw [(q_step_send_fields e d hc).2.2.1]; omega
            · rw [q_step_send_closed e d hc]; exact Nat.le_refl _
          | _ => simp [Ev.isSend] at hs
        · by_cases hp : ev.isPop = true
          · cases ev with
            | pop tid => rw [q_step_pop, (qv_tx_popRx e tid).2.1]; exact Nat.le_refl _
            | _ => simp [Ev.isPop] at hp
          · obtain ⟨_, ⟨_, _, _, _, _, hx⟩, _⟩ := q_step e ev (by simpa using hs) (by simpa using hp) h.inv
            rw [hx]; exact Nat.le_refl _
      have l4 : (step e ev).1.txNextId ≤ (run (step e ev).1 evs).1.txNextId := by
        have := (ih (step e ev).1 (step e ev).1 [] (TxHist.init a2.inv))
        obtain ⟨_, _, q, _⟩ := this
        exact q.le
      rw [show (run (step e ev).1 evs).1.txNextId - e.txNextId =
          ((step e ev).1.txNextId - e.txNextId) + ((run (step e ev).1 evs).1.txNextId - (step e ev).1.txNextId) by omega]
      rw [List.range'_append_1 |>.symm]
      congr 2
      omega

end Tcpcl
end DtnVerif
