/-
  More facts about RFC 9174-legal message sequences (`legalRun`): where SESS_TERM can stand, what
  the last segment says about the open transfer.
-/
import DtnVerif.Lemmas.TcpclOwed
import DtnVerif.Lemmas.TcpclTx
namespace DtnVerif
namespace Tcpcl

def Msg.isTerm' : Msg → Bool
  | .sessTerm .. => true
  | _ => false

def Msg.isSeg : Msg → Bool
  | .xferSegment .. => true
  | _ => false

def Msg.isHello : Msg → Bool
  | .contact .. => true
  | .sessInit .. => true
  | _ => false

/-- what one legal step can change -/
theorem legalStep_fields {s s1 : LState} {m : Msg} (h : legalStep s m = some s1) :
    (m.isTerm' = false → s1.termSeen = s.termSeen)
    ∧ (m.isHello = false → s.phase = 2 ∧ s1.phase = 2)
    ∧ (m.isSeg = false → s1.cur = s.cur)
    ∧ (m.isTerm' = true → s1.termSeen = true) := by
  cases m with
  | contact f =>
    simp only [legalStep] at h
    split at h
    · injection h with h; subst h; simp [Msg.isTerm', Msg.isHello, Msg.isSeg]
    · simp at h
  | sessInit a b c d x =>
    simp only [legalStep] at h
    split at h
    · injection h with h; subst h; simp [Msg.isTerm', Msg.isHello, Msg.isSeg]
    · simp at h
  | sessTerm f r =>
    simp only [legalStep] at h
    split at h
    · rename_i hc
      simp only [Bool.and_eq_true, beq_iff_eq, Bool.not_eq_true'] at hc
      injection h with h; subst h; simp [Msg.isTerm', Msg.isHello, Msg.isSeg, hc.1]
    · simp at h
  | keepalive | msgReject _ _ | xferAck _ _ _ | xferRefuse _ _ =>
    simp only [legalStep] at h
    split at h
    · rename_i hc
      simp only [beq_iff_eq] at hc
      injection h with h; subst h; simp [Msg.isTerm', Msg.isHello, Msg.isSeg, hc]
    · simp at h
  | xferSegment fl tid ext data =>
    have hph : s.phase = 2 := by
      simp only [legalStep] at h
      split at h
      · simp at h
      · rename_i hc; simpa using hc
    have hts : s1.termSeen = s.termSeen ∧ s1.phase = s.phase := by
      simp only [legalStep] at h
      repeat' split at h
      all_goals (first | (simp at h; done) | (injection h with h; subst h; exact ⟨rfl, rfl⟩))
    simp [Msg.isTerm', Msg.isHello, Msg.isSeg, hts.1, hts.2, hph]

theorem legalRun_cons_some {s s' : LState} {m : Msg} {ms : List Msg} (h : legalRun s (m :: ms) = some s') :
    ∃ s1, legalStep s m = some s1 ∧ legalRun s1 ms = some s' := by
  simp only [legalRun] at h
  cases hs : legalStep s m with
  | none => rw [hs] at h; simp at h
  | some s1 => rw [hs] at h; exact ⟨s1, rfl, h⟩

/-- the terminating flag of the monitor is set only by a SESS_TERM -/
theorem termSeen_of_run (ms : List Msg) : ∀ (s s' : LState), legalRun s ms = some s' → s'.termSeen = true →
    s.termSeen = true ∨ ∃ m ∈ ms, m.isTerm' = true := by
  induction ms with
  | nil => intro s s' h ht; simp only [legalRun, Option.some.injEq] at h; subst h; exact Or.inl ht
  | cons m ms ih =>
    intro s s' h ht
    obtain ⟨s1, h1, h2⟩ := legalRun_cons_some h
    rcases ih s1 s' h2 ht with h3 | ⟨x, hx, hxt⟩
    · cases hm : m.isTerm'
      · left; rw [← (legalStep_fields h1).1 hm]; exact h3
      · right; exact ⟨m, List.mem_cons_self, hm⟩
    · right; exact ⟨x, List.mem_cons_of_mem _ hx, hxt⟩

/-- … and once set it stays -/
theorem termSeen_run_of_mem (ms : List Msg) : ∀ (s s' : LState), legalRun s ms = some s' →
    (s.termSeen = true ∨ ∃ m ∈ ms, m.isTerm' = true) → s'.termSeen = true := by
  induction ms with
  | nil =>
    intro s s' h ht
    simp only [legalRun, Option.some.injEq] at h; subst h
    rcases ht with h | ⟨m, hm, _⟩
    · exact h
    · cases hm
  | cons m ms ih =>
    intro s s' h ht
    obtain ⟨s1, h1, h2⟩ := legalRun_cons_some h
    apply ih s1 s' h2
    cases hm : m.isTerm'
    · rcases ht with h | ⟨x, hx, hxt⟩
      · left; rw [(legalStep_fields h1).1 hm]; exact h
      · rcases List.mem_cons.mp hx with rfl | hx
        · rw [hm] at hxt; cases hxt
        · right; exact ⟨x, hx, hxt⟩
    · left; exact (legalStep_fields h1).2.2.2 hm

theorem phase2_run (ms : List Msg) : ∀ (s s' : LState), legalRun s ms = some s' → s.phase = 2 → s'.phase = 2 := by
  induction ms with
  | nil => intro s s' h hp; simp only [legalRun, Option.some.injEq] at h; subst h; exact hp
  | cons m ms ih =>
    intro s s' h hp
    obtain ⟨s1, h1, h2⟩ := legalRun_cons_some h
    apply ih s1 s' h2
    cases hm : m.isHello
    · exact ((legalStep_fields h1).2.1 hm).2
    · -- contact / SESS_INIT are not legal in phase 2
      exfalso
      cases m with
      | contact f => simp [legalStep, hp] at h1
      | sessInit a b c d x => simp [legalStep, hp] at h1
      | _ => simp [Msg.isHello] at hm

/-- after a SESS_TERM the monitor is in the session phase -/
theorem phase2_of_term (ms : List Msg) : ∀ (s s' : LState), legalRun s ms = some s' →
    (∃ m ∈ ms, m.isTerm' = true) → s'.phase = 2 := by
  induction ms with
  | nil => intro s s' _ ⟨m, hm, _⟩; cases hm
  | cons m ms ih =>
    intro s s' h ⟨x, hx, hxt⟩
    obtain ⟨s1, h1, h2⟩ := legalRun_cons_some h
    rcases List.mem_cons.mp hx with rfl | hx
    · have : x.isHello = false := by cases x <;> simp_all [Msg.isTerm', Msg.isHello]
      exact phase2_run ms s1 s' h2 ((legalStep_fields h1).2.1 this).2
    · exact ih s1 s' h2 ⟨x, hx, hxt⟩

/-- a legal sequence which contains a SESS_TERM does not end in a SESS_INIT -/
theorem last_not_init (ms : List Msg) (L : LState) (h : legalRun {} ms = some L)
    (ka sm xm : Nat) (node ext : Bytes) (hl : ms.getLast? = some (.sessInit ka sm xm node ext)) :
    ∀ m ∈ ms, m.isTerm' = false := by
  obtain ⟨pre, rfl⟩ := List.getLast?_eq_some_iff.mp hl
  rw [legalRun_append] at h
  cases hp : legalRun {} pre with
  | none => rw [hp] at h; simp at h
  | some L1 =>
    rw [hp] at h
    simp only [Option.bind, legalRun] at h
    have hph : L1.phase = 1 := by
      cases hs : legalStep L1 (.sessInit ka sm xm node ext) with
      | none => rw [hs] at h; simp at h
      | some s2 =>
        simp only [legalStep] at hs
        split at hs
        · rename_i hc; simpa using hc
        · simp at hs
    intro m hm
    rcases List.mem_append.mp hm with hm | hm
    · cases hmt : m.isTerm'
      · rfl
      · have := phase2_of_term pre {} L1 hp ⟨m, hm, hmt⟩
        rw [hph] at this; cases this
    · simp only [List.mem_singleton] at hm; subst hm; rfl

theorem getLast?_append_cons {α : Type} (a : List α) (y : α) (ys : List α) :
    (a ++ y :: ys).getLast? = (y :: ys).getLast? := by
  induction a with
  | nil => rfl
  | cons x a ih =>
    cases a with
    | nil => simp [List.getLast?_cons_cons]
    | cons x' a' => rw [List.cons_append, List.cons_append, List.getLast?_cons_cons, ← List.cons_append]; exact ih

/-- the open transfer of the monitor, read off the last segment -/
theorem cur_of_last_seg (ms : List Msg) : ∀ (s s' : LState), legalRun s ms = some s' →
    match (segInfo ms).getLast? with
    | some (_, false) => s'.cur.isSome = true
    | some (_, true) => s'.cur = none
    | none => s'.cur = s.cur := by
  induction ms with
  | nil => intro s s' h; simp only [legalRun, Option.some.injEq] at h; subst h; simp [segInfo]
  | cons m ms ih =>
    intro s s' h
    obtain ⟨s1, h1, h2⟩ := legalRun_cons_some h
    have ih' := ih s1 s' h2
    have hsplit : segInfo (m :: ms) = segInfoOf m ++ segInfo ms := by simp [segInfo]
    rw [hsplit]
    cases hrest : segInfo ms with
    | cons y ys =>
      rw [hrest] at ih'
      rw [getLast?_append_cons]
      cases hgl : (y :: ys).getLast? with
      | none => simp at hgl
      | some p =>
        rw [hgl] at ih'
        obtain ⟨t, b⟩ := p
        cases b <;> exact ih'
    | nil =>
      rw [hrest] at ih'
      simp only [List.getLast?_nil] at ih'
      simp only [List.append_nil]
      cases m with
      | xferSegment fl tid ext data =>
        simp only [segInfoOf, List.getLast?_singleton]
        rw [ih']
        -- what the step leaves open
        simp only [legalStep] at h1
        cases he : hasEnd fl
        · simp only [he] at h1 ⊢
          repeat' split at h1
          all_goals (first | (simp at h1; done) | (injection h1 with h1; subst h1; simp_all))
        · simp only [he] at h1 ⊢
          repeat' split at h1
          all_goals (first | (simp at h1; done) | (injection h1 with h1; subst h1; simp_all))
      | contact f => simp only [segInfoOf, List.getLast?_nil]; rw [ih']; exact (legalStep_fields h1).2.2.1 rfl
      | sessInit a b c d x => simp only [segInfoOf, List.getLast?_nil]; rw [ih']; exact (legalStep_fields h1).2.2.1 rfl
      | sessTerm f r => simp only [segInfoOf, List.getLast?_nil]; rw [ih']; exact (legalStep_fields h1).2.2.1 rfl
      | keepalive => simp only [segInfoOf, List.getLast?_nil]; rw [ih']; exact (legalStep_fields h1).2.2.1 rfl
      | msgReject a b => simp only [segInfoOf, List.getLast?_nil]; rw [ih']; exact (legalStep_fields h1).2.2.1 rfl
      | xferAck f t l => simp only [segInfoOf, List.getLast?_nil]; rw [ih']; exact (legalStep_fields h1).2.2.1 rfl
      | xferRefuse r t => simp only [segInfoOf, List.getLast?_nil]; rw [ih']; exact (legalStep_fields h1).2.2.1 rfl

end Tcpcl
end DtnVerif
