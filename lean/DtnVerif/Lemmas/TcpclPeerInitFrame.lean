/-
  The recorded peer SESS_INIT is only ever set when a SESS_INIT is processed.
  (Generated from the pattern of Lemmas/TcpclCfg.lean.)
-/
import DtnVerif.Model.TcpclEp
namespace DtnVerif
namespace Tcpcl

@[simp] theorem pin_kaReset (e : Ep) : (kaReset e).peerInit = e.peerInit := rfl
@[simp] theorem pin_idleReset (e : Ep) : (idleReset e).peerInit = e.peerInit := rfl
@[simp] theorem pin_sendMessage (e : Ep) (m : Msg) : (sendMessage e m).peerInit = e.peerInit := rfl
@[simp] theorem pin_pqTrigger (e : Ep) : (pqTrigger e).peerInit = e.peerInit := by
  unfold pqTrigger; split <;> rfl
@[simp] theorem pin_setState (e : Ep) (s : String) : (setState e s).1.peerInit = e.peerInit := by
  unfold setState; split <;> rfl
@[simp] theorem pin_flush (e : Ep) : (flushPendStart e).1.peerInit = e.peerInit := rfl
@[simp] theorem pin_doClose (e : Ep) : (doClose e).1.peerInit = e.peerInit := by
  unfold doClose; split <;> rfl
@[simp] theorem pin_checkSessTerm (e : Ep) : (checkSessTerm e).1.peerInit = e.peerInit := by
  unfold checkSessTerm; split
  · exact pin_doClose e
  · rfl
@[simp] theorem pin_sendBufferDecreased (e : Ep) : (sendBufferDecreased e).peerInit = e.peerInit := by
  unfold sendBufferDecreased; split
  · exact pin_pqTrigger e
  · rfl
@[simp] theorem pin_sendContact (e : Ep) : (sendContact e).peerInit = e.peerInit := rfl
@[simp] theorem pin_sendInit (e : Ep) : (sendInit e).peerInit = e.peerInit := rfl
@[simp] theorem pin_sendReject (e : Ep) (r : Nat) (m : Msg) : (sendReject e r m).peerInit = e.peerInit := rfl
@[simp] theorem pin_sendSessTerm (e : Ep) (r : Nat) (b : Bool) : (sendSessTerm e r b).1.peerInit = e.peerInit := by
  unfold sendSessTerm
  split
  · rfl
  · split
    · rfl
    · simp
@[simp] theorem pin_sendSegment (e : Ep) (it : TxItem) (s : Nat) : (sendSegment e it s).1.peerInit = e.peerInit := by
  unfold sendSegment
  simp only []
  split
  · rfl
  · split <;> simp
@[simp] theorem pin_processQueue (e : Ep) : (processQueue e).1.peerInit = e.peerInit := by
  unfold processQueue
  split
  · simp
  · split
    · rfl
    · split
      · simp
      · split
        · rfl
        · simp
@[simp] theorem pin_pullTx (e : Ep) : (pullTx e).peerInit = e.peerInit := by
  unfold pullTx; split <;> simp

@[simp] theorem pin_writeConn (e : Ep) (n : Nat) (up : Bool) : (writeConn e n up).1.peerInit = e.peerInit := by
  unfold writeConn
  split
  · split
    · simp
    · rfl
  · simp only []
    split
    · simp
    · split
      · simp
      · rfl

@[simp] theorem pin_pump (e : Ep) (n : Nat) : (pump e n).1.peerInit = e.peerInit := by
  unfold pump; simp

@[simp] theorem pin_onContact (e : Ep) : (onContact e).1.peerInit = e.peerInit := by
  unfold onContact; simp only []; cases e.cfg.passive <;> simp
@[simp] theorem pin_onSessTerm (e : Ep) (m : Msg) (r : Nat) : (onSessTerm e m r).1.peerInit = e.peerInit := by
  unfold onSessTerm
  split
  · rfl
  · simp only [pin_checkSessTerm, pin_flush]
    split <;> simp
@[simp] theorem pin_segAccept (e : Ep) (f t : Nat) (c d : Bytes) (o : List Out) :
    (segAccept e f t c d o).1.peerInit = e.peerInit := by
  unfold segAccept; simp only []; split <;> simp
@[simp] theorem pin_onSegment (e : Ep) (m : Msg) (f t : Nat) (d : Bytes) :
    (onSegment e m f t d).1.peerInit = e.peerInit := by
  unfold onSegment
  split
  · rfl
  · split
    · simp
    · split
      · split <;> simp
      · rfl
@[simp] theorem pin_onAck (e : Ep) (m : Msg) (f t l : Nat) : (onAck e m f t l).1.peerInit = e.peerInit := by
  unfold onAck
  split
  · rfl
  · split
    · rfl
    · split
      · split <;> simp
      · rfl
@[simp] theorem pin_onRefuse (e : Ep) (m : Msg) (r t : Nat) : (onRefuse e m r t).1.peerInit = e.peerInit := by
  unfold onRefuse
  split
  · rfl
  · split
    · rfl
    · simp only [pin_checkSessTerm]
      split
      · split <;> simp
      · rfl
theorem pin_handleMsg_noninit (e : Ep) (m : Msg) (hm : ∀ a b c d x, m ≠ .sessInit a b c d x) :
    (handleMsg e m).1.peerInit = e.peerInit := by
  unfold handleMsg
  cases m with
  | sessInit a b c d x => exact absurd rfl (hm a b c d x)
  | contact f => simp
  | sessTerm f r => simp
  | keepalive => rfl
  | msgReject a b => rfl
  | xferSegment f t x d => simp
  | xferAck f t l => simp
  | xferRefuse r t => simp

theorem pin_step_nonrx (e : Ep) (ev : Ev) (hne : ∀ c, ev ≠ .rx c) : (step e ev).1.peerInit = e.peerInit := by
  unfold step
  cases ev with
  | pump n => simp only []; split <;> (try split) <;> simp
  | advance ms => rfl
  | start =>
    simp only []
    split
    · rfl
    · split
      · rfl
      · simp only [pin_setState]; split <;> simp
  | send d => simp only []; split <;> simp
  | terminate r => simp only []; split <;> simp
  | close => simp only []; split <;> simp
  | pop t =>
    simp only []
    have : (popRx e t).1.peerInit = e.peerInit := by unfold popRx; split <;> rfl
    split <;> simp [this]
  | query q => simp only []; split <;> rfl
  | procQueue =>
    simp only []
    split
    · rfl
    · split
      · rfl
      · simp
  | rx c => exact absurd rfl (hne c)
  | rxEof => simp only []; split <;> simp
  | keepaliveTimer =>
    simp only []
    split
    · rfl
    · split <;> simp
  | idleTimer =>
    simp only []
    split
    · rfl
    · split
      · rfl
      · split <;> simp
  | modulate raw =>
    simp only []
    split
    · rfl
    · split <;> rfl


end Tcpcl
end DtnVerif
