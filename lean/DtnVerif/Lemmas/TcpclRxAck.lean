/-
  Converse of TcpclAck: every transfer recorded as completely received has had its final XFER_ACK emitted.
  (Generated from the pattern of Lemmas/TcpclEmit.lean via TcpclAck.lean.)
-/
import DtnVerif.Model.TcpclEp
namespace DtnVerif
namespace Tcpcl

/-- a final acknowledgement for transfer `t` is among the messages `ms` -/
def EndAcked (t : Nat) (ms : List Msg) : Prop := ∃ f l, hasEnd f = true ∧ Msg.xferAck f t l ∈ ms

theorem EndAcked.mono {t : Nat} {ms : List Msg} (x : List Msg) (h : EndAcked t ms) : EndAcked t (ms ++ x) := by
  obtain ⟨f, l, h1, h2⟩ := h
  exact ⟨f, l, h1, List.mem_append_left _ h2⟩

/-- every completely received transfer has had its final acknowledgement emitted -/
def RxAckInv (e : Ep) : Prop := ∀ p ∈ e.rxLog, EndAcked p.1 e.emitted

structure RxAckView where
  rxLog : List (Nat × Bytes)
  emitted : List Msg

def Ep.rxAckView (e : Ep) : RxAckView := ⟨e.rxLog, e.emitted⟩

theorem rxAckInv_of_view {e e' : Ep} (h : e'.rxAckView = e.rxAckView) (hi : RxAckInv e) : RxAckInv e' := by
  simp only [Ep.rxAckView, RxAckView.mk.injEq] at h
  obtain ⟨h1, h2⟩ := h
  unfold RxAckInv at *
  rw [h1, h2]; exact hi

@[simp] theorem rv_kaReset (e : Ep) : (kaReset e).rxAckView = e.rxAckView := rfl
@[simp] theorem rv_idleReset (e : Ep) : (idleReset e).rxAckView = e.rxAckView := rfl
@[simp] theorem rv_pqTrigger (e : Ep) : (pqTrigger e).rxAckView = e.rxAckView := by
  unfold pqTrigger; split <;> rfl
@[simp] theorem rv_setState (e : Ep) (s : String) : (setState e s).1.rxAckView = e.rxAckView := by
  unfold setState; split <;> rfl
@[simp] theorem rv_flush (e : Ep) : (flushPendStart e).1.rxAckView = e.rxAckView := rfl
@[simp] theorem rv_doClose (e : Ep) : (doClose e).1.rxAckView = e.rxAckView := by
  unfold doClose; split <;> rfl
@[simp] theorem rv_checkSessTerm (e : Ep) : (checkSessTerm e).1.rxAckView = e.rxAckView := by
  unfold checkSessTerm; split
  · exact rv_doClose e
  · rfl
@[simp] theorem rv_sendBufferDecreased (e : Ep) : (sendBufferDecreased e).rxAckView = e.rxAckView := by
  unfold sendBufferDecreased; split
  · exact rv_pqTrigger e
  · rfl
@[simp] theorem rv_mergeSession (e : Ep) (p : PeerInit) : (mergeSession e p).rxAckView = e.rxAckView := rfl

theorem rxAckInv_sendMessage (e : Ep) (m : Msg) (hi : RxAckInv e) : RxAckInv (sendMessage e m) := by
  intro p hp
  have := hi p hp
  simp only [sendMessage, sendReady, kaReset, idleReset]
  exact this.mono [m]

theorem rxAckInv_sendContact (e : Ep) (hi : RxAckInv e) : RxAckInv (sendContact e) :=
  rxAckInv_of_view (e := sendMessage e (.contact 0)) rfl (rxAckInv_sendMessage e _ hi)

theorem rxAckInv_sendInit (e : Ep) (hi : RxAckInv e) : RxAckInv (sendInit e) :=
  rxAckInv_of_view (e := sendMessage e (.sessInit e.cfg.keepalive e.cfg.segMru sizeMax e.cfg.nodeId (sessionExt e.cfg)))
    rfl (rxAckInv_sendMessage e _ hi)

theorem rxAckInv_sendReject (e : Ep) (r : Nat) (m : Msg) (hi : RxAckInv e) : RxAckInv (sendReject e r m) :=
  rxAckInv_sendMessage e _ hi

theorem rxAckInv_sendSessTerm (e : Ep) (r : Nat) (b : Bool) (hi : RxAckInv e) :
    RxAckInv (sendSessTerm e r b).1 := by
  unfold sendSessTerm
  split
  · exact hi
  · split
    · exact hi
    · simp only []
      refine rxAckInv_of_view (rv_flush _) (rxAckInv_sendMessage _ _ ?_)
      exact rxAckInv_of_view (by rw [rv_setState]; rfl) hi

theorem rxAckInv_sendSegment (e : Ep) (it : TxItem) (sent : Nat) (hi : RxAckInv e) :
    RxAckInv (sendSegment e it sent).1 := by
  unfold sendSegment
  simp only []
  split
  · exact rxAckInv_of_view rfl hi
  · split
    · refine rxAckInv_of_view (by rw [rv_pqTrigger]; rfl) (rxAckInv_sendMessage e _ hi)
    · exact rxAckInv_of_view rfl (rxAckInv_sendMessage e _ hi)

theorem rxAckInv_processQueue (e : Ep) (hi : RxAckInv e) : RxAckInv (processQueue e).1 := by
  unfold processQueue
  split
  · exact rxAckInv_sendSegment e _ _ hi
  · split
    · exact hi
    · split
      · exact rxAckInv_of_view (by simp only [rv_checkSessTerm, rv_flush]) hi
      · split
        · exact hi
        · exact rxAckInv_sendSegment _ _ _ (rxAckInv_of_view rfl hi)

theorem rxAckInv_pullTx (e : Ep) (hi : RxAckInv e) : RxAckInv (pullTx e) := by
  unfold pullTx
  split
  · exact rxAckInv_of_view (by rw [rv_sendBufferDecreased]; rfl) hi
  · exact hi

theorem rxAckInv_writeConn (e : Ep) (n : Nat) (up : Bool) (hi : RxAckInv e) : RxAckInv (writeConn e n up).1 := by
  unfold writeConn
  split
  · split
    · exact rxAckInv_of_view (rv_checkSessTerm e) hi
    · exact hi
  · simp only []
    split
    · exact hi
    · split
      · exact rxAckInv_of_view (by rw [rv_checkSessTerm]; rfl) hi
      · exact rxAckInv_of_view rfl hi

theorem rxAckInv_pump (e : Ep) (n : Nat) (hi : RxAckInv e) : RxAckInv (pump e n).1 :=
  rxAckInv_writeConn _ _ _ (rxAckInv_pullTx e hi)

/-! receive handlers -/

theorem rxAckInv_onContact (e : Ep) (hi : RxAckInv e) : RxAckInv (onContact e).1 := by
  unfold onContact
  simp only []
  have h1 : RxAckInv (if e.cfg.passive then sendContact e else e) := by
    split
    · exact rxAckInv_sendContact e hi
    · exact hi
  have h2 : RxAckInv (setState (if e.cfg.passive then sendContact e else e) "session-negotiating").1 :=
    rxAckInv_of_view (rv_setState _ _) h1
  split
  · exact rxAckInv_sendInit _ h2
  · exact h2

theorem rxAckInv_onSessInit (e : Ep) (p : PeerInit) (hi : RxAckInv e) : RxAckInv (onSessInit e p).1 := by
  unfold onSessInit
  simp only []
  have h1 : RxAckInv (if e.cfg.passive then sendInit e else e) := by
    split
    · exact rxAckInv_sendInit e hi
    · exact hi
  refine rxAckInv_of_view ?_ h1
  rw [rv_setState, rv_mergeSession]; rfl

theorem rxAckInv_onSessTerm (e : Ep) (m : Msg) (r : Nat) (hi : RxAckInv e) : RxAckInv (onSessTerm e m r).1 := by
  unfold onSessTerm
  split
  · exact rxAckInv_sendReject e _ _ hi
  · simp only []
    refine rxAckInv_of_view (by rw [rv_checkSessTerm, rv_flush]) (e := { (if !e.inTerm then sendSessTerm e r true else (e, [])).1 with gotTerm := true }) ?_
    refine rxAckInv_of_view (e := (if !e.inTerm then sendSessTerm e r true else (e, [])).1) rfl ?_
    split
    · exact rxAckInv_sendSessTerm e r true hi
    · exact hi

theorem rxAckInv_segAccept (e : Ep) (flags tid : Nat) (cur data : Bytes) (o1 : List Out) (hi : RxAckInv e) :
    RxAckInv (segAccept e flags tid cur data o1).1 := by
  unfold segAccept
  simp only []
  split
  · rename_i hend
    refine rxAckInv_of_view (e := { sendMessage e (.xferAck flags tid (cur ++ data).length) with
        rxLog := e.rxLog ++ [(tid, cur ++ data)] }) (by rw [rv_checkSessTerm]; rfl) ?_
    intro p hp
    simp only [sendMessage, sendReady, kaReset, idleReset, List.mem_append, List.mem_singleton] at hp ⊢
    rcases hp with hp | hp
    · exact (hi p hp).mono _
    · subst hp
      exact ⟨flags, (cur ++ data).length, hend, by simp⟩
  · exact rxAckInv_sendMessage _ _ (rxAckInv_of_view rfl hi)

theorem rxAckInv_onSegment (e : Ep) (m : Msg) (flags tid : Nat) (data : Bytes) (hi : RxAckInv e) :
    RxAckInv (onSegment e m flags tid data).1 := by
  unfold onSegment
  split
  · exact rxAckInv_sendReject e _ _ hi
  · split
    · exact rxAckInv_segAccept _ _ _ _ _ _ (rxAckInv_of_view rfl hi)
    · split
      · split
        · exact rxAckInv_segAccept _ _ _ _ _ _ hi
        · exact rxAckInv_sendReject e _ _ hi
      · exact rxAckInv_sendReject e _ _ hi

theorem rxAckInv_onAck (e : Ep) (m : Msg) (f t l : Nat) (hi : RxAckInv e) : RxAckInv (onAck e m f t l).1 := by
  unfold onAck
  split
  · exact rxAckInv_sendReject e _ _ hi
  · split
    · exact rxAckInv_sendReject e _ _ hi
    · split
      · split
        · exact rxAckInv_sendReject e _ _ hi
        · exact rxAckInv_of_view (by rw [rv_checkSessTerm]; rfl) hi
      · exact rxAckInv_of_view rfl hi

theorem rxAckInv_onRefuse (e : Ep) (m : Msg) (r t : Nat) (hi : RxAckInv e) : RxAckInv (onRefuse e m r t).1 := by
  unfold onRefuse
  split
  · exact rxAckInv_sendReject e _ _ hi
  · split
    · exact rxAckInv_sendReject e _ _ hi
    · refine rxAckInv_of_view ?_ hi
      simp only [rv_checkSessTerm]
      split
      · split
        · rw [rv_pqTrigger]; rfl
        · rfl
      · rfl

theorem rxAckInv_handleMsg (e : Ep) (m : Msg) (hi : RxAckInv e) : RxAckInv (handleMsg e m).1 := by
  have h0 : RxAckInv { e with processed := e.processed ++ [m] } := rxAckInv_of_view rfl hi
  unfold handleMsg
  cases m with
  | contact f => exact rxAckInv_onContact _ h0
  | sessInit ka sm xm node ext => exact rxAckInv_onSessInit _ _ h0
  | sessTerm f r => exact rxAckInv_onSessTerm _ _ _ h0
  | keepalive => exact h0
  | msgReject a b => exact h0
  | xferSegment flags tid ext data => exact rxAckInv_onSegment _ _ _ _ _ h0
  | xferAck f t l => exact rxAckInv_onAck _ _ _ _ _ h0
  | xferRefuse r t => exact rxAckInv_onRefuse _ _ _ _ h0

theorem rxAckInv_handleMsgs (ms : List Msg) (e : Ep) (hi : RxAckInv e) : RxAckInv (handleMsgs e ms).1 := by
  induction ms generalizing e with
  | nil => exact hi
  | cons m ms ih =>
    unfold handleMsgs
    split
    · exact hi
    · exact ih _ (rxAckInv_handleMsg _ m (rxAckInv_of_view (e := e) rfl hi))

theorem rxAckInv_recvRaw (e : Ep) (c : Bytes) (hi : RxAckInv e) : RxAckInv (recvRaw e c).1 := by
  unfold recvRaw
  simp only []
  have h0 : RxAckInv (rxEntry e c) := rxAckInv_of_view rfl hi
  have h1 := rxAckInv_handleMsgs (feed e.rx c).2 _ h0
  split
  · exact rxAckInv_of_view (rv_doClose _) h1
  · exact h1

theorem rxAckInv_step (e : Ep) (ev : Ev) (hi : RxAckInv e) : RxAckInv (step e ev).1 := by
  unfold step
  cases ev with
  | advance ms => exact rxAckInv_of_view rfl hi
  | start =>
    simp only []
    split
    · exact hi
    · split
      · exact hi
      · refine rxAckInv_of_view (rv_setState _ _) ?_
        split
        · exact rxAckInv_sendContact _ (rxAckInv_of_view rfl hi)
        · exact rxAckInv_of_view rfl hi
  | send d =>
    simp only []
    split
    · exact hi
    · exact rxAckInv_of_view (by rw [rv_pqTrigger]; rfl) hi
  | terminate r =>
    simp only []
    split
    · exact hi
    · exact rxAckInv_sendSessTerm _ _ _ hi
  | close =>
    simp only []
    split
    · exact hi
    · exact rxAckInv_of_view (rv_doClose _) hi
  | pop t =>
    simp only []
    have : RxAckInv (popRx e t).1 := by
      refine rxAckInv_of_view ?_ hi
      unfold popRx; split <;> rfl
    split <;> exact this
  | query q => simp only []; split <;> exact hi
  | procQueue =>
    simp only []
    split
    · exact rxAckInv_of_view rfl hi
    · split
      · exact hi
      · exact rxAckInv_of_view rfl (rxAckInv_processQueue _ (rxAckInv_of_view (e := e) rfl hi))
  | pump n =>
    simp only []
    split
    · exact hi
    · split
      · exact hi
      · exact rxAckInv_of_view rfl (rxAckInv_pump _ _ (rxAckInv_of_view (e := e) rfl hi))
  | rx c =>
    simp only []
    split
    · exact hi
    · exact rxAckInv_recvRaw e c hi
  | rxEof =>
    simp only []
    split
    · exact hi
    · exact rxAckInv_of_view (rv_doClose _) hi
  | keepaliveTimer =>
    simp only []
    split
    · exact hi
    · split
      · exact hi
      · exact rxAckInv_sendMessage _ _ (rxAckInv_of_view rfl hi)
  | idleTimer =>
    simp only []
    split
    · exact hi
    · split
      · exact hi
      · split
        · exact rxAckInv_of_view (by rw [rv_doClose]; rfl) hi
        · exact rxAckInv_sendSessTerm _ _ _ (rxAckInv_of_view rfl hi)
  | modulate raw =>
    simp only []
    split
    · exact hi
    · split
      · exact rxAckInv_of_view rfl hi
      · exact hi

theorem rxAckInv_init (cfg : Cfg) : RxAckInv { cfg := cfg } := by
  intro m hm; simp at hm

theorem rxAckInv_run (evs : List Ev) (e : Ep) (hi : RxAckInv e) : RxAckInv (runEp e evs) := by
  induction evs generalizing e with
  | nil => exact hi
  | cons ev evs ih =>
    simp only [runEp, run]
    exact ih _ (rxAckInv_step e ev hi)

end Tcpcl
end DtnVerif
