/-
  Two-endpoint composition: transport lemma (what one side has processed is a prefix of what the
  other has emitted) and the system invariant, by circular assume-guarantee over the schedule.
-/
import DtnVerif.Model.TcpclSys
import DtnVerif.Lemmas.TcpclRun
import DtnVerif.Lemmas.TcpclFrame
import DtnVerif.Lemmas.TcpclEmit
import DtnVerif.Lemmas.TcpclAcc
import DtnVerif.Lemmas.TcpclCfg
namespace DtnVerif
namespace Tcpcl

/-! ### shape of legal sequences and framing of their octet stream -/

theorem legalRun_noContact (s s' : LState) (ms : List Msg) (h : legalRun s ms = some s') (hp : 1 ≤ s.phase) :
    (∀ m ∈ ms, m.isContact = false) := by
  induction ms generalizing s with
  | nil => intro m hm; simp at hm
  | cons m ms ih =>
    simp only [legalRun] at h
    cases hs : legalStep s m with
    | none => rw [hs] at h; simp at h
    | some s1 =>
      rw [hs] at h
      have hm : m.isContact = false ∧ 1 ≤ s1.phase := by
        cases m with
        | contact f =>
          simp only [legalStep] at hs
          split at hs
          · rename_i hc; simp at hc; omega
          · simp at hs
        | sessInit a b c d x =>
          refine ⟨rfl, ?_⟩
          simp only [legalStep] at hs
          split at hs
          · injection hs with hs; subst hs; simp
          · simp at hs
        | _ =>
          refine ⟨rfl, ?_⟩
          first
            | (have := (legalStep_body_phase s s1 _ hs trivial).2; omega)
      intro x hx
      rcases List.mem_cons.mp hx with rfl | hx
      · exact hm.1
      · exact ih s1 h hm.2 x hx

theorem legal_shape (ms : List Msg) (h : (legalRun {} ms).isSome) :
    ms = [] ∨ ∃ f rest, ms = .contact f :: rest ∧ ∀ m ∈ rest, m.isContact = false := by
  cases ms with
  | nil => exact Or.inl rfl
  | cons m rest =>
    right
    obtain ⟨L, hL⟩ := Option.isSome_iff_exists.mp h
    simp only [legalRun] at hL
    cases hs : legalStep {} m with
    | none => rw [hs] at hL; simp at hL
    | some s1 =>
      rw [hs] at hL
      cases m with
      | contact f =>
        obtain ⟨_, hs1⟩ := legalStep_contact {} s1 f hs
        refine ⟨f, rest, rfl, legalRun_noContact s1 L rest hL (by rw [hs1]; simp)⟩
      | sessInit a b c d x => simp [legalStep] at hs
      | sessTerm a b => simp [legalStep] at hs
      | xferSegment a b c d => simp [legalStep] at hs
      | xferAck a b c => simp [legalStep] at hs
      | xferRefuse a b => simp [legalStep] at hs
      | keepalive => simp [legalStep] at hs
      | msgReject a b => simp [legalStep] at hs

/-- **Transport at the framing level.** Any prefix of the octet stream of a legal, well-formed
    message sequence frames to a prefix of that sequence. -/
theorem stream_prefix (ms : List Msg) (bytes : Bytes) (hl : (legalRun {} ms).isSome)
    (hwf : ∀ m ∈ ms, m.WF) (hb : bytes <+: encodeAll ms) : (feed {} bytes).2 <+: ms := by
  rcases legal_shape ms hl with rfl | ⟨f, rest, rfl, hrest⟩
  · have : bytes = [] := by simpa [encodeAll] using hb
    subst this
    have h : feed {} ([] : Bytes) = ({}, []) := by decide
    rw [h]; exact List.prefix_refl _
  · obtain ⟨t, ht⟩ := hb
    have hf : f < 256 := hwf (.contact f) (by simp)
    have hall : ∀ m ∈ rest, m.WF ∧ m.isContact = false :=
      fun m hm => ⟨hwf m (by simp [hm]), hrest m hm⟩
    have hs := C07_stream f hf rest hall
    have hp := C07_prefix_messages {} bytes t
    rw [ht, hs] at hp
    exact hp

/-! ### per-endpoint bundle of invariants -/

structure EpInv (e : Ep) : Prop where
  tx : ∃ P, TxInv e P
  timer : TimerInv e
  rx : RxInv e
  pump : PumpInv e
  frame : FrameInv e
  emit : EmitInv e
  okProc : ∀ m ∈ e.processed, okMsg m
  kc : KC e

/-- a local (non-read) event preserves every endpoint invariant -/
theorem epInv_local (e : Ep) (ev : Ev) (hi : EpInv e) (hne : ∀ c, ev ≠ .rx c)
    (hsend : ∀ d, ev = .send d → d.length < 2 ^ 64) : EpInv (step e ev).1 := by
  obtain ⟨P, hP⟩ := hi.tx
  have hv := rxView_step_nonrx e ev hne
  have hproc : (step e ev).1.processed = e.processed := by
    have := congrArg RxView.processed hv; simpa [Ep.rxView] using this
  have hleg : (legalRun {} (step e ev).1.processed).isSome := by
    rw [hproc]
    have : legalRun {} e.processed = some P := hP.hP
    rw [this]; rfl
  have hok : ∀ m ∈ (step e ev).1.processed, okMsg m := by rw [hproc]; exact hi.okProc
  exact ⟨txInv_step e ev P hP hi.timer hsend hleg hok, timerInv_step e ev hi.timer, rxInv_step e ev hi.rx,
    pumpInv_step e ev hi.pump, frameInv_step e ev hi.frame,
    emitInv_step e ev hi.emit (fun h => hi.kc (hi.timer.1 h)), hok, kc_step e ev hi.kc⟩

/-- a read preserves every endpoint invariant provided what will have been processed is a prefix
    of a legal, acceptable message sequence (the peer's guarantee) -/
theorem epInv_rx (e : Ep) (c : Bytes) (M : List Msg) (hi : EpInv e)
    (hM : (legalRun {} M).isSome) (hokM : ∀ m ∈ M, okMsg m)
    (hpre : (step e (.rx c)).1.processed <+: M) : EpInv (step e (.rx c)).1 := by
  obtain ⟨P, hP⟩ := hi.tx
  have hleg := legal_of_prefix hpre hM
  have hok : ∀ m ∈ (step e (.rx c)).1.processed, okMsg m := fun m hm => hokM m (hpre.subset hm)
  exact ⟨txInv_step e _ P hP hi.timer (by intro d h; cases h) hleg hok, timerInv_step e _ hi.timer,
    rxInv_step e _ hi.rx, pumpInv_step e _ hi.pump, frameInv_step e _ hi.frame,
    emitInv_step e _ hi.emit (fun h => hi.kc (hi.timer.1 h)), hok, kc_step e _ hi.kc⟩

theorem rxBytes_step_rx (e : Ep) (c : Bytes) (hc : e.closed = false) :
    (step e (.rx c)).1.rxBytes = e.rxBytes ++ c := by
  have hstep : (step e (.rx c)).1 = (recvRaw e c).1 := by unfold step; simp [hc]
  rw [hstep]
  unfold recvRaw
  simp only []
  obtain ⟨_, i2, _, _⟩ := handleMsgs_frame (feed e.rx c).2 (rxEntry e c)
  split
  · have := congrArg RxView.rxBytes (view_doClose { (handleMsgs (rxEntry e c) (feed e.rx c).2).1 with rxMore := false })
    simp only [Ep.rxView] at this
    rw [this]; exact i2
  · exact i2

/-! ### the system invariant -/

structure SysInv (s : Sys) : Prop where
  ia : EpInv s.a
  ib : EpInv s.b
  wireB : s.b.rxBytes ++ s.toB = s.a.accepted
  wireA : s.a.rxBytes ++ s.toA = s.b.accepted
  mruA : 0 < s.a.cfg.segMru
  mruB : 0 < s.b.cfg.segMru

/-- explicit well-formedness assumption: every emitted message fits its wire fields
    (sizes and counters below 2^64, …) -/
def SysWF (s : Sys) : Prop := (∀ m ∈ s.a.emitted, m.WF) ∧ (∀ m ∈ s.b.emitted, m.WF)

def SysEv.sendOK : SysEv → Prop
  | .atA (.send d) => d.length < 2 ^ 64
  | .atB (.send d) => d.length < 2 ^ 64
  | _ => True

theorem newWire_spec (e : Ep) (ev : Ev) : e.accepted ++ newWire e (step e ev).1 = (step e ev).1.accepted := by
  obtain ⟨t, ht⟩ := accepted_prefix_step e ev
  unfold newWire
  rw [← ht]; simp

theorem emitted_legal {e : Ep} (hi : EpInv e) : (legalRun {} e.emitted).isSome := by
  obtain ⟨P, hP⟩ := hi.tx
  have : legalRun {} e.emitted = some _ := hP.L
  rw [this]; rfl

theorem emitted_ok {e : Ep} (hi : EpInv e) (hm : 0 < e.cfg.segMru) : ∀ m ∈ e.emitted, okMsg m := by
  intro m hmem
  have := hi.emit m hmem
  cases m <;> simp_all [emitOK, okMsg]

/-- **Transport.** After a read, what the reader has processed is a prefix of what the writer has emitted. -/
theorem processed_prefix_emitted (w r : Ep) (c rest : Bytes) (hw : EpInv w) (hr : EpInv r)
    (hwf : ∀ m ∈ w.emitted, m.WF) (hwire : r.rxBytes ++ (c ++ rest) = w.accepted) (hc : r.closed = false) :
    (step r (.rx c)).1.processed <+: w.emitted := by
  have hf := frameInv_step r (.rx c) hr.frame
  have hrb := rxBytes_step_rx r c hc
  have h1 : (step r (.rx c)).1.processed <+: (feed {} (r.rxBytes ++ c)).2 := by rw [← hrb]; exact hf.2.1
  have hacc : r.rxBytes ++ c <+: w.accepted := ⟨rest, by rw [← hwire]; simp⟩
  have hpump : w.accepted <+: encodeAll w.emitted := by
    have : encodeAll w.emitted = w.accepted ++ w.connBuf ++ w.txBuf := hw.pump
    rw [this, List.append_assoc]; exact List.prefix_append _ _
  have h2 := stream_prefix w.emitted (r.rxBytes ++ c) (emitted_legal hw) hwf (List.IsPrefix.trans hacc hpump)
  exact List.IsPrefix.trans h1 h2

theorem sysInv_step (s : Sys) (ev : SysEv) (hi : SysInv s) (hwf : SysWF s) (hs : ev.sendOK) :
    SysInv (sysStep s ev) := by
  unfold sysStep
  cases ev with
  | atA e =>
    simp only []
    split
    · rename_i hl
      have hne : ∀ c, e ≠ .rx c := by intro c h; subst h; simp [Ev.isLocal] at hl
      have hv := rxView_step_nonrx s.a e hne
      have hrb : (step s.a e).1.rxBytes = s.a.rxBytes := by
        have := congrArg RxView.rxBytes hv; simpa [Ep.rxView] using this
      refine ⟨epInv_local s.a e hi.ia hne (fun d h => by subst h; exact hs), hi.ib, ?_, ?_, ?_, hi.mruB⟩
      · show s.b.rxBytes ++ (s.toB ++ newWire s.a (step s.a e).1) = (step s.a e).1.accepted
        rw [← List.append_assoc, hi.wireB]; exact newWire_spec s.a e
      · show (step s.a e).1.rxBytes ++ s.toA = s.b.accepted
        rw [hrb]; exact hi.wireA
      · show 0 < (step s.a e).1.cfg.segMru
        rw [cfg_step]; exact hi.mruA
    · exact hi
  | atB e =>
    simp only []
    split
    · rename_i hl
      have hne : ∀ c, e ≠ .rx c := by intro c h; subst h; simp [Ev.isLocal] at hl
      have hv := rxView_step_nonrx s.b e hne
      have hrb : (step s.b e).1.rxBytes = s.b.rxBytes := by
        have := congrArg RxView.rxBytes hv; simpa [Ep.rxView] using this
      refine ⟨hi.ia, epInv_local s.b e hi.ib hne (fun d h => by subst h; exact hs), ?_, ?_, hi.mruA, ?_⟩
      · show (step s.b e).1.rxBytes ++ s.toB = s.a.accepted
        rw [hrb]; exact hi.wireB
      · show s.a.rxBytes ++ (s.toA ++ newWire s.b (step s.b e).1) = (step s.b e).1.accepted
        rw [← List.append_assoc, hi.wireA]; exact newWire_spec s.b e
      · show 0 < (step s.b e).1.cfg.segMru
        rw [cfg_step]; exact hi.mruB
    · exact hi
  | deliverB k =>
    simp only []
    split
    · exact hi
    · rename_i hcond
      have hc : s.b.closed = false := by
        cases h : s.b.closed with
        | false => rfl
        | true => simp [h] at hcond
      have hwire : s.b.rxBytes ++ (s.toB.take k ++ s.toB.drop k) = s.a.accepted := by
        rw [List.take_append_drop]; exact hi.wireB
      have hpre := processed_prefix_emitted s.a s.b (s.toB.take k) (s.toB.drop k) hi.ia hi.ib hwf.1 hwire hc
      have hb' := epInv_rx s.b (s.toB.take k) s.a.emitted hi.ib (emitted_legal hi.ia)
        (emitted_ok hi.ia hi.mruA) hpre
      refine ⟨hi.ia, hb', ?_, ?_, hi.mruA, ?_⟩
      · show (step s.b (.rx (s.toB.take k))).1.rxBytes ++ s.toB.drop k = s.a.accepted
        rw [rxBytes_step_rx s.b _ hc, List.append_assoc]; exact hwire
      · show s.a.rxBytes ++ (s.toA ++ newWire s.b (step s.b (.rx (s.toB.take k))).1) = _
        rw [← List.append_assoc, hi.wireA]; exact newWire_spec s.b _
      · show 0 < (step s.b (.rx (s.toB.take k))).1.cfg.segMru
        rw [cfg_step]; exact hi.mruB
  | deliverA k =>
    simp only []
    split
    · exact hi
    · rename_i hcond
      have hc : s.a.closed = false := by
        cases h : s.a.closed with
        | false => rfl
        | true => simp [h] at hcond
      have hwire : s.a.rxBytes ++ (s.toA.take k ++ s.toA.drop k) = s.b.accepted := by
        rw [List.take_append_drop]; exact hi.wireA
      have hpre := processed_prefix_emitted s.b s.a (s.toA.take k) (s.toA.drop k) hi.ib hi.ia hwf.2 hwire hc
      have ha' := epInv_rx s.a (s.toA.take k) s.b.emitted hi.ia (emitted_legal hi.ib)
        (emitted_ok hi.ib hi.mruB) hpre
      refine ⟨ha', hi.ib, ?_, ?_, ?_, hi.mruB⟩
      · show s.b.rxBytes ++ (s.toB ++ newWire s.a (step s.a (.rx (s.toA.take k))).1) = _
        rw [← List.append_assoc, hi.wireB]; exact newWire_spec s.a _
      · show (step s.a (.rx (s.toA.take k))).1.rxBytes ++ s.toA.drop k = s.b.accepted
        rw [rxBytes_step_rx s.a _ hc, List.append_assoc]; exact hwire
      · show 0 < (step s.a (.rx (s.toA.take k))).1.cfg.segMru
        rw [cfg_step]; exact hi.mruA
  | eofB =>
    simp only []
    split
    · have hne : ∀ c, Ev.rxEof ≠ .rx c := by intro c h; cases h
      have hv := rxView_step_nonrx s.b .rxEof hne
      have hrb : (step s.b .rxEof).1.rxBytes = s.b.rxBytes := by
        have := congrArg RxView.rxBytes hv; simpa [Ep.rxView] using this
      refine ⟨hi.ia, epInv_local s.b .rxEof hi.ib hne (by intro d h; cases h), ?_, ?_, hi.mruA, ?_⟩
      · show (step s.b .rxEof).1.rxBytes ++ s.toB = s.a.accepted
        rw [hrb]; exact hi.wireB
      · show s.a.rxBytes ++ s.toA = (step s.b .rxEof).1.accepted
        rw [accepted_step_nonpump s.b .rxEof (by intro n h; cases h)]; exact hi.wireA
      · show 0 < (step s.b .rxEof).1.cfg.segMru
        rw [cfg_step]; exact hi.mruB
    · exact hi
  | eofA =>
    simp only []
    split
    · have hne : ∀ c, Ev.rxEof ≠ .rx c := by intro c h; cases h
      have hv := rxView_step_nonrx s.a .rxEof hne
      have hrb : (step s.a .rxEof).1.rxBytes = s.a.rxBytes := by
        have := congrArg RxView.rxBytes hv; simpa [Ep.rxView] using this
      refine ⟨epInv_local s.a .rxEof hi.ia hne (by intro d h; cases h), hi.ib, ?_, ?_, ?_, hi.mruB⟩
      · show s.b.rxBytes ++ s.toB = (step s.a .rxEof).1.accepted
        rw [accepted_step_nonpump s.a .rxEof (by intro n h; cases h)]; exact hi.wireB
      · show (step s.a .rxEof).1.rxBytes ++ s.toA = s.b.accepted
        rw [hrb]; exact hi.wireA
      · show 0 < (step s.a .rxEof).1.cfg.segMru
        rw [cfg_step]; exact hi.mruA
    · exact hi

theorem runSys_cons (s : Sys) (ev : SysEv) (sch : List SysEv) :
    runSys s (ev :: sch) = runSys (sysStep s ev) sch := rfl

theorem sysInv_run (sch : List SysEv) (s : Sys) (hi : SysInv s)
    (hwf : ∀ pre, pre <+: sch → SysWF (runSys s pre)) (hs : ∀ ev ∈ sch, ev.sendOK) :
    SysInv (runSys s sch) := by
  induction sch generalizing s with
  | nil => exact hi
  | cons ev rest ih =>
    rw [runSys_cons]
    have h0 : SysWF s := hwf [] (List.nil_prefix)
    apply ih _ (sysInv_step s ev hi h0 (hs ev (by simp)))
    · intro pre hp
      have := hwf (ev :: pre) (List.cons_prefix_cons.mpr ⟨rfl, hp⟩)
      rw [runSys_cons] at this
      exact this
    · intro e he; exact hs e (by simp [he])

theorem epInv_started (cfg : Cfg) (h1 : 0 < cfg.segInit) (h2 : cfg.privExt = false) :
    EpInv (step { cfg := cfg } .start).1 := by
  have hne : ∀ c, Ev.start ≠ .rx c := by intro c h; cases h
  have hproc : (step { cfg := cfg } .start).1.processed = [] := by
    have := congrArg RxView.processed (rxView_step_nonrx { cfg := cfg } .start hne)
    simpa [Ep.rxView] using this
  exact ⟨⟨{}, txInv_started cfg h1 h2⟩, timerInv_started cfg, rxInv_started cfg, pumpInv_started cfg,
    frameInv_step _ _ (frameInv_init cfg), emitInv_step _ _ (emitInv_init cfg) (by intro h; cases h),
    by rw [hproc]; intro m hm; simp at hm, kc_step _ _ (kc_init cfg)⟩

theorem sysInv_init (cfgA cfgB : Cfg) (a1 : 0 < cfgA.segInit) (a2 : cfgA.privExt = false)
    (a3 : 0 < cfgA.segMru) (b1 : 0 < cfgB.segInit) (b2 : cfgB.privExt = false) (b3 : 0 < cfgB.segMru) :
    SysInv (initSys cfgA cfgB) := by
  have hrbA : (step { cfg := cfgA } .start).1.rxBytes = [] := by
    have := congrArg RxView.rxBytes (rxView_step_nonrx { cfg := cfgA } .start (by intro c h; cases h))
    simpa [Ep.rxView] using this
  have hrbB : (step { cfg := cfgB } .start).1.rxBytes = [] := by
    have := congrArg RxView.rxBytes (rxView_step_nonrx { cfg := cfgB } .start (by intro c h; cases h))
    simpa [Ep.rxView] using this
  have haA : (step { cfg := cfgA } .start).1.accepted = [] :=
    accepted_step_nonpump _ _ (by intro n h; cases h)
  have haB : (step { cfg := cfgB } .start).1.accepted = [] :=
    accepted_step_nonpump _ _ (by intro n h; cases h)
  refine ⟨epInv_started cfgA a1 a2, epInv_started cfgB b1 b2, ?_, ?_, ?_, ?_⟩
  · show (step { cfg := cfgB } .start).1.rxBytes ++ [] = (step { cfg := cfgA } .start).1.accepted
    rw [hrbB, haA]; rfl
  · show (step { cfg := cfgA } .start).1.rxBytes ++ [] = (step { cfg := cfgB } .start).1.accepted
    rw [hrbA, haB]; rfl
  · show 0 < (step { cfg := cfgA } .start).1.cfg.segMru
    rw [cfg_step]; exact a3
  · show 0 < (step { cfg := cfgB } .start).1.cfg.segMru
    rw [cfg_step]; exact b3

/-- at every reachable state: what B has processed is a prefix of what A has emitted (and vice versa) -/
theorem transport (s : Sys) (hi : SysInv s) (hwf : SysWF s) :
    s.b.processed <+: s.a.emitted ∧ s.a.processed <+: s.b.emitted := by
  have one : ∀ (w r : Ep) (pipe : Bytes), EpInv w → EpInv r → (∀ m ∈ w.emitted, m.WF) →
      r.rxBytes ++ pipe = w.accepted → r.processed <+: w.emitted := by
    intro w r pipe hw hr hwf' hwire
    have hacc : r.rxBytes <+: w.accepted := ⟨pipe, hwire⟩
    have hpump : w.accepted <+: encodeAll w.emitted := by
      have : encodeAll w.emitted = w.accepted ++ w.connBuf ++ w.txBuf := hw.pump
      rw [this, List.append_assoc]; exact List.prefix_append _ _
    have h2 := stream_prefix w.emitted r.rxBytes (emitted_legal hw) hwf' (List.IsPrefix.trans hacc hpump)
    exact List.IsPrefix.trans hr.frame.2.1 h2
  exact ⟨one s.a s.b s.toB hi.ia hi.ib hwf.1 hi.wireB, one s.b s.a s.toA hi.ib hi.ia hwf.2 hi.wireA⟩

/-! ### the ideal receiver is monotone -/

theorem rxSpecStep_done (s : RxSpec) (m : Msg) : ∃ x, (rxSpecStep s m).done = s.done ++ x := by
  unfold rxSpecStep
  cases m with
  | xferSegment f t e d =>
    simp only []
    split
    · exact ⟨[], by simp⟩
    · generalize (if hasStart f = true then some (t, ([] : Bytes))
        else match s.cur with
          | some (t', d') => if (t' == t) = true then some (t', d') else none
          | none => none) = cur
      cases cur with
      | none => exact ⟨[], by simp⟩
      | some p =>
        obtain ⟨t', d'⟩ := p
        simp only []
        split
        · exact ⟨_, rfl⟩
        · exact ⟨[], by simp⟩
  | _ => exact ⟨[], by simp⟩

theorem rxSpec_fold_done (t : List Msg) (s : RxSpec) : ∃ x, (t.foldl rxSpecStep s).done = s.done ++ x := by
  induction t generalizing s with
  | nil => exact ⟨[], by simp⟩
  | cons m t ih =>
    obtain ⟨x1, h1⟩ := rxSpecStep_done s m
    obtain ⟨x2, h2⟩ := ih (rxSpecStep s m)
    exact ⟨x1 ++ x2, by simp only [List.foldl_cons]; rw [h2, h1, List.append_assoc]⟩

theorem deliver_prefix {a b : List Msg} (h : a <+: b) : deliver a <+: deliver b := by
  obtain ⟨t, rfl⟩ := h
  unfold deliver rxSpec
  rw [List.foldl_append]
  obtain ⟨x, hx⟩ := rxSpec_fold_done t (a.foldl rxSpecStep {})
  rw [hx]; exact List.prefix_append _ _

end Tcpcl
end DtnVerif
