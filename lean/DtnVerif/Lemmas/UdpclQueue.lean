/- Helper lemmas for C13: ids of the UDPCL receive queue (`_rx_id`, `_rx_queue`, pop). -/
import DtnVerif.Model.Udpcl
namespace DtnVerif
namespace Udpcl

/-- every queued id is below the counter and the ids increase along the queue -/
def IdsOK (s : Rx) : Prop :=
  (∀ e ∈ s.queue, e.1 < s.rxId) ∧ s.queue.Pairwise (fun a b => a.1 < b.1)

/-- `s'` is `s` with further entries appended under fresh, increasing ids -/
def Ext (s s' : Rx) : Prop :=
  s.rxId ≤ s'.rxId ∧ ∃ ex, s'.queue = s.queue ++ ex ∧
    (∀ e ∈ ex, s.rxId ≤ e.1 ∧ e.1 < s'.rxId) ∧ ex.Pairwise (fun a b => a.1 < b.1)

theorem Ext.refl (s : Rx) : Ext s s :=
  ⟨Nat.le_refl _, [], by simp, (fun e he => by cases he), List.Pairwise.nil⟩

theorem Ext.of_eq {s s' : Rx} (hq : s'.queue = s.queue) (hr : s'.rxId = s.rxId) : Ext s s' :=
  ⟨by omega, [], by simp [hq], (fun e he => by cases he), List.Pairwise.nil⟩

theorem Ext.trans {a b c : Rx} (h1 : Ext a b) (h2 : Ext b c) : Ext a c := by
  obtain ⟨r1, e1, q1, b1, p1⟩ := h1
  obtain ⟨r2, e2, q2, b2, p2⟩ := h2
  refine ⟨by omega, e1 ++ e2, by rw [q2, q1, List.append_assoc], ?_, ?_⟩
  · intro e he
    rcases List.mem_append.mp he with h | h
    · have := b1 e h; omega
    · have := b2 e h; omega
  · rw [List.pairwise_append]
    refine ⟨p1, p2, ?_⟩
    intro x hx y hy
    have := b1 x hx; have := b2 y hy; omega

theorem Ext.addRx (s : Rx) (q : QItem) : Ext s (addRx s q) := by
  refine ⟨by simp [Udpcl.addRx], [(s.rxId, q)], rfl, ?_, by simp⟩
  intro e he
  simp only [List.mem_singleton] at he
  subst he; simp [Udpcl.addRx]

theorem Ext.idsOK {s s' : Rx} (h : Ext s s') (hs : IdsOK s) : IdsOK s' := by
  obtain ⟨r, ex, hq, hb, hp⟩ := h
  obtain ⟨h1, h2⟩ := hs
  refine ⟨?_, ?_⟩
  · intro e he
    rw [hq] at he
    rcases List.mem_append.mp he with h | h
    · have := h1 e h; omega
    · exact (hb e h).2
  · rw [hq, List.pairwise_append]
    refine ⟨h2, hp, ?_⟩
    intro x hx y hy
    have := h1 x hx; have := hb y hy; omega

theorem applyFrag_ext (s : Rx) (k : Key) (x : Xfer) (off : Nat) (chunk : Bytes) :
    Ext s (applyFrag s k x off chunk) := by
  unfold applyFrag
  split
  · exact Ext.trans (Ext.of_eq rfl rfl) (Ext.addRx _ _)
  · exact Ext.of_eq rfl rfl

theorem recvTransfer_ext (s s' : Rx) (k : Key) (total off : Nat) (chunk : Bytes)
    (h : recvTransfer s k total off chunk = .ok s') : Ext s s' := by
  unfold recvTransfer at h
  cases hx : getX k s.frags with
  | none =>
    rw [hx] at h
    simp only [Except.ok.injEq] at h
    rw [← h]; exact applyFrag_ext _ _ _ _ _
  | some x =>
    rw [hx] at h
    simp only [] at h
    by_cases ht : total ≠ x.total
    · rw [if_pos ht] at h; cases h
    · rw [if_neg ht] at h
      simp only [Except.ok.injEq] at h
      rw [← h]; exact applyFrag_ext _ _ _ _ _

theorem recvExtMap_ext (rej : Bool) (s : Rx) (addr : String) (port : Nat) (m : ExtMap) :
    Ext s (recvExtMap rej s addr port m).1 := by
  unfold recvExtMap
  split
  · exact Ext.refl s
  · split
    · exact Ext.refl s
    · cases ht : m.transfer with
      | none => exact Ext.refl s
      | some t =>
        obtain ⟨id, total, off, d⟩ := t
        simp only []
        cases hr : recvTransfer s ⟨addr, port, id⟩ total off d with
        | ok s' => exact recvTransfer_ext _ _ _ _ _ _ hr
        | error e => exact Ext.refl s

theorem recvLoop_ext : ∀ (f : Nat) (rej : Bool) (addr : String) (port : Nat) (s : Rx) (b : Bytes),
    Ext s (recvLoop f rej addr port s b).1 := by
  intro f
  induction f with
  | zero => intro rej addr port s b; exact Ext.refl s
  | succ f ih =>
    intro rej addr port s b
    cases b with
    | nil => exact Ext.refl s
    | cons x rest =>
      unfold recvLoop
      split
      · exact Ext.refl s
      · split
        · exact Ext.refl s
        · split
          · exact Ext.refl s
          · split
            · split
              · exact Ext.refl s
              · split
                · exact Ext.refl s
                · exact Ext.trans (Ext.addRx _ _) (ih _ _ _ _ _)
            · split
              · split
                · exact Ext.refl s
                · rename_i m r hp
                  have hm := recvExtMap_ext rej s addr port m
                  split
                  · rename_i s' heq
                    rw [heq] at hm
                    exact Ext.trans hm (ih _ _ _ _ _)
                  · rename_i s' o _ heq
                    rw [heq] at hm
                    exact hm
              · exact Ext.refl s

theorem recvDatagram_ext (rej : Bool) (s : Rx) (addr : String) (port : Nat) (data : Bytes) :
    Ext s (recvDatagram rej s addr port data).1 :=
  recvLoop_ext _ _ _ _ _ _

theorem step_ext (s : Rx) (e : Ev) : Ext s (step s e) := by
  cases e with
  | bundle a p d => exact Ext.addRx _ _
  | xfer k total off chunk =>
    simp only [step]
    cases hr : recvTransfer s k total off chunk with
    | ok s' => exact recvTransfer_ext _ _ _ _ _ _ hr
    | error e => exact Ext.refl s

/-! ### pop -/

theorem popData_idsOK (s s' : Rx) (bid : Nat) (d : Bytes) (h : popData s bid = some (d, s'))
    (hs : IdsOK s) : IdsOK s' ∧ s'.rxId = s.rxId := by
  unfold popData at h
  cases hf : s.queue.find? (fun q => q.1 == bid) with
  | none => rw [hf] at h; cases h
  | some q =>
    rw [hf] at h
    simp only [Option.some.injEq, Prod.mk.injEq] at h
    obtain ⟨_, rfl⟩ := h
    refine ⟨⟨?_, ?_⟩, rfl⟩
    · intro e he
      exact hs.1 e (List.mem_filter.mp he).1
    · exact hs.2.filter _

theorem opStep_idsOK (s : Rx) (op : Op) (hs : IdsOK s) :
    IdsOK (opStep s op) ∧ s.rxId ≤ (opStep s op).rxId := by
  cases op with
  | dgram rej addr port data =>
    have := recvDatagram_ext rej s addr port data
    exact ⟨this.idsOK hs, this.1⟩
  | pop bid =>
    simp only [opStep]
    cases hp : popData s bid with
    | none => exact ⟨hs, Nat.le_refl _⟩
    | some p =>
      obtain ⟨d, s'⟩ := p
      obtain ⟨h1, h2⟩ := popData_idsOK s s' bid d hp hs
      exact ⟨h1, by simp only; omega⟩

theorem dictSet_fresh (bid : Nat) (q : QItem) : ∀ (l : List (Nat × QItem)),
    (∀ e ∈ l, e.1 ≠ bid) → dictSet bid q l = l ++ [(bid, q)] := by
  intro l
  induction l with
  | nil => intro _; rfl
  | cons e l ih =>
    intro h
    obtain ⟨i, x⟩ := e
    have hi : i ≠ bid := h (i, x) List.mem_cons_self
    simp only [dictSet, hi, if_false, List.cons_append]
    rw [ih (fun e he => h e (List.mem_cons_of_mem _ he))]

theorem pairwise_unique : ∀ (l : List (Nat × QItem)), l.Pairwise (fun a b => a.1 < b.1) →
    ∀ x ∈ l, ∀ y ∈ l, x.1 = y.1 → x = y := by
  intro l
  induction l with
  | nil => intro _ x hx; cases hx
  | cons a l ih =>
    intro hp x hx y hy hxy
    rw [List.pairwise_cons] at hp
    rcases List.mem_cons.mp hx with hxa | hxl
    · rcases List.mem_cons.mp hy with hya | hyl
      · rw [hxa, hya]
      · have := hp.1 y hyl; rw [hxa] at hxy; omega
    · rcases List.mem_cons.mp hy with hya | hyl
      · have := hp.1 x hxl; rw [hya] at hxy; omega
      · exact ih hp.2 x hxl y hyl hxy

/-- Popping a queued id returns exactly the data stored under that id, once. -/
theorem popData_exact (s : Rx) (hs : IdsOK s) (bid : Nat) (q : QItem) (hm : (bid, q) ∈ s.queue) :
    ∃ s', popData s bid = some (q.data, s') ∧ popData s' bid = none ∧
      queueIds s' = (queueIds s).filter (· != bid) ∧
      ∀ e ∈ s.queue, e.1 ≠ bid → e ∈ s'.queue := by
  have h2 := hs.2
  have hfind : ∃ e, s.queue.find? (fun q => q.1 == bid) = some e := by
    cases hf : s.queue.find? (fun q => q.1 == bid) with
    | some e => exact ⟨e, rfl⟩
    | none =>
      have := List.find?_eq_none.mp hf (bid, q) hm
      simp at this
  obtain ⟨e, he⟩ := hfind
  have hemem := List.mem_of_find?_eq_some he
  have heid : e.1 = bid := by simpa using List.find?_some he
  have : e = (bid, q) := pairwise_unique s.queue h2 e hemem (bid, q) hm heid
  subst this
  refine ⟨{ s with queue := s.queue.filter (fun q => q.1 != bid) }, ?_, ?_, ?_, ?_⟩
  · simp only [popData, he]
  · simp only [popData]
    have : (s.queue.filter (fun q => q.1 != bid)).find? (fun q => q.1 == bid) = none := by
      rw [List.find?_eq_none]
      intro x hx
      have := (List.mem_filter.mp hx).2
      simp at this ⊢; exact this
    rw [this]
  · simp only [queueIds, List.filter_map]
    congr 1
  · intro x hx hne
    exact List.mem_filter.mpr ⟨hx, by simpa using hne⟩

/-- a pop of an id that is not queued raises and changes nothing -/
theorem popData_absent (s : Rx) (bid : Nat) (h : bid ∉ queueIds s) : popData s bid = none := by
  unfold popData
  have : s.queue.find? (fun q => q.1 == bid) = none := by
    rw [List.find?_eq_none]
    intro x hx hxb
    apply h
    simp only [queueIds, List.mem_map]
    exact ⟨x, hx, by simpa using hxb⟩
  rw [this]

end Udpcl
end DtnVerif
