/- Helper lemmas for C20: the BTP-U message codec (`Btpu.encMsg/decMsg`, hint chains). -/
import DtnVerif.Model.Btpu
import DtnVerif.Lemmas.Bytes
namespace DtnVerif
namespace Btpu

theorem u8_ofNat_toNat {x : Nat} (h : x < 256) : (UInt8.ofNat x).toNat = x := by
  simp [UInt8.toNat_ofNat']; exact h

theorem u8_toNat_lt (x : UInt8) : x.toNat < 256 := x.toNat_lt

theorem u8_ofNat_self (x : UInt8) : UInt8.ofNat x.toNat = x := by simp

theorem hintsLen_eq (hs : List Hint) : (encHints hs).length = hintsLen hs := by
  induction hs with
  | nil => rfl
  | cons h rest ih =>
    cases rest with
    | nil => simp [encHints, encHint, hintsLen]; omega
    | cons h' r =>
      simp only [encHints, List.length_append, ih, hintsLen]
      simp [encHint]; omega

theorem hintsLen_ge (hs : List Hint) : 2 * hs.length ≤ hintsLen hs := by
  induction hs with
  | nil => simp [hintsLen]
  | cons h rest ih => simp only [hintsLen, List.length_cons]; omega

/-! ### encode then decode -/

def HintsWF (hs : List Hint) : Prop :=
  hintsExact hs = true ∧ ∀ h ∈ hs, h.htype < 128 ∧ h.length < 256

theorem decHints_step (f ty : Nat) (fl more : Bool) (dt rest : Bytes) (hty : ty < 128)
    (hln : dt.length < 256) :
    decHints (f + 1) (encHint ⟨ty, fl, dt.length, dt⟩ more ++ rest) =
      if more then
        (match decHints f rest with
         | none => none
         | some (hs, r) => some (⟨ty, true, dt.length, dt⟩ :: hs, r))
      else some ([⟨ty, false, dt.length, dt⟩], rest) := by
  have ha : (UInt8.ofNat (ty % 128 * 2 + (if more = true then 1 else 0))).toNat =
      ty * 2 + (if more = true then 1 else 0) := by
    rw [u8_ofNat_toNat]
    · cases more <;> simp <;> omega
    · cases more <;> simp <;> omega
  have hb : (UInt8.ofNat (dt.length % 256)).toNat = dt.length := by
    rw [u8_ofNat_toNat] <;> omega
  simp only [encHint, List.cons_append, decHints, ha, hb]
  cases more with
  | false =>
    simp
  | true =>
    have e1 : (ty * 2 + 1) / 2 = ty := by omega
    have e2 : ((ty * 2 + 1) % 2 = 1) := by omega
    simp only [if_true, e1, e2, decide_true]
    have d1 : List.drop dt.length (dt ++ rest) = rest := by simp
    have d2 : List.take dt.length (dt ++ rest) = dt := by simp
    rw [d1, d2]
    cases decHints f rest <;> rfl

theorem decHints_enc : ∀ (hs : List Hint) (fuel : Nat) (tail : Bytes), hs ≠ [] → HintsWF hs →
    hs.length ≤ fuel → decHints fuel (encHints hs ++ tail) = some (hs, tail) := by
  intro hs
  induction hs with
  | nil => intro _ _ h; exact absurd rfl h
  | cons h rest ih =>
    intro fuel tail _ hwf hfuel
    obtain ⟨hex, hb⟩ := hwf
    obtain ⟨ht, hl⟩ := hb h List.mem_cons_self
    obtain ⟨ty, fl, ln, dt⟩ := h
    simp only at ht hl
    cases fuel with
    | zero => simp at hfuel
    | succ f =>
      cases rest with
      | nil =>
        simp only [hintsExact, Bool.and_eq_true, Bool.not_eq_true', beq_iff_eq] at hex
        obtain ⟨hfl, hlen⟩ := hex
        subst hfl; subst hlen
        simp only [encHints]
        rw [decHints_step f ty false false dt tail ht hl]
        simp
      | cons h' r =>
        simp only [hintsExact, Bool.and_eq_true, beq_iff_eq] at hex
        obtain ⟨⟨hfl, hlen⟩, hex'⟩ := hex
        subst hfl; subst hlen
        simp only [encHints, List.append_assoc]
        rw [decHints_step f ty true true dt _ ht hl]
        have hrec := ih f tail (List.cons_ne_nil _ _) ⟨hex', fun x hx => hb x (List.mem_cons_of_mem _ hx)⟩
          (by simp at hfuel ⊢; omega)
        simp only [if_true, hrec]

/-- A message whose fields fit their widths and whose declared lengths are the actual ones. -/
def Msg.wf (m : Msg) : Prop :=
  m.mtype < 256 ∧ m.flags < 16 ∧ m.length < 2 ^ 20 ∧ m.exact = true ∧
  ∀ h ∈ m.hints, h.htype < 128 ∧ h.length < 256

theorem decMsg_enc (m : Msg) (tail : Bytes) (hwf : m.wf) :
    decMsg (encMsg m ++ tail) = some (m, tail) := by
  obtain ⟨h1, h2, h3, hex, hh⟩ := hwf
  obtain ⟨ty, fl, ln, hs, pl⟩ := m
  simp only at h1 h2 h3 hh
  simp only [Msg.exact, Bool.and_eq_true, beq_iff_eq] at hex
  obtain ⟨⟨hhex, hlen⟩, hflag⟩ := hex
  simp only [encMsg, encHead, List.cons_append, List.nil_append, List.append_assoc, decMsg]
  have a0 : (UInt8.ofNat (ty % 256)).toNat = ty := by rw [u8_ofNat_toNat] <;> omega
  have a1 : (UInt8.ofNat (fl % 16 * 16 + ln / 65536 % 16)).toNat = fl * 16 + ln / 65536 := by
    have : ln / 65536 < 16 := by omega
    rw [u8_ofNat_toNat] <;> omega
  have a2 : (UInt8.ofNat (ln / 256 % 256)).toNat = ln / 256 % 256 := by rw [u8_ofNat_toNat]; omega
  have a3 : (UInt8.ofNat (ln % 256)).toNat = ln % 256 := by rw [u8_ofNat_toNat]; omega
  simp only [a0, a1, a2, a3]
  have hfl : (fl * 16 + ln / 65536) / 16 = fl := by omega
  have hln : (fl * 16 + ln / 65536) % 16 * 65536 + ln / 256 % 256 * 256 + ln % 256 = ln := by omega
  simp only [hfl, hln]
  by_cases hnil : hs = []
  · subst hnil
    have hf0 : ¬ (fl / 8 % 2 = 1) := by
      intro h; simp [h] at hflag
    simp only [hf0, if_false, encHints, List.nil_append, hintsLen, Nat.zero_le, if_true]
    simp only [hintsLen, Nat.zero_add] at hlen
    subst hlen
    simp
  · have hf1 : fl / 8 % 2 = 1 := by
      have : hs.isEmpty = false := by cases hs <;> simp_all
      by_cases h : fl / 8 % 2 = 1
      · exact h
      · simp [h, this] at hflag
    simp only [hf1, if_true]
    rw [decHints_enc hs _ (pl ++ tail) hnil ⟨hhex, hh⟩]
    · have hle : hintsLen hs ≤ ln := by omega
      simp only [hle, if_true]
      have : ln - hintsLen hs = pl.length := by omega
      rw [this]; simp
    · have := hintsLen_ge hs
      simp only [List.length_append, hintsLen_eq]; omega

theorem encMsg_head (m : Msg) : ∃ tl, encMsg m = UInt8.ofNat (m.mtype % 256) :: tl := ⟨_, rfl⟩

theorem encMsg_length_ge (m : Msg) : 4 ≤ (encMsg m).length := by
  simp [encMsg, encHead]

theorem decSet_enc (pad : Bytes) (hpad : pad = [] ∨ ∃ r, pad = 0 :: r) :
    ∀ (msgs : List Msg) (fuel : Nat), (∀ m ∈ msgs, m.wf ∧ m.mtype ≠ 0) → msgs.length < fuel →
      decSet fuel (encSet msgs ++ pad) = some (msgs, pad) := by
  intro msgs
  induction msgs with
  | nil =>
    intro fuel _ hf
    cases fuel with
    | zero => simp at hf
    | succ f =>
      rcases hpad with rfl | ⟨r, rfl⟩
      · simp [encSet, decSet]
      · simp [encSet, decSet]
  | cons m rest ih =>
    intro fuel hwf hf
    cases fuel with
    | zero => simp at hf
    | succ f =>
      obtain ⟨hm, hm0⟩ := hwf m List.mem_cons_self
      have hdec := decMsg_enc m (encSet rest ++ pad) hm
      obtain ⟨tl, htl⟩ := encMsg_head m
      simp only [encSet, List.append_assoc]
      rw [htl] at hdec ⊢
      simp only [List.cons_append] at hdec ⊢
      unfold decSet
      have hne : ¬ (UInt8.ofNat (m.mtype % 256) = 0) := by
        intro h
        have := congrArg UInt8.toNat h
        rw [u8_ofNat_toNat (by omega)] at this
        have h256 := hm.1
        simp at this; omega
      simp only [hne, if_false, hdec]
      rw [ih f (fun x hx => hwf x (List.mem_cons_of_mem _ hx)) (by simp at hf; omega)]

/-! ### decode then encode -/

theorem decHints_exact : ∀ (fuel : Nat) (b : Bytes) (hs : List Hint) (r1 : Bytes),
    decHints fuel b = some (hs, r1) → hintsExact hs = true → hs ≠ [] → encHints hs ++ r1 = b := by
  intro fuel
  induction fuel with
  | zero => intro b hs r1 h _ hne; simp [decHints] at h; exact absurd h.1 hne
  | succ f ih =>
    intro b hs r1 h hex hne
    match b, h with
    | [], h => simp [decHints] at h; exact absurd h.1 hne
    | [_], h => simp [decHints] at h
    | t :: l :: rest, h =>
      simp only [decHints] at h
      have ht := u8_toNat_lt t
      by_cases hfl : t.toNat % 2 = 1
      · simp only [hfl, decide_true, if_true] at h
        cases hrec : decHints f (rest.drop l.toNat) with
        | none => rw [hrec] at h; cases h
        | some p =>
          obtain ⟨hs', r⟩ := p
          rw [hrec] at h
          simp only [Option.some.injEq, Prod.mk.injEq] at h
          obtain ⟨rfl, rfl⟩ := h
          cases hs' with
          | nil => simp [hintsExact] at hex
          | cons h' r' =>
            simp only [hintsExact, Bool.and_eq_true, beq_iff_eq] at hex
            obtain ⟨⟨_, hlen⟩, hex'⟩ := hex
            have := ih _ _ _ hrec hex' (List.cons_ne_nil _ _)
            simp only [encHints, encHint, List.cons_append, List.append_assoc, this]
            have e1 : t.toNat / 2 % 128 * 2 + 1 = t.toNat := by omega
            have e2 : l.toNat % 256 = l.toNat := by have := u8_toNat_lt l; omega
            simp only [if_true]
            rw [e1, e2, u8_ofNat_self, u8_ofNat_self]
            congr 2
            exact List.take_append_drop _ _
      · simp only [hfl, decide_false, Bool.false_eq_true, if_false, Option.some.injEq,
          Prod.mk.injEq] at h
        obtain ⟨rfl, rfl⟩ := h
        simp only [hintsExact, Bool.and_eq_true, beq_iff_eq] at hex
        simp only [encHints, encHint, List.cons_append]
        have e1 : t.toNat / 2 % 128 * 2 + 0 = t.toNat := by omega
        have e2 : l.toNat % 256 = l.toNat := by have := u8_toNat_lt l; omega
        simp only [Bool.false_eq_true, if_false]
        rw [e1, e2, u8_ofNat_self, u8_ofNat_self]
        congr 2
        exact List.take_append_drop _ _

theorem decMsg_exact (b : Bytes) (m : Msg) (rest : Bytes) (h : decMsg b = some (m, rest))
    (hex : m.exact = true) : encMsg m ++ rest = b := by
  match b, h with
  | b0 :: b1 :: b2 :: b3 :: r, h =>
    simp only [decMsg] at h
    have t0 := u8_toNat_lt b0
    have t1 := u8_toNat_lt b1
    have t2 := u8_toNat_lt b2
    have t3 := u8_toNat_lt b3
    cases hh : (if b1.toNat / 16 / 8 % 2 = 1 then decHints (r.length + 1) r else some ([], r)) with
    | none => rw [hh] at h; cases h
    | some p =>
      obtain ⟨hs, r1⟩ := p
      rw [hh] at h
      simp only [Option.some.injEq, Prod.mk.injEq] at h
      obtain ⟨rfl, rfl⟩ := h
      simp only [Msg.exact, Bool.and_eq_true, beq_iff_eq] at hex
      obtain ⟨⟨hhex, hlen⟩, hflag⟩ := hex
      simp only [encMsg, encHead, List.cons_append, List.nil_append, List.append_assoc]
      have e0 : b0.toNat % 256 = b0.toNat := by omega
      have e1 : b1.toNat / 16 % 16 * 16 +
          (b1.toNat % 16 * 65536 + b2.toNat * 256 + b3.toNat) / 65536 % 16 = b1.toNat := by omega
      have e2 : (b1.toNat % 16 * 65536 + b2.toNat * 256 + b3.toNat) / 256 % 256 = b2.toNat := by omega
      have e3 : (b1.toNat % 16 * 65536 + b2.toNat * 256 + b3.toNat) % 256 = b3.toNat := by omega
      rw [e0, e1, e2, e3, u8_ofNat_self, u8_ofNat_self, u8_ofNat_self, u8_ofNat_self]
      congr 4
      -- the hints and the payload give back `r`
      have hle : hintsLen hs ≤ b1.toNat % 16 * 65536 + b2.toNat * 256 + b3.toNat := by omega
      simp only [hle, if_true] at hlen ⊢
      have hr : encHints hs ++ r1 = r := by
        by_cases hf : b1.toNat / 16 / 8 % 2 = 1
        · simp only [hf, if_true] at hh
          have hne : hs ≠ [] := by
            intro hnil; subst hnil; simp [hf] at hflag
          exact decHints_exact _ _ _ _ hh hhex hne
        · simp only [hf, if_false, Option.some.injEq, Prod.mk.injEq] at hh
          obtain ⟨rfl, rfl⟩ := hh
          rfl
      rw [List.take_append_drop]; exact hr

theorem decSet_exact : ∀ (fuel : Nat) (b : Bytes) (ms : List Msg) (rest : Bytes),
    decSet fuel b = some (ms, rest) → (∀ m ∈ ms, m.exact = true) → encSet ms ++ rest = b := by
  intro fuel
  induction fuel with
  | zero => intro b ms rest h _; simp [decSet] at h; obtain ⟨rfl, rfl⟩ := h; rfl
  | succ f ih =>
    intro b ms rest h hex
    match b, h with
    | [], h => simp [decSet] at h; obtain ⟨rfl, rfl⟩ := h; rfl
    | b0 :: r, h =>
      simp only [decSet] at h
      by_cases hz : b0 = 0
      · simp only [hz, if_true, Option.some.injEq, Prod.mk.injEq] at h
        obtain ⟨rfl, rfl⟩ := h
        simp [encSet, hz]
      · simp only [hz, if_false] at h
        cases hm : decMsg (b0 :: r) with
        | none => rw [hm] at h; cases h
        | some p =>
          obtain ⟨m, rest'⟩ := p
          rw [hm] at h
          cases hs : decSet f rest' with
          | none => simp only [hs] at h; cases h
          | some q =>
            obtain ⟨ms', pd⟩ := q
            simp only [hs, Option.some.injEq, Prod.mk.injEq] at h
            obtain ⟨rfl, rfl⟩ := h
            have h1 := decMsg_exact _ _ _ hm (hex m List.mem_cons_self)
            have h2 := ih _ _ _ hs (fun x hx => hex x (List.mem_cons_of_mem _ hx))
            simp only [encSet, List.append_assoc, h2, h1]

end Btpu
end DtnVerif
