/-
  Pure facts about legal message sequences and the acknowledgements the ideal receiver owes for them
  (`specAcks`): for a legal sequence every segment is accepted, the owed acknowledgements are one per
  segment with its id and END flag, ids never decrease, and after the END segment of a transfer no
  later segment carries its id.
-/
import DtnVerif.Lemmas.TcpclAckSeqInv
namespace DtnVerif
namespace Tcpcl

/-- (transfer id, END flag) of a segment; nothing for other messages -/
def segInfoOf : Msg → List (Nat × Bool)
  | .xferSegment f t _ _ => [(t, hasEnd f)]
  | _ => []

def segInfo (ms : List Msg) : List (Nat × Bool) := ms.flatMap segInfoOf

def ackTid : Msg → Nat
  | .xferAck _ t _ => t
  | _ => 0
def ackIsEnd : Msg → Bool
  | .xferAck f _ _ => hasEnd f
  | _ => false
def ackInfo (m : Msg) : Nat × Bool := (ackTid m, ackIsEnd m)

/-- the monitor state and the ideal receiver state agree on "in session" and on the open transfer id -/
def Rel (s : LState) (r : RxSpec) : Prop :=
  r.inSess = decide (s.phase = 2) ∧ s.cur.map (·.1) = r.cur.map (·.1)

theorem rel_init : Rel {} {} := ⟨by decide, rfl⟩

theorem rel_step (s s1 : LState) (r : RxSpec) (m : Msg) (hr : Rel s r) (hs : legalStep s m = some s1) :
    Rel s1 (rxSpecStep r m) ∧ (ackOfStep r m).toList.map ackInfo = segInfoOf m := by
  obtain ⟨h1, h2⟩ := hr
  cases m with
  | contact f =>
    simp only [legalStep] at hs
    split at hs
    · rename_i hp
      injection hs with hs; subst hs
      have hp' : s.phase = 0 := by simpa using hp
      refine ⟨⟨?_, h2⟩, by simp [ackOfStep, segInfoOf]⟩
      simp [rxSpecStep, h1, hp']
    · simp at hs
  | sessInit a b c d x =>
    simp only [legalStep] at hs
    split at hs
    · injection hs with hs; subst hs
      exact ⟨⟨by simp [rxSpecStep], h2⟩, by simp [ackOfStep, segInfoOf]⟩
    · simp at hs
  | sessTerm a b =>
    simp only [legalStep] at hs
    split at hs
    · injection hs with hs; subst hs
      exact ⟨⟨by simpa [rxSpecStep] using h1, h2⟩, by simp [ackOfStep, segInfoOf]⟩
    · simp at hs
  | keepalive =>
    simp only [legalStep] at hs
    split at hs
    · injection hs with hs; subst hs
      exact ⟨⟨by simpa [rxSpecStep] using h1, h2⟩, by simp [ackOfStep, segInfoOf]⟩
    · simp at hs
  | msgReject a b =>
    simp only [legalStep] at hs
    split at hs
    · injection hs with hs; subst hs
      exact ⟨⟨by simpa [rxSpecStep] using h1, h2⟩, by simp [ackOfStep, segInfoOf]⟩
    · simp at hs
  | xferAck a b c =>
    simp only [legalStep] at hs
    split at hs
    · injection hs with hs; subst hs
      exact ⟨⟨by simpa [rxSpecStep] using h1, h2⟩, by simp [ackOfStep, segInfoOf]⟩
    · simp at hs
  | xferRefuse a b =>
    simp only [legalStep] at hs
    split at hs
    · injection hs with hs; subst hs
      exact ⟨⟨by simpa [rxSpecStep] using h1, h2⟩, by simp [ackOfStep, segInfoOf]⟩
    · simp at hs
  | xferSegment flags tid ext data =>
    simp only [legalStep] at hs
    split at hs
    · simp at hs
    · rename_i hph
      have hph' : s.phase = 2 := by simpa using hph
      have hin : r.inSess = true := by rw [h1, hph']; decide
      by_cases hst : hasStart flags = true
      · simp only [hst, if_true] at hs
        split at hs
        · simp at hs
        · rename_i hg
          have hcn : s.cur = none := by
            simp only [Bool.or_eq_true, not_or] at hg
            have := hg.1.2
            cases hc : s.cur with
            | none => rfl
            | some v => simp [hc] at this
          have hrn : r.cur.map (·.1) = none := by rw [← h2, hcn]; rfl
          cases htl : totalLengthOf ext with
          | none => simp [htl] at hs
          | some total =>
            simp only [htl] at hs
            by_cases he : hasEnd flags = true
            · simp only [he, if_true] at hs
              split at hs
              · injection hs with hs; subst hs
                refine ⟨⟨by simp [rxSpecStep, hin, hst, he, hph'], ?_⟩, ?_⟩
                · simp [rxSpecStep, hin, hst, he, hcn]
                · simp [ackOfStep, hin, hst, segInfoOf, ackInfo, ackTid, ackIsEnd, he]
              · simp at hs
            · have he' : hasEnd flags = false := by simpa using he
              simp only [he', Bool.false_eq_true, if_false] at hs
              split at hs
              · injection hs with hs; subst hs
                refine ⟨⟨by simp [rxSpecStep, hin, hst, he', hph'], ?_⟩, ?_⟩
                · simp [rxSpecStep, hin, hst, he']
                · simp [ackOfStep, hin, hst, segInfoOf, ackInfo, ackTid, ackIsEnd, he']
              · simp at hs
      · have hst' : hasStart flags = false := by simpa using hst
        simp only [hst', Bool.false_eq_true, if_false] at hs
        split at hs
        · simp at hs
        · cases hc : s.cur with
          | none => simp [hc] at hs
          | some v =>
            obtain ⟨t, total, sofar⟩ := v
            simp only [hc] at hs
            split at hs
            · simp at hs
            · rename_i htt
              have htt' : t = tid := by simpa using htt
              subst htt'
              have hrc : r.cur.map (·.1) = some t := by rw [← h2, hc]; rfl
              obtain ⟨d, hd⟩ : ∃ d, r.cur = some (t, d) := by
                cases hrr : r.cur with
                | none => rw [hrr] at hrc; simp at hrc
                | some p =>
                  obtain ⟨t', d⟩ := p
                  rw [hrr] at hrc
                  simp at hrc
                  exact ⟨d, by rw [hrc]⟩
              by_cases he : hasEnd flags = true
              · simp only [he, if_true] at hs
                split at hs
                · injection hs with hs; subst hs
                  refine ⟨⟨by simp [rxSpecStep, hin, hst', he, hd, hph'], ?_⟩, ?_⟩
                  · simp [rxSpecStep, hin, hst', he, hd]
                  · simp [ackOfStep, hin, hst', hd, segInfoOf, ackInfo, ackTid, ackIsEnd, he]
                · simp at hs
              · have he' : hasEnd flags = false := by simpa using he
                simp only [he', Bool.false_eq_true, if_false] at hs
                split at hs
                · injection hs with hs; subst hs
                  refine ⟨⟨by simp [rxSpecStep, hin, hst', he', hd, hph'], ?_⟩, ?_⟩
                  · simp [rxSpecStep, hin, hst', he', hd]
                  · simp [ackOfStep, hin, hst', hd, segInfoOf, ackInfo, ackTid, ackIsEnd, he']
                · simp at hs

/-- for a legal sequence the owed acknowledgements are, one for one, its segments -/
theorem owed_info (ms : List Msg) : ∀ (s s' : LState) (r : RxSpec), Rel s r → legalRun s ms = some s' →
    (specAcksFrom r ms).map ackInfo = segInfo ms ∧ Rel s' (ms.foldl rxSpecStep r) := by
  induction ms with
  | nil => intro s s' r hr h; simp only [legalRun, Option.some.injEq] at h; subst h; exact ⟨rfl, hr⟩
  | cons m ms ih =>
    intro s s' r hr h
    simp only [legalRun] at h
    cases hs : legalStep s m with
    | none => rw [hs] at h; simp at h
    | some s1 =>
      rw [hs] at h
      obtain ⟨hr1, ha⟩ := rel_step s s1 r m hr hs
      obtain ⟨h1, h2⟩ := ih s1 s' (rxSpecStep r m) hr1 h
      refine ⟨?_, h2⟩
      simp only [specAcksFrom, List.map_append, segInfo, List.flatMap_cons]
      rw [ha]
      congr 1

theorem owed_info_legal (ms : List Msg) (h : (legalRun {} ms).isSome) :
    (specAcks ms).map ackInfo = segInfo ms := by
  obtain ⟨L, hL⟩ := Option.isSome_iff_exists.mp h
  exact (owed_info ms {} L {} rel_init hL).1

/-! ids never decrease; after an END nothing carries that id -/

def CurLe (s : LState) : Prop := ∀ c, s.cur = some c → c.1 ≤ s.lastTid

/-- every segment to come has an id above `t` -/
def Above (t : Nat) (s : LState) : Prop := t ≤ s.lastTid ∧ ∀ c, s.cur = some c → t < c.1

theorem legalStep_seg (s s1 : LState) (flags tid : Nat) (ext data : Bytes)
    (hs : legalStep s (.xferSegment flags tid ext data) = some s1) (hc : CurLe s) :
    CurLe s1 ∧ s.lastTid ≤ s1.lastTid ∧ tid ≤ s1.lastTid
    ∧ (∀ t, Above t s → t < tid ∧ Above t s1)
    ∧ (hasEnd flags = true → Above tid s1) := by
  simp only [legalStep] at hs
  split at hs
  · simp at hs
  · by_cases hst : hasStart flags = true
    · simp only [hst, if_true] at hs
      split at hs
      · simp at hs
      · rename_i hg
        simp only [Bool.or_eq_true, not_or, decide_eq_true_eq, Nat.not_le] at hg
        have hlt : s.lastTid < tid := hg.2
        have hcn : s.cur = none := by
          have := hg.1.2
          cases hcc : s.cur with
          | none => rfl
          | some v => simp [hcc] at this
        cases htl : totalLengthOf ext with
        | none => simp [htl] at hs
        | some total =>
          simp only [htl] at hs
          by_cases he : hasEnd flags = true
          · simp only [he, if_true] at hs
            split at hs
            · injection hs with hs; subst hs
              refine ⟨?_, Nat.le_of_lt hlt, Nat.le_refl _, ?_, ?_⟩
              · intro c hcc; simp only [hcn] at hcc; cases hcc
              · intro t ha
                exact ⟨Nat.lt_of_le_of_lt ha.1 hlt, ⟨Nat.le_of_lt (Nat.lt_of_le_of_lt ha.1 hlt), by simp [hcn]⟩⟩
              · intro _; exact ⟨Nat.le_refl _, by simp [hcn]⟩
            · simp at hs
          · have he' : hasEnd flags = false := by simpa using he
            simp only [he', Bool.false_eq_true, if_false] at hs
            split at hs
            · injection hs with hs; subst hs
              refine ⟨?_, Nat.le_of_lt hlt, Nat.le_refl _, ?_, ?_⟩
              · intro c hcc; simp only [Option.some.injEq] at hcc; subst hcc; exact Nat.le_refl _
              · intro t ha
                refine ⟨Nat.lt_of_le_of_lt ha.1 hlt, ⟨Nat.le_of_lt (Nat.lt_of_le_of_lt ha.1 hlt), ?_⟩⟩
                intro c hcc; simp only [Option.some.injEq] at hcc; subst hcc
                exact Nat.lt_of_le_of_lt ha.1 hlt
              · intro h; rw [he'] at h; cases h
            · simp at hs
    · have hst' : hasStart flags = false := by simpa using hst
      simp only [hst', Bool.false_eq_true, if_false] at hs
      split at hs
      · simp at hs
      · cases hcc : s.cur with
        | none => simp [hcc] at hs
        | some v =>
          obtain ⟨t0, total, sofar⟩ := v
          simp only [hcc] at hs
          split at hs
          · simp at hs
          · rename_i htt
            have htt' : t0 = tid := by simpa using htt
            subst htt'
            have hle : t0 ≤ s.lastTid := hc _ hcc
            by_cases he : hasEnd flags = true
            · simp only [he, if_true] at hs
              split at hs
              · injection hs with hs; subst hs
                refine ⟨by intro c h; simp at h, Nat.le_refl _, hle, ?_, ?_⟩
                · intro t ha; exact ⟨ha.2 _ hcc, ⟨ha.1, by simp⟩⟩
                · intro _; exact ⟨hle, by simp⟩
              · simp at hs
            · have he' : hasEnd flags = false := by simpa using he
              simp only [he', Bool.false_eq_true, if_false] at hs
              split at hs
              · injection hs with hs; subst hs
                refine ⟨?_, Nat.le_refl _, hle, ?_, ?_⟩
                · intro c h; simp only [Option.some.injEq] at h; subst h; exact hle
                · intro t ha
                  refine ⟨ha.2 _ hcc, ⟨ha.1, ?_⟩⟩
                  intro c h; simp only [Option.some.injEq] at h; subst h; exact ha.2 (t0, total, sofar) hcc
                · intro h; rw [he'] at h; cases h
              · simp at hs

/-- a non-segment message leaves `cur` and `lastTid` alone -/
theorem legalStep_nonseg (s s1 : LState) (m : Msg) (hm : segInfoOf m = []) (hs : legalStep s m = some s1) :
    s1.cur = s.cur ∧ s1.lastTid = s.lastTid := by
  cases m with
  | xferSegment f t x d => simp [segInfoOf] at hm
  | contact f => simp only [legalStep] at hs; split at hs <;> first | (injection hs with hs; subst hs; exact ⟨rfl, rfl⟩) | simp at hs
  | sessInit a b c d x => simp only [legalStep] at hs; split at hs <;> first | (injection hs with hs; subst hs; exact ⟨rfl, rfl⟩) | simp at hs
  | sessTerm a b => simp only [legalStep] at hs; split at hs <;> first | (injection hs with hs; subst hs; exact ⟨rfl, rfl⟩) | simp at hs
  | keepalive => simp only [legalStep] at hs; split at hs <;> first | (injection hs with hs; subst hs; exact ⟨rfl, rfl⟩) | simp at hs
  | msgReject a b => simp only [legalStep] at hs; split at hs <;> first | (injection hs with hs; subst hs; exact ⟨rfl, rfl⟩) | simp at hs
  | xferAck a b c => simp only [legalStep] at hs; split at hs <;> first | (injection hs with hs; subst hs; exact ⟨rfl, rfl⟩) | simp at hs
  | xferRefuse a b => simp only [legalStep] at hs; split at hs <;> first | (injection hs with hs; subst hs; exact ⟨rfl, rfl⟩) | simp at hs

/-- along a legal run from a state above `t`, every segment id is above `t`; ids stay ≤ the final `lastTid` -/
theorem legal_above (ms : List Msg) : ∀ (s s' : LState), legalRun s ms = some s' → CurLe s →
    (∀ t, Above t s → ∀ x ∈ segInfo ms, t < x.1) ∧ (∀ x ∈ segInfo ms, x.1 ≤ s'.lastTid) ∧ s.lastTid ≤ s'.lastTid
    ∧ CurLe s' := by
  induction ms with
  | nil =>
    intro s s' h hc
    simp only [legalRun, Option.some.injEq] at h; subst h
    exact ⟨by intro t _ x hx; simp [segInfo] at hx, by intro x hx; simp [segInfo] at hx, Nat.le_refl _, hc⟩
  | cons m ms ih =>
    intro s s' h hc
    simp only [legalRun] at h
    cases hs : legalStep s m with
    | none => rw [hs] at h; simp at h
    | some s1 =>
      rw [hs] at h
      cases m with
      | xferSegment flags tid ext data =>
        obtain ⟨c1, l1, l2, a1, _⟩ := legalStep_seg s s1 flags tid ext data hs hc
        obtain ⟨i1, i2, i3, i4⟩ := ih s1 s' h c1
        refine ⟨?_, ?_, Nat.le_trans l1 i3, i4⟩
        · intro t ha x hx
          simp only [segInfo, List.flatMap_cons, segInfoOf, List.mem_append, List.mem_singleton] at hx
          rcases hx with hx | hx
          · rw [hx]; exact (a1 t ha).1
          · exact i1 t (a1 t ha).2 x hx
        · intro x hx
          simp only [segInfo, List.flatMap_cons, segInfoOf, List.mem_append, List.mem_singleton] at hx
          rcases hx with hx | hx
          · rw [hx]; exact Nat.le_trans l2 i3
          · exact i2 x hx
      | _ =>
        all_goals (
          obtain ⟨e1, e2⟩ := legalStep_nonseg s s1 _ rfl hs
          have c1 : CurLe s1 := by intro c hcc; rw [e1] at hcc; rw [e2]; exact hc c hcc
          obtain ⟨i1, i2, i3, i4⟩ := ih s1 s' h c1
          refine ⟨?_, ?_, by rw [← e2]; exact i3, i4⟩
          · intro t ha x hx
            simp only [segInfo, List.flatMap_cons, segInfoOf, List.nil_append] at hx
            exact i1 t ⟨by rw [e2]; exact ha.1, by intro c hcc; rw [e1] at hcc; exact ha.2 c hcc⟩ x hx
          · intro x hx
            simp only [segInfo, List.flatMap_cons, segInfoOf, List.nil_append] at hx
            exact i2 x hx)

/-- in a legal sequence, after the END segment of a transfer every later segment has a larger id -/
theorem legal_end_last (ms : List Msg) : ∀ (s s' : LState), legalRun s ms = some s' → CurLe s →
    ∀ pre t rest, segInfo ms = pre ++ (t, true) :: rest → ∀ x ∈ rest, t < x.1 := by
  induction ms with
  | nil => intro s s' _ _ pre t rest h; simp [segInfo] at h
  | cons m ms ih =>
    intro s s' h hc pre t rest hsplit
    simp only [legalRun] at h
    cases hs : legalStep s m with
    | none => rw [hs] at h; simp at h
    | some s1 =>
      rw [hs] at h
      cases m with
      | xferSegment flags tid ext data =>
        obtain ⟨c1, _, _, _, a2⟩ := legalStep_seg s s1 flags tid ext data hs hc
        simp only [segInfo, List.flatMap_cons, segInfoOf, List.singleton_append] at hsplit
        cases pre with
        | nil =>
          simp only [List.nil_append, List.cons.injEq, Prod.mk.injEq] at hsplit
          obtain ⟨⟨ht, he⟩, hr⟩ := hsplit
          subst ht
          intro x hx
          have := (legal_above ms s1 s' h c1).1 tid (a2 he)
          rw [← hr] at hx
          exact this x hx
        | cons p pre' =>
          simp only [List.cons_append, List.cons.injEq] at hsplit
          exact ih s1 s' h c1 pre' t rest hsplit.2
      | _ =>
        all_goals (
          obtain ⟨e1, e2⟩ := legalStep_nonseg s s1 _ rfl hs
          have c1 : CurLe s1 := by intro c hcc; rw [e1] at hcc; rw [e2]; exact hc c hcc
          simp only [segInfo, List.flatMap_cons, segInfoOf, List.nil_append] at hsplit
          exact ih s1 s' h c1 pre t rest hsplit)

theorem curLe_init : CurLe {} := by intro c h; simp at h

end Tcpcl
end DtnVerif
