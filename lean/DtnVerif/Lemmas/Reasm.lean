import DtnVerif.Model.Reasm
import DtnVerif.Lemmas.Cover
import DtnVerif.Lemmas.Frag
namespace DtnVerif
namespace Reasm
open Bp Frag Cover

/-! ### projection of the agent state on one bundle key -/

def hasKey (k : Key) (b : FBundle) : Bool := decide (keyOf b.primary = k)

structure Proj where
  entry : Option Entry
  seen : Option (Nat × Nat) → Bool
  pending : List FBundle
  delivered : List FBundle

def proj (k : Key) (s : AState) : Proj :=
  ⟨s.table k, fun f => s.seen ⟨k, f⟩, s.pending.filter (hasKey k), s.delivered.filter (hasKey k)⟩

/-- every stored first fragment belongs to the key it is stored under -/
def TableWf (t : Table) : Prop := ∀ k e f, t k = some e → e.first = some f → keyOf f.primary = k

theorem tableWf_init : TableWf AState.init.table := by
  intro k e f h; simp [AState.init] at h

@[simp] theorem norm_primary (b : FBundle) : (norm b).primary = b.primary := rfl
@[simp] theorem keyOf_synth (f : FBundle) (d : Bytes) : keyOf (synth f d).primary = keyOf f.primary := rfl

theorem entryOf_first (k : Key) (cur : Option Entry) (b : FBundle) (hb : keyOf b.primary = k)
    (hw : ∀ e f, cur = some e → e.first = some f → keyOf f.primary = k) :
    ∀ f, (entryOf cur b).first = some f → keyOf f.primary = k := by
  intro f hf
  unfold entryOf at hf
  simp only [] at hf
  split at hf
  · simp at hf; subst hf; exact hb
  · cases cur with
    | none => simp at hf
    | some e => exact hw e f rfl hf

theorem finish_first_key (k : Key) (e : Entry) (h : ∀ f, e.first = some f → keyOf f.primary = k) :
    (∀ e' f, (finish e).1 = some e' → e'.first = some f → keyOf f.primary = k) ∧
    (∀ rb, (finish e).2 = .cleared (some rb) → keyOf rb.primary = k) := by
  unfold finish
  split
  · split
    · exact ⟨fun e' f he => by simp at he, fun rb hr => by simp at hr⟩
    · rename_i f hf
      split
      · refine ⟨fun e' f he => by simp at he, fun rb hr => ?_⟩
        simp at hr; subst hr
        rw [keyOf_synth]; exact h f hf
      · exact ⟨fun e' f he => by simp at he, fun rb hr => by simp at hr⟩
  · refine ⟨fun e' f he hf => ?_, fun rb hr => by simp at hr⟩
    simp at he; subst he; exact h f hf

theorem reasmEntry_first_key (k : Key) (cur : Option Entry) (b : FBundle) (hb : keyOf b.primary = k)
    (hw : ∀ e f, cur = some e → e.first = some f → keyOf f.primary = k) :
    (∀ e f, (reasmEntry cur b).1 = some e → e.first = some f → keyOf f.primary = k) ∧
    (∀ rb, (reasmEntry cur b).2 = .cleared (some rb) → keyOf rb.primary = k) := by
  have h1 := entryOf_first k cur b hb hw
  unfold reasmEntry
  split
  · refine ⟨fun e f he hf => ?_, fun rb hr => by simp at hr⟩
    simp at he; subst he; exact h1 f hf
  · exact finish_first_key k _ (fun f hf => h1 f hf)

theorem reassemble_frame (t : Table) (b : FBundle) (k : Key) (h : keyOf b.primary ≠ k) :
    (reassemble t b).1 k = t k := by
  simp [reassemble, Ne.symm h]

theorem reassemble_wf (t : Table) (b : FBundle) (hw : TableWf t) : TableWf (reassemble t b).1 := by
  intro k e f he hf
  by_cases hk : k = keyOf b.primary
  · subst hk
    simp only [reassemble, if_true] at he
    exact (reasmEntry_first_key _ (t (keyOf b.primary)) b rfl (fun e f h1 h2 => hw _ e f h1 h2)).1 e f he hf
  · simp only [reassemble, hk, if_false] at he
    exact hw k e f he hf

theorem reassemble_reinject_key (t : Table) (b rb : FBundle) (hw : TableWf t)
    (h : (reassemble t b).2 = .cleared (some rb)) : keyOf rb.primary = keyOf b.primary :=
  (reasmEntry_first_key _ (t (keyOf b.primary)) b rfl (fun e f h1 h2 => hw _ e f h1 h2)).2 rb h

theorem recv_wf (cfg : RCfg) (s : AState) (b : FBundle) (hw : TableWf s.table) :
    TableWf (recvBundle cfg s b).table := by
  unfold recvBundle
  split; · exact hw
  simp only []
  split; · exact hw
  split; · exact hw
  split; · exact hw
  split; · exact hw
  split; · exact hw
  split
  · exact reassemble_wf _ _ hw
  · exact reassemble_wf _ _ hw

/-- **Frame lemma.** A bundle of another key changes nothing of what concerns key `k`: table entry,
    seen identities, pending re-injections, deliveries. -/
theorem recv_frame (cfg : RCfg) (s : AState) (b : FBundle) (k : Key) (hw : TableWf s.table)
    (hk : keyOf b.primary ≠ k) : proj k (recvBundle cfg s b) = proj k s := by
  have hid : (fun f => ({ key := k, frag := f } : Ident) == identOf b.primary || s.seen { key := k, frag := f })
      = fun f => s.seen { key := k, frag := f } := by
    funext f
    have : (({ key := k, frag := f } : Ident) == identOf b.primary) = false := by
      simp only [beq_eq_false_iff_ne, ne_eq]
      intro e
      have := congrArg Ident.key e
      simp only [identOf] at this
      exact hk this.symm
    simp [this]
  have hkb : hasKey k (norm b) = false := by simp [hasKey, hk]
  have hfr : (reassemble s.table (norm b)).1 k = s.table k := reassemble_frame _ _ _ hk
  unfold recvBundle
  split; · rfl
  simp only []
  split; · rfl
  split; · rfl
  split; · rfl
  split
  · simp [proj, hid]
  split
  · simp [proj, hid, hkb]
  split
  · rename_i rb hr
    have hrk := reassemble_reinject_key _ _ rb hw hr
    have : hasKey k rb = false := by simp [hasKey, hrk, hk]
    simp [proj, hid, this, hfr]
  · simp [proj, hid, hfr]

theorem filter_eraseIdx_of_not {α : Type} (p : α → Bool) (l : List α) (j : Nat) (x : α)
    (h : l[j]? = some x) (hp : p x = false) : (l.eraseIdx j).filter p = l.filter p := by
  induction l generalizing j with
  | nil => simp at h
  | cons a as ih =>
    cases j with
    | zero => simp at h; subst h; simp [hp]
    | succ j =>
      simp at h
      simp [List.filter_cons, ih j h]

theorem length_filter_eraseIdx {α : Type} (p : α → Bool) (l : List α) (j : Nat) (x : α)
    (h : l[j]? = some x) (hp : p x = true) :
    ((l.eraseIdx j).filter p).length + 1 = (l.filter p).length := by
  induction l generalizing j with
  | nil => simp at h
  | cons a as ih =>
    cases j with
    | zero => simp at h; subst h; simp [hp]
    | succ j =>
      simp at h
      have := ih j h
      simp only [List.eraseIdx_cons_succ, List.filter_cons]
      split
      · simp only [List.length_cons]; omega
      · exact this

/-- frame lemma for events: anything that is not about key `k` -/
def evKeyIs (k : Key) (s : AState) : Ev → Bool
  | .recv b => hasKey k b
  | .idle j => match s.pending[j]? with
    | some rb => hasKey k rb
    | none => false

theorem step_wf (cfg : RCfg) (s : AState) (ev : Ev) (hw : TableWf s.table) : TableWf (step cfg s ev).table := by
  cases ev with
  | recv b => exact recv_wf cfg s b hw
  | idle j =>
    simp only [step]
    split
    · exact hw
    · exact recv_wf cfg _ _ hw

theorem step_frame (cfg : RCfg) (s : AState) (ev : Ev) (k : Key) (hw : TableWf s.table)
    (hk : evKeyIs k s ev = false) : proj k (step cfg s ev) = proj k s := by
  cases ev with
  | recv b =>
    simp only [evKeyIs, hasKey, decide_eq_false_iff_not] at hk
    exact recv_frame cfg s b k hw hk
  | idle j =>
    simp only [step]
    cases hj : s.pending[j]? with
    | none => rfl
    | some rb =>
      simp only [evKeyIs, hj] at hk
      have hk' : keyOf rb.primary ≠ k := by simpa [hasKey] using hk
      show proj k (recvBundle cfg { s with pending := s.pending.eraseIdx j } rb) = proj k s
      rw [recv_frame cfg { s with pending := s.pending.eraseIdx j } rb k hw hk']
      simp [proj, filter_eraseIdx_of_not _ _ _ _ hj hk]

/-! ### what a fragment / a re-injection of key `k` does to the projection on `k` -/

def reinjOf : RRes → List FBundle
  | .cleared (some rb) => [rb]
  | _ => []

/-- effect of receiving an (unseen or seen) fragment `b` of key `k` on the projection -/
def recvProj (pj : Proj) (b : FBundle) : Proj :=
  let id : Option (Nat × Nat) := some (b.primary.fragOff, b.primary.totalLen)
  if pj.seen id then pj
  else
    let r := reasmEntry pj.entry (norm b)
    { entry := r.1, seen := fun f => f == id || pj.seen f,
      pending := pj.pending ++ reinjOf r.2, delivered := pj.delivered }

theorem ident_beq_frag (k : Key) (f g : Option (Nat × Nat)) :
    (({ key := k, frag := f } : Ident) == (⟨k, g⟩ : Ident)) = (f == g) := by
  by_cases e : f = g
  · subst e; simp
  · have : ({ key := k, frag := f } : Ident) ≠ ⟨k, g⟩ := by
      intro h; exact e (congrArg Ident.frag h)
    rw [beq_eq_false_iff_ne.2 this, beq_eq_false_iff_ne.2 e]

theorem proj_recv_key' (cfg : RCfg) (s : AState) (b : FBundle) (hw : TableWf s.table)
    (hn : numsOk b = true) (hc : cfg.crcOk (norm b) = true)
    (hs : (b.primary.src == cfg.nodeId) = false) (hd : cfg.deliver b.primary.dest = true)
    (hf : isFragment b.primary.flags = true) :
    proj (keyOf b.primary) (recvBundle cfg s b) = recvProj (proj (keyOf b.primary) s) b := by
  have hid : identOf b.primary = ⟨keyOf b.primary, some (b.primary.fragOff, b.primary.totalLen)⟩ := by
    simp [identOf, hf]
  unfold recvBundle recvProj
  simp only [hn, hc, hs, hd, hf, norm_primary, hid, Bool.not_true, Bool.false_eq_true, if_false]
  by_cases hsn : s.seen ⟨keyOf b.primary, some (b.primary.fragOff, b.primary.totalLen)⟩ = true
  · simp [proj, hsn]
  · have hsn' : s.seen ⟨keyOf b.primary, some (b.primary.fragOff, b.primary.totalLen)⟩ = false := by simpa using hsn
    have hre : reassemble s.table (norm b)
        = (fun k' => if k' = keyOf b.primary then (reasmEntry (s.table (keyOf b.primary)) (norm b)).1 else s.table k',
           (reasmEntry (s.table (keyOf b.primary)) (norm b)).2) := rfl
    have hkey := (reasmEntry_first_key (keyOf b.primary) (s.table (keyOf b.primary)) (norm b) rfl
      (fun e f h1 h2 => hw _ e f h1 h2)).2
    simp only [proj, hsn', Bool.false_eq_true, if_false, hre]
    cases hr : (reasmEntry (s.table (keyOf b.primary)) (norm b)).2 with
    | raised => simp [reinjOf, ident_beq_frag]
    | cleared o =>
      cases o with
      | none => simp [reinjOf, ident_beq_frag]
      | some rb =>
        have : hasKey (keyOf b.primary) rb = true := by simp [hasKey, hkey rb hr]
        simp [reinjOf, ident_beq_frag, this]

theorem proj_recv_key (cfg : RCfg) (s : AState) (b : FBundle) (k : Key) (hw : TableWf s.table)
    (hk : keyOf b.primary = k) (hn : numsOk b = true) (hc : cfg.crcOk (norm b) = true)
    (hs : (b.primary.src == cfg.nodeId) = false) (hd : cfg.deliver b.primary.dest = true)
    (hf : isFragment b.primary.flags = true) :
    proj k (recvBundle cfg s b) = recvProj (proj k s) b := by
  subst hk; exact proj_recv_key' cfg s b hw hn hc hs hd hf

theorem isFragment_clearFragFlag (f : Nat) : isFragment (clearFragFlag f) = false := by
  unfold clearFragFlag
  split
  · rename_i h; simp only [isFragment] at *; simp at h ⊢; omega
  · rename_i h; simpa using h

theorem numsOk_congr (a b : FBundle) (h : a.blocks.map (fun x => x.c.blockNum) = b.blocks.map (fun x => x.c.blockNum)) :
    numsOk a = numsOk b := by
  simp [numsOk, h]

theorem numsOk_synth (f : FBundle) (d : Bytes) : numsOk (synth f d) = numsOk f := by
  apply numsOk_congr
  simp only [synth, norm, List.map_map]
  apply List.map_congr_left
  intro x _
  simp only [Function.comp]
  split <;> simp

/-- effect of the idle callback that re-injects the (non-fragment) bundle `rb` of key `k` -/
theorem proj_idle_key (cfg : RCfg) (s : AState) (j : Nat) (rb : FBundle) (k : Key)
    (hj : s.pending[j]? = some rb) (hk : keyOf rb.primary = k) (hn : numsOk rb = true)
    (hc : cfg.crcOk (norm rb) = true) (hs : (rb.primary.src == cfg.nodeId) = false)
    (hd : cfg.deliver rb.primary.dest = true) (hf : isFragment rb.primary.flags = false)
    (hseen : (proj k s).seen none = false) :
    proj k (step cfg s (.idle j)) =
      { entry := (proj k s).entry, seen := fun f => f == none || (proj k s).seen f,
        pending := (s.pending.eraseIdx j).filter (hasKey k),
        delivered := (proj k s).delivered ++ [norm rb] } := by
  have hid : identOf rb.primary = ⟨k, none⟩ := by simp [identOf, hf, hk]
  have hsn : s.seen ⟨k, none⟩ = false := hseen
  have hkb : hasKey k (norm rb) = true := by simp [hasKey, hk]
  simp only [step, hj]
  unfold recvBundle
  simp only [hn, hc, hs, hd, hf, norm_primary, hid, hsn, Bool.not_true, Bool.not_false, Bool.false_eq_true,
    if_false, if_true]
  simp [proj, hkb, ident_beq_frag]

/-! ### splice -/

theorem splice_getElem?_in (buf d : Bytes) (off i : Nat) (h : off + d.length ≤ buf.length)
    (h1 : off ≤ i) (h2 : i < off + d.length) : (splice buf off d)[i]? = d[i - off]? := by
  unfold splice
  rw [List.append_assoc, List.getElem?_append_right (by simp; omega)]
  rw [List.getElem?_append_left (by simp; omega)]
  simp; congr 1; omega

theorem splice_getElem?_out (buf d : Bytes) (off i : Nat) (h : off + d.length ≤ buf.length)
    (h' : ¬ (off ≤ i ∧ i < off + d.length)) : (splice buf off d)[i]? = buf[i]? := by
  unfold splice
  by_cases h1 : i < off
  · rw [List.append_assoc, List.getElem?_append_left (by simp; omega)]
    simp [h1]
  · rw [List.getElem?_append_right (by simp; omega)]
    simp [List.getElem?_drop]
    congr 1; omega

theorem take_drop_getElem? (P : Bytes) (off n j : Nat) (h : j < n) :
    ((P.drop off).take n)[j]? = P[off + j]? := by
  simp [h, List.getElem?_drop]

/-! ### consistent fragments of one bundle -/

/-- (offset, payload length) of a fragment -/
def rangeOf (b : FBundle) : Range := (b.primary.fragOff, ((norm b).payload.getD []).length)

/-- the first fragment with offset 0 in arrival order -/
def firstZero (fr : List FBundle) : Option FBundle := fr.find? (fun b => b.primary.fragOff == 0)

/-- `b` is a fragment of the bundle with key `k` and payload `P` that the agent will hand to
    reassembly: right key, fragment flag, total length |P|, its data is the slice of `P` at its
    offset; it passes the gates of `recv_bundle` (block numbers, CRC, not our own, routed to deliver).
    `synthOk`: the bundle synthesised from an offset-0 fragment passes the CRC gate when re-injected. -/
structure ConsFrag (cfg : RCfg) (k : Key) (P : Bytes) (b : FBundle) : Prop where
  key : keyOf b.primary = k
  frag : isFragment b.primary.flags = true
  total : b.primary.totalLen = P.length
  nums : numsOk b = true
  crc : cfg.crcOk (norm b) = true
  src : (b.primary.src == cfg.nodeId) = false
  dlv : cfg.deliver b.primary.dest = true
  data : ∃ d, (norm b).payload = some d ∧ b.primary.fragOff + d.length ≤ P.length ∧
    d = (P.drop b.primary.fragOff).take d.length
  synthOk : b.primary.fragOff = 0 → cfg.crcOk (norm (synth (norm b) P)) = true

theorem rangeOf_cons {cfg : RCfg} {k : Key} {P : Bytes} {b : FBundle} {d : Bytes}
    (hd : (norm b).payload = some d) : rangeOf b = (b.primary.fragOff, d.length) := by
  simp [rangeOf, hd]

theorem firstZero_append_of_some (fr : List FBundle) (b f0 : FBundle) (h : firstZero fr = some f0) :
    firstZero (fr ++ [b]) = some f0 := by
  simp [firstZero, List.find?_append, h] at *
  simp [h]

theorem firstZero_append_of_none (fr : List FBundle) (b : FBundle) (h : firstZero fr = none) :
    firstZero (fr ++ [b]) = if b.primary.fragOff == 0 then some b else none := by
  simp only [firstZero] at *
  rw [List.find?_append, h]
  simp [List.find?_cons]
  split <;> simp_all

theorem firstZero_none_iff (fr : List FBundle) : firstZero fr = none ↔ ∀ b ∈ fr, b.primary.fragOff ≠ 0 := by
  simp [firstZero, List.find?_eq_none]

theorem firstZero_some_mem {fr : List FBundle} {f0 : FBundle} (h : firstZero fr = some f0) :
    f0 ∈ fr ∧ f0.primary.fragOff = 0 := by
  refine ⟨List.mem_of_find?_eq_some h, ?_⟩
  have := List.find?_some h
  simpa using this

/-- the entry after get-or-create and `first_frag`, for an unseen consistent fragment -/
structure EntryOk (P : Bytes) (fr : List FBundle) (e : Entry) : Prop where
  total : e.total = P.length
  len : e.data.length = P.length
  ranges : ∀ r, r ∈ e.ranges ↔ r ∈ fr.map rangeOf
  agree : ∀ i, coveredAt e.ranges i → e.data[i]? = P[i]?

theorem inject_ok (P : Bytes) (fr : List FBundle) (e : Entry) (b : FBundle) (d : Bytes)
    (he : EntryOk P fr e) (hd : (norm b).payload = some d)
    (hle : b.primary.fragOff + d.length ≤ P.length) (hdP : d = (P.drop b.primary.fragOff).take d.length) :
    EntryOk P (fr ++ [b]) (inject e b.primary.fragOff d) := by
  have hr : rangeOf b = (b.primary.fragOff, d.length) := by simp [rangeOf, hd]
  refine ⟨he.total, ?_, ?_, ?_⟩
  · show (splice e.data b.primary.fragOff d).length = P.length
    rw [splice_length _ _ _ (by rw [he.len]; exact hle), he.len]
  · intro r
    show r ∈ (b.primary.fragOff, d.length) :: e.ranges ↔ _
    simp only [List.mem_cons, List.map_append, List.mem_append, List.map_cons, List.map_nil,
      he.ranges r, hr, List.not_mem_nil, or_false]
    constructor
    · rintro (h | h); exact Or.inr h; exact Or.inl h
    · rintro (h | h); exact Or.inr h; exact Or.inl h
  · intro i hi
    show (splice e.data b.primary.fragOff d)[i]? = P[i]?
    by_cases hin : b.primary.fragOff ≤ i ∧ i < b.primary.fragOff + d.length
    · rw [splice_getElem?_in _ _ _ _ (by rw [he.len]; exact hle) hin.1 hin.2, hdP,
        take_drop_getElem? _ _ _ _ (by omega)]
      congr 1; omega
    · rw [splice_getElem?_out _ _ _ _ (by rw [he.len]; exact hle) hin]
      apply he.agree
      obtain ⟨r, hr', h1, h2⟩ := hi
      rcases List.mem_cons.1 hr' with e' | e'
      · subst e'; exact absurd ⟨h1, h2⟩ hin
      · exact ⟨r, e', h1, h2⟩

theorem data_eq_of_exact (P : Bytes) (fr : List FBundle) (e : Entry) (he : EntryOk P fr e)
    (hx : covered e.ranges P.length) : e.data = P := by
  apply List.ext_getElem?
  intro i
  by_cases hi : i < P.length
  · exact he.agree i (hx i hi)
  · rw [List.getElem?_eq_none (by rw [he.len]; omega), List.getElem?_eq_none (by omega)]

/-! ### the two phases of one bundle's reassembly -/

/-- still collecting: nothing of `k` delivered or pending, the entry mirrors the fragments so far -/
structure InvA (P : Bytes) (fr : List FBundle) (pj : Proj) : Prop where
  del : pj.delivered = []
  pend : pj.pending = []
  seenNone : pj.seen none = false
  seenFrag : ∀ o t, pj.seen (some (o, t)) = true ↔ (t = P.length ∧ ∃ b ∈ fr, b.primary.fragOff = o)
  empty : fr = [] → pj.entry = none
  entry : fr ≠ [] → ∃ e, pj.entry = some e ∧ EntryOk P fr e ∧ e.first = (firstZero fr).map norm ∧
    ¬ exact e.ranges P.length

/-- completed: the received ranges cover the payload and exactly one synthesised bundle is either
    pending or delivered -/
structure InvB (P : Bytes) (fr : List FBundle) (pj : Proj) : Prop where
  cov : covered (fr.map rangeOf) P.length
  one : ∃ f0, firstZero fr = some f0 ∧
    ((pj.pending = [synth (norm f0) P] ∧ pj.delivered = [] ∧ pj.seen none = false) ∨
     (pj.pending = [] ∧ pj.delivered = [norm (synth (norm f0) P)] ∧ pj.seen none = true))
  seenZero : pj.seen (some (0, P.length)) = true
  junk : ∀ e, pj.entry = some e → 0 < P.length ∧ e.total = P.length ∧ ∀ r ∈ e.ranges, r.1 ≠ 0

theorem invA_init (P : Bytes) (k : Key) : InvA P [] (proj k AState.init) := by
  refine ⟨rfl, rfl, rfl, ?_, fun _ => rfl, fun h => absurd rfl h⟩
  intro o t
  simp [proj, AState.init]

private theorem entryOf_ok (cfg : RCfg) (k : Key) (P : Bytes) (fr : List FBundle) (pj : Proj) (b : FBundle)
    (hA : InvA P fr pj) (hb : ConsFrag cfg k P b)
    (hnew : ∀ b' ∈ fr, b'.primary.fragOff ≠ b.primary.fragOff) :
    EntryOk P fr (entryOf pj.entry (norm b)) ∧
      (entryOf pj.entry (norm b)).first = (firstZero (fr ++ [b])).map norm := by
  by_cases hfr : fr = []
  · subst hfr
    rw [hA.empty rfl]
    unfold entryOf
    simp only [Option.getD_none, norm_primary]
    by_cases h0 : (b.primary.fragOff == 0) = true
    · simp only [h0, if_true]
      refine ⟨⟨hb.total, by simp [zeros, hb.total], by simp, by intro i hi; obtain ⟨r, hr, _⟩ := hi; simp at hr⟩, ?_⟩
      simp [firstZero, List.find?_cons, h0]
    · have h0' : (b.primary.fragOff == 0) = false := by simpa using h0
      simp only [h0', Bool.false_eq_true, if_false]
      refine ⟨⟨hb.total, by simp [zeros, hb.total], by simp, by intro i hi; obtain ⟨r, hr, _⟩ := hi; simp at hr⟩, ?_⟩
      simp [firstZero, List.find?_cons, h0']
  · obtain ⟨e, he, hok, hfirst, _⟩ := hA.entry hfr
    rw [he]
    unfold entryOf
    simp only [Option.getD_some, norm_primary]
    by_cases h0 : (b.primary.fragOff == 0) = true
    · simp only [h0, if_true]
      refine ⟨⟨hok.total, hok.len, hok.ranges, hok.agree⟩, ?_⟩
      have hnone : firstZero fr = none := by
        rw [firstZero_none_iff]
        intro b' hb'
        have := hnew b' hb'
        have h0' : b.primary.fragOff = 0 := by simpa using h0
        omega
      rw [firstZero_append_of_none _ _ hnone]
      simp [h0]
    · have h0' : (b.primary.fragOff == 0) = false := by simpa using h0
      simp only [h0', Bool.false_eq_true, if_false]
      refine ⟨hok, ?_⟩
      rw [hfirst]
      cases hz : firstZero fr with
      | none => rw [firstZero_append_of_none _ _ hz]; simp [h0']
      | some f0 => rw [firstZero_append_of_some _ _ _ hz]

theorem payloadBlk_isSome_of_payload {b : FBundle} {d : Bytes} (h : b.payload = some d) :
    (payloadBlk b.blocks).isSome = true := by
  unfold FBundle.payload at h
  cases hp : payloadBlk b.blocks with
  | none => simp [hp] at h
  | some x => rfl

/-- a consistent, unseen or seen, fragment arriving while collecting -/
theorem invA_step (cfg : RCfg) (k : Key) (P : Bytes) (fr : List FBundle) (pj : Proj) (b : FBundle)
    (hA : InvA P fr pj) (hb : ConsFrag cfg k P b) (hall : ∀ b' ∈ fr, ConsFrag cfg k P b')
    (hso : ∀ b' ∈ fr, b'.primary.fragOff = b.primary.fragOff → rangeOf b' = rangeOf b) :
    InvA P (fr ++ [b]) (recvProj pj b) ∨ InvB P (fr ++ [b]) (recvProj pj b) := by
  obtain ⟨d, hd, hle, hdP⟩ := hb.data
  have hr : rangeOf b = (b.primary.fragOff, d.length) := by simp [rangeOf, hd]
  unfold recvProj
  simp only [hb.total]
  by_cases hseen : pj.seen (some (b.primary.fragOff, P.length)) = true
  · -- duplicate by identity: ignored
    simp only [hseen, if_true]
    left
    obtain ⟨_, b', hb', hoff⟩ := (hA.seenFrag _ _).1 hseen
    have hne : fr ≠ [] := by intro h; subst h; simp at hb'
    obtain ⟨e, he, hok, hfirst, hnx⟩ := hA.entry hne
    refine ⟨hA.del, hA.pend, hA.seenNone, ?_, fun h => by simp at h, fun _ => ⟨e, he, ?_, ?_, hnx⟩⟩
    · intro o t
      rw [hA.seenFrag o t]
      constructor
      · rintro ⟨h1, b2, hb2, h2⟩; exact ⟨h1, b2, List.mem_append_left _ hb2, h2⟩
      · rintro ⟨h1, b2, hb2, h2⟩
        rcases List.mem_append.1 hb2 with h | h
        · exact ⟨h1, b2, h, h2⟩
        · simp at h; subst h; exact ⟨h1, b', hb', hoff.trans h2⟩
    · refine ⟨hok.total, hok.len, ?_, hok.agree⟩
      intro r
      rw [hok.ranges r]
      simp only [List.map_append, List.mem_append, List.map_cons, List.map_nil, List.mem_cons,
        List.not_mem_nil, or_false]
      constructor
      · exact Or.inl
      · rintro (h | h)
        · exact h
        · rw [h, ← hso b' hb' hoff]; exact List.mem_map.2 ⟨b', hb', rfl⟩
    · rw [hfirst]
      cases hz : firstZero fr with
      | some f0 => rw [firstZero_append_of_some _ _ _ hz]
      | none =>
        rw [firstZero_append_of_none _ _ hz]
        have := (firstZero_none_iff fr).1 hz b' hb'
        have : (b.primary.fragOff == 0) = false := by simp; omega
        simp [this]
  · -- new identity: goes to reassembly
    have hseen' : pj.seen (some (b.primary.fragOff, P.length)) = false := by simpa using hseen
    simp only [hseen', Bool.false_eq_true, if_false]
    have hnew : ∀ b' ∈ fr, b'.primary.fragOff ≠ b.primary.fragOff := by
      intro b' hb' he
      exact hseen ((hA.seenFrag _ _).2 ⟨rfl, b', hb', he⟩)
    obtain ⟨hok1, hfirst1⟩ := entryOf_ok cfg k P fr pj b hA hb hnew
    have hok2 := inject_ok P fr _ b d hok1 hd hle hdP
    have hre : reasmEntry pj.entry (norm b)
        = finish (inject (entryOf pj.entry (norm b)) b.primary.fragOff d) := by
      simp [reasmEntry, hd]
    have hseenF : ∀ o t, ((some (o, t) == some (b.primary.fragOff, P.length)) || pj.seen (some (o, t))) = true ↔
        (t = P.length ∧ ∃ b2 ∈ fr ++ [b], b2.primary.fragOff = o) := by
      intro o t
      simp only [Bool.or_eq_true, beq_iff_eq, Option.some.injEq, Prod.mk.injEq, hA.seenFrag o t]
      constructor
      · rintro (⟨h1, h2⟩ | ⟨h1, b2, hb2, h2⟩)
        · exact ⟨h2, b, by simp, h1.symm⟩
        · exact ⟨h1, b2, List.mem_append_left _ hb2, h2⟩
      · rintro ⟨h1, b2, hb2, h2⟩
        rcases List.mem_append.1 hb2 with h | h
        · exact Or.inr ⟨h1, b2, h, h2⟩
        · simp at h; subst h; exact Or.inl ⟨h2.symm, h1⟩
    rw [hre]
    unfold finish
    have htot : (inject (entryOf pj.entry (norm b)) b.primary.fragOff d).total = P.length := hok2.total
    by_cases hx : exactB (inject (entryOf pj.entry (norm b)) b.primary.fragOff d).ranges
        (inject (entryOf pj.entry (norm b)) b.primary.fragOff d).total = true
    · -- complete
      right
      have hex : exact (inject (entryOf pj.entry (norm b)) b.primary.fragOff d).ranges P.length := by
        rw [← htot]; exact (exactB_iff _ _).1 hx
      have hcov : covered ((fr ++ [b]).map rangeOf) P.length :=
        (covered_congr hok2.ranges _).1 hex.1
      -- an offset-0 fragment exists
      have hz : ∃ f0, firstZero (fr ++ [b]) = some f0 := by
        cases hf : firstZero (fr ++ [b]) with
        | some f0 => exact ⟨f0, rfl⟩
        | none =>
          exfalso
          have hn := (firstZero_none_iff _).1 hf
          by_cases hP : 0 < P.length
          · obtain ⟨r, hr', h1, _⟩ := hcov 0 hP
            obtain ⟨b2, hb2, rfl⟩ := List.mem_map.1 hr'
            exact hn b2 hb2 (by simpa [rangeOf] using h1)
          · exact hn b (by simp) (by omega)
      obtain ⟨f0, hf0⟩ := hz
      have hf0m := firstZero_some_mem hf0
      have hcf0 : ConsFrag cfg k P f0 := by
        rcases List.mem_append.1 hf0m.1 with h | h
        · exact hall f0 h
        · simp at h; subst h; exact hb
      obtain ⟨d0, hd0, _, _⟩ := hcf0.data
      have hfirst2 : (inject (entryOf pj.entry (norm b)) b.primary.fragOff d).first = some (norm f0) := by
        show (entryOf pj.entry (norm b)).first = _
        rw [hfirst1, hf0]; rfl
      have hdata : (inject (entryOf pj.entry (norm b)) b.primary.fragOff d).data = P :=
        data_eq_of_exact P _ _ hok2 hex.1
      simp only [hx, if_true, hfirst2, payloadBlk_isSome_of_payload hd0, hdata, reinjOf, hA.pend, hA.del,
        List.nil_append]
      refine ⟨hcov, ⟨f0, hf0, Or.inl ⟨rfl, rfl, ?_⟩⟩, ?_, fun e he => by simp at he⟩
      · simp [hA.seenNone]
      · exact (hseenF 0 P.length).2 ⟨rfl, f0, hf0m.1, hf0m.2⟩
    · -- still incomplete
      left
      have hx' : exactB (inject (entryOf pj.entry (norm b)) b.primary.fragOff d).ranges
        (inject (entryOf pj.entry (norm b)) b.primary.fragOff d).total = false := by simpa using hx
      simp only [hx', Bool.false_eq_true, if_false, reinjOf, hA.pend, hA.del, List.append_nil]
      refine ⟨rfl, rfl, by simp [hA.seenNone], hseenF, fun h => by simp at h, fun _ => ⟨_, rfl, hok2, ?_, ?_⟩⟩
      · show (entryOf pj.entry (norm b)).first = _
        exact hfirst1
      · intro hex
        apply hx
        rw [htot]; exact (exactB_iff _ _).2 hex

/-- a consistent fragment arriving after completion: ignored as seen, or parked in a junk entry that
    can never complete (it has no offset-0 range: that identity is already in the seen set) -/
theorem invB_step (cfg : RCfg) (k : Key) (P : Bytes) (fr : List FBundle) (pj : Proj) (b : FBundle)
    (hB : InvB P fr pj) (hb : ConsFrag cfg k P b) : InvB P (fr ++ [b]) (recvProj pj b) := by
  obtain ⟨d, hd, hle, hdP⟩ := hb.data
  obtain ⟨f0, hf0, hone⟩ := hB.one
  have hcov : covered ((fr ++ [b]).map rangeOf) P.length :=
    covered_mono (fun r hr => by simp only [List.map_append, List.mem_append]; exact Or.inl hr) _ hB.cov
  have hf0' := firstZero_append_of_some fr b f0 hf0
  unfold recvProj
  simp only [hb.total]
  by_cases hseen : pj.seen (some (b.primary.fragOff, P.length)) = true
  · simp only [hseen, if_true]
    exact ⟨hcov, ⟨f0, hf0', hone⟩, hB.seenZero, hB.junk⟩
  · have hseen' : pj.seen (some (b.primary.fragOff, P.length)) = false := by simpa using hseen
    simp only [hseen', Bool.false_eq_true, if_false]
    have hoff : b.primary.fragOff ≠ 0 := by
      intro h0; rw [h0] at hseen; exact hseen hB.seenZero
    have hPpos : 0 < P.length := by omega
    have hoff' : (b.primary.fragOff == 0) = false := by simpa using hoff
    -- the entry before injection: junk or fresh, no offset-0 range
    have he1 : (entryOf pj.entry (norm b)).total = P.length ∧
        ∀ r ∈ (entryOf pj.entry (norm b)).ranges, r.1 ≠ 0 := by
      unfold entryOf
      simp only [norm_primary, hoff', Bool.false_eq_true, if_false]
      cases he : pj.entry with
      | none => simp [hb.total]
      | some e =>
        obtain ⟨_, h2, h3⟩ := hB.junk e he
        simp only [Option.getD_some]; exact ⟨h2, h3⟩
    have hre : reasmEntry pj.entry (norm b)
        = finish (inject (entryOf pj.entry (norm b)) b.primary.fragOff d) := by
      simp [reasmEntry, hd]
    have hr2 : ∀ r ∈ (inject (entryOf pj.entry (norm b)) b.primary.fragOff d).ranges, r.1 ≠ 0 := by
      intro r hr
      rcases List.mem_cons.1 hr with h | h
      · rw [h]; exact hoff
      · exact he1.2 r h
    have hnx : exactB (inject (entryOf pj.entry (norm b)) b.primary.fragOff d).ranges
        (inject (entryOf pj.entry (norm b)) b.primary.fragOff d).total = false := by
      cases hx : exactB (inject (entryOf pj.entry (norm b)) b.primary.fragOff d).ranges
        (inject (entryOf pj.entry (norm b)) b.primary.fragOff d).total with
      | false => rfl
      | true =>
        exfalso
        have hex := (exactB_iff _ _).1 hx
        have ht : (inject (entryOf pj.entry (norm b)) b.primary.fragOff d).total = P.length := he1.1
        rw [ht] at hex
        obtain ⟨r, hr, h1, _⟩ := hex.1 0 hPpos
        exact hr2 r hr (by omega)
    rw [hre]
    unfold finish
    simp only [hnx, Bool.false_eq_true, if_false, reinjOf, List.append_nil]
    refine ⟨hcov, ⟨f0, hf0', ?_⟩, by simp [hB.seenZero], ?_⟩
    · rcases hone with ⟨h1, h2, h3⟩ | ⟨h1, h2, h3⟩
      · exact Or.inl ⟨h1, h2, by simp [h3]⟩
      · exact Or.inr ⟨h1, h2, by simp [h3]⟩
    · intro e he
      simp at he; subst he
      exact ⟨hPpos, he1.1, hr2⟩

theorem norm_blocks_nums (f : FBundle) :
    (norm f).blocks.map (fun x => x.c.blockNum) = f.blocks.map (fun x => x.c.blockNum) := by
  simp [norm, List.map_map, Function.comp]

/-! ### whole histories -/

/-- the fragments of key `k` handed over by the CL, in arrival order -/
def kfrags (k : Key) : List Ev → List FBundle
  | [] => []
  | .recv b :: es => if hasKey k b then b :: kfrags k es else kfrags k es
  | .idle _ :: es => kfrags k es

def Phase (P : Bytes) (fr : List FBundle) (pj : Proj) : Prop := InvA P fr pj ∨ InvB P fr pj

theorem idle_key_step (cfg : RCfg) (k : Key) (P : Bytes) (fr : List FBundle) (s : AState) (j : Nat)
    (rb : FBundle) (hj : s.pending[j]? = some rb) (hk : hasKey k rb = true)
    (hall : ∀ b ∈ fr, ConsFrag cfg k P b) (hph : Phase P fr (proj k s)) :
    Phase P fr (proj k (step cfg s (.idle j))) := by
  have hmem : rb ∈ (proj k s).pending := by
    simp only [proj, List.mem_filter]
    exact ⟨List.mem_of_getElem? hj, hk⟩
  rcases hph with hA | hB
  · rw [hA.pend] at hmem; simp at hmem
  · obtain ⟨f0, hf0, hone⟩ := hB.one
    rcases hone with ⟨h1, h2, h3⟩ | ⟨h1, _, _⟩
    · rw [h1] at hmem
      simp at hmem
      have hf0m := firstZero_some_mem hf0
      have hc := hall f0 hf0m.1
      have hkey : keyOf rb.primary = k := by rw [hmem]; exact hc.key
      have hnum : numsOk rb = true := by
        rw [hmem, numsOk_synth, numsOk_congr _ f0 (norm_blocks_nums f0)]; exact hc.nums
      have hcrc : cfg.crcOk (norm rb) = true := by rw [hmem]; exact hc.synthOk hf0m.2
      have hsrc : (rb.primary.src == cfg.nodeId) = false := by rw [hmem]; exact hc.src
      have hdl : cfg.deliver rb.primary.dest = true := by rw [hmem]; exact hc.dlv
      have hfl : isFragment rb.primary.flags = false := by rw [hmem]; exact isFragment_clearFragFlag _
      rw [proj_idle_key cfg s j rb k hj hkey hnum hcrc hsrc hdl hfl h3]
      right
      have hlen := length_filter_eraseIdx (hasKey k) s.pending j rb hj hk
      have hp1 : (s.pending.filter (hasKey k)).length = 1 := by
        have : (proj k s).pending = s.pending.filter (hasKey k) := rfl
        rw [← this, h1]; rfl
      have hp0 : (s.pending.eraseIdx j).filter (hasKey k) = [] := by
        apply List.eq_nil_of_length_eq_zero; omega
      refine ⟨hB.cov, ⟨f0, hf0, Or.inr ⟨hp0, ?_, by simp⟩⟩, by simp [hB.seenZero], hB.junk⟩
      rw [h2, hmem]; rfl
    · rw [h1] at hmem; simp at hmem

theorem run_inv (cfg : RCfg) (k : Key) (P : Bytes) :
    ∀ (evs : List Ev) (s : AState) (fr : List FBundle), TableWf s.table → Phase P fr (proj k s) →
      (∀ b ∈ fr ++ kfrags k evs, ConsFrag cfg k P b) →
      (∀ b ∈ fr ++ kfrags k evs, ∀ b' ∈ fr ++ kfrags k evs,
        b.primary.fragOff = b'.primary.fragOff → rangeOf b = rangeOf b') →
      TableWf (run cfg s evs).table ∧ Phase P (fr ++ kfrags k evs) (proj k (run cfg s evs)) := by
  intro evs
  induction evs with
  | nil => intro s fr hw hph _ _; simpa [run, kfrags] using ⟨hw, hph⟩
  | cons ev es ih =>
    intro s fr hw hph hall hso
    have hw' := step_wf cfg s ev hw
    show TableWf (run cfg (step cfg s ev) es).table ∧ Phase P _ (proj k (run cfg (step cfg s ev) es))
    cases ev with
    | recv b =>
      by_cases hk : hasKey k b = true
      · have hkf : kfrags k (Ev.recv b :: es) = b :: kfrags k es := by simp [kfrags, hk]
        rw [hkf] at hall hso ⊢
        have happ : fr ++ b :: kfrags k es = (fr ++ [b]) ++ kfrags k es := by simp
        rw [happ] at hall hso ⊢
        have hb : ConsFrag cfg k P b := hall b (by simp)
        have hallfr : ∀ b' ∈ fr, ConsFrag cfg k P b' := fun b' h => hall b' (by simp [h])
        apply ih _ _ hw'
        · show Phase P (fr ++ [b]) (proj k (recvBundle cfg s b))
          rw [proj_recv_key cfg s b k hw hb.key hb.nums hb.crc hb.src hb.dlv hb.frag]
          rcases hph with hA | hB
          · exact invA_step cfg k P fr _ b hA hb hallfr
              (fun b' hb' he => hso b' (by simp [hb']) b (by simp) he)
          · exact Or.inr (invB_step cfg k P fr _ b hB hb)
        · exact hall
        · exact hso
      · have hk' : hasKey k b = false := by simpa using hk
        have hkf : kfrags k (Ev.recv b :: es) = kfrags k es := by simp [kfrags, hk']
        rw [hkf] at hall hso ⊢
        apply ih _ _ hw' _ hall hso
        rw [step_frame cfg s (.recv b) k hw (by simpa [evKeyIs] using hk')]
        exact hph
    | idle j =>
      have hkf : kfrags k (Ev.idle j :: es) = kfrags k es := rfl
      rw [hkf] at hall hso ⊢
      apply ih _ _ hw' _ hall hso
      cases hj : s.pending[j]? with
      | none => simpa [step, hj] using hph
      | some rb =>
        by_cases hk : hasKey k rb = true
        · exact idle_key_step cfg k P fr s j rb hj hk (fun b h => hall b (by simp [h])) hph
        · have hk' : hasKey k rb = false := by simpa using hk
          rw [step_frame cfg s (.idle j) k hw (by simp [evKeyIs, hj, hk'])]
          exact hph

/-! ### what the synthesised bundle contains -/

theorem payload_map (g : Blk → Blk) (v : Option Bytes) (hg1 : ∀ x, (g x).c.blockNum = x.c.blockNum)
    (hg2 : ∀ x, x.c.blockNum = 1 → (g x).c.btsd = v) (bs : List Blk) (h : ∃ x ∈ bs, x.c.blockNum = 1) :
    (payloadBlk (bs.map g)).bind (fun x => x.c.btsd) = v := by
  induction bs with
  | nil => simp at h
  | cons x xs ih =>
    by_cases hx : x.c.blockNum = 1
    · have : ((g x).c.blockNum == 1) = true := by simp [hg1, hx]
      simp only [payloadBlk, List.map_cons, List.find?_cons, this]
      exact hg2 x hx
    · have hgx : ((g x).c.blockNum == 1) = false := by simp [hg1, hx]
      obtain ⟨y, hy, hy1⟩ := h
      have hy' : y ∈ xs := by
        rcases List.mem_cons.1 hy with e | e
        · exact absurd (e ▸ hy1) hx
        · exact e
      have hrec := ih ⟨y, hy', hy1⟩
      simp only [payloadBlk] at hrec
      simp only [payloadBlk, List.map_cons, List.find?_cons, hgx]
      exact hrec

theorem exists_num1_of_payload {b : FBundle} {d : Bytes} (h : b.payload = some d) :
    ∃ x ∈ b.blocks, x.c.blockNum = 1 := by
  unfold FBundle.payload at h
  cases hp : payloadBlk b.blocks with
  | none => simp [hp] at h
  | some x =>
    exact ⟨x, List.mem_of_find?_eq_some hp, by simpa using List.find?_some hp⟩

/-- the reassembled bundle carries exactly the reassembled data as payload -/
theorem synth_payload (f : FBundle) (d0 P : Bytes) (h : (norm f).payload = some d0) :
    (norm (synth (norm f) P)).payload = some P := by
  obtain ⟨x, hx, h1⟩ := exists_num1_of_payload h
  unfold FBundle.payload
  simp only [norm, synth, List.map_map]
  simp only [norm] at hx
  obtain ⟨y, hy, rfl⟩ := List.mem_map.1 hx
  apply payload_map _ (some P) _ _ _ ⟨y, hy, by simpa using h1⟩
  · intro z
    simp only [Function.comp]
    split <;> simp
  · intro z hz
    simp only [Function.comp]
    have : (z.ensure.ensure.c.blockNum == 1) = true := by simp [hz]
    simp only [this, if_true]
    rw [ensure_btsd_some _ P rfl]

theorem filter_map_congr {α β : Type} (p : β → Bool) (h1 h2 : α → β) (bs : List α)
    (hp : ∀ x ∈ bs, p (h1 x) = p (h2 x)) (he : ∀ x ∈ bs, p (h2 x) = true → h1 x = h2 x) :
    (bs.map h1).filter p = (bs.map h2).filter p := by
  induction bs with
  | nil => rfl
  | cons x xs ih =>
    have ih' := ih (fun y hy => hp y (List.mem_cons_of_mem _ hy)) (fun y hy => he y (List.mem_cons_of_mem _ hy))
    simp only [List.map_cons, List.filter_cons, hp x List.mem_cons_self]
    by_cases hx : p (h2 x) = true
    · simp only [hx, if_true, he x List.mem_cons_self hx, ih']
    · have hx' : p (h2 x) = false := by simpa using hx
      simp only [hx', Bool.false_eq_true, if_false, ih']

/-- … and every other block of the offset-0 fragment, unchanged and in order -/
theorem synth_ext_blocks (f : FBundle) (P : Bytes) :
    (norm (synth (norm f) P)).blocks.filter (fun x => x.c.blockNum != 1)
      = (norm f).blocks.filter (fun x => x.c.blockNum != 1) := by
  simp only [norm, synth, List.map_map]
  apply filter_map_congr
  · intro x _
    simp only [Function.comp]
    split <;> simp
  · intro x _ hx
    simp only [Function.comp]
    have hne : (x.ensure.c.blockNum == 1) = false := by
      simp only [ensure_num] at hx ⊢
      simpa using hx
    simp only [ensure_idem, hne, Bool.false_eq_true, if_false]

end Reasm
end DtnVerif
