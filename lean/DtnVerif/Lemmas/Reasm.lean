import DtnVerif.Model.Reasm
import DtnVerif.Lemmas.Cover
import DtnVerif.Lemmas.Frag
namespace DtnVerif
namespace Reasm
open Bp Frag Cover

/-! ### projection of the agent state on one bundle key -/

def hasKey (k : Key) (b : FBundle) : Bool := decide (keyOf b.primary = k)

structure Proj where
  entry : Option Entry
  seen : Option (Nat × Option Nat) → Bool
  pending : List FBundle
  delivered : List FBundle

def proj (k : Key) (s : AState) : Proj :=
  ⟨s.table k, fun f => s.seen ⟨k, f⟩, s.pending.filter (hasKey k), s.delivered.filter (hasKey k)⟩

/-- every stored first fragment belongs to the key it is stored under -/
def TableWf (t : Table) : Prop := ∀ k e f, t k = some e → e.first = some f → keyOf f.primary = k

theorem tableWf_init : TableWf AState.init.table := by
  intro k e f h; simp [AState.init] at h

@[simp] theorem norm_primary (b : FBundle) : (norm b).primary = b.primary := rfl
@[simp] theorem keyOf_updPrimary (crcFn : Nat → Bytes → Bytes) (p : Primary) :
    keyOf (updPrimary crcFn p) = keyOf p := by
  unfold updPrimary; split <;> rfl
@[simp] theorem keyOf_synth (crcFn : Nat → Bytes → Bytes) (f : FBundle) (d : Bytes) :
    keyOf (synth crcFn f d).primary = keyOf f.primary := by
  show keyOf (updPrimary crcFn _) = _
  rw [keyOf_updPrimary]; rfl

theorem entryOf_first (k : Key) (cur : Option Entry) (b : FBundle) (hb : keyOf b.primary = k)
    (hw : ∀ e f, cur = some e → e.first = some f → keyOf f.primary = k) :
    ∀ f, (entryOf cur b).first = some f → keyOf f.primary = k := by
  intro f hf
  unfold entryOf at hf
  simp only [] at hf
  split at hf
  · simp at hf; subst hf; exact hb
  · cases cur with
    | none => simp at hf
    | some e => exact hw e f rfl hf

theorem finish_first_key (crcFn : Nat → Bytes → Bytes) (k : Key) (e : Entry)
    (h : ∀ f, e.first = some f → keyOf f.primary = k) :
    (∀ e' f, (finish crcFn e).1 = some e' → e'.first = some f → keyOf f.primary = k) ∧
    (∀ rb, (finish crcFn e).2 = .cleared (some rb) → keyOf rb.primary = k) := by
  unfold finish
  split
  · split
    · exact ⟨fun e' f he => by simp at he, fun rb hr => by simp at hr⟩
    · rename_i f hf
      split
      · refine ⟨fun e' f he => by simp at he, fun rb hr => ?_⟩
        simp at hr; subst hr
        rw [keyOf_synth]; exact h f hf
      · exact ⟨fun e' f he => by simp at he, fun rb hr => by simp at hr⟩
  · refine ⟨fun e' f he hf => ?_, fun rb hr => by simp at hr⟩
    simp at he; subst he; exact h f hf

theorem reasmEntry_first_key (crcFn : Nat → Bytes → Bytes) (k : Key) (cur : Option Entry) (b : FBundle)
    (hb : keyOf b.primary = k)
    (hw : ∀ e f, cur = some e → e.first = some f → keyOf f.primary = k) :
    (∀ e f, (reasmEntry crcFn cur b).1 = some e → e.first = some f → keyOf f.primary = k) ∧
    (∀ rb, (reasmEntry crcFn cur b).2 = .cleared (some rb) → keyOf rb.primary = k) := by
  have h1 := entryOf_first k cur b hb hw
  unfold reasmEntry
  split
  · refine ⟨fun e f he hf => ?_, fun rb hr => by simp at hr⟩
    simp at he; subst he; exact h1 f hf
  · exact finish_first_key crcFn k _ (fun f hf => h1 f hf)

theorem reassemble_frame (crcFn : Nat → Bytes → Bytes) (t : Table) (b : FBundle) (k : Key)
    (h : keyOf b.primary ≠ k) : (reassemble crcFn t b).1 k = t k := by
  simp [reassemble, Ne.symm h]

theorem reassemble_wf (crcFn : Nat → Bytes → Bytes) (t : Table) (b : FBundle) (hw : TableWf t) :
    TableWf (reassemble crcFn t b).1 := by
  intro k e f he hf
  by_cases hk : k = keyOf b.primary
  · subst hk
    simp only [reassemble, if_true] at he
    exact (reasmEntry_first_key crcFn _ (t (keyOf b.primary)) b rfl (fun e f h1 h2 => hw _ e f h1 h2)).1 e f he hf
  · simp only [reassemble, hk, if_false] at he
    exact hw k e f he hf

theorem reassemble_reinject_key (crcFn : Nat → Bytes → Bytes) (t : Table) (b rb : FBundle) (hw : TableWf t)
    (h : (reassemble crcFn t b).2 = .cleared (some rb)) : keyOf rb.primary = keyOf b.primary :=
  (reasmEntry_first_key crcFn _ (t (keyOf b.primary)) b rfl (fun e f h1 h2 => hw _ e f h1 h2)).2 rb h

theorem recv_wf (cfg : RCfg) (s : AState) (b : FBundle) (hw : TableWf s.table) :
    TableWf (recvBundle cfg s b).table := by
  unfold recvBundle
  split; · exact hw
  simp only []
  split; · exact hw
  split; · exact hw
  split; · exact hw
  split; · exact hw
  split; · exact hw
  split
  · exact reassemble_wf _ _ _ hw
  · exact reassemble_wf _ _ _ hw

/-- **Frame lemma.** A bundle of another key changes nothing of what concerns key `k`: table entry,
    seen identities, pending re-injections, deliveries. -/
theorem recv_frame (cfg : RCfg) (s : AState) (b : FBundle) (k : Key) (hw : TableWf s.table)
    (hk : keyOf b.primary ≠ k) : proj k (recvBundle cfg s b) = proj k s := by
  have hid : (fun f => ({ key := k, frag := f } : Ident) == identOf (norm b) || s.seen { key := k, frag := f })
      = fun f => s.seen { key := k, frag := f } := by
    funext f
    have : (({ key := k, frag := f } : Ident) == identOf (norm b)) = false := by
      simp only [beq_eq_false_iff_ne, ne_eq]
      intro e
      have := congrArg Ident.key e
      simp only [identOf, norm_primary] at this
      exact hk this.symm
    simp [this]
  have hkb : hasKey k (norm b) = false := by simp [hasKey, hk]
  have hfr : (reassemble cfg.crcFn s.table (norm b)).1 k = s.table k := reassemble_frame _ _ _ _ hk
  unfold recvBundle
  split; · rfl
  simp only []
  split; · rfl
  split; · rfl
  split; · rfl
  split
  · simp [proj, hid]
  split
  · simp [proj, hid, hkb]
  split
  · rename_i rb hr
    have hrk := reassemble_reinject_key _ _ _ rb hw hr
    have : hasKey k rb = false := by simp [hasKey, hrk, hk]
    simp [proj, hid, this, hfr]
  · simp [proj, hid, hfr]

theorem filter_eraseIdx_of_not {α : Type} (p : α → Bool) (l : List α) (j : Nat) (x : α)
    (h : l[j]? = some x) (hp : p x = false) : (l.eraseIdx j).filter p = l.filter p := by
  induction l generalizing j with
  | nil => simp at h
  | cons a as ih =>
    cases j with
    | zero => simp at h; subst h; simp [hp]
    | succ j =>
      simp at h
      simp [List.filter_cons, ih j h]

theorem length_filter_eraseIdx {α : Type} (p : α → Bool) (l : List α) (j : Nat) (x : α)
    (h : l[j]? = some x) (hp : p x = true) :
    ((l.eraseIdx j).filter p).length + 1 = (l.filter p).length := by
  induction l generalizing j with
  | nil => simp at h
  | cons a as ih =>
    cases j with
    | zero => simp at h; subst h; simp [hp]
    | succ j =>
      simp at h
      have := ih j h
      simp only [List.eraseIdx_cons_succ, List.filter_cons]
      split
      · simp only [List.length_cons]; omega
      · exact this

/-- frame lemma for events: anything that is not about key `k` -/
def evKeyIs (k : Key) (s : AState) : Ev → Bool
  | .recv b => hasKey k b
  | .idle j => match s.pending[j]? with
    | some rb => hasKey k rb
    | none => false

theorem step_wf (cfg : RCfg) (s : AState) (ev : Ev) (hw : TableWf s.table) : TableWf (step cfg s ev).table := by
  cases ev with
  | recv b => exact recv_wf cfg s b hw
  | idle j =>
    simp only [step]
    split
    · exact hw
    · exact recv_wf cfg _ _ hw

theorem step_frame (cfg : RCfg) (s : AState) (ev : Ev) (k : Key) (hw : TableWf s.table)
    (hk : evKeyIs k s ev = false) : proj k (step cfg s ev) = proj k s := by
  cases ev with
  | recv b =>
    simp only [evKeyIs, hasKey, decide_eq_false_iff_not] at hk
    exact recv_frame cfg s b k hw hk
  | idle j =>
    simp only [step]
    cases hj : s.pending[j]? with
    | none => rfl
    | some rb =>
      simp only [evKeyIs, hj] at hk
      have hk' : keyOf rb.primary ≠ k := by simpa [hasKey] using hk
      show proj k (recvBundle cfg { s with pending := s.pending.eraseIdx j } rb) = proj k s
      rw [recv_frame cfg { s with pending := s.pending.eraseIdx j } rb k hw hk']
      simp [proj, filter_eraseIdx_of_not _ _ _ _ hj hk]

/-! ### what a fragment / a re-injection of key `k` does to the projection on `k` -/

def reinjOf : RRes → List FBundle
  | .cleared (some rb) => [rb]
  | _ => []

/-- the fragment part of a fragment's identity: (offset, length of its payload data) -/
def fragId (b : FBundle) : Option (Nat × Option Nat) :=
  some (b.primary.fragOff, (norm b).payload.map List.length)

/-- effect of receiving an (unseen or seen) fragment `b` of key `k` on the projection -/
def recvProj (crcFn : Nat → Bytes → Bytes) (pj : Proj) (b : FBundle) : Proj :=
  if pj.seen (fragId b) then pj
  else
    let r := reasmEntry crcFn pj.entry (norm b)
    { entry := r.1, seen := fun f => f == fragId b || pj.seen f,
      pending := pj.pending ++ reinjOf r.2, delivered := pj.delivered }

theorem ident_beq_frag (k : Key) (f g : Option (Nat × Option Nat)) :
    (({ key := k, frag := f } : Ident) == (⟨k, g⟩ : Ident)) = (f == g) := by
  by_cases e : f = g
  · subst e; simp
  · have : ({ key := k, frag := f } : Ident) ≠ ⟨k, g⟩ := by
      intro h; exact e (congrArg Ident.frag h)
    rw [beq_eq_false_iff_ne.2 this, beq_eq_false_iff_ne.2 e]

theorem proj_recv_key' (cfg : RCfg) (s : AState) (b : FBundle) (hw : TableWf s.table)
    (hn : numsOk b = true) (hc : cfg.crcOk (norm b) = true)
    (hs : (b.primary.src == cfg.nodeId) = false) (hd : cfg.deliver b.primary.dest = true)
    (hf : isFragment b.primary.flags = true) :
    proj (keyOf b.primary) (recvBundle cfg s b) = recvProj cfg.crcFn (proj (keyOf b.primary) s) b := by
  have hid : identOf (norm b) = ⟨keyOf b.primary, fragId b⟩ := by
    simp [identOf, hf, fragId]
  unfold recvBundle recvProj
  simp only [hn, hc, hs, hd, hf, norm_primary, hid, Bool.not_true, Bool.false_eq_true, if_false]
  by_cases hsn : s.seen ⟨keyOf b.primary, fragId b⟩ = true
  · simp [proj, hsn]
  · have hsn' : s.seen ⟨keyOf b.primary, fragId b⟩ = false := by simpa using hsn
    have hre : reassemble cfg.crcFn s.table (norm b)
        = (fun k' => if k' = keyOf b.primary then (reasmEntry cfg.crcFn (s.table (keyOf b.primary)) (norm b)).1 else s.table k',
           (reasmEntry cfg.crcFn (s.table (keyOf b.primary)) (norm b)).2) := rfl
    have hkey := (reasmEntry_first_key cfg.crcFn (keyOf b.primary) (s.table (keyOf b.primary)) (norm b) rfl
      (fun e f h1 h2 => hw _ e f h1 h2)).2
    simp only [proj, hsn', Bool.false_eq_true, if_false, hre]
    cases hr : (reasmEntry cfg.crcFn (s.table (keyOf b.primary)) (norm b)).2 with
    | raised => simp [reinjOf, ident_beq_frag]
    | cleared o =>
      cases o with
      | none => simp [reinjOf, ident_beq_frag]
      | some rb =>
        have : hasKey (keyOf b.primary) rb = true := by simp [hasKey, hkey rb hr]
        simp [reinjOf, ident_beq_frag, this]

theorem proj_recv_key (cfg : RCfg) (s : AState) (b : FBundle) (k : Key) (hw : TableWf s.table)
    (hk : keyOf b.primary = k) (hn : numsOk b = true) (hc : cfg.crcOk (norm b) = true)
    (hs : (b.primary.src == cfg.nodeId) = false) (hd : cfg.deliver b.primary.dest = true)
    (hf : isFragment b.primary.flags = true) :
    proj k (recvBundle cfg s b) = recvProj cfg.crcFn (proj k s) b := by
  subst hk; exact proj_recv_key' cfg s b hw hn hc hs hd hf

theorem isFragment_clearFragFlag (f : Nat) : isFragment (clearFragFlag f) = false := by
  unfold clearFragFlag
  split
  · rename_i h; simp only [isFragment] at *; simp at h ⊢; omega
  · rename_i h; simpa using h

theorem numsOk_congr (a b : FBundle) (h : a.blocks.map (fun x => x.c.blockNum) = b.blocks.map (fun x => x.c.blockNum)) :
    numsOk a = numsOk b := by
  simp [numsOk, h]

theorem numsOk_synth (crcFn : Nat → Bytes → Bytes) (f : FBundle) (d : Bytes) :
    numsOk (synth crcFn f d) = numsOk f := by
  apply numsOk_congr
  simp only [synth, norm, List.map_map]
  apply List.map_congr_left
  intro x _
  simp only [Function.comp]
  split <;> simp

/-- effect of the idle callback that re-injects the (non-fragment) bundle `rb` of key `k` -/
theorem proj_idle_key (cfg : RCfg) (s : AState) (j : Nat) (rb : FBundle) (k : Key)
    (hj : s.pending[j]? = some rb) (hk : keyOf rb.primary = k) (hn : numsOk rb = true)
    (hc : cfg.crcOk (norm rb) = true) (hs : (rb.primary.src == cfg.nodeId) = false)
    (hd : cfg.deliver rb.primary.dest = true) (hf : isFragment rb.primary.flags = false)
    (hseen : (proj k s).seen none = false) :
    proj k (step cfg s (.idle j)) =
      { entry := (proj k s).entry, seen := fun f => f == none || (proj k s).seen f,
        pending := (s.pending.eraseIdx j).filter (hasKey k),
        delivered := (proj k s).delivered ++ [norm rb] } := by
  have hid : identOf (norm rb) = ⟨k, none⟩ := by simp [identOf, hf, hk]
  have hsn : s.seen ⟨k, none⟩ = false := hseen
  have hkb : hasKey k (norm rb) = true := by simp [hasKey, hk]
  simp only [step, hj]
  unfold recvBundle
  simp only [hn, hc, hs, hd, hf, norm_primary, hid, hsn, Bool.not_true, Bool.not_false, Bool.false_eq_true,
    if_false, if_true]
  simp [proj, hkb, ident_beq_frag]

/-! ### splice -/

theorem splice_getElem?_in (buf d : Bytes) (off i : Nat) (h : off + d.length ≤ buf.length)
    (h1 : off ≤ i) (h2 : i < off + d.length) : (splice buf off d)[i]? = d[i - off]? := by
  unfold splice
  rw [List.append_assoc, List.getElem?_append_right (by simp; omega)]
  rw [List.getElem?_append_left (by simp; omega)]
  simp; congr 1; omega

theorem splice_getElem?_out (buf d : Bytes) (off i : Nat) (h : off + d.length ≤ buf.length)
    (h' : ¬ (off ≤ i ∧ i < off + d.length)) : (splice buf off d)[i]? = buf[i]? := by
  unfold splice
  by_cases h1 : i < off
  · rw [List.append_assoc, List.getElem?_append_left (by simp; omega)]
    simp [h1]
  · rw [List.getElem?_append_right (by simp; omega)]
    simp [List.getElem?_drop]
    congr 1; omega

theorem take_drop_getElem? (P : Bytes) (off n j : Nat) (h : j < n) :
    ((P.drop off).take n)[j]? = P[off + j]? := by
  simp [h, List.getElem?_drop]


/-! ### consistent fragments of one bundle -/

/-- (offset, payload length) of a fragment -/
def rangeOf (b : FBundle) : Range := (b.primary.fragOff, ((norm b).payload.getD []).length)

/-- `b` is a fragment of the bundle with key `k` and payload `P` that the agent will hand to
    reassembly: right key, fragment flag, total length |P|, its data is the slice of `P` at its
    offset; it passes the gates of `recv_bundle` (block numbers, CRC, not our own, routed to deliver).
    `synthOk`: the bundle synthesised from an offset-0 fragment passes the CRC gate when re-injected
    (its primary CRC has just been recomputed, its payload block has CRC none, the other blocks are
    copies of blocks that passed the gate). -/
structure ConsFrag (cfg : RCfg) (k : Key) (P : Bytes) (b : FBundle) : Prop where
  key : keyOf b.primary = k
  frag : isFragment b.primary.flags = true
  total : b.primary.totalLen = P.length
  nums : numsOk b = true
  crc : cfg.crcOk (norm b) = true
  src : (b.primary.src == cfg.nodeId) = false
  dlv : cfg.deliver b.primary.dest = true
  data : ∃ d, (norm b).payload = some d ∧ b.primary.fragOff + d.length ≤ P.length ∧
    d = (P.drop b.primary.fragOff).take d.length
  synthOk : b.primary.fragOff = 0 → cfg.crcOk (norm (synth cfg.crcFn (norm b) P)) = true

/-- equal fragment identities mean equal ranges (the identity now carries the payload length) -/
theorem rangeOf_of_fragId {b b' : FBundle} (h : fragId b = fragId b') : rangeOf b = rangeOf b' := by
  simp only [fragId, Option.some.injEq, Prod.mk.injEq] at h
  simp only [rangeOf, h.1]
  cases h1 : (norm b).payload <;> cases h2 : (norm b').payload <;> simp_all

/-- the bundle reassembly synthesises from an offset-0 fragment of `fr` and the payload `P` -/
def Synth (cfg : RCfg) (P : Bytes) (fr : List FBundle) (rb : FBundle) : Prop :=
  ∃ f0 ∈ fr, f0.primary.fragOff = 0 ∧ rb = synth cfg.crcFn (norm f0) P

theorem Synth.mono {cfg : RCfg} {P : Bytes} {fr : List FBundle} {rb : FBundle} (b : FBundle)
    (h : Synth cfg P fr rb) : Synth cfg P (fr ++ [b]) rb := by
  obtain ⟨f0, h1, h2, h3⟩ := h
  exact ⟨f0, List.mem_append_left _ h1, h2, h3⟩

/-- what is known of a reassembly entry of `k` at any time -/
structure EntryG (P : Bytes) (fr : List FBundle) (e : Entry) : Prop where
  total : e.total = P.length
  len : e.data.length = P.length
  agree : ∀ i, coveredAt e.ranges i → e.data[i]? = P[i]?
  sub : ∀ r ∈ e.ranges, r ∈ fr.map rangeOf
  first : ∀ f, e.first = some f → ∃ f0 ∈ fr, f0.primary.fragOff = 0 ∧ f = norm f0
  zero : (∃ r ∈ e.ranges, r.1 = 0) → e.first ≠ none

theorem EntryG.mono {P : Bytes} {fr : List FBundle} {e : Entry} (b : FBundle) (h : EntryG P fr e) :
    EntryG P (fr ++ [b]) e := by
  refine ⟨h.total, h.len, h.agree, ?_, ?_, h.zero⟩
  · intro r hr
    simp only [List.map_append, List.mem_append]
    exact Or.inl (h.sub r hr)
  · intro f hf
    obtain ⟨f0, h1, h2, h3⟩ := h.first f hf
    exact ⟨f0, List.mem_append_left _ h1, h2, h3⟩

theorem entryOf_G (cfg : RCfg) (k : Key) (P : Bytes) (fr : List FBundle) (cur : Option Entry) (b : FBundle)
    (hb : ConsFrag cfg k P b) (hcur : ∀ e, cur = some e → EntryG P fr e) :
    EntryG P (fr ++ [b]) (entryOf cur (norm b)) ∧
      (b.primary.fragOff = 0 → (entryOf cur (norm b)).first ≠ none) ∧
      (entryOf cur (norm b)).ranges = (cur.map (fun e => e.ranges)).getD [] := by
  have hbm : b ∈ fr ++ [b] := by simp
  unfold entryOf
  simp only [norm_primary]
  cases hc : cur with
  | none =>
    simp only [Option.getD_none, Option.map_none]
    by_cases h0 : (b.primary.fragOff == 0) = true
    · simp only [h0, if_true]
      refine ⟨⟨hb.total, by simp [zeros, hb.total], ?_, by simp, ?_, by simp⟩, by simp, by first | rfl | trivial⟩
      · intro i hi; obtain ⟨r, hr, _⟩ := hi; simp at hr
      · intro f hf
        simp at hf
        exact ⟨b, hbm, by simpa using h0, hf.symm⟩
    · have h0' : (b.primary.fragOff == 0) = false := by simpa using h0
      simp only [h0', Bool.false_eq_true, if_false]
      refine ⟨⟨hb.total, by simp [zeros, hb.total], ?_, by simp, by simp, by simp⟩, ?_, by first | rfl | trivial⟩
      · intro i hi; obtain ⟨r, hr, _⟩ := hi; simp at hr
      · intro h; simp [h] at h0'
  | some e =>
    have hG := (hcur e hc).mono b
    simp only [Option.getD_some, Option.map_some]
    by_cases h0 : (b.primary.fragOff == 0) = true
    · simp only [h0, if_true]
      refine ⟨⟨hG.total, hG.len, hG.agree, hG.sub, ?_, by simp⟩, by simp, by first | rfl | trivial⟩
      intro f hf
      simp at hf
      exact ⟨b, hbm, by simpa using h0, hf.symm⟩
    · have h0' : (b.primary.fragOff == 0) = false := by simpa using h0
      simp only [h0', Bool.false_eq_true, if_false]
      exact ⟨hG, fun h => by simp [h] at h0', by first | rfl | trivial⟩

theorem inject_G (P : Bytes) (fr : List FBundle) (e : Entry) (b : FBundle) (d : Bytes)
    (he : EntryG P (fr ++ [b]) e) (h0 : b.primary.fragOff = 0 → e.first ≠ none)
    (hd : (norm b).payload = some d)
    (hle : b.primary.fragOff + d.length ≤ P.length) (hdP : d = (P.drop b.primary.fragOff).take d.length) :
    EntryG P (fr ++ [b]) (inject e b.primary.fragOff d) := by
  have hr : rangeOf b = (b.primary.fragOff, d.length) := by simp [rangeOf, hd]
  refine ⟨he.total, ?_, ?_, ?_, he.first, ?_⟩
  · show (splice e.data b.primary.fragOff d).length = P.length
    rw [splice_length _ _ _ (by rw [he.len]; exact hle), he.len]
  · intro i hi
    show (splice e.data b.primary.fragOff d)[i]? = P[i]?
    by_cases hin : b.primary.fragOff ≤ i ∧ i < b.primary.fragOff + d.length
    · rw [splice_getElem?_in _ _ _ _ (by rw [he.len]; exact hle) hin.1 hin.2, hdP,
        take_drop_getElem? _ _ _ _ (by omega)]
      congr 1; omega
    · rw [splice_getElem?_out _ _ _ _ (by rw [he.len]; exact hle) hin]
      apply he.agree
      obtain ⟨r, hr', h1, h2⟩ := hi
      rcases List.mem_cons.1 hr' with e' | e'
      · subst e'; exact absurd ⟨h1, h2⟩ hin
      · exact ⟨r, e', h1, h2⟩
  · intro r hr'
    rcases List.mem_cons.1 hr' with e' | e'
    · rw [e', ← hr]; exact List.mem_map.2 ⟨b, by simp, rfl⟩
    · exact he.sub r e'
  · rintro ⟨r, hr', hz⟩
    rcases List.mem_cons.1 hr' with e' | e'
    · rw [e'] at hz; exact h0 hz
    · exact he.zero ⟨r, e', hz⟩

theorem data_eq_of_covered (P : Bytes) (fr : List FBundle) (e : Entry) (he : EntryG P fr e)
    (hx : covered e.ranges P.length) : e.data = P := by
  apply List.ext_getElem?
  intro i
  by_cases hi : i < P.length
  · exact he.agree i (hx i hi)
  · rw [List.getElem?_eq_none (by rw [he.len]; omega), List.getElem?_eq_none (by omega)]

theorem payloadBlk_isSome_of_payload {b : FBundle} {d : Bytes} (h : b.payload = some d) :
    (payloadBlk b.blocks).isSome = true := by
  unfold FBundle.payload at h
  cases hp : payloadBlk b.blocks with
  | none => simp [hp] at h
  | some x => rfl

/-! ### the invariant of one bundle's reassembly, over arbitrary histories -/

structure Inv (cfg : RCfg) (P : Bytes) (fr : List FBundle) (pj : Proj) : Prop where
  /-- the seen fragment identities of `k` are those of the fragments received -/
  seenFrag : ∀ x, pj.seen (some x) = true ↔ ∃ b ∈ fr, fragId b = some x
  /-- a stored entry is consistent with `P` and incomplete -/
  entry : ∀ e, pj.entry = some e → EntryG P fr e ∧ ¬ exact e.ranges P.length
  /-- every pending re-injection of `k` is a correctly synthesised bundle -/
  pend : ∀ rb ∈ pj.pending, Synth cfg P fr rb
  /-- at most one delivery, and it is a correctly synthesised bundle -/
  del : pj.delivered = [] ∨ ∃ rb, Synth cfg P fr rb ∧ pj.delivered = [norm rb]
  seenNone : pj.seen none = true ↔ pj.delivered ≠ []
  /-- nothing is produced before the received ranges cover the payload -/
  early : (pj.pending ≠ [] ∨ pj.delivered ≠ []) → covered (fr.map rangeOf) P.length
  /-- until something is produced the entry holds every range received -/
  fresh : pj.pending = [] → pj.delivered = [] →
    (fr = [] ∧ pj.entry = none) ∨ ∃ e, pj.entry = some e ∧ ∀ r, r ∈ fr.map rangeOf → r ∈ e.ranges

theorem inv_init (cfg : RCfg) (P : Bytes) (k : Key) : Inv cfg P [] (proj k AState.init) := by
  refine ⟨?_, ?_, ?_, Or.inl rfl, ?_, ?_, fun _ _ => Or.inl ⟨rfl, rfl⟩⟩
  · intro x; simp [proj, AState.init]
  · intro e he; simp [proj, AState.init] at he
  · intro rb hrb; simp [proj, AState.init] at hrb
  · simp [proj, AState.init]
  · intro h; simp [proj, AState.init] at h

private theorem seen_upd (fr : List FBundle) (pj : Proj) (b : FBundle)
    (hs : ∀ x, pj.seen (some x) = true ↔ ∃ b' ∈ fr, fragId b' = some x) (x : Nat × Option Nat) :
    ((some x == fragId b) || pj.seen (some x)) = true ↔ ∃ b2 ∈ fr ++ [b], fragId b2 = some x := by
  simp only [Bool.or_eq_true, beq_iff_eq, hs x]
  constructor
  · rintro (h | ⟨b', hb', h⟩)
    · exact ⟨b, by simp, h.symm⟩
    · exact ⟨b', List.mem_append_left _ hb', h⟩
  · rintro ⟨b2, hb2, h⟩
    rcases List.mem_append.1 hb2 with h' | h'
    · exact Or.inr ⟨b2, h', h⟩
    · simp at h'; subst h'; exact Or.inl h.symm

/-- **One consistent fragment of `k` arrives** (new, duplicate, overlapping, after completion …). -/
theorem inv_step (cfg : RCfg) (k : Key) (P : Bytes) (fr : List FBundle) (pj : Proj) (b : FBundle)
    (hI : Inv cfg P fr pj) (hb : ConsFrag cfg k P b) (hall : ∀ b' ∈ fr, ConsFrag cfg k P b') :
    Inv cfg P (fr ++ [b]) (recvProj cfg.crcFn pj b) := by
  obtain ⟨d, hd, hle, hdP⟩ := hb.data
  have hrb : rangeOf b = (b.primary.fragOff, d.length) := by simp [rangeOf, hd]
  have hcovm : covered (fr.map rangeOf) P.length → covered ((fr ++ [b]).map rangeOf) P.length :=
    covered_mono (fun r hr => by simp only [List.map_append, List.mem_append]; exact Or.inl hr) _
  have hfid : ∃ x, fragId b = some x := ⟨_, rfl⟩
  obtain ⟨xb, hxb⟩ := hfid
  unfold recvProj
  by_cases hseen : pj.seen (fragId b) = true
  · -- duplicate by identity: ignored
    simp only [hseen, if_true]
    rw [hxb] at hseen
    obtain ⟨b', hb', hid'⟩ := (hI.seenFrag xb).1 hseen
    have hrr : rangeOf b' = rangeOf b := rangeOf_of_fragId (hid'.trans hxb.symm)
    refine ⟨?_, fun e he => ⟨(hI.entry e he).1.mono b, (hI.entry e he).2⟩,
      fun rb hrb' => (hI.pend rb hrb').mono b, ?_, hI.seenNone, fun h => hcovm (hI.early h), ?_⟩
    · intro x
      rw [hI.seenFrag x]
      constructor
      · rintro ⟨b2, h2, h3⟩; exact ⟨b2, List.mem_append_left _ h2, h3⟩
      · rintro ⟨b2, h2, h3⟩
        rcases List.mem_append.1 h2 with h | h
        · exact ⟨b2, h, h3⟩
        · simp at h; subst h; exact ⟨b', hb', hid'.trans (hxb.symm.trans h3)⟩
    · rcases hI.del with h | ⟨rb, h1, h2⟩
      · exact Or.inl h
      · exact Or.inr ⟨rb, h1.mono b, h2⟩
    · intro hp hdl
      rcases hI.fresh hp hdl with ⟨h1, _⟩ | ⟨e, he, hsup⟩
      · subst h1; simp at hb'
      · right
        refine ⟨e, he, ?_⟩
        intro r hr
        simp only [List.map_append, List.mem_append, List.map_cons, List.map_nil, List.mem_cons,
          List.not_mem_nil, or_false] at hr
        rcases hr with h | h
        · exact hsup r h
        · rw [h, ← hrr]; exact hsup _ (List.mem_map.2 ⟨b', hb', rfl⟩)
  · -- new identity: goes to reassembly
    have hseen' : pj.seen (fragId b) = false := by simpa using hseen
    simp only [hseen', Bool.false_eq_true, if_false]
    obtain ⟨hG1, hz1, hr1⟩ := entryOf_G cfg k P fr pj.entry b hb (fun e he => (hI.entry e he).1)
    have hG2 := inject_G P fr _ b d hG1 hz1 hd hle hdP
    have hre : reasmEntry cfg.crcFn pj.entry (norm b)
        = finish cfg.crcFn (inject (entryOf pj.entry (norm b)) b.primary.fragOff d) := by
      simp [reasmEntry, hd]
    have hsn : ((none : Option (Nat × Option Nat)) == fragId b) = false := by rw [hxb]; rfl
    have hseenF : ∀ x, ((some x == fragId b) || pj.seen (some x)) = true ↔
        ∃ b2 ∈ fr ++ [b], fragId b2 = some x := seen_upd fr pj b hI.seenFrag
    rw [hre]
    unfold finish
    have htot : (inject (entryOf pj.entry (norm b)) b.primary.fragOff d).total = P.length := hG2.total
    by_cases hx : exactB (inject (entryOf pj.entry (norm b)) b.primary.fragOff d).ranges
        (inject (entryOf pj.entry (norm b)) b.primary.fragOff d).total = true
    · -- complete
      have hex : exact (inject (entryOf pj.entry (norm b)) b.primary.fragOff d).ranges P.length := by
        rw [← htot]; exact (exactB_iff _ _).1 hx
      have hcov : covered ((fr ++ [b]).map rangeOf) P.length := covered_mono hG2.sub _ hex.1
      -- an offset-0 range was spliced in, so the first fragment is known
      have hz : ∃ r ∈ (inject (entryOf pj.entry (norm b)) b.primary.fragOff d).ranges, r.1 = 0 := by
        by_cases hP : 0 < P.length
        · obtain ⟨r, hr', h1, _⟩ := hex.1 0 hP
          exact ⟨r, hr', by omega⟩
        · exact ⟨(b.primary.fragOff, d.length), List.mem_cons_self, by simp; omega⟩
      have hne := hG2.zero hz
      cases hf : (inject (entryOf pj.entry (norm b)) b.primary.fragOff d).first with
      | none => exact absurd hf hne
      | some f =>
        obtain ⟨f0, hf0m, hf00, hff⟩ := hG2.first f hf
        have hcf0 : ConsFrag cfg k P f0 := by
          rcases List.mem_append.1 hf0m with h | h
          · exact hall f0 h
          · simp at h; subst h; exact hb
        obtain ⟨d0, hd0, _, _⟩ := hcf0.data
        have hdata : (inject (entryOf pj.entry (norm b)) b.primary.fragOff d).data = P :=
          data_eq_of_covered P _ _ hG2 hex.1
        have hpb : (payloadBlk f.blocks).isSome = true := by
          rw [hff]; exact payloadBlk_isSome_of_payload hd0
        simp only [hx, if_true, hpb, hdata, reinjOf]
        refine ⟨hseenF, fun e he => by simp at he, ?_, ?_, ?_, fun _ => hcov, ?_⟩
        · intro rb hrb'
          rcases List.mem_append.1 hrb' with h | h
          · exact (hI.pend rb h).mono b
          · simp at h; exact ⟨f0, hf0m, hf00, by rw [h, hff]⟩
        · rcases hI.del with h | ⟨rb, h1, h2⟩
          · exact Or.inl h
          · exact Or.inr ⟨rb, h1.mono b, h2⟩
        · simp only [hsn, Bool.false_or]; exact hI.seenNone
        · intro hp; simp at hp
    · -- still incomplete
      have hx' : exactB (inject (entryOf pj.entry (norm b)) b.primary.fragOff d).ranges
        (inject (entryOf pj.entry (norm b)) b.primary.fragOff d).total = false := by simpa using hx
      simp only [hx', Bool.false_eq_true, if_false, reinjOf, List.append_nil]
      refine ⟨hseenF, ?_, fun rb hrb' => (hI.pend rb hrb').mono b, ?_, ?_, fun h => hcovm (hI.early h), ?_⟩
      · intro e he
        simp at he; subst he
        refine ⟨hG2, ?_⟩
        intro hex; apply hx; rw [htot]; exact (exactB_iff _ _).2 hex
      · rcases hI.del with h | ⟨rb, h1, h2⟩
        · exact Or.inl h
        · exact Or.inr ⟨rb, h1.mono b, h2⟩
      · simp only [hsn, Bool.false_or]; exact hI.seenNone
      · intro hp hdl
        right
        refine ⟨_, rfl, ?_⟩
        intro r hr
        show r ∈ (b.primary.fragOff, d.length) :: (entryOf pj.entry (norm b)).ranges
        simp only [List.map_append, List.mem_append, List.map_cons, List.map_nil, List.mem_cons,
          List.not_mem_nil, or_false] at hr
        rcases hr with h | h
        · rcases hI.fresh hp hdl with ⟨h1, _⟩ | ⟨e, he, hsup⟩
          · subst h1; simp at h
          · rw [hr1, he]
            exact List.mem_cons_of_mem _ (hsup r h)
        · rw [h, hrb]; exact List.mem_cons_self

theorem norm_blocks_nums (f : FBundle) :
    (norm f).blocks.map (fun x => x.c.blockNum) = f.blocks.map (fun x => x.c.blockNum) := by
  simp [norm, List.map_map, Function.comp]

/-! ### whole histories -/

/-- the fragments of key `k` handed over by the CL, in arrival order -/
def kfrags (k : Key) : List Ev → List FBundle
  | [] => []
  | .recv b :: es => if hasKey k b then b :: kfrags k es else kfrags k es
  | .idle _ :: es => kfrags k es

theorem mem_filter_eraseIdx {α : Type} (p : α → Bool) (l : List α) (j : Nat) (x : α)
    (h : x ∈ (l.eraseIdx j).filter p) : x ∈ l.filter p := by
  simp only [List.mem_filter] at h ⊢
  exact ⟨(List.eraseIdx_sublist l j).subset h.1, h.2⟩

/-- the idle callback of a re-injection of `k` runs: delivered if it is the first, dropped if not -/
theorem idle_key_step (cfg : RCfg) (k : Key) (P : Bytes) (fr : List FBundle) (s : AState) (j : Nat)
    (rb : FBundle) (hj : s.pending[j]? = some rb) (hk : hasKey k rb = true)
    (hall : ∀ b ∈ fr, ConsFrag cfg k P b) (hI : Inv cfg P fr (proj k s)) :
    Inv cfg P fr (proj k (step cfg s (.idle j))) := by
  have hmem : rb ∈ (proj k s).pending := by
    simp only [proj, List.mem_filter]
    exact ⟨List.mem_of_getElem? hj, hk⟩
  obtain ⟨f0, hf0m, hf00, hrb⟩ := hI.pend rb hmem
  have hc := hall f0 hf0m
  have hkey : keyOf rb.primary = k := by rw [hrb, keyOf_synth]; exact hc.key
  have hnum : numsOk rb = true := by
    rw [hrb, numsOk_synth, numsOk_congr _ f0 (norm_blocks_nums f0)]; exact hc.nums
  have hcrc : cfg.crcOk (norm rb) = true := by rw [hrb]; exact hc.synthOk hf00
  have hsrc : (rb.primary.src == cfg.nodeId) = false := by
    have : rb.primary.src = f0.primary.src := by
      rw [hrb]; show (updPrimary cfg.crcFn _).src = _; unfold updPrimary; split <;> rfl
    rw [this]; exact hc.src
  have hdl : cfg.deliver rb.primary.dest = true := by
    have : rb.primary.dest = f0.primary.dest := by
      rw [hrb]; show (updPrimary cfg.crcFn _).dest = _; unfold updPrimary; split <;> rfl
    rw [this]; exact hc.dlv
  have hfl : isFragment rb.primary.flags = false := by
    have : rb.primary.flags = clearFragFlag f0.primary.flags := by
      rw [hrb]; show (updPrimary cfg.crcFn _).flags = _; unfold updPrimary; split <;> rfl
    rw [this]; exact isFragment_clearFragFlag _
  have hsub : ∀ x ∈ (s.pending.eraseIdx j).filter (hasKey k), Synth cfg P fr x :=
    fun x hx => hI.pend x (mem_filter_eraseIdx _ _ _ _ hx)
  have hcov : covered (fr.map rangeOf) P.length :=
    hI.early (Or.inl (by intro h; rw [h] at hmem; simp at hmem))
  by_cases hsn : (proj k s).seen none = true
  · -- a bundle of `k` was delivered before: this one is dropped as already seen
    have hstep : proj k (step cfg s (.idle j))
        = { (proj k s) with pending := (s.pending.eraseIdx j).filter (hasKey k) } := by
      have hid : identOf (norm rb) = ⟨k, none⟩ := by simp [identOf, hfl, hkey]
      have hs' : s.seen ⟨k, none⟩ = true := hsn
      simp only [step, hj]
      unfold recvBundle
      simp only [hnum, hcrc, hsrc, norm_primary, hid, hs', Bool.not_true, Bool.false_eq_true, if_false, if_true]
      rfl
    rw [hstep]
    have hdne := hI.seenNone.1 hsn
    exact ⟨hI.seenFrag, hI.entry, hsub, hI.del, hI.seenNone, fun _ => hcov, fun _ h => absurd h hdne⟩
  · have hsn' : (proj k s).seen none = false := by simpa using hsn
    have hdel : (proj k s).delivered = [] := by
      cases hd : (proj k s).delivered with
      | nil => rfl
      | cons a as => exact absurd (hI.seenNone.2 (by rw [hd]; simp)) hsn
    rw [proj_idle_key cfg s j rb k hj hkey hnum hcrc hsrc hdl hfl hsn']
    refine ⟨?_, hI.entry, hsub, Or.inr ⟨rb, ⟨f0, hf0m, hf00, hrb⟩, by simp [hdel]⟩, by simp, fun _ => hcov,
      fun _ h => by simp at h⟩
    intro x
    have : ((some x : Option (Nat × Option Nat)) == none) = false := rfl
    simp only [this, Bool.false_or]
    exact hI.seenFrag x

theorem run_inv (cfg : RCfg) (k : Key) (P : Bytes) :
    ∀ (evs : List Ev) (s : AState) (fr : List FBundle), TableWf s.table → Inv cfg P fr (proj k s) →
      (∀ b ∈ fr ++ kfrags k evs, ConsFrag cfg k P b) →
      TableWf (run cfg s evs).table ∧ Inv cfg P (fr ++ kfrags k evs) (proj k (run cfg s evs)) := by
  intro evs
  induction evs with
  | nil => intro s fr hw hph _; simpa [run, kfrags] using ⟨hw, hph⟩
  | cons ev es ih =>
    intro s fr hw hph hall
    have hw' := step_wf cfg s ev hw
    show TableWf (run cfg (step cfg s ev) es).table ∧ Inv cfg P _ (proj k (run cfg (step cfg s ev) es))
    cases ev with
    | recv b =>
      by_cases hk : hasKey k b = true
      · have hkf : kfrags k (Ev.recv b :: es) = b :: kfrags k es := by simp [kfrags, hk]
        rw [hkf] at hall ⊢
        have happ : fr ++ b :: kfrags k es = (fr ++ [b]) ++ kfrags k es := by simp
        rw [happ] at hall ⊢
        have hb : ConsFrag cfg k P b := hall b (by simp)
        have hallfr : ∀ b' ∈ fr, ConsFrag cfg k P b' := fun b' h => hall b' (by simp [h])
        apply ih _ _ hw' _ hall
        show Inv cfg P (fr ++ [b]) (proj k (recvBundle cfg s b))
        rw [proj_recv_key cfg s b k hw hb.key hb.nums hb.crc hb.src hb.dlv hb.frag]
        exact inv_step cfg k P fr _ b hph hb hallfr
      · have hk' : hasKey k b = false := by simpa using hk
        have hkf : kfrags k (Ev.recv b :: es) = kfrags k es := by simp [kfrags, hk']
        rw [hkf] at hall ⊢
        apply ih _ _ hw' _ hall
        rw [step_frame cfg s (.recv b) k hw (by simpa [evKeyIs] using hk')]
        exact hph
    | idle j =>
      have hkf : kfrags k (Ev.idle j :: es) = kfrags k es := rfl
      rw [hkf] at hall ⊢
      apply ih _ _ hw' _ hall
      cases hj : s.pending[j]? with
      | none => simpa [step, hj] using hph
      | some rb =>
        by_cases hk : hasKey k rb = true
        · exact idle_key_step cfg k P fr s j rb hj hk (fun b h => hall b (by simp [h])) hph
        · have hk' : hasKey k rb = false := by simpa using hk
          rw [step_frame cfg s (.idle j) k hw (by simp [evKeyIs, hj, hk'])]
          exact hph

/-! ### what the synthesised bundle contains -/

theorem payload_map (g : Blk → Blk) (v : Option Bytes) (hg1 : ∀ x, (g x).c.blockNum = x.c.blockNum)
    (hg2 : ∀ x, x.c.blockNum = 1 → (g x).c.btsd = v) (bs : List Blk) (h : ∃ x ∈ bs, x.c.blockNum = 1) :
    (payloadBlk (bs.map g)).bind (fun x => x.c.btsd) = v := by
  induction bs with
  | nil => simp at h
  | cons x xs ih =>
    by_cases hx : x.c.blockNum = 1
    · have : ((g x).c.blockNum == 1) = true := by simp [hg1, hx]
      simp only [payloadBlk, List.map_cons, List.find?_cons, this]
      exact hg2 x hx
    · have hgx : ((g x).c.blockNum == 1) = false := by simp [hg1, hx]
      obtain ⟨y, hy, hy1⟩ := h
      have hy' : y ∈ xs := by
        rcases List.mem_cons.1 hy with e | e
        · exact absurd (e ▸ hy1) hx
        · exact e
      have hrec := ih ⟨y, hy', hy1⟩
      simp only [payloadBlk] at hrec
      simp only [payloadBlk, List.map_cons, List.find?_cons, hgx]
      exact hrec

theorem exists_num1_of_payload {b : FBundle} {d : Bytes} (h : b.payload = some d) :
    ∃ x ∈ b.blocks, x.c.blockNum = 1 := by
  unfold FBundle.payload at h
  cases hp : payloadBlk b.blocks with
  | none => simp [hp] at h
  | some x =>
    exact ⟨x, List.mem_of_find?_eq_some hp, by simpa using List.find?_some hp⟩

/-- the reassembled bundle carries exactly the reassembled data as payload -/
theorem synth_payload (crcFn : Nat → Bytes → Bytes) (f : FBundle) (d0 P : Bytes)
    (h : (norm f).payload = some d0) : (norm (synth crcFn (norm f) P)).payload = some P := by
  obtain ⟨x, hx, h1⟩ := exists_num1_of_payload h
  unfold FBundle.payload
  simp only [norm, synth, List.map_map]
  simp only [norm] at hx
  obtain ⟨y, hy, rfl⟩ := List.mem_map.1 hx
  apply payload_map _ (some P) _ _ _ ⟨y, hy, by simpa using h1⟩
  · intro z
    simp only [Function.comp]
    split <;> simp
  · intro z hz
    simp only [Function.comp]
    have : (z.ensure.ensure.c.blockNum == 1) = true := by simp [hz]
    simp only [this, if_true]
    rw [ensure_btsd_some _ P rfl]

theorem filter_map_congr {α β : Type} (p : β → Bool) (h1 h2 : α → β) (bs : List α)
    (hp : ∀ x ∈ bs, p (h1 x) = p (h2 x)) (he : ∀ x ∈ bs, p (h2 x) = true → h1 x = h2 x) :
    (bs.map h1).filter p = (bs.map h2).filter p := by
  induction bs with
  | nil => rfl
  | cons x xs ih =>
    have ih' := ih (fun y hy => hp y (List.mem_cons_of_mem _ hy)) (fun y hy => he y (List.mem_cons_of_mem _ hy))
    simp only [List.map_cons, List.filter_cons, hp x List.mem_cons_self]
    by_cases hx : p (h2 x) = true
    · simp only [hx, if_true, he x List.mem_cons_self hx, ih']
    · have hx' : p (h2 x) = false := by simpa using hx
      simp only [hx', Bool.false_eq_true, if_false, ih']

/-- … and every other block of the offset-0 fragment, unchanged and in order -/
theorem synth_ext_blocks (crcFn : Nat → Bytes → Bytes) (f : FBundle) (P : Bytes) :
    (norm (synth crcFn (norm f) P)).blocks.filter (fun x => x.c.blockNum != 1)
      = (norm f).blocks.filter (fun x => x.c.blockNum != 1) := by
  simp only [norm, synth, List.map_map]
  apply filter_map_congr
  · intro x _
    simp only [Function.comp]
    split <;> simp
  · intro x _ hx
    simp only [Function.comp]
    have hne : (x.ensure.c.blockNum == 1) = false := by
      simp only [ensure_num] at hx ⊢
      simpa using hx
    simp only [ensure_idem, hne, Bool.false_eq_true, if_false]


end Reasm
end DtnVerif
