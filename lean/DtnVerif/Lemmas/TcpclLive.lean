/-
  Delivery at quiescence: when one direction of the two-endpoint system has drained (nothing buffered,
  nothing on the wire, no idle source pending at the sender), everything the sender's user queued has
  been completely received by the peer.
-/
import DtnVerif.Lemmas.TcpclSysLift
namespace DtnVerif
namespace Tcpcl

/-- a whole legal, well-formed stream frames to exactly its messages -/
theorem stream_full (ms : List Msg) (hl : (legalRun {} ms).isSome) (hwf : ∀ m ∈ ms, m.WF) :
    (feed {} (encodeAll ms)).2 = ms := by
  rcases legal_shape ms hl with rfl | ⟨f, rest, rfl, hrest⟩
  · have h : feed {} (encodeAll ([] : List Msg)) = ({}, []) := by decide
    rw [h]
  · have hf : f < 256 := hwf (.contact f) (by simp)
    have hall : ∀ m ∈ rest, m.WF ∧ m.isContact = false :=
      fun m hm => ⟨hwf m (by simp [hm]), hrest m hm⟩
    rw [C07_stream f hf rest hall]

/-- the direction `w → r` has drained -/
structure Drained (w r : Ep) (pipe : Bytes) : Prop where
  wOpen : w.closed = false
  rOpen : r.closed = false
  notTerm : w.inTerm = false
  txBuf : w.txBuf = []
  connBuf : w.connBuf = []
  pipe : pipe = []
  noSource : w.pqSources = 0

theorem drained_delivery (w r : Ep) (pipe : Bytes) (hw : EpInv w) (hr : EpInv r) (hwake : WakeInv w)
    (hwf : ∀ m ∈ w.emitted, m.WF) (hwire : r.rxBytes ++ pipe = w.accepted) (hd : Drained w r pipe) :
    w.txTmp = none ∧ w.txPendStart = [] ∧ r.processed = w.emitted
      ∧ r.rxLog = w.sendLog.map (fun it => (it.tid, it.data)) := by
  -- nothing is being segmented and nothing is waiting to start
  have htmp : w.txTmp = none := by
    cases h : w.txTmp with
    | none => rfl
    | some p =>
      rcases hwake.tmp hd.wOpen (by simp [h]) with h1 | h1
      · rw [hd.noSource] at h1; exact absurd h1 (Nat.lt_irrefl 0)
      · exact absurd hd.txBuf h1
  have hps : w.txPendStart = [] := by
    cases h : w.txPendStart with
    | nil => rfl
    | cons a l =>
      have := hwake.start hd.wOpen htmp (by simp [h])
      rw [hd.noSource] at this; exact absurd this (Nat.lt_irrefl 0)
  -- every octet of every emitted message has reached the receiver's framing
  have hacc : w.accepted = encodeAll w.emitted := by
    have : encodeAll w.emitted = w.accepted ++ w.connBuf ++ w.txBuf := hw.pump
    rw [this, hd.connBuf, hd.txBuf]; simp
  have hrx : r.rxBytes = encodeAll w.emitted := by
    rw [← hacc, ← hwire, hd.pipe]; simp
  have hproc : r.processed = w.emitted := by
    rw [hr.frame.2.2 hd.rOpen, hrx]
    exact stream_full _ (emitted_legal hw) hwf
  refine ⟨htmp, hps, hproc, ?_⟩
  -- all queued bundles have been started and completely emitted
  obtain ⟨P, hP⟩ := hw.tx
  have hpend := hP.pend
  simp only [Ep.txView] at hpend
  obtain ⟨i, hi1, hi2, hi3, hi4⟩ := hpend
  have hi5 : i = w.nStarted := hi4 hd.notTerm hd.wOpen
  have hns : w.nStarted = w.sendLog.length := by
    have : w.sendLog.drop i = [] := by rw [← hi3]; exact hps
    have := List.drop_eq_nil_iff.mp this
    omega
  have hD := hP.D
  simp only [Ep.txView] at hD
  have h1 : r.rxLog = deliver r.processed := hr.rx.1
  rw [h1, hproc]
  unfold deliver
  rw [hD]
  simp only [doneD, htmp, Option.isSome_none, Bool.false_eq_true, if_false, Nat.sub_zero, hns, List.take_length]

end Tcpcl
end DtnVerif
