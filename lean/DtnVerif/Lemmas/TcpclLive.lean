/-
  Delivery at quiescence: when one direction of the two-endpoint system has drained (nothing buffered,
  nothing on the wire, no idle source pending at the sender), everything the sender's user queued has
  been completely received by the peer.
-/
import DtnVerif.Lemmas.TcpclSysLift
import DtnVerif.Lemmas.TcpclRxAck
import DtnVerif.Lemmas.TcpclAckSucc
import DtnVerif.Lemmas.TcpclSP
namespace DtnVerif
namespace Tcpcl

/-- a whole legal, well-formed stream frames to exactly its messages -/
theorem stream_full (ms : List Msg) (hl : (legalRun {} ms).isSome) (hwf : ∀ m ∈ ms, m.WF) :
    (feed {} (encodeAll ms)).2 = ms := by
  rcases legal_shape ms hl with rfl | ⟨f, rest, rfl, hrest⟩
  · have h : feed {} (encodeAll ([] : List Msg)) = ({}, []) := by decide
    rw [h]
  · have hf : f < 256 := hwf (.contact f) (by simp)
    have hall : ∀ m ∈ rest, m.WF ∧ m.isContact = false :=
      fun m hm => ⟨hwf m (by simp [hm]), hrest m hm⟩
    rw [C07_stream f hf rest hall]

/-- the direction `w → r` has drained -/
structure Drained (w r : Ep) (pipe : Bytes) : Prop where
  wOpen : w.closed = false
  rOpen : r.closed = false
  notTerm : w.inTerm = false
  txBuf : w.txBuf = []
  connBuf : w.connBuf = []
  pipe : pipe = []
  noSource : w.pqSources = 0

theorem drained_delivery (w r : Ep) (pipe : Bytes) (hw : EpInv w) (hr : EpInv r) (hwake : WakeInv w)
    (hwf : ∀ m ∈ w.emitted, m.WF) (hwire : r.rxBytes ++ pipe = w.accepted) (hd : Drained w r pipe) :
    w.txTmp = none ∧ w.txPendStart = [] ∧ r.processed = w.emitted
      ∧ r.rxLog = w.sendLog.map (fun it => (it.tid, it.data)) := by
  -- nothing is being segmented and nothing is waiting to start
  have htmp : w.txTmp = none := by
    cases h : w.txTmp with
    | none => rfl
    | some p =>
      rcases hwake.tmp hd.wOpen (by simp [h]) with h1 | h1
      · rw [hd.noSource] at h1; exact absurd h1 (Nat.lt_irrefl 0)
      · exact absurd hd.txBuf h1
  have hps : w.txPendStart = [] := by
    cases h : w.txPendStart with
    | nil => rfl
    | cons a l =>
      have := hwake.start hd.wOpen htmp (by simp [h])
      rw [hd.noSource] at this; exact absurd this (Nat.lt_irrefl 0)
  -- every octet of every emitted message has reached the receiver's framing
  have hacc : w.accepted = encodeAll w.emitted := by
    have : encodeAll w.emitted = w.accepted ++ w.connBuf ++ w.txBuf := hw.pump
    rw [this, hd.connBuf, hd.txBuf]; simp
  have hrx : r.rxBytes = encodeAll w.emitted := by
    rw [← hacc, ← hwire, hd.pipe]; simp
  have hproc : r.processed = w.emitted := by
    rw [hr.frame.2.2 hd.rOpen, hrx]
    exact stream_full _ (emitted_legal hw) hwf
  refine ⟨htmp, hps, hproc, ?_⟩
  -- all queued bundles have been started and completely emitted
  obtain ⟨P, hP⟩ := hw.tx
  have hpend := hP.pend
  simp only [Ep.txView] at hpend
  obtain ⟨i, hi1, hi2, hi3, hi4⟩ := hpend
  have hi5 : i = w.nStarted := hi4 hd.notTerm hd.wOpen
  have hns : w.nStarted = w.sendLog.length := by
    have : w.sendLog.drop i = [] := by rw [← hi3]; exact hps
    have := List.drop_eq_nil_iff.mp this
    omega
  have hD := hP.D
  simp only [Ep.txView] at hD
  have h1 : r.rxLog = deliver r.processed := hr.rx.1
  rw [h1, hproc]
  unfold deliver
  rw [hD]
  simp only [doneD, htmp, Option.isSome_none, Bool.false_eq_true, if_false, Nat.sub_zero, hns, List.take_length]

/-- everything the writer emitted has been framed by the reader (weaker premises than `Drained`) -/
theorem drained_processed (w r : Ep) (pipe : Bytes) (hw : EpInv w) (hr : EpInv r)
    (hwf : ∀ m ∈ w.emitted, m.WF) (hwire : r.rxBytes ++ pipe = w.accepted)
    (h1 : w.txBuf = []) (h2 : w.connBuf = []) (h3 : pipe = []) (h4 : r.closed = false) :
    r.processed = w.emitted := by
  have hacc : w.accepted = encodeAll w.emitted := by
    have : encodeAll w.emitted = w.accepted ++ w.connBuf ++ w.txBuf := hw.pump
    rw [this, h2, h1]; simp
  have hrx : r.rxBytes = encodeAll w.emitted := by
    rw [← hacc, ← hwire, h3]; simp
  rw [hr.frame.2.2 h4, hrx]
  exact stream_full _ (emitted_legal hw) hwf

/-- **Success at quiescence.** Both directions drained and the writer never had to reject anything:
    every bundle the writer's user queued has been reported `success`, and its send queue is empty. -/
theorem drained_success (w r : Ep) (pipeWR pipeRW : Bytes) (hw : EpInv w) (hr : EpInv r) (hwake : WakeInv w)
    (hwfw : ∀ m ∈ w.emitted, m.WF) (hwfr : ∀ m ∈ r.emitted, m.WF)
    (hwire : r.rxBytes ++ pipeWR = w.accepted) (hwire' : w.rxBytes ++ pipeRW = r.accepted)
    (hd : Drained w r pipeWR) (hb1 : r.txBuf = []) (hb2 : r.connBuf = []) (hb3 : pipeRW = [])
    (hq : QInv w) (hsp : SP w) (has : ASInv w) (hra : RxAckInv r)
    (hnr : ∀ m ∈ w.emitted, m.isRej = false) :
    (∀ it ∈ w.sendLog, it.tid ∈ w.successLog) ∧ w.txMap = [] := by
  obtain ⟨htmp, hps, _, hlog⟩ := drained_delivery w r pipeWR hw hr hwake hwfw hwire hd
  have hback : w.processed = r.emitted :=
    drained_processed r w pipeRW hr hw hwfr hwire' hb1 hb2 hb3 hd.wOpen
  have hall : ∀ it ∈ w.sendLog, it.tid ∈ w.successLog := by
    intro it hit
    have hmem : (it.tid, it.data) ∈ r.rxLog := by
      rw [hlog]; exact List.mem_map.mpr ⟨it, hit, rfl⟩
    obtain ⟨f, l, hend, hack⟩ := hra _ hmem
    rw [← hback] at hack
    have := has _ hack
    simp only [asOK] at this
    rcases this hend with h | ⟨x, hx, hj⟩
    · exact h
    · rw [hnr x hx] at hj; cases hj
  refine ⟨hall, ?_⟩
  apply List.eq_nil_iff_forall_not_mem.mpr
  intro t ht
  obtain ⟨P, hP⟩ := hw.tx
  have hnext := hP.nextId
  have htids := hP.tids
  simp only [Ep.txView] at hnext htids
  have h1 : 1 ≤ t := hsp.mapPos t ht
  have h2 : t < w.txNextId := hq.fresh t ht
  have hlt : t - 1 < w.sendLog.length := by omega
  have hget : w.sendLog[t - 1]? = some w.sendLog[t - 1] := List.getElem?_eq_getElem hlt
  have htid := htids (t - 1) _ hget
  have hin : w.sendLog[t - 1] ∈ w.sendLog := List.getElem_mem hlt
  have hs := hall _ hin
  rw [htid, show t - 1 + 1 = t by omega] at hs
  exact (hsp.succ t hs).1 ht

end Tcpcl
end DtnVerif
