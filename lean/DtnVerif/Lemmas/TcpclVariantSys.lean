/-
  The variant function of the two-endpoint system: every enabled internal event (a `_process_queue`
  idle source firing, a TX callback with the socket taking at least one octet, a delivery of octets
  in flight, an end-of-stream) strictly lowers `mu`. So from any reachable state at most `mu s`
  internal events can happen before the system is quiescent — with no user action and no timer.
-/
import DtnVerif.Lemmas.TcpclVariant
import DtnVerif.Lemmas.TcpclSys
namespace DtnVerif
namespace Tcpcl
namespace Var

/-- the part of the measure owned by the writer `w` of one direction: its own potential, the octets in
    flight to the reader `r`, and what the messages `r` has not processed yet may cost `r` -/
def muHalf (w r : Ep) (pipe : Bytes) : Nat :=
  phi w + pipe.length + R r.cfg w.cfg (w.emitted.drop r.processed.length)

def mu (s : Sys) : Nat := muHalf s.a s.b s.toB + muHalf s.b s.a s.toA

/-- the internal events which can still happen without the user and without a timer -/
def Enabled (s : Sys) : SysEv → Prop
  | .atA .procQueue => 0 < s.a.pqSources ∧ (s.a.closed = true ∨ s.a.inSess = true ∨ s.a.txTmp ≠ none)
  | .atB .procQueue => 0 < s.b.pqSources ∧ (s.b.closed = true ∨ s.b.inSess = true ∨ s.b.txTmp ≠ none)
  | .atA (.pump n) => 1 ≤ n ∧ s.a.closed = false ∧ 0 < s.a.txSrc
  | .atB (.pump n) => 1 ≤ n ∧ s.b.closed = false ∧ 0 < s.b.txSrc
  | .deliverB k => s.b.closed = false ∧ s.toB.take k ≠ []
  | .deliverA k => s.a.closed = false ∧ s.toA.take k ≠ []
  | .eofB => s.a.closed = true ∧ s.toB = [] ∧ s.b.closed = false
  | .eofA => s.b.closed = true ∧ s.toA = [] ∧ s.a.closed = false
  | _ => False

theorem segOK_of_inv {e : Ep} (hi : EpInv e) : SegOK e := by
  obtain ⟨P, hP⟩ := hi.tx
  refine ⟨hP.noPriv, hP.seg, ?_⟩
  intro it sent h
  obtain ⟨-, -, -, hlt, hs⟩ := hP.tmp it sent h
  exact ⟨Nat.le_of_lt hlt, hP.seg hs⟩

theorem newWire_of_append (e e' : Ep) (w : Bytes) (h : e'.accepted = e.accepted ++ w) : newWire e e' = w := by
  unfold newWire; rw [h]; simp

theorem drop_append_new (l new : List Msg) (k : Nat) (hk : k ≤ l.length) :
    (l ++ new).drop k = l.drop k ++ new := by
  rw [List.drop_append_of_le_length hk]

/-- the writer makes a local step which emits `new` and writes `wire` -/
theorem half_writer (w w' r : Ep) (pipe wire : Bytes) (new : List Msg)
    (hpre : r.processed.length ≤ w.emitted.length) (hcfg : w'.cfg = w.cfg) (hem : w'.emitted = w.emitted ++ new) :
    muHalf w' r (pipe ++ wire) = phi w' + R r.cfg w.cfg new + wire.length + pipe.length
      + R r.cfg w.cfg (w.emitted.drop r.processed.length) := by
  unfold muHalf
  rw [hcfg, hem, drop_append_new _ _ _ hpre, R_append, List.length_append]
  omega

/-- the reader of a direction makes a step which leaves its configuration and `processed` alone -/
theorem half_reader_same (w r r' : Ep) (pipe : Bytes) (hcfg : r'.cfg = r.cfg) (hpr : r'.processed = r.processed) :
    muHalf w r' pipe = muHalf w r pipe := by
  unfold muHalf; rw [hcfg, hpr]

/-- the reader processes `done` -/
theorem half_reader_done (w r r' : Ep) (pipe : Bytes) (done : List Msg) (hcfg : r'.cfg = r.cfg)
    (hpr : r'.processed = r.processed ++ done) (hpre : r'.processed <+: w.emitted) :
    muHalf w r' pipe + R r.cfg w.cfg done = muHalf w r pipe := by
  unfold muHalf
  obtain ⟨rest, hrest⟩ := hpre
  rw [hcfg, hpr] at *
  rw [← hrest]
  have h1 : ((r.processed ++ done) ++ rest).drop (r.processed ++ done).length = rest := List.drop_left
  have h2 : ((r.processed ++ done) ++ rest).drop r.processed.length = done ++ rest := by
    rw [List.append_assoc]; exact List.drop_left
  rw [h1, h2, R_append]
  omega

theorem prefix_len {l1 l2 : List Msg} (h : l1 <+: l2) : l1.length ≤ l2.length := h.length_le

/-- **Every enabled internal event strictly lowers the measure.** -/
theorem mu_step (s : Sys) (ev : SysEv) (hi : SysInv s) (hwf : SysWF s)
    (hi' : SysInv (sysStep s ev)) (hwf' : SysWF (sysStep s ev))
    (hpas : ¬ (s.a.cfg.passive = true ∧ s.b.cfg.passive = true)) (hen : Enabled s ev) :
    mu (sysStep s ev) < mu s := by
  obtain ⟨pB, pA⟩ := transport s hi hwf
  obtain ⟨pB', pA'⟩ := transport _ hi' hwf'
  have hpa : s.a.cfg.passive = true → s.b.cfg.passive = false := by
    intro h; cases hb : s.b.cfg.passive
    · rfl
    · exact absurd ⟨h, hb⟩ hpas
  have hpb : s.b.cfg.passive = true → s.a.cfg.passive = false := by
    intro h; cases ha : s.a.cfg.passive
    · rfl
    · exact absurd ⟨ha, h⟩ hpas
  cases ev with
  | atA e =>
    cases e with
    | procQueue =>
      obtain ⟨hq, hcase⟩ := hen
      obtain ⟨c1, c2, c3, new, c4, c5⟩ := var_procQueue s.b.cfg s.a (segOK_of_inv hi.ia) hq hcase
      have hw : newWire s.a (step s.a .procQueue).1 = [] := newWire_of_append _ _ [] (by simp [c2])
      show muHalf (step s.a .procQueue).1 s.b (s.toB ++ newWire s.a (step s.a .procQueue).1)
          + muHalf s.b (step s.a .procQueue).1 s.toA < mu s
      rw [hw, half_writer s.a _ s.b s.toB [] new (prefix_len pB) c1 c4, half_reader_same s.b s.a _ s.toA c1 c3]
      unfold mu muHalf
      simp only [List.length_nil]; omega
    | pump n =>
      obtain ⟨hn, ho, hsrc⟩ := hen
      obtain ⟨c1, c3, c4, w, c2, c5⟩ := var_pump s.a n hn ho hsrc
      have hw : newWire s.a (step s.a (.pump n)).1 = w := newWire_of_append _ _ w c2
      show muHalf (step s.a (.pump n)).1 s.b (s.toB ++ newWire s.a (step s.a (.pump n)).1)
          + muHalf s.b (step s.a (.pump n)).1 s.toA < mu s
      rw [hw, half_writer s.a _ s.b s.toB w [] (prefix_len pB) c1 (by simp [c4]), half_reader_same s.b s.a _ s.toA c1 c3]
      unfold mu muHalf
      simp only [R_nil]; omega
    | _ => exact absurd hen (by simp [Enabled])
  | atB e =>
    cases e with
    | procQueue =>
      obtain ⟨hq, hcase⟩ := hen
      obtain ⟨c1, c2, c3, new, c4, c5⟩ := var_procQueue s.a.cfg s.b (segOK_of_inv hi.ib) hq hcase
      have hw : newWire s.b (step s.b .procQueue).1 = [] := newWire_of_append _ _ [] (by simp [c2])
      show muHalf s.a (step s.b .procQueue).1 s.toB
          + muHalf (step s.b .procQueue).1 s.a (s.toA ++ newWire s.b (step s.b .procQueue).1) < mu s
      rw [hw, half_writer s.b _ s.a s.toA [] new (prefix_len pA) c1 c4, half_reader_same s.a s.b _ s.toB c1 c3]
      unfold mu muHalf
      simp only [List.length_nil]; omega
    | pump n =>
      obtain ⟨hn, ho, hsrc⟩ := hen
      obtain ⟨c1, c3, c4, w, c2, c5⟩ := var_pump s.b n hn ho hsrc
      have hw : newWire s.b (step s.b (.pump n)).1 = w := newWire_of_append _ _ w c2
      show muHalf s.a (step s.b (.pump n)).1 s.toB
          + muHalf (step s.b (.pump n)).1 s.a (s.toA ++ newWire s.b (step s.b (.pump n)).1) < mu s
      rw [hw, half_writer s.b _ s.a s.toA w [] (prefix_len pA) c1 (by simp [c4]), half_reader_same s.a s.b _ s.toB c1 c3]
      unfold mu muHalf
      simp only [R_nil]; omega
    | _ => exact absurd hen (by simp [Enabled])
  | deliverB k =>
    obtain ⟨ho, hne⟩ := hen
    have hcond : (s.b.closed || (s.toB.take k).isEmpty) = false := by
      rw [ho]; cases h : s.toB.take k with
      | nil => exact absurd h hne
      | cons x xs => rfl
    have hstep : sysStep s (.deliverB k) = { s with b := (step s.b (.rx (s.toB.take k))).1, toB := s.toB.drop k, toA := s.toA ++ newWire s.b (step s.b (.rx (s.toB.take k))).1 } := by
      unfold sysStep; simp only [hcond, Bool.false_eq_true, if_false]
    rw [hstep] at pB' pA' ⊢
    obtain ⟨c1, c2, cq, done, new, c3, c4, c5⟩ := var_rx s.a.cfg s.b (s.toB.take k) ho hpb
    have hw : newWire s.b (step s.b (.rx (s.toB.take k))).1 = [] := newWire_of_append _ _ [] (by simp [c2])
    show muHalf s.a (step s.b (.rx (s.toB.take k))).1 (s.toB.drop k)
        + muHalf (step s.b (.rx (s.toB.take k))).1 s.a (s.toA ++ newWire s.b (step s.b (.rx (s.toB.take k))).1) < mu s
    have hd := half_reader_done s.a s.b _ (s.toB.drop k) done c1 c3 pB'
    rw [hw, half_writer s.b _ s.a s.toA [] new (prefix_len pA) c1 c4]
    have hlen : (s.toB.drop k).length + 1 ≤ s.toB.length := by
      have : 1 ≤ (s.toB.take k).length := by
        cases h : s.toB.take k with
        | nil => exact absurd h hne
        | cons x xs => simp
      simp only [List.length_take, List.length_drop] at *; omega
    unfold mu
    unfold muHalf at hd ⊢
    simp only [List.length_nil]; omega
  | deliverA k =>
    obtain ⟨ho, hne⟩ := hen
    have hcond : (s.a.closed || (s.toA.take k).isEmpty) = false := by
      rw [ho]; cases h : s.toA.take k with
      | nil => exact absurd h hne
      | cons x xs => rfl
    have hstep : sysStep s (.deliverA k) = { s with a := (step s.a (.rx (s.toA.take k))).1, toA := s.toA.drop k, toB := s.toB ++ newWire s.a (step s.a (.rx (s.toA.take k))).1 } := by
      unfold sysStep; simp only [hcond, Bool.false_eq_true, if_false]
    rw [hstep] at pB' pA' ⊢
    obtain ⟨c1, c2, cq, done, new, c3, c4, c5⟩ := var_rx s.b.cfg s.a (s.toA.take k) ho hpa
    have hw : newWire s.a (step s.a (.rx (s.toA.take k))).1 = [] := newWire_of_append _ _ [] (by simp [c2])
    show muHalf (step s.a (.rx (s.toA.take k))).1 s.b (s.toB ++ newWire s.a (step s.a (.rx (s.toA.take k))).1)
        + muHalf s.b (step s.a (.rx (s.toA.take k))).1 (s.toA.drop k) < mu s
    have hd := half_reader_done s.b s.a _ (s.toA.drop k) done c1 c3 pA'
    rw [hw, half_writer s.a _ s.b s.toB [] new (prefix_len pB) c1 c4]
    have hlen : (s.toA.drop k).length + 1 ≤ s.toA.length := by
      have : 1 ≤ (s.toA.take k).length := by
        cases h : s.toA.take k with
        | nil => exact absurd h hne
        | cons x xs => simp
      simp only [List.length_take, List.length_drop] at *; omega
    unfold mu
    unfold muHalf at hd ⊢
    simp only [List.length_nil]; omega
  | eofB =>
    obtain ⟨hac, hpipe, ho⟩ := hen
    have hstep : sysStep s .eofB = { s with b := (step s.b .rxEof).1 } := by
      unfold sysStep; simp [hac, hpipe]
    rw [hstep]
    obtain ⟨c1, c2, c3, c4, c5⟩ := var_rxEof s.b ho
    show muHalf s.a (step s.b .rxEof).1 s.toB + muHalf (step s.b .rxEof).1 s.a s.toA < mu s
    rw [half_reader_same s.a s.b _ s.toB c1 c3]
    unfold mu muHalf
    rw [c1, c4]; omega
  | eofA =>
    obtain ⟨hbc, hpipe, ho⟩ := hen
    have hstep : sysStep s .eofA = { s with a := (step s.a .rxEof).1 } := by
      unfold sysStep; simp [hbc, hpipe]
    rw [hstep]
    obtain ⟨c1, c2, c3, c4, c5⟩ := var_rxEof s.a ho
    show muHalf (step s.a .rxEof).1 s.b s.toB + muHalf s.b (step s.a .rxEof).1 s.toA < mu s
    rw [half_reader_same s.b s.a _ s.toA c1 c3]
    unfold mu muHalf
    rw [c1, c4]; omega

/-- a schedule of internal events, each enabled when it happens -/
def EnabledRun : Sys → List SysEv → Prop
  | _, [] => True
  | s, ev :: rest => Enabled s ev ∧ EnabledRun (sysStep s ev) rest

theorem cfg_sysStep (s : Sys) (ev : SysEv) : (sysStep s ev).a.cfg = s.a.cfg ∧ (sysStep s ev).b.cfg = s.b.cfg := by
  unfold sysStep
  cases ev with
  | atA e => simp only []; split <;> simp [cfg_step]
  | atB e => simp only []; split <;> simp [cfg_step]
  | deliverA k => simp only []; split <;> simp [cfg_step]
  | deliverB k => simp only []; split <;> simp [cfg_step]
  | eofA => simp only []; split <;> simp [cfg_step]
  | eofB => simp only []; split <;> simp [cfg_step]

theorem enabled_sendOK (s : Sys) (ev : SysEv) (h : Enabled s ev) : ev.sendOK := by
  cases ev with
  | atA e => cases e <;> first | trivial | exact absurd h (by simp [Enabled])
  | atB e => cases e <;> first | trivial | exact absurd h (by simp [Enabled])
  | _ => trivial

/-- **Bounded progress.** From a state satisfying the system invariant, a run of enabled internal
    events is no longer than the measure of the state it starts from. -/
theorem bounded_run (int : List SysEv) (s : Sys) (hi : SysInv s)
    (hwf : ∀ pre, pre <+: int → SysWF (runSys s pre))
    (hpas : ¬ (s.a.cfg.passive = true ∧ s.b.cfg.passive = true)) (hen : EnabledRun s int) :
    int.length + mu (runSys s int) ≤ mu s := by
  induction int generalizing s with
  | nil => simp [runSys]
  | cons ev rest ih =>
    obtain ⟨h1, h2⟩ := hen
    have h0 : SysWF s := hwf [] List.nil_prefix
    have hwf1 : SysWF (sysStep s ev) := by
      have := hwf [ev] (by simp)
      simpa [runSys] using this
    have hi1 := sysInv_step s ev hi h0 (enabled_sendOK s ev h1)
    have hdec := mu_step s ev hi h0 hi1 hwf1 hpas h1
    obtain ⟨ca, cb⟩ := cfg_sysStep s ev
    have := ih (sysStep s ev) hi1
      (fun pre hpre => by
        have := hwf (ev :: pre) (by simpa using hpre)
        simpa [runSys] using this)
      (by rw [ca, cb]; exact hpas) h2
    have hr : runSys s (ev :: rest) = runSys (sysStep s ev) rest := by simp [runSys]
    rw [hr]
    simp only [List.length_cons]; omega

theorem cfg_runSys (sch : List SysEv) (s : Sys) :
    (runSys s sch).a.cfg = s.a.cfg ∧ (runSys s sch).b.cfg = s.b.cfg := by
  induction sch generalizing s with
  | nil => exact ⟨rfl, rfl⟩
  | cons ev rest ih =>
    have hr : runSys s (ev :: rest) = runSys (sysStep s ev) rest := by simp [runSys]
    rw [hr]
    obtain ⟨h1, h2⟩ := ih (sysStep s ev)
    obtain ⟨c1, c2⟩ := cfg_sysStep s ev
    exact ⟨h1.trans c1, h2.trans c2⟩

theorem cfg_initSys (cfgA cfgB : Cfg) : (initSys cfgA cfgB).a.cfg = cfgA ∧ (initSys cfgA cfgB).b.cfg = cfgB := by
  unfold initSys
  exact ⟨cfg_step _ _, cfg_step _ _⟩

instance (s : Sys) (ev : SysEv) : Decidable (Enabled s ev) := by
  unfold Enabled
  split <;> infer_instance

instance : (s : Sys) → (l : List SysEv) → Decidable (EnabledRun s l)
  | _, [] => isTrue trivial
  | s, ev :: rest =>
    have := instDecidableEnabledRun (sysStep s ev) rest
    by unfold EnabledRun; infer_instance

theorem enabledRun_sendOK (s : Sys) (int : List SysEv) (h : EnabledRun s int) : ∀ ev ∈ int, ev.sendOK := by
  induction int generalizing s with
  | nil => intro ev hev; cases hev
  | cons e rest ih =>
    intro ev hev
    rcases List.mem_cons.mp hev with rfl | h'
    · exact enabled_sendOK s _ h.1
    · exact ih _ h.2 ev h'

/-- one representative of every kind of internal event (for the examples) -/
def cands : List SysEv :=
  [.atA (.pump 10240), .atB (.pump 10240), .deliverB 100, .deliverA 100, .atA .procQueue, .atB .procQueue, .eofA, .eofB]

/-- nothing internal can happen any more -/
def Stuck (s : Sys) : Prop := ∀ ev, ¬ Enabled s ev

end Var
end Tcpcl
end DtnVerif
