/-
  `send_bundle_finished(tid, 'success')` is emitted only on processing a final XFER_ACK for `tid`.
-/
import DtnVerif.Lemmas.TcpclSucc
namespace DtnVerif
namespace Tcpcl

def AckEnd (t : Nat) (ps : List Msg) : Prop := ∃ f l, hasEnd f = true ∧ Msg.xferAck f t l ∈ ps

def SuccInv (e : Ep) : Prop := ∀ t ∈ e.successLog, AckEnd t e.processed

theorem succInv_of_eq {e e' : Ep} (h1 : e'.successLog = e.successLog) (h2 : e'.processed = e.processed)
    (hi : SuccInv e) : SuccInv e' := by
  unfold SuccInv at *; rw [h1, h2]; exact hi

@[simp] theorem succ_onAck_other (e : Ep) (m : Msg) (f t l : Nat) (hm : m = .xferAck f t l)
    (hp : m ∈ e.processed) (hi : SuccInv e) : SuccInv (onAck e m f t l).1 := by
  unfold onAck
  split
  · exact succInv_of_eq (by simp) (by simp) hi
  · split
    · exact succInv_of_eq (by simp) (by simp) hi
    · split
      · split
        · exact succInv_of_eq (by simp) (by simp) hi
        · rename_i hend _
          simp only []
          intro x hx
          simp only [succ_checkSessTerm, proc_checkSessTerm, List.mem_append, List.mem_singleton] at hx ⊢
          rcases hx with hx | hx
          · exact hi x hx
          · subst hx
            exact ⟨f, l, hend, hm ▸ hp⟩
      · exact succInv_of_eq rfl rfl hi

theorem succInv_handleMsg (e : Ep) (m : Msg) (hi : SuccInv e) : SuccInv (handleMsg e m).1 := by
  unfold handleMsg
  simp only []
  have hi' : SuccInv { e with processed := e.processed ++ [m] } := by
    intro t ht
    obtain ⟨f, l, h1, h2⟩ := hi t ht
    exact ⟨f, l, h1, List.mem_append_left _ h2⟩
  cases m with
  | contact f => exact succInv_of_eq (by simp) (by simp) hi'
  | sessInit ka sm xm node ext => exact succInv_of_eq (by simp) (by simp) hi'
  | sessTerm f r => exact succInv_of_eq (by simp) (by simp) hi'
  | keepalive => exact hi'
  | msgReject a b => exact hi'
  | xferSegment f t x d => exact succInv_of_eq (by simp) (by simp) hi'
  | xferAck f t l => exact succ_onAck_other _ _ f t l rfl (by simp) hi'
  | xferRefuse r t => exact succInv_of_eq (by simp) (by simp) hi'

theorem succInv_handleMsgs (ms : List Msg) (e : Ep) (hi : SuccInv e) : SuccInv (handleMsgs e ms).1 := by
  induction ms generalizing e with
  | nil => exact hi
  | cons m ms ih =>
    unfold handleMsgs
    split
    · exact hi
    · exact ih _ (succInv_handleMsg _ m (succInv_of_eq (e := e) rfl rfl hi))

theorem succInv_recvRaw (e : Ep) (c : Bytes) (hi : SuccInv e) : SuccInv (recvRaw e c).1 := by
  unfold recvRaw
  simp only []
  have h1 : SuccInv (handleMsgs (rxEntry e c) (feed e.rx c).2).1 :=
    succInv_handleMsgs _ _ (succInv_of_eq rfl rfl hi)
  split
  · exact succInv_of_eq (by simp) (by simp) h1
  · exact h1

theorem succInv_step (e : Ep) (ev : Ev) (hi : SuccInv e) : SuccInv (step e ev).1 := by
  unfold step
  cases ev with
  | rx c =>
    simp only []
    split
    · exact hi
    · exact succInv_recvRaw e c hi
  | advance ms => exact succInv_of_eq rfl rfl hi
  | start =>
    simp only []
    split
    · exact hi
    · split
      · exact hi
      · refine succInv_of_eq ?_ ?_ hi <;> (simp only [succ_setState, proc_setState]; split <;> simp)
  | send d => simp only []; split <;> first | exact hi | exact succInv_of_eq (by simp) (by simp) hi
  | terminate r => simp only []; split <;> first | exact hi | exact succInv_of_eq (by simp) (by simp) hi
  | close => simp only []; split <;> first | exact hi | exact succInv_of_eq (by simp) (by simp) hi
  | pop t =>
    simp only []
    have h1 : (popRx e t).1.successLog = e.successLog := by unfold popRx; split <;> rfl
    have h2 : (popRx e t).1.processed = e.processed := by unfold popRx; split <;> rfl
    split <;> exact succInv_of_eq h1 h2 hi
  | query q => simp only []; split <;> exact hi
  | procQueue =>
    simp only []
    split
    · exact succInv_of_eq rfl rfl hi
    · split
      · exact hi
      · exact succInv_of_eq (by simp) (by simp) hi
  | pump n => simp only []; split <;> (try split) <;> first | exact hi | exact succInv_of_eq (by simp) (by simp) hi
  | rxEof => simp only []; split <;> first | exact hi | exact succInv_of_eq (by simp) (by simp) hi
  | keepaliveTimer =>
    simp only []
    split
    · exact hi
    · split <;> first | exact hi | exact succInv_of_eq (by simp) (by simp) hi
  | idleTimer =>
    simp only []
    split
    · exact hi
    · split
      · exact hi
      · split <;> exact succInv_of_eq (by simp) (by simp) hi
  | modulate raw =>
    simp only []
    split
    · exact hi
    · split <;> first | exact hi | exact succInv_of_eq rfl rfl hi

theorem succInv_init (cfg : Cfg) : SuccInv { cfg := cfg } := by intro t ht; simp at ht

end Tcpcl
end DtnVerif
