/-
  Every transfer whose final segment was emitted is awaiting its final acknowledgement, or has been
  reported successful, or was refused by the peer.
  (Generated from the pattern of Lemmas/TcpclEmit.lean.)
-/
import DtnVerif.Model.TcpclEp
namespace DtnVerif
namespace Tcpcl

def Refused (t : Nat) (ps : List Msg) : Prop := ∃ r, Msg.xferRefuse r t ∈ ps

/-- a transfer whose final segment was emitted is awaiting its acknowledgement, or was reported
    successful, or was refused by the peer -/
def kOK (pa su : List Nat) (ps : List Msg) : Msg → Prop
  | .xferSegment f t _ _ => hasEnd f = true → t ∈ pa ∨ t ∈ su ∨ Refused t ps
  | _ => True

theorem kOK_mono_proc {pa su : List Nat} {ps : List Msg} (x : List Msg) {m : Msg} (h : kOK pa su ps m) :
    kOK pa su (ps ++ x) m := by
  cases m <;> simp only [kOK] at h ⊢
  intro he
  rcases h he with h | h | ⟨r, h⟩
  · exact Or.inl h
  · exact Or.inr (Or.inl h)
  · exact Or.inr (Or.inr ⟨r, List.mem_append_left _ h⟩)

def KInv (e : Ep) : Prop := ∀ m ∈ e.emitted, kOK e.txPendAck e.successLog e.processed m

structure KView where
  txPendAck : List Nat
  successLog : List Nat
  processed : List Msg
  emitted : List Msg

def Ep.kView (e : Ep) : KView := ⟨e.txPendAck, e.successLog, e.processed, e.emitted⟩

theorem kInv_of_view {e e' : Ep} (h : e'.kView = e.kView) (hi : KInv e) : KInv e' := by
  simp only [Ep.kView, KView.mk.injEq] at h
  obtain ⟨h1, h2, h3, h4⟩ := h
  unfold KInv at *
  rw [h1, h2, h3, h4]; exact hi

@[simp] theorem kv_kaReset (e : Ep) : (kaReset e).kView = e.kView := rfl
@[simp] theorem kv_idleReset (e : Ep) : (idleReset e).kView = e.kView := rfl
@[simp] theorem kv_pqTrigger (e : Ep) : (pqTrigger e).kView = e.kView := by
  unfold pqTrigger; split <;> rfl
@[simp] theorem kv_setState (e : Ep) (s : String) : (setState e s).1.kView = e.kView := by
  unfold setState; split <;> rfl
@[simp] theorem kv_flush (e : Ep) : (flushPendStart e).1.kView = e.kView := rfl
@[simp] theorem kv_doClose (e : Ep) : (doClose e).1.kView = e.kView := by
  unfold doClose; split <;> rfl
@[simp] theorem kv_checkSessTerm (e : Ep) : (checkSessTerm e).1.kView = e.kView := by
  unfold checkSessTerm; split
  · exact kv_doClose e
  · rfl
@[simp] theorem kv_sendBufferDecreased (e : Ep) : (sendBufferDecreased e).kView = e.kView := by
  unfold sendBufferDecreased; split
  · exact kv_pqTrigger e
  · rfl
@[simp] theorem kv_mergeSession (e : Ep) (p : PeerInit) : (mergeSession e p).kView = e.kView := rfl

theorem kInv_sendMessage (e : Ep) (m : Msg) (hi : KInv e) (hm : kOK e.txPendAck e.successLog e.processed m := by trivial) :
    KInv (sendMessage e m) := by
  unfold KInv at *
  intro x hx
  simp only [sendMessage, sendReady, kaReset, idleReset, List.mem_append, List.mem_singleton] at hx
  rcases hx with hx | hx
  · exact hi x hx
  · subst hx; exact hm

theorem kInv_sendContact (e : Ep) (hi : KInv e) : KInv (sendContact e) :=
  kInv_of_view (e := sendMessage e (.contact 0)) rfl (kInv_sendMessage e _ hi)

theorem kInv_sendInit (e : Ep) (hi : KInv e) : KInv (sendInit e) :=
  kInv_of_view (e := sendMessage e (.sessInit e.cfg.keepalive e.cfg.segMru sizeMax e.cfg.nodeId (sessionExt e.cfg)))
    rfl (kInv_sendMessage e _ hi)

theorem kInv_sendReject (e : Ep) (r : Nat) (m : Msg) (hi : KInv e) : KInv (sendReject e r m) :=
  kInv_sendMessage e _ hi

theorem kInv_sendSessTerm (e : Ep) (r : Nat) (b : Bool) (hi : KInv e) :
    KInv (sendSessTerm e r b).1 := by
  unfold sendSessTerm
  split
  · exact hi
  · split
    · exact hi
    · simp only []
      refine kInv_of_view (kv_flush _) (kInv_sendMessage _ _ ?_)
      exact kInv_of_view (by rw [kv_setState]; rfl) hi

theorem hasEnd_noend (b : Bool) : hasEnd (0 + if b then flagStart else 0) = false := by
  cases b <;> decide

theorem kInv_sendSegment (e : Ep) (it : TxItem) (sent : Nat) (hi : KInv e) :
    KInv (sendSegment e it sent).1 := by
  unfold sendSegment
  simp only []
  split
  · exact kInv_of_view rfl hi
  · split
    · -- final segment: the transfer now awaits its acknowledgement
      refine kInv_of_view (kv_pqTrigger _) ?_
      intro m hm
      simp only [sendMessage, sendReady, kaReset, idleReset, List.mem_append, List.mem_singleton] at hm ⊢
      rcases hm with hm | hm
      · have := hi m hm
        cases m <;> simp only [kOK] at this ⊢
        intro he
        rcases this he with h | h
        · exact Or.inl (List.mem_append_left _ h)
        · exact Or.inr h
      · subst hm
        intro _
        exact Or.inl (by simp)
    · rename_i hne
      refine kInv_of_view rfl (kInv_sendMessage e _ hi ?_)
      intro he
      rw [hasEnd_noend] at he
      cases he

theorem kInv_processQueue (e : Ep) (hi : KInv e) : KInv (processQueue e).1 := by
  unfold processQueue
  split
  · exact kInv_sendSegment e _ _ hi
  · split
    · exact hi
    · split
      · exact kInv_of_view (by simp only [kv_checkSessTerm, kv_flush]) hi
      · split
        · exact hi
        · exact kInv_sendSegment _ _ _ (kInv_of_view rfl hi)

theorem kInv_pullTx (e : Ep) (hi : KInv e) : KInv (pullTx e) := by
  unfold pullTx
  split
  · exact kInv_of_view (by rw [kv_sendBufferDecreased]; rfl) hi
  · exact hi

theorem kInv_writeConn (e : Ep) (n : Nat) (up : Bool) (hi : KInv e) : KInv (writeConn e n up).1 := by
  unfold writeConn
  split
  · split
    · exact kInv_of_view (kv_checkSessTerm e) hi
    · exact hi
  · simp only []
    split
    · exact hi
    · split
      · exact kInv_of_view (by rw [kv_checkSessTerm]; rfl) hi
      · exact kInv_of_view rfl hi

theorem kInv_pump (e : Ep) (n : Nat) (hi : KInv e) : KInv (pump e n).1 :=
  kInv_writeConn _ _ _ (kInv_pullTx e hi)

/-! receive handlers -/

theorem kInv_onContact (e : Ep) (hi : KInv e) : KInv (onContact e).1 := by
  unfold onContact
  simp only []
  have h1 : KInv (if e.cfg.passive then sendContact e else e) := by
    split
    · exact kInv_sendContact e hi
    · exact hi
  have h2 : KInv (setState (if e.cfg.passive then sendContact e else e) "session-negotiating").1 :=
    kInv_of_view (kv_setState _ _) h1
  split
  · exact kInv_sendInit _ h2
  · exact h2

theorem kInv_onSessInit (e : Ep) (p : PeerInit) (hi : KInv e) : KInv (onSessInit e p).1 := by
  unfold onSessInit
  simp only []
  have h1 : KInv (if e.cfg.passive then sendInit e else e) := by
    split
    · exact kInv_sendInit e hi
    · exact hi
  refine kInv_of_view ?_ h1
  rw [kv_setState, kv_mergeSession]; rfl

theorem kInv_onSessTerm (e : Ep) (m : Msg) (r : Nat) (hi : KInv e) : KInv (onSessTerm e m r).1 := by
  unfold onSessTerm
  split
  · exact kInv_sendReject e _ _ hi
  · simp only []
    refine kInv_of_view (by rw [kv_checkSessTerm, kv_flush]) (e := { (if !e.inTerm then sendSessTerm e r true else (e, [])).1 with gotTerm := true }) ?_
    refine kInv_of_view (e := (if !e.inTerm then sendSessTerm e r true else (e, [])).1) rfl ?_
    split
    · exact kInv_sendSessTerm e r true hi
    · exact hi

theorem kInv_segAccept (e : Ep) (flags tid : Nat) (cur data : Bytes) (o1 : List Out) (hi : KInv e) :
    KInv (segAccept e flags tid cur data o1).1 := by
  unfold segAccept
  simp only []
  split
  · exact kInv_of_view (by rw [kv_checkSessTerm]; rfl) (kInv_sendMessage e _ hi)
  · exact kInv_sendMessage _ _ (kInv_of_view rfl hi)

theorem kInv_onSegment (e : Ep) (m : Msg) (flags tid : Nat) (data : Bytes) (hi : KInv e) :
    KInv (onSegment e m flags tid data).1 := by
  unfold onSegment
  split
  · exact kInv_sendReject e _ _ hi
  · split
    · exact kInv_segAccept _ _ _ _ _ _ (kInv_of_view rfl hi)
    · split
      · split
        · exact kInv_segAccept _ _ _ _ _ _ hi
        · exact kInv_sendReject e _ _ hi
      · exact kInv_sendReject e _ _ hi

theorem kInv_onAck (e : Ep) (m : Msg) (f t l : Nat) (hi : KInv e) : KInv (onAck e m f t l).1 := by
  unfold onAck
  split
  · exact kInv_sendReject e _ _ hi
  · split
    · exact kInv_sendReject e _ _ hi
    · split
      · split
        · exact kInv_sendReject e _ _ hi
        · refine kInv_of_view (e := { e with txPendAck := e.txPendAck.erase t, successLog := e.successLog ++ [t] })
            (by rw [kv_checkSessTerm]; rfl) ?_
          intro x hx
          have := hi x hx
          cases x <;> simp only [kOK] at this ⊢
          rename_i f' t' _ _
          intro he
          rcases this he with h | h | h
          · by_cases htt : t' = t
            · exact Or.inr (Or.inl (by simp [htt]))
            · exact Or.inl ((List.mem_erase_of_ne htt).mpr h)
          · exact Or.inr (Or.inl (List.mem_append_left _ h))
          · exact Or.inr (Or.inr h)
      · exact kInv_of_view rfl hi

theorem kInv_onRefuse (e : Ep) (m : Msg) (r t : Nat) (hm : Msg.xferRefuse r t ∈ e.processed) (hi : KInv e) :
    KInv (onRefuse e m r t).1 := by
  unfold onRefuse
  split
  · exact kInv_sendReject e _ _ hi
  · split
    · exact kInv_sendReject e _ _ hi
    · have h1 : KInv { e with txMap := e.txMap.erase t, txPendAck := e.txPendAck.erase t,
                              txPendStart := e.txPendStart.filter (·.tid != t) } := by
        intro x hx
        have := hi x hx
        cases x <;> simp only [kOK] at this ⊢
        rename_i f' t' _ _
        intro he
        rcases this he with h | h | h
        · by_cases htt : t' = t
          · exact Or.inr (Or.inr ⟨r, htt ▸ hm⟩)
          · exact Or.inl ((List.mem_erase_of_ne htt).mpr h)
        · exact Or.inr (Or.inl h)
        · exact Or.inr (Or.inr h)
      refine kInv_of_view ?_ h1
      simp only [kv_checkSessTerm]
      split
      · split
        · rw [kv_pqTrigger]; rfl
        · rfl
      · rfl

theorem kInv_handleMsg (e : Ep) (m : Msg) (hi : KInv e) : KInv (handleMsg e m).1 := by
  have h0 : KInv { e with processed := e.processed ++ [m] } := by
    intro x hx; exact kOK_mono_proc _ (hi x hx)
  unfold handleMsg
  cases m with
  | contact f => exact kInv_onContact _ h0
  | sessInit ka sm xm node ext => exact kInv_onSessInit _ _ h0
  | sessTerm f r => exact kInv_onSessTerm _ _ _ h0
  | keepalive => exact h0
  | msgReject a b => exact h0
  | xferSegment flags tid ext data => exact kInv_onSegment _ _ _ _ _ h0
  | xferAck f t l => exact kInv_onAck _ _ _ _ _ h0
  | xferRefuse r t => exact kInv_onRefuse _ _ _ _ (by simp) h0

theorem kInv_handleMsgs (ms : List Msg) (e : Ep) (hi : KInv e) : KInv (handleMsgs e ms).1 := by
  induction ms generalizing e with
  | nil => exact hi
  | cons m ms ih =>
    unfold handleMsgs
    split
    · exact hi
    · exact ih _ (kInv_handleMsg _ m (kInv_of_view (e := e) rfl hi))

theorem kInv_recvRaw (e : Ep) (c : Bytes) (hi : KInv e) : KInv (recvRaw e c).1 := by
  unfold recvRaw
  simp only []
  have h0 : KInv (rxEntry e c) := kInv_of_view rfl hi
  have h1 := kInv_handleMsgs (feed e.rx c).2 _ h0
  split
  · exact kInv_of_view (kv_doClose _) h1
  · exact h1

theorem kInv_step (e : Ep) (ev : Ev) (hi : KInv e) : KInv (step e ev).1 := by
  unfold step
  cases ev with
  | advance ms => exact kInv_of_view rfl hi
  | start =>
    simp only []
    split
    · exact hi
    · split
      · exact hi
      · refine kInv_of_view (kv_setState _ _) ?_
        split
        · exact kInv_sendContact _ (kInv_of_view rfl hi)
        · exact kInv_of_view rfl hi
  | send d =>
    simp only []
    split
    · exact hi
    · exact kInv_of_view (by rw [kv_pqTrigger]; rfl) hi
  | terminate r =>
    simp only []
    split
    · exact hi
    · exact kInv_sendSessTerm _ _ _ hi
  | close =>
    simp only []
    split
    · exact hi
    · exact kInv_of_view (kv_doClose _) hi
  | pop t =>
    simp only []
    have : KInv (popRx e t).1 := by
      refine kInv_of_view ?_ hi
      unfold popRx; split <;> rfl
    split <;> exact this
  | query q => simp only []; split <;> exact hi
  | procQueue =>
    simp only []
    split
    · exact kInv_of_view rfl hi
    · split
      · exact hi
      · exact kInv_of_view rfl (kInv_processQueue _ (kInv_of_view (e := e) rfl hi))
  | pump n =>
    simp only []
    split
    · exact hi
    · split
      · exact hi
      · exact kInv_of_view rfl (kInv_pump _ _ (kInv_of_view (e := e) rfl hi))
  | rx c =>
    simp only []
    split
    · exact hi
    · exact kInv_recvRaw e c hi
  | rxEof =>
    simp only []
    split
    · exact hi
    · exact kInv_of_view (kv_doClose _) hi
  | keepaliveTimer =>
    simp only []
    split
    · exact hi
    · split
      · exact hi
      · exact kInv_sendMessage _ _ (kInv_of_view rfl hi)
  | idleTimer =>
    simp only []
    split
    · exact hi
    · split
      · exact hi
      · split
        · exact kInv_of_view (by rw [kv_doClose]; rfl) hi
        · exact kInv_sendSessTerm _ _ _ (kInv_of_view rfl hi)
  | modulate raw =>
    simp only []
    split
    · exact hi
    · split
      · exact kInv_of_view rfl hi
      · exact hi

theorem kInv_init (cfg : Cfg) : KInv { cfg := cfg } := by
  intro m hm; simp at hm

theorem kInv_run (evs : List Ev) (e : Ep) (hi : KInv e) : KInv (runEp e evs) := by
  induction evs generalizing e with
  | nil => exact hi
  | cons ev evs ih =>
    simp only [runEp, run]
    exact ih _ (kInv_step e ev hi)

end Tcpcl
end DtnVerif
