/-
  Helper lemmas about the BP agent model (Model/BpAgent.lean), shared by Props/C10, C11, C19.
-/
import DtnVerif.Model.BpAgent
namespace DtnVerif
namespace Agent
open Bp

theorem rxChain_eq : rxChain = [.adminRoute, .static, .reasm, .bcb, .bib, .adminHandle] := by decide

/-- A bundle is *accepted* when it passes the CRC gate, is not sourced by this node and its
    identity has not been seen. -/
def accepted (cfg : Cfg) (st : St) (rx : RxBundle) : Prop :=
  rx.crcOk = true ∧ rx.primary.src ≠ cfg.nodeId ∧ identOf rx.primary rx.blocks ∉ st.seen

theorem recv_accepted (cfg : Cfg) (st : St) (now : Nat) (rx : RxBundle) (h : accepted cfg st rx) :
    recvBundle cfg st now rx =
      dispose { st with seen := identOf rx.primary rx.blocks :: st.seen }
        (runChain cfg rx now rxChain
          (({ primary := rx.primary, rptNone := rx.rptNone, blocks := rx.blocks } : Ctr).record .receive now)) := by
  obtain ⟨h1, h2, h3⟩ := h
  simp [recvBundle, h1, h2, h3]

/-- The container after the receive chain, for a bundle that is not addressed to the node's
    administrative endpoint: the static step alone decides. -/
theorem chain_static (cfg : Cfg) (rx : RxBundle) (now : Nat) (c : Ctr)
    (hd : c.primary.dest ≠ cfg.nodeId) (hdel : hasAct c.actions .deliver = false) :
    runChain cfg rx now rxChain c =
      match firstMatch cfg.rxRoutes rx.routeBits with
      | none => c
      | some a =>
        runChain cfg rx now [.reasm, .bcb, .bib, .adminHandle] (c.record a now) := by
  rw [rxChain_eq]
  cases hm : firstMatch cfg.rxRoutes rx.routeBits <;>
    simp [runChain, runStep, hd, hdel, hm, secStep]



/-- the report effect `_finish_bundle` schedules, if any -/
def finishEff (c : Ctr) : List Effect :=
  match reportFor c with
  | some rep => [.report (c.ident) rep (replyCtr c.primary.rpt rep)]
  | none => []

theorem finish_eff (st : St) (c : Ctr) : (finish st c).2 = finishEff c := by
  unfold finish finishEff; cases reportFor c <;> rfl

theorem finish_seen (st : St) (c : Ctr) : (finish st c).1.seen = st.seen := by
  unfold finish; cases reportFor c <;> rfl

theorem dispose_eff (st : St) (c : Ctr) :
    (dispose st c).2 =
      if hasAct c.actions .delete then finishEff c
      else (if hasAct c.actions .deliver then .delivered (c.ident) :: finishEff c else [])
           ++ (if hasAct c.actions .forward then [.queued (c.ident)] else []) := by
  unfold dispose
  cases h1 : hasAct c.actions .delete <;> cases h2 : hasAct c.actions .deliver <;>
    cases h3 : hasAct c.actions .forward <;> simp [finish_eff]

theorem dispose_seen (st : St) (c : Ctr) : (dispose st c).1.seen = st.seen := by
  unfold dispose
  cases h1 : hasAct c.actions .delete <;> cases h2 : hasAct c.actions .deliver <;>
    cases h3 : hasAct c.actions .forward <;> simp [finish_seen]

/-- `x` is a delivery or a forwarding acceptance attributed to identity `id`. -/
def isDQ (id : Ident) (x : Effect) : Prop := x = .delivered id ∨ x = .queued id

theorem finishEff_count (c : Ctr) (id : Ident) (x : Effect) (hx : isDQ id x) :
    (finishEff c).count x = 0 := by
  unfold finishEff
  rcases hx with rfl | rfl <;> cases reportFor c <;> simp

/-- Repeats are ignored: a bundle whose identity has been seen causes no effect and no state
    change. -/
theorem recv_repeat (cfg : Cfg) (st : St) (now : Nat) (rx : RxBundle)
    (h : identOf rx.primary rx.blocks ∈ st.seen) : recvBundle cfg st now rx = (st, []) := by
  unfold recvBundle
  split
  · rfl
  · split
    · rfl
    · simp [h]

/-- Bundles sourced by this node are ignored: no effect, no state change. -/
theorem recv_own_source (cfg : Cfg) (st : St) (now : Nat) (rx : RxBundle)
    (h : rx.primary.src = cfg.nodeId) : recvBundle cfg st now rx = (st, []) := by
  unfold recvBundle
  split
  · rfl
  · simp [h]

/-- Bundles failing the CRC gate are ignored and leave no trace (not even in the seen set). -/
theorem recv_bad_crc (cfg : Cfg) (st : St) (now : Nat) (rx : RxBundle)
    (h : rx.crcOk = false) : recvBundle cfg st now rx = (st, []) := by
  simp [recvBundle, h]

theorem chain_primary (cfg : Cfg) (rx : RxBundle) (now : Nat) (ks : List StepKind) (c : Ctr) :
    (runChain cfg rx now ks c).primary = c.primary := by
  induction ks generalizing c with
  | nil => rfl
  | cons k ks ih =>
    have hstep : (runStep cfg rx now k c).1.primary = c.primary := by
      cases k <;> simp only [runStep, secStep] <;> (repeat' split) <;> simp [Ctr.record]
    simp only [runChain]
    split
    · exact hstep
    · rw [ih, hstep]

theorem chain_blocks (cfg : Cfg) (rx : RxBundle) (now : Nat) (ks : List StepKind) (c : Ctr) :
    (runChain cfg rx now ks c).blocks = c.blocks := by
  induction ks generalizing c with
  | nil => rfl
  | cons k ks ih =>
    have hstep : (runStep cfg rx now k c).1.blocks = c.blocks := by
      cases k <;> simp only [runStep, secStep] <;> (repeat' split) <;> simp [Ctr.record]
    simp only [runChain]
    split
    · exact hstep
    · rw [ih, hstep]

theorem recv_cases (cfg : Cfg) (st : St) (now : Nat) (rx : RxBundle) :
    recvBundle cfg st now rx = (st, []) ∨
    (identOf rx.primary rx.blocks ∉ st.seen ∧ ∃ c : Ctr, c.ident = identOf rx.primary rx.blocks ∧
      c.blocks = rx.blocks ∧ recvBundle cfg st now rx = dispose { st with seen := identOf rx.primary rx.blocks :: st.seen } c) := by
  by_cases h1 : rx.crcOk = true
  · by_cases h2 : rx.primary.src = cfg.nodeId
    · exact Or.inl (recv_own_source cfg st now rx h2)
    · by_cases h3 : identOf rx.primary rx.blocks ∈ st.seen
      · exact Or.inl (recv_repeat cfg st now rx h3)
      · refine Or.inr ⟨h3, _, ?_, ?_, recv_accepted cfg st now rx ⟨h1, h2, h3⟩⟩
        · simp only [Ctr.ident, chain_primary, chain_blocks]; rfl
        · simp only [chain_blocks]; rfl
  · exact Or.inl (recv_bad_crc cfg st now rx (by simpa using h1))

theorem timestamp_seen (st : St) (now : Nat) : (timestamp st now).1.seen = st.seen := by
  unfold timestamp; split <;> rfl

theorem applyPrimary_seen (cfg : Cfg) (st : St) (now : Nat) (c : Ctr) :
    (applyPrimary cfg st now c).1.seen = st.seen := by
  simp only [applyPrimary, apTs]
  split <;> simp [timestamp_seen]

theorem sendAsIs_seen (cfg : Cfg) (st : St) (now : Nat) (sp : SendParams) (c : Ctr) :
    (sendAsIs cfg st now sp c).1.seen = st.seen := rfl

theorem sendAsIs_fwdQ (cfg : Cfg) (st : St) (now : Nat) (sp : SendParams) (c : Ctr) :
    (sendAsIs cfg st now sp c).1.fwdQ = st.fwdQ := rfl

theorem sendAsIs_ctr (cfg : Cfg) (st : St) (now : Nat) (sp : SendParams) (c : Ctr) :
    (sendAsIs cfg st now sp c).2.1 = c := rfl

theorem sendBundle_seen (cfg : Cfg) (st : St) (now : Nat) (sp : SendParams) (c : Ctr) :
    (sendBundle cfg st now sp c).1.seen = st.seen := by
  simp [sendBundle, applyPrimary_seen]

theorem fwdEdit_seen (cfg : Cfg) (st : St) (now : Nat) (c : Ctr) :
    (fwdEdit cfg st now c).1.seen = st.seen := by
  simp only [fwdEdit]
  (repeat' split) <;> simp [timestamp_seen]

/-- effects that are neither deliveries nor forwarding acceptances -/
def plain (e : Effect) : Prop := (∀ i, e ≠ .delivered i) ∧ (∀ i, e ≠ .queued i)

theorem count_plain (l : List Effect) (h : ∀ e ∈ l, plain e) (id : Ident) (x : Effect) (hx : isDQ id x) :
    l.count x = 0 := by
  rw [List.count_eq_zero]
  intro hm
  have := h x hm
  rcases hx with rfl | rfl
  · exact this.1 id rfl
  · exact this.2 id rfl

theorem finishEff_plain (c : Ctr) : ∀ e ∈ finishEff c, plain e := by
  unfold finishEff
  cases reportFor c <;> simp [plain]

theorem fwdFail_plain (st : St) (c : Ctr) (now : Nat) (extra : List Effect)
    (hx : ∀ e ∈ extra, plain e) :
    (∀ e ∈ (fwdFail st c now extra).2, plain e) ∧ (fwdFail st c now extra).1.seen = st.seen := by
  simp only [fwdFail, finish_eff, finish_seen, List.mem_append]
  refine ⟨?_, trivial⟩
  rintro e (h | h)
  · exact hx e h
  · exact finishEff_plain _ e h

theorem doFwd_plain (cfg : Cfg) (st : St) (now : Nat) (sp : SendParams) :
    (∀ e ∈ (doFwd cfg st now sp).2, plain e) ∧ (doFwd cfg st now sp).1.seen = st.seen := by
  unfold doFwd
  split
  · simp
  · rename_i c0 q hq
    simp only []
    split
    · have := fwdFail_plain (fwdEdit cfg { st with fwdQ := q } now c0).1
        (fwdEdit cfg { st with fwdQ := q } now c0).2.1 now [] (by simp)
      simpa [fwdEdit_seen] using this
    · split
      · simp only [finish_eff, finish_seen, sendAsIs_seen, fwdEdit_seen, List.mem_cons]
        refine ⟨?_, trivial⟩
        rintro e (h | h)
        · subst h; simp [plain]
        · exact finishEff_plain _ e h
      · simp only [finish_eff, finish_seen, sendAsIs_seen, fwdEdit_seen, List.mem_cons]
        refine ⟨?_, trivial⟩
        rintro e (h | h)
        · subst h; simp [plain]
        · exact finishEff_plain _ e h
      · have := fwdFail_plain (sendAsIs cfg (fwdEdit cfg { st with fwdQ := q } now c0).1 now sp
            (fwdEdit cfg { st with fwdQ := q } now c0).2.1).1
          (sendAsIs cfg (fwdEdit cfg { st with fwdQ := q } now c0).1 now sp
            (fwdEdit cfg { st with fwdQ := q } now c0).2.1).2.1 now [] (by simp)
        simpa [sendAsIs_seen, fwdEdit_seen] using this

theorem sendReport_plain (cfg : Cfg) (st : St) (now : Nat) (sp : SendParams) :
    (∀ e ∈ (sendReport cfg st now sp).2, plain e) ∧ (sendReport cfg st now sp).1.seen = st.seen := by
  unfold sendReport
  split
  · simp
  · rename_i r q hq
    simp only []
    split <;> simp [plain, sendBundle_seen]

/-- Per-event facts about deliveries / forwarding acceptances attributed to `id`. -/
theorem step_dq (cfg : Cfg) (st : St) (e : Ev) (id : Ident) (x : Effect) (hx : isDQ id x) :
    (id ∈ st.seen → id ∈ (step cfg st e).1.seen)
    ∧ (step cfg st e).2.count x ≤ 1
    ∧ (id ∈ st.seen → (step cfg st e).2.count x = 0)
    ∧ (0 < (step cfg st e).2.count x → id ∈ (step cfg st e).1.seen) := by
  cases e with
  | recv now rx =>
    simp only [step, clRecv]
    split
    · rcases hx with rfl | rfl <;> simp
    · rcases recv_cases cfg st now rx with h | ⟨hns, c, hc, _, h⟩
      · rw [h]; simp
      · rw [h, dispose_eff, dispose_seen, hc]
        have hf := finishEff_count c id x hx
        by_cases hid : id = identOf rx.primary rx.blocks
        · subst hid
          refine ⟨fun _ => by simp, ?_, fun h => absurd h hns, fun _ => by simp⟩
          rcases hx with rfl | rfl <;> (repeat' split) <;> simp [hf]
        · have h0 : (if hasAct c.actions .delete then finishEff c
              else (if hasAct c.actions .deliver then Effect.delivered (identOf rx.primary rx.blocks) :: finishEff c else [])
                ++ (if hasAct c.actions .forward then [Effect.queued (identOf rx.primary rx.blocks)] else [])).count x = 0 := by
            rcases hx with rfl | rfl <;> (repeat' split) <;>
              simp [hf, Ne.symm hid]
          rw [h0]
          exact ⟨fun h => by simp [h], by omega, fun _ => rfl, fun h => by omega⟩
  | fwd now sp =>
    obtain ⟨h1, h2⟩ := doFwd_plain cfg st now sp
    simp only [step]
    rw [count_plain _ h1 id x hx, h2]
    exact ⟨fun h => h, by omega, fun _ => rfl, fun h => by omega⟩
  | sendRpt now sp =>
    obtain ⟨h1, h2⟩ := sendReport_plain cfg st now sp
    simp only [step]
    rw [count_plain _ h1 id x hx, h2]
    exact ⟨fun h => h, by omega, fun _ => rfl, fun h => by omega⟩

def isTx : Effect → Bool | .tx _ => true | _ => false
def isReport : Effect → Bool | .report _ _ _ => true | _ => false
@[simp] theorem isReport_delivered (i : Ident) : isReport (.delivered i) = false := rfl
@[simp] theorem isReport_queued (i : Ident) : isReport (.queued i) = false := rfl
@[simp] theorem isReport_report (i : Ident) (p : StatusReport) (r : Ctr) : isReport (.report i p r) = true := rfl
@[simp] theorem isReport_tx (d : Bytes) : isReport (.tx d) = false := rfl
@[simp] theorem isReport_fragmented : isReport .fragmented = false := rfl
@[simp] theorem isTx_report (i : Ident) (p : StatusReport) (r : Ctr) : isTx (.report i p r) = false := rfl
@[simp] theorem isTx_tx (d : Bytes) : isTx (.tx d) = true := rfl
@[simp] theorem isTx_fragmented : isTx .fragmented = false := rfl

theorem run_dq (cfg : Cfg) (evs : List Ev) (st : St) (id : Ident) (x : Effect) (hx : isDQ id x) :
    (run cfg st evs).2.count x ≤ 1 ∧ (id ∈ st.seen → (run cfg st evs).2.count x = 0) := by
  induction evs generalizing st with
  | nil => simp [run]
  | cons e es ih =>
    obtain ⟨h1, h2, h3, h4⟩ := step_dq cfg st e id x hx
    obtain ⟨i1, i2⟩ := ih (step cfg st e).1
    simp only [run, List.count_append]
    constructor
    · by_cases hpos : 0 < (step cfg st e).2.count x
      · have := i2 (h4 hpos); omega
      · omega
    · intro hs
      have := h3 hs
      have := i2 (h1 hs)
      omega

theorem finishEff_tx (c : Ctr) : (finishEff c).filter isTx = [] := by
  unfold finishEff; cases reportFor c <;> simp

theorem finishEff_report (c : Ctr) : ((finishEff c).filter isReport).length ≤ 1 := by
  refine Nat.le_trans (List.length_filter_le _ _) ?_
  unfold finishEff; cases reportFor c <;> simp

theorem finishEff_ident (c : Ctr) (i : Ident) (p : StatusReport) (r : Ctr) (h : Effect.report i p r ∈ finishEff c) :
    i = c.ident := by
  unfold finishEff at h
  cases hc : reportFor c <;> simp_all

theorem finish_fwdQ (st : St) (c : Ctr) : (finish st c).1.fwdQ = st.fwdQ := by
  unfold finish; cases reportFor c <;> rfl

theorem timestamp_fwdQ (st : St) (now : Nat) : (timestamp st now).1.fwdQ = st.fwdQ := by
  unfold timestamp; split <;> rfl

theorem sendBundle_fwdQ (cfg : Cfg) (st : St) (now : Nat) (sp : SendParams) (c : Ctr) :
    (sendBundle cfg st now sp c).1.fwdQ = st.fwdQ := by
  simp only [sendBundle, applyPrimary, apTs]
  split <;> simp [timestamp_fwdQ]

theorem fwdEdit_fwdQ (cfg : Cfg) (st : St) (now : Nat) (c : Ctr) :
    (fwdEdit cfg st now c).1.fwdQ = st.fwdQ := by
  simp only [fwdEdit]
  (repeat' split) <;> simp [timestamp_fwdQ]



/-! ### containers through the forwarding path -/

theorem finishEff_mem (c : Ctr) (e : Effect) (h : e ∈ finishEff c) :
    ∃ rep, reportFor c = some rep ∧ e = .report (c.ident) rep (replyCtr c.primary.rpt rep) := by
  unfold finishEff at h
  cases hr : reportFor c with
  | none => simp [hr] at h
  | some rep => exact ⟨rep, rfl, by simpa [hr] using h⟩

/-- everything of a container except its block list and block-number counter -/
def sameMeta (c c' : Ctr) : Prop :=
  c'.actions = c.actions ∧ c'.primary = c.primary ∧ c'.reason = c.reason
  ∧ c'.rptNone = c.rptNone ∧ c'.srcNone = c.srcNone

theorem sameMeta_refl (c : Ctr) : sameMeta c c := ⟨rfl, rfl, rfl, rfl, rfl⟩

theorem sameMeta_trans {a b c : Ctr} (h1 : sameMeta a b) (h2 : sameMeta b c) : sameMeta a c := by
  obtain ⟨a1, a2, a3, a4, a5⟩ := h1
  obtain ⟨b1, b2, b3, b4, b5⟩ := h2
  exact ⟨b1.trans a1, b2.trans a2, b3.trans a3, b4.trans a4, b5.trans a5⟩

theorem removeNums_meta (c : Ctr) (ns : List Nat) : sameMeta c (c.removeNums ns) := by
  induction ns generalizing c with
  | nil => exact sameMeta_refl c
  | cons n ns ih =>
    exact sameMeta_trans (b := c.removeNum n) ⟨rfl, rfl, rfl, rfl, rfl⟩ (ih _)

theorem addBlock_meta (c : Ctr) (t : Nat) (d : Bytes) (r : Ctr × Nat)
    (h : c.addBlock t d = some r) : sameMeta c r.1 := by
  unfold Ctr.addBlock at h
  simp only [] at h
  split at h <;> simp at h
  subst h
  exact ⟨rfl, rfl, rfl, rfl, rfl⟩

theorem fwdEdit_meta (cfg : Cfg) (st : St) (now : Nat) (c : Ctr) :
    sameMeta c (fwdEdit cfg st now c).2.1 := by
  simp only [fwdEdit]
  have h1 := removeNums_meta c (c.typeNums typePrevNode)
  split
  · exact h1
  · rename_i r hr
    have h2 := addBlock_meta _ _ _ _ hr
    have h3 : sameMeta r.1 { r.1 with blocks := r.1.blocks.map bumpHop } := ⟨rfl, rfl, rfl, rfl, rfl⟩
    have h4 := removeNums_meta { r.1 with blocks := r.1.blocks.map bumpHop }
      (({ r.1 with blocks := r.1.blocks.map bumpHop } : Ctr).typeNums typeAge)
    have h14 := sameMeta_trans (sameMeta_trans (sameMeta_trans h1 h2) h3) h4
    split
    · exact h14
    · split
      · exact h14
      · rename_i r2 hr2
        exact sameMeta_trans h14 (addBlock_meta _ _ _ _ hr2)

theorem applyPrimary_actions (cfg : Cfg) (st : St) (now : Nat) (c : Ctr) :
    (applyPrimary cfg st now c).2.actions = c.actions ∧ (applyPrimary cfg st now c).2.reason = c.reason := by
  simp only [applyPrimary, apLife, apTs, apRpt, apSrc]
  (repeat' split) <;> simp


/-! ### status reports -/

/-- the action `a` has a request flag and the bundle sets it -/
def requested (c : Ctr) (a : Action) : Prop :=
  ∃ f, actionFlag a = some f ∧ hasFlag c.primary.flags f = true


theorem hasAct_iff (a : Actions) (x : Action) : hasAct a x = true ↔ ∃ t, (x, t) ∈ a := by
  simp only [hasAct, List.any_eq_true, beq_iff_eq]
  constructor
  · rintro ⟨⟨y, t⟩, hm, rfl⟩; exact ⟨t, hm⟩
  · rintro ⟨t, hm⟩; exact ⟨(x, t), hm, rfl⟩


theorem anyStatus_iff (c : Ctr) :
    anyStatus c = true ↔ ∃ a, hasAct c.actions a = true ∧ requested c a := by
  simp only [anyStatus, List.any_eq_true, requested]
  constructor
  · rintro ⟨⟨a, t⟩, hm, h⟩
    refine ⟨a, (hasAct_iff _ _).2 ⟨t, hm⟩, ?_⟩
    cases hf : actionFlag a with
    | none => simp [hf] at h
    | some f => exact ⟨f, rfl, by simpa [hf] using h⟩
  · rintro ⟨a, ha, f, hf, hh⟩
    obtain ⟨t, hm⟩ := (hasAct_iff _ _).1 ha
    exact ⟨(a, t), hm, by simp [hf, hh]⟩


theorem actTime_some (a : Actions) (x : Action) (t : Nat) (h : actTime a x = some t) :
    (x, t) ∈ a := by
  unfold actTime at h
  cases hf : a.find? (fun p => p.1 == x) with
  | none => simp [hf] at h
  | some p =>
    have hp := List.find?_some hf
    have hm := List.mem_of_find?_eq_some hf
    simp [hf] at h
    have : p = (x, t) := by
      cases p; simp_all
    exact this ▸ hm


theorem actTime_none (a : Actions) (x : Action) (h : actTime a x = none) : hasAct a x = false := by
  unfold actTime at h
  simp only [Option.map_eq_none_iff, List.find?_eq_none] at h
  cases hh : hasAct a x with
  | false => rfl
  | true =>
    obtain ⟨t, hm⟩ := (hasAct_iff _ _).1 hh
    exact absurd (by simp) (h (x, t) hm)


theorem reportFor_some (c : Ctr) (rep : StatusReport) (h : reportFor c = some rep) :
    rep = reportOf c := by
  unfold reportFor at h
  (repeat' split at h) <;> simp_all


theorem statusFor_delete_no (c : Ctr) (h : hasAct c.actions .delete = false) :
    statusFor c .delete = .no := by
  have hn : actTime c.actions .delete = none := by
    cases ht : actTime c.actions .delete with
    | none => rfl
    | some t =>
      have := (hasAct_iff _ _).2 ⟨t, actTime_some _ _ _ ht⟩
      simp [h] at this
  simp [statusFor, hn]


theorem statusFor_absent (c : Ctr) (a : Action) (h : hasAct c.actions a = false) :
    statusFor c a = .no := by
  have hn : actTime c.actions a = none := by
    cases ht : actTime c.actions a with
    | none => rfl
    | some t =>
      have := (hasAct_iff _ _).2 ⟨t, actTime_some _ _ _ ht⟩
      simp [h] at this
  simp [statusFor, hn]

theorem hasAct_delAct (a : Actions) (x : Action) : hasAct (delAct a x) x = false := by
  simp [hasAct, delAct]

theorem hasAct_record_ne (a : Actions) (x y : Action) (t : Nat) (hne : x ≠ y) :
    hasAct (recordAct a x t) y = hasAct a y := by
  unfold recordAct
  split
  · simp only [hasAct, List.any_map]
    congr 1
    funext p
    by_cases hp : p.1 = x
    · simp [hp]
    · simp [hp]
  · simp [hasAct, hne]



/-! ### security failure in the receive chain -/

theorem hasAct_record_self (a : Actions) (x : Action) (t : Nat) : hasAct (recordAct a x t) x = true := by
  rw [hasAct_iff]
  unfold recordAct
  split
  · rename_i h
    obtain ⟨t0, hm⟩ := (hasAct_iff _ _).1 h
    exact ⟨t, List.mem_map.2 ⟨(x, t0), hm, by simp⟩⟩
  · exact ⟨t, by simp⟩

/-- what a failed security step leaves: 'deliver' taken back, 'delete' recorded -/
theorem secStep_fail (c : Ctr) (now r : Nat) (h : hasAct c.actions .deliver = true) :
    hasAct (secStep c now (.fail r)).1.actions .deliver = false
    ∧ hasAct (secStep c now (.fail r)).1.actions .delete = true
    ∧ (secStep c now (.fail r)).2 = true := by
  have e : secStep c now (.fail r) =
      (({ c with actions := delAct c.actions .deliver }).record .delete now (some r), true) := by
    simp [secStep, h]
  rw [e]
  refine ⟨?_, ?_, rfl⟩
  · simp only [Ctr.record]
    rw [hasAct_record_ne _ _ _ _ (by decide)]; exact hasAct_delAct _ _
  · simp only [Ctr.record]; exact hasAct_record_self _ _ _

/-- The receive chain on a whole bundle whose BCB step fails ends in a container without
    'deliver'. -/
theorem chain_bcb_fail (cfg : Cfg) (rx : RxBundle) (now r : Nat) (c0 : Ctr)
    (hp0 : c0.primary = rx.primary) (hf : isFragment rx.primary.flags = false) (hb : rx.bcb = .fail r) :
    ∃ c, runChain cfg rx now [.adminRoute, .static, .reasm, .bcb, .bib, .adminHandle] c0 = c
      ∧ hasAct c.actions .deliver = false := by
  have hs1 : (runStep cfg rx now .adminRoute c0).2 = false := by
    simp only [runStep]; split <;> rfl
  have hp1 : (runStep cfg rx now .adminRoute c0).1.primary = rx.primary := by
    rw [← hp0]; simp only [runStep]; split <;> simp [Ctr.record]
  have hs2 : ∀ c1, (runStep cfg rx now .static c1).2 = false := by
    intro c1; simp only [runStep]; (repeat' split) <;> rfl
  have hp2 : ∀ c1, (runStep cfg rx now .static c1).1.primary = c1.primary := by
    intro c1; simp only [runStep]; (repeat' split) <;> simp [Ctr.record]
  have hre : ∀ c2 : Ctr, c2.primary = rx.primary → runStep cfg rx now .reasm c2 = (c2, false) := by
    intro c2 h2; simp [runStep, h2, hf]
  have key : ∀ c2 : Ctr, c2.primary = rx.primary →
      ∃ c, runChain cfg rx now [.reasm, .bcb, .bib, .adminHandle] c2 = c ∧ hasAct c.actions .deliver = false := by
    intro c2 h2
    cases hdl : hasAct c2.actions .deliver
    · have h4 : runStep cfg rx now .bcb c2 = (c2, false) := by simp [runStep, secStep, hdl]
      have h5 : runStep cfg rx now .bib c2 = (c2, false) := by simp [runStep, secStep, hdl]
      have h6 : runStep cfg rx now .adminHandle c2 = (c2, false) := by simp [runStep, hdl]
      exact ⟨c2, by simp [runChain, hre c2 h2, h4, h5, h6], hdl⟩
    · obtain ⟨g1, _, g3⟩ := secStep_fail c2 now r hdl
      have h4 : runStep cfg rx now .bcb c2 = ((secStep c2 now (.fail r)).1, true) := by
        simp only [runStep, hb]; exact Prod.ext rfl g3
      exact ⟨_, by simp [runChain, hre c2 h2, h4], g1⟩
  obtain ⟨c, hc, hd⟩ := key (runStep cfg rx now .static (runStep cfg rx now .adminRoute c0).1).1
    ((hp2 _).trans hp1)
  refine ⟨c, ?_, hd⟩
  rw [← hc]
  simp [runChain, hs1, hs2]


/-! ### forwarding-queue accounting -/

def isQueued : Effect → Bool | .queued _ => true | _ => false
@[simp] theorem isQueued_queued (i : Ident) : isQueued (.queued i) = true := rfl
@[simp] theorem isQueued_delivered (i : Ident) : isQueued (.delivered i) = false := rfl

theorem finishEff_queued (c : Ctr) : (finishEff c).filter isQueued = [] := by
  unfold finishEff; cases reportFor c <;> simp [isQueued]

theorem dispose_fwdQ_len (st : St) (c : Ctr) :
    (dispose st c).1.fwdQ.length = st.fwdQ.length + ((dispose st c).2.filter isQueued).length := by
  rw [dispose_eff]
  unfold dispose
  cases h1 : hasAct c.actions .delete <;> cases h2 : hasAct c.actions .deliver <;>
    cases h3 : hasAct c.actions .forward <;>
    simp [finish_fwdQ, finishEff_queued, List.filter_append, List.filter_cons]

theorem clRecv_fwdQ_len (cfg : Cfg) (st : St) (now : Nat) (rx : RxBundle) :
    (clRecv cfg st now rx).1.fwdQ.length
      = st.fwdQ.length + ((clRecv cfg st now rx).2.filter isQueued).length := by
  unfold clRecv
  split
  · simp [isQueued]
  · rcases recv_cases cfg st now rx with h | ⟨_, c, _, _, h⟩
    · rw [h]; simp
    · rw [h]; exact dispose_fwdQ_len _ c

theorem plain_not_queued (l : List Effect) (h : ∀ e ∈ l, plain e) : l.filter isQueued = [] := by
  rw [List.filter_eq_nil_iff]
  intro e he hq
  cases e <;> simp [isQueued] at hq
  exact (h _ he).2 _ rfl

theorem sendReport_fwdQ (cfg : Cfg) (st : St) (now : Nat) (sp : SendParams) :
    (sendReport cfg st now sp).1.fwdQ = st.fwdQ := by
  unfold sendReport
  split
  · rfl
  · simp only []
    split <;> simp [sendBundle_fwdQ]

/-- The receive chain on a fragment whose reassembly step does not raise ends in a container
    without 'deliver': held for reassembly (actions cleared) or not up for delivery at all. -/
theorem chain_fragment_no_deliver (cfg : Cfg) (rx : RxBundle) (now : Nat) (c0 : Ctr)
    (hp0 : c0.primary = rx.primary) (hf : isFragment rx.primary.flags = true)
    (hr : rx.reasmRaises = false) :
    ∃ c, runChain cfg rx now [.adminRoute, .static, .reasm, .bcb, .bib, .adminHandle] c0 = c
      ∧ hasAct c.actions .deliver = false := by
  have hs1 : (runStep cfg rx now .adminRoute c0).2 = false := by
    simp only [runStep]; split <;> rfl
  have hp1 : (runStep cfg rx now .adminRoute c0).1.primary = rx.primary := by
    rw [← hp0]; simp only [runStep]; split <;> simp [Ctr.record]
  have hs2 : ∀ c1, (runStep cfg rx now .static c1).2 = false := by
    intro c1; simp only [runStep]; (repeat' split) <;> rfl
  have hp2 : ∀ c1, (runStep cfg rx now .static c1).1.primary = c1.primary := by
    intro c1; simp only [runStep]; (repeat' split) <;> simp [Ctr.record]
  have key : ∀ c2 : Ctr, c2.primary = rx.primary →
      ∃ c, runChain cfg rx now [.reasm, .bcb, .bib, .adminHandle] c2 = c ∧ hasAct c.actions .deliver = false := by
    intro c2 h2
    cases hdl : hasAct c2.actions .deliver
    · have h3 : runStep cfg rx now .reasm c2 = (c2, false) := by simp [runStep, hdl]
      have h4 : runStep cfg rx now .bcb c2 = (c2, false) := by simp [runStep, secStep, hdl]
      have h5 : runStep cfg rx now .bib c2 = (c2, false) := by simp [runStep, secStep, hdl]
      have h6 : runStep cfg rx now .adminHandle c2 = (c2, false) := by simp [runStep, hdl]
      exact ⟨c2, by simp [runChain, h3, h4, h5, h6], hdl⟩
    · have h3 : runStep cfg rx now .reasm c2 = ({ c2 with actions := [] }, true) := by
        simp [runStep, hdl, h2, hf, hr]
      refine ⟨{ c2 with actions := [] }, ?_, by simp [hasAct]⟩
      simp only [runChain, h3, if_true]
  obtain ⟨c, hc, hd⟩ := key (runStep cfg rx now .static (runStep cfg rx now .adminRoute c0).1).1
    ((hp2 _).trans hp1)
  refine ⟨c, ?_, hd⟩
  rw [← hc]
  simp [runChain, hs1, hs2]


end Agent
end DtnVerif
