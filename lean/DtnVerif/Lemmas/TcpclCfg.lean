/-
  The configuration of an endpoint never changes.
-/
import DtnVerif.Model.TcpclEp
namespace DtnVerif
namespace Tcpcl

@[simp] theorem cfg_kaReset (e : Ep) : (kaReset e).cfg = e.cfg := rfl
@[simp] theorem cfg_idleReset (e : Ep) : (idleReset e).cfg = e.cfg := rfl
@[simp] theorem cfg_sendMessage (e : Ep) (m : Msg) : (sendMessage e m).cfg = e.cfg := rfl
@[simp] theorem cfg_pqTrigger (e : Ep) : (pqTrigger e).cfg = e.cfg := by
  unfold pqTrigger; split <;> rfl
@[simp] theorem cfg_setState (e : Ep) (s : String) : (setState e s).1.cfg = e.cfg := by
  unfold setState; split <;> rfl
@[simp] theorem cfg_flush (e : Ep) : (flushPendStart e).1.cfg = e.cfg := rfl
@[simp] theorem cfg_doClose (e : Ep) : (doClose e).1.cfg = e.cfg := by
  unfold doClose; split <;> rfl
@[simp] theorem cfg_checkSessTerm (e : Ep) : (checkSessTerm e).1.cfg = e.cfg := by
  unfold checkSessTerm; split
  · exact cfg_doClose e
  · rfl
@[simp] theorem cfg_sendBufferDecreased (e : Ep) : (sendBufferDecreased e).cfg = e.cfg := by
  unfold sendBufferDecreased; split
  · exact cfg_pqTrigger e
  · rfl
@[simp] theorem cfg_mergeSession (e : Ep) (p : PeerInit) : (mergeSession e p).cfg = e.cfg := rfl
@[simp] theorem cfg_sendContact (e : Ep) : (sendContact e).cfg = e.cfg := rfl
@[simp] theorem cfg_sendInit (e : Ep) : (sendInit e).cfg = e.cfg := rfl
@[simp] theorem cfg_sendReject (e : Ep) (r : Nat) (m : Msg) : (sendReject e r m).cfg = e.cfg := rfl
@[simp] theorem cfg_sendSessTerm (e : Ep) (r : Nat) (b : Bool) : (sendSessTerm e r b).1.cfg = e.cfg := by
  unfold sendSessTerm
  split
  · rfl
  · split
    · rfl
    · simp
@[simp] theorem cfg_sendSegment (e : Ep) (it : TxItem) (s : Nat) : (sendSegment e it s).1.cfg = e.cfg := by
  unfold sendSegment
  simp only []
  split
  · rfl
  · split <;> simp
@[simp] theorem cfg_processQueue (e : Ep) : (processQueue e).1.cfg = e.cfg := by
  unfold processQueue
  split
  · simp
  · split
    · rfl
    · split
      · simp
      · split
        · rfl
        · simp
@[simp] theorem cfg_pullTx (e : Ep) : (pullTx e).cfg = e.cfg := by
  unfold pullTx; split <;> simp

@[simp] theorem cfg_writeConn (e : Ep) (n : Nat) (up : Bool) : (writeConn e n up).1.cfg = e.cfg := by
  unfold writeConn
  split
  · split
    · simp
    · rfl
  · simp only []
    split
    · simp
    · split
      · simp
      · rfl

@[simp] theorem cfg_pump (e : Ep) (n : Nat) : (pump e n).1.cfg = e.cfg := by
  unfold pump; simp

@[simp] theorem cfg_onContact (e : Ep) : (onContact e).1.cfg = e.cfg := by
  unfold onContact; simp only []; cases e.cfg.passive <;> simp
@[simp] theorem cfg_onSessInit (e : Ep) (p : PeerInit) : (onSessInit e p).1.cfg = e.cfg := by
  unfold onSessInit; simp only []; cases e.cfg.passive <;> simp
@[simp] theorem cfg_onSessTerm (e : Ep) (m : Msg) (r : Nat) : (onSessTerm e m r).1.cfg = e.cfg := by
  unfold onSessTerm
  split
  · rfl
  · simp only [cfg_checkSessTerm, cfg_flush]
    split <;> simp
@[simp] theorem cfg_segAccept (e : Ep) (f t : Nat) (c d : Bytes) (o : List Out) :
    (segAccept e f t c d o).1.cfg = e.cfg := by
  unfold segAccept; simp only []; split <;> simp
@[simp] theorem cfg_onSegment (e : Ep) (m : Msg) (f t : Nat) (d : Bytes) :
    (onSegment e m f t d).1.cfg = e.cfg := by
  unfold onSegment
  split
  · rfl
  · split
    · simp
    · split
      · split <;> simp
      · rfl
@[simp] theorem cfg_onAck (e : Ep) (m : Msg) (f t l : Nat) : (onAck e m f t l).1.cfg = e.cfg := by
  unfold onAck
  split
  · rfl
  · split
    · rfl
    · split
      · split <;> simp
      · rfl
@[simp] theorem cfg_onRefuse (e : Ep) (m : Msg) (r t : Nat) : (onRefuse e m r t).1.cfg = e.cfg := by
  unfold onRefuse
  split
  · rfl
  · split
    · rfl
    · simp only [cfg_checkSessTerm]
      split
      · split <;> simp
      · rfl
@[simp] theorem cfg_handleMsg (e : Ep) (m : Msg) : (handleMsg e m).1.cfg = e.cfg := by
  unfold handleMsg
  cases m <;> simp

@[simp] theorem cfg_handleMsgs (ms : List Msg) (e : Ep) : (handleMsgs e ms).1.cfg = e.cfg := by
  induction ms generalizing e with
  | nil => rfl
  | cons m ms ih =>
    unfold handleMsgs
    split
    · rfl
    · simp only [ih, cfg_handleMsg]

@[simp] theorem cfg_recvRaw (e : Ep) (c : Bytes) : (recvRaw e c).1.cfg = e.cfg := by
  unfold recvRaw
  simp only []
  split <;> simp [rxEntry]

theorem cfg_step (e : Ep) (ev : Ev) : (step e ev).1.cfg = e.cfg := by
  unfold step
  cases ev with
  | pump n => simp only []; split <;> (try split) <;> simp
  | advance ms => rfl
  | start =>
    simp only []
    split
    · rfl
    · split
      · rfl
      · simp only [cfg_setState]; split <;> simp
  | send d => simp only []; split <;> simp
  | terminate r => simp only []; split <;> simp
  | close => simp only []; split <;> simp
  | pop t =>
    simp only []
    have : (popRx e t).1.cfg = e.cfg := by unfold popRx; split <;> rfl
    split <;> simp [this]
  | query q => simp only []; split <;> rfl
  | procQueue =>
    simp only []
    split
    · rfl
    · split
      · rfl
      · simp
  | rx c => simp only []; split <;> simp
  | rxEof => simp only []; split <;> simp
  | keepaliveTimer =>
    simp only []
    split
    · rfl
    · split <;> simp
  | idleTimer =>
    simp only []
    split
    · rfl
    · split
      · rfl
      · split <;> simp
  | modulate raw =>
    simp only []
    split
    · rfl
    · split <;> rfl

end Tcpcl
end DtnVerif
