/-
  Acknowledgement causality, endpoint side.

  `Pending e` = (id, END flag) of the segments emitted so far that have not been answered by an
  acknowledgement yet, counting every XFER_ACK processed as answering one segment, in order.
  `CI e`: every pending END segment's transfer awaits its acknowledgement (`txPendAck`), every other
  pending segment's transfer awaits it or is still being segmented (`txTmp`), and no MSG_REJECT was
  ever emitted.  Preserved by every function of the endpoint as long as the peer's messages are legal,
  contain no XFER_REFUSE, and each XFER_ACK answers the first pending segment (alignment).
-/
import DtnVerif.Lemmas.TcpclCausalFrames
import DtnVerif.Lemmas.TcpclQueueRx
import DtnVerif.Lemmas.TcpclTxStep
namespace DtnVerif
namespace Tcpcl

def nAcks (e : Ep) : Nat := (acksOf e.processed).length

def Pending (e : Ep) : List (Nat × Bool) := (segInfo e.emitted).drop (nAcks e)

def POK (e : Ep) (x : Nat × Bool) : Prop :=
  (x.2 = true → x.1 ∈ e.txPendAck) ∧ (x.2 = false → x.1 ∈ e.txPendAck ∨ x.1 ∈ tmpTids e.txTmp)

structure CI (e : Ep) : Prop where
  ts : ∀ x ∈ Pending e, POK e x
  norej : rejsOf e.emitted = []

/-- the five things `CI` reads -/
def Ep.cv (e : Ep) := (acksOf e.processed, segInfo e.emitted, e.txTmp, e.txPendAck, rejsOf e.emitted)

theorem CI.of_cv {e e' : Ep} (h : e'.cv = e.cv) (hi : CI e) : CI e' := by
  simp only [Ep.cv, Prod.mk.injEq] at h
  obtain ⟨h1, h2, h3, h4, h5⟩ := h
  refine ⟨?_, by rw [h5]; exact hi.norej⟩
  intro x hx
  have hx' : x ∈ Pending e := by simpa [Pending, nAcks, h1, h2] using hx
  have := hi.ts x hx'
  simpa [POK, h3, h4] using this

theorem cv_eq {e e' : Ep} (h1 : e'.processed = e.processed) (h2 : segInfo e'.emitted = segInfo e.emitted)
    (h3 : e'.txTmp = e.txTmp) (h4 : e'.txPendAck = e.txPendAck) (h5 : rejsOf e'.emitted = rejsOf e.emitted) :
    e'.cv = e.cv := by
  simp only [Ep.cv, h1, h2, h3, h4, h5]

/-! quiet functions -/

theorem ci_setState (e : Ep) (s : String) (hi : CI e) : CI (setState e s).1 :=
  hi.of_cv (cv_eq (by simp) (by simp) (by simp) (by simp) (by simp))
theorem ci_flush (e : Ep) (hi : CI e) : CI (flushPendStart e).1 :=
  hi.of_cv (cv_eq (by simp) (by simp) (by simp) (by simp) (by simp))
theorem ci_doClose (e : Ep) (hi : CI e) : CI (doClose e).1 :=
  hi.of_cv (cv_eq (by simp) (by simp) (by simp) (by simp) (by simp))
theorem ci_checkSessTerm (e : Ep) (hi : CI e) : CI (checkSessTerm e).1 :=
  hi.of_cv (cv_eq (by simp) (by simp) (by simp) (by simp) (by simp))
theorem ci_sendSessTerm (e : Ep) (r : Nat) (b : Bool) (hi : CI e) : CI (sendSessTerm e r b).1 :=
  hi.of_cv (cv_eq (by simp) (by simp) (by simp) (by simp) (by simp))
theorem ci_writeConn (e : Ep) (n : Nat) (up : Bool) (hi : CI e) : CI (writeConn e n up).1 :=
  hi.of_cv (cv_eq (by simp) (by simp) (by simp) (by simp) (by simp))
theorem ci_pump (e : Ep) (n : Nat) (hi : CI e) : CI (pump e n).1 :=
  hi.of_cv (cv_eq (by simp) (by simp) (by simp) (by simp) (by simp))
theorem ci_onContact (e : Ep) (hi : CI e) : CI (onContact e).1 :=
  hi.of_cv (cv_eq (by simp) (by simp) (by simp) (by simp) (by simp))
theorem ci_onSessInit (e : Ep) (p : PeerInit) (hi : CI e) : CI (onSessInit e p).1 :=
  hi.of_cv (cv_eq (by simp) (by simp) (by simp) (by simp) (by simp))

/-! sending segments -/

theorem hasEnd_end (p : Prop) [Decidable p] : hasEnd (flagEnd + if p then flagStart else 0) = true := by
  split <;> decide
theorem hasEnd_noend' (p : Prop) [Decidable p] : hasEnd (0 + if p then flagStart else 0) = false := by
  split <;> decide
theorem hasEnd_noend'' (p : Prop) [Decidable p] : hasEnd (if p then flagStart else 0) = false := by
  split <;> decide

theorem pending_emit_seg (e e' : Ep) (x : Nat × Bool) (hp : e'.processed = e.processed)
    (hs : segInfo e'.emitted = segInfo e.emitted ++ [x]) (hn : nAcks e ≤ (segInfo e.emitted).length) :
    Pending e' = Pending e ++ [x] := by
  simp only [Pending, nAcks, hp, hs]
  exact List.drop_append_of_le_length hn

/-- `ht`: the transfer handed to `sendSegment` is the one in `txTmp`; `hn`: no more acknowledgements
    were processed than segments emitted (alignment) -/
theorem ci_sendSegment (e : Ep) (it : TxItem) (s : Nat) (hp : e.cfg.privExt = false)
    (ht : tmpTids e.txTmp = [it.tid]) (hn : nAcks e ≤ (segInfo e.emitted).length) (hi : CI e) :
    CI (sendSegment e it s).1 := by
  unfold sendSegment
  simp only [hp, Bool.and_false, Bool.false_eq_true, if_false]
  split
  · -- final segment
    refine ⟨?_, by simp [hi.norej]⟩
    intro x hx
    have hx' : x ∈ Pending e ∨ x = (it.tid, true) := by
      rw [pending_emit_seg e _ (it.tid, true) (by simp [sendMessage, sendReady, kaReset, idleReset])
        (by simp [sendMessage, sendReady, kaReset, idleReset, hasEnd_end]) hn] at hx
      simpa using hx
    rcases hx' with hx' | hx'
    · obtain ⟨g1, g2⟩ := hi.ts x hx'
      refine ⟨fun h => ?_, fun h => Or.inl ?_⟩
      · simp only [pq_txPendAck, sendMessage, sendReady, kaReset, idleReset]
        exact List.mem_append_left _ (g1 h)
      · simp only [pq_txPendAck, sendMessage, sendReady, kaReset, idleReset]
        rcases g2 h with g | g
        · exact List.mem_append_left _ g
        · rw [ht] at g; simp only [List.mem_singleton] at g; rw [g]; simp
    · subst hx'
      refine ⟨fun _ => ?_, fun h => (by cases h)⟩
      simp [sendMessage, sendReady, kaReset, idleReset]
  · -- more to come
    refine ⟨?_, by simp [hi.norej]⟩
    intro x hx
    have hx' : x ∈ Pending e ∨ x = (it.tid, false) := by
      rw [pending_emit_seg e _ (it.tid, false) (by simp [sendMessage, sendReady, kaReset, idleReset])
        (by simp [sendMessage, sendReady, kaReset, idleReset, hasEnd_noend', hasEnd_noend'']) hn] at hx
      simpa using hx
    rcases hx' with hx' | hx'
    · obtain ⟨g1, g2⟩ := hi.ts x hx'
      refine ⟨fun h => by simpa [sendMessage, sendReady, kaReset, idleReset] using g1 h, fun h => ?_⟩
      rcases g2 h with g | g
      · exact Or.inl (by simpa [sendMessage, sendReady, kaReset, idleReset] using g)
      · exact Or.inr (by rw [ht] at g; simpa [tmpTids] using g)
    · subst hx'
      exact ⟨fun h => (by cases h), fun _ => Or.inr (by simp [tmpTids])⟩

theorem ci_processQueue (e : Ep) (hp : e.cfg.privExt = false) (hn : nAcks e ≤ (segInfo e.emitted).length)
    (hi : CI e) : CI (processQueue e).1 := by
  unfold processQueue
  split
  · rename_i it sent h
    exact ci_sendSegment e it sent hp (by simp [h, tmpTids]) hn hi
  · rename_i h
    split
    · exact hi
    · split
      · exact ci_checkSessTerm _ (ci_flush e hi)
      · split
        · exact hi
        · rename_i it rest hps
          simp only []
          refine ci_sendSegment _ it 0 hp (by simp [tmpTids]) hn ⟨?_, hi.norej⟩
          intro x hx
          obtain ⟨g1, g2⟩ := hi.ts x hx
          refine ⟨g1, fun hf => ?_⟩
          rcases g2 hf with g | g
          · exact Or.inl g
          · rw [h] at g; simp [tmpTids] at g

/-! receive handlers that cannot reject when the peer is legal -/

theorem ci_segAccept (e : Ep) (f t : Nat) (c d : Bytes) (o : List Out) (hi : CI e) : CI (segAccept e f t c d o).1 := by
  refine hi.of_cv (cv_eq (by simp) ?_ (by simp) (by simp) ?_)
  · unfold segAccept; simp only []; split <;> simp
  · unfold segAccept; simp only []; split <;> simp

/-- `hs`, `hcur`: what legality of the peer's sequence gives — in session, and a non-START segment
    continues the open transfer -/
theorem ci_onSegment (e : Ep) (m : Msg) (f t : Nat) (d : Bytes) (hs : e.inSess = true)
    (hcur : hasStart f = false → ∃ c, e.rxTmp = some (t, c)) (hi : CI e) : CI (onSegment e m f t d).1 := by
  unfold onSegment
  split
  · rename_i h; simp [hs] at h
  · split
    · exact ci_segAccept _ _ _ _ _ _ (CI.of_cv (e := e) rfl hi)
    · rename_i hst
      obtain ⟨c, hc⟩ := hcur (by simpa using hst)
      simp only [hc, beq_self_eq_true, if_true]
      exact ci_segAccept e _ _ _ _ _ hi

theorem ci_onSessTerm (e : Ep) (m : Msg) (r : Nat) (hs : e.inSess = true) (hi : CI e) : CI (onSessTerm e m r).1 := by
  unfold onSessTerm
  split
  · rename_i h; simp [hs] at h
  · simp only []
    refine ci_checkSessTerm _ (ci_flush _ (CI.of_cv (e := (if (!e.inTerm) = true then sendSessTerm e r true else (e, [])).1) rfl ?_))
    split
    · exact ci_sendSessTerm e r true hi
    · exact hi

/-- the acknowledgement answers the first pending segment (`hhead`), its transfer is known (`hmap`,
    from `QInv`), and for an END acknowledgement no later pending segment carries the same id (`hlast`) -/
theorem ci_onAck (e0 : Ep) (f t l : Nat) (hs : e0.inSess = true) (hi : CI e0)
    (hhead : Pending e0 = (t, hasEnd f) :: (Pending e0).tail)
    (hmap : ∀ x, x ∈ e0.txPendAck ∨ x ∈ tmpTids e0.txTmp → x ∈ e0.txMap)
    (hlast : hasEnd f = true → ∀ x ∈ (Pending e0).tail, x.1 ≠ t) :
    CI (onAck { e0 with processed := e0.processed ++ [.xferAck f t l] } (.xferAck f t l) f t l).1 := by
  have hin : (t, hasEnd f) ∈ Pending e0 := by rw [hhead]; simp
  obtain ⟨g1, g2⟩ := hi.ts _ hin
  have htm : t ∈ e0.txMap := by
    cases he : hasEnd f
    · exact hmap t (g2 he)
    · exact hmap t (Or.inl (g1 he))
  unfold onAck
  simp only [hs, Bool.not_true, Bool.false_eq_true, if_false]
  have htm' : e0.txMap.contains t = true := by simpa using htm
  simp only [htm', Bool.not_true, Bool.false_eq_true, if_false]
  split
  · rename_i hend
    have hpa : t ∈ e0.txPendAck := g1 hend
    have hpa' : e0.txPendAck.contains t = true := by simpa using hpa
    simp only [hpa', Bool.not_true, Bool.false_eq_true, if_false]
    refine CI.of_cv (cv_eq (proc_checkSessTerm _) (si_checkSessTerm _) (tt_checkSessTerm _) (pa_checkSessTerm _)
      (rj_checkSessTerm _)) ⟨?_, hi.norej⟩
    intro x hx
    have hx : x ∈ (Pending e0).tail := by
      simpa only [Pending, nAcks, acksOf_append, acksOf_cons, isAck, if_true, acksOf_nil, List.length_append,
        List.length_cons, List.length_nil, List.tail_drop] using hx
    have hx0 : x ∈ Pending e0 := List.mem_of_mem_tail hx
    obtain ⟨k1, k2⟩ := hi.ts x hx0
    have hne : x.1 ≠ t := hlast hend x hx
    refine ⟨fun h => (List.mem_erase_of_ne hne).mpr (k1 h), fun h => ?_⟩
    rcases k2 h with k | k
    · exact Or.inl ((List.mem_erase_of_ne hne).mpr k)
    · exact Or.inr k
  · refine ⟨?_, hi.norej⟩
    intro x hx
    have hx : x ∈ (Pending e0).tail := by
      simpa only [Pending, nAcks, acksOf_append, acksOf_cons, isAck, if_true, acksOf_nil, List.length_append,
        List.length_cons, List.length_nil, List.tail_drop] using hx
    exact hi.ts x (List.mem_of_mem_tail hx)

/-! one received message -/

theorem legalStep_nonstart_cur (P P' : LState) (f t : Nat) (x d : Bytes)
    (h : legalStep P (.xferSegment f t x d) = some P') (hst : hasStart f = false) :
    ∃ tot so, P.cur = some (t, tot, so) := by
  simp only [legalStep] at h
  split at h
  · simp at h
  · simp only [hst, Bool.false_eq_true, if_false] at h
    split at h
    · simp at h
    · cases hc : P.cur with
      | none => simp [hc] at h
      | some v =>
        obtain ⟨t0, tot, so⟩ := v
        simp only [hc] at h
        split at h
        · simp at h
        · rename_i htt
          have : t0 = t := by simpa using htt
          exact ⟨tot, so, by rw [this]⟩

theorem ci_processed_nonack (e : Ep) (m : Msg) (hm : isAck m = false) (hi : CI e) :
    CI { e with processed := e.processed ++ [m] } :=
  hi.of_cv (by cases m <;> simp [Ep.cv] at hm ⊢)

/-- `halign`: an XFER_ACK answers the first pending segment, and if it is a final one no later
    pending segment carries its id -/
theorem ci_handleMsg (e : Ep) (P P' : LState) (m : Msg) (hi : CI e) (hq : QInv e) (hrx : RxInv e) (htx : TxInv e P)
    (hstep : legalStep P m = some P') (hok : okMsg m)
    (halign : ∀ f t l, m = .xferAck f t l →
      Pending e = (t, hasEnd f) :: (Pending e).tail ∧ (hasEnd f = true → ∀ x ∈ (Pending e).tail, x.1 ≠ t)) :
    CI (handleMsg e m).1 := by
  unfold handleMsg
  cases m with
  | contact f => exact ci_onContact _ (ci_processed_nonack e _ rfl hi)
  | sessInit ka sm xm node ext => exact ci_onSessInit _ _ (ci_processed_nonack e _ rfl hi)
  | keepalive => exact ci_processed_nonack e _ rfl hi
  | msgReject a b => exact ci_processed_nonack e _ rfl hi
  | xferRefuse r t => exact absurd hok (by simp [okMsg])
  | sessTerm f r =>
    have hs := (txInv_processed_body e P P' _ htx hstep trivial).2
    exact ci_onSessTerm _ _ r hs (ci_processed_nonack e _ rfl hi)
  | xferSegment f t x d =>
    have hs := (txInv_processed_body e P P' _ htx hstep trivial).2
    refine ci_onSegment _ _ f t d hs ?_ (ci_processed_nonack e _ rfl hi)
    intro hst
    obtain ⟨tot, so, hc⟩ := legalStep_nonstart_cur P P' f t x d hstep hst
    have hrel := (owed_info e.processed {} P {} rel_init htx.hP).2
    have h2 := hrel.2
    rw [hc] at h2
    have hcur : e.rxTmp = (rxSpec e.processed).cur := hrx.2.1
    show ∃ c, e.rxTmp = some (t, c)
    rw [hcur]
    unfold rxSpec
    cases hr : (List.foldl rxSpecStep {} e.processed).cur with
    | none => rw [hr] at h2; simp at h2
    | some p =>
      obtain ⟨t', c⟩ := p
      rw [hr] at h2
      simp at h2
      exact ⟨c, by rw [h2]⟩
  | xferAck f t l =>
    have hs := (txInv_processed_body e P P' _ htx hstep trivial).2
    obtain ⟨a1, a2⟩ := halign f t l rfl
    refine ci_onAck e f t l hs hi a1 ?_ a2
    intro x hx
    refine (hq.iff x).mpr ?_
    simp only [Ep.inflight, List.mem_append]
    rcases hx with hx | hx
    · exact Or.inr (Or.inr hx)
    · exact Or.inr (Or.inl hx)

/-- handlers never emit a segment -/
theorem si_segAccept (e : Ep) (f t : Nat) (c d : Bytes) (o : List Out) :
    segInfo (segAccept e f t c d o).1.emitted = segInfo e.emitted := by
  unfold segAccept; simp only []; split <;> simp
theorem si_onSegment (e : Ep) (m : Msg) (f t : Nat) (d : Bytes) :
    segInfo (onSegment e m f t d).1.emitted = segInfo e.emitted := by
  unfold onSegment
  split
  · simp
  · split
    · rw [si_segAccept]
    · split
      · split
        · rw [si_segAccept]
        · simp
      · simp
theorem si_handleMsg (e : Ep) (m : Msg) : segInfo (handleMsg e m).1.emitted = segInfo e.emitted := by
  unfold handleMsg
  cases m with
  | xferSegment f t x d => simp only []; rw [si_onSegment]
  | _ => simp

/-! a whole read -/

theorem acksOf_prefix {a b : List Msg} (h : a <+: b) : acksOf a <+: acksOf b := by
  obtain ⟨t, rfl⟩ := h
  simp only [acksOf_append]; exact List.prefix_append _ _

theorem drop_of_snoc_prefix {α} (l : List α) (x : α) (L : List α) (h : l ++ [x] <+: L) :
    L.drop l.length = x :: (L.drop l.length).tail ∧ L = l ++ x :: (L.drop l.length).tail := by
  obtain ⟨t, rfl⟩ := h
  simp [List.append_assoc]

/-- what alignment of the acknowledgements processed so far plus `k` gives for `k` -/
theorem align_head (e : Ep) (P : LState) (htx : TxInv e P) (f t l : Nat)
    (h : (acksOf (e.processed ++ [.xferAck f t l])).map ackInfo <+: segInfo e.emitted) :
    Pending e = (t, hasEnd f) :: (Pending e).tail ∧ (hasEnd f = true → ∀ x ∈ (Pending e).tail, x.1 ≠ t) := by
  have h' : (acksOf e.processed).map ackInfo ++ [(t, hasEnd f)] <+: segInfo e.emitted := by
    simpa [ackInfo, ackTid, ackIsEnd] using h
  obtain ⟨d1, d2⟩ := drop_of_snoc_prefix _ _ _ h'
  have hlen : ((acksOf e.processed).map ackInfo).length = nAcks e := by simp [nAcks]
  rw [hlen] at d1 d2
  refine ⟨d1, ?_⟩
  intro hend x hx
  have hL := htx.L
  simp only [Ep.txView] at hL
  have := legal_end_last e.emitted {} _ hL curLe_init ((acksOf e.processed).map ackInfo) t (Pending e).tail
    (by rw [hend] at d2; exact d2) x hx
  exact Nat.ne_of_gt this

theorem ci_handleMsgs (ms : List Msg) : ∀ (e : Ep) (P : LState), CI e → QInv e → RxInv e → TxInv e P →
    (legalRun {} (handleMsgs e ms).1.processed).isSome → (∀ m ∈ (handleMsgs e ms).1.processed, okMsg m) →
    (acksOf (handleMsgs e ms).1.processed).map ackInfo <+: segInfo e.emitted →
    CI (handleMsgs e ms).1 ∧ QInv (handleMsgs e ms).1 := by
  induction ms with
  | nil => intro e P hi hq _ _ _ _ _; exact ⟨hi, hq⟩
  | cons m ms ih =>
    intro e P hi hq hrx htx hleg hok hal
    unfold handleMsgs at hleg hok hal ⊢
    split
    · exact ⟨hi, hq⟩
    · rename_i hc
      have hc' : ¬ (e.closed = true) := by simpa using hc
      rw [if_neg hc'] at hleg hok hal
      simp only [] at hleg hok hal
      have hi : CI { e with rxMore := !ms.isEmpty || e.rx.dead } := CI.of_cv (e := e) rfl hi
      have hq : QInv { e with rxMore := !ms.isEmpty || e.rx.dead } := QInv.of_qv (e := e) rfl hq
      have hrx : RxInv { e with rxMore := !ms.isEmpty || e.rx.dead } := rxInv_of_view (e := e) rfl hrx
      have htx : TxInv { e with rxMore := !ms.isEmpty || e.rx.dead } P := txInv_of_view (e := e) rfl htx
      have hal : List.map ackInfo (acksOf (handleMsgs (handleMsg { e with rxMore := !ms.isEmpty || e.rx.dead } m).1 ms).1.processed)
          <+: segInfo ({ e with rxMore := !ms.isEmpty || e.rx.dead } : Ep).emitted := hal
      generalize ({ e with rxMore := !ms.isEmpty || e.rx.dead } : Ep) = e at *
      have hpre := processed_prefix_handleMsgs ms (handleMsg e m).1
      have hl1 := legal_of_prefix hpre hleg
      have hP0 : legalRun {} e.processed = some P := htx.hP
      rw [processed_handleMsg, legalRun_snoc _ _ _ _ hP0] at hl1
      obtain ⟨P1, hP1⟩ := Option.isSome_iff_exists.mp hl1
      have hokm : okMsg m := by
        apply hok; apply hpre.subset; rw [processed_handleMsg]; simp
      have halign : ∀ f t l, m = .xferAck f t l →
          Pending e = (t, hasEnd f) :: (Pending e).tail ∧ (hasEnd f = true → ∀ x ∈ (Pending e).tail, x.1 ≠ t) := by
        intro f t l hm
        subst hm
        refine align_head e P htx f t l ?_
        have h1 : acksOf (e.processed ++ [.xferAck f t l]) <+: acksOf (handleMsgs (handleMsg e (.xferAck f t l)).1 ms).1.processed := by
          apply acksOf_prefix; rw [← processed_handleMsg]; exact hpre
        exact List.IsPrefix.trans (List.IsPrefix.map ackInfo h1) hal
      have hi1 := ci_handleMsg e P P1 m hi hq hrx htx hP1 hokm halign
      have hq1 := (q_handleMsg e m hq).1
      have hrx1 := rxInv_handleMsg e m hrx
      have htx1 := txInv_handleMsg e P P1 m htx hP1 hokm
      exact ih _ P1 hi1 hq1 hrx1 htx1 hleg hok (by rw [si_handleMsg]; exact hal)

theorem si_handleMsgs (ms : List Msg) (e : Ep) : segInfo (handleMsgs e ms).1.emitted = segInfo e.emitted := by
  induction ms generalizing e with
  | nil => rfl
  | cons m ms ih =>
    unfold handleMsgs
    split
    · rfl
    · rw [ih, si_handleMsg]

theorem si_recvRaw (e : Ep) (c : Bytes) : segInfo (recvRaw e c).1.emitted = segInfo e.emitted := by
  unfold recvRaw
  simp only []
  split
  · simp only [si_doClose, si_handleMsgs]; rfl
  · simp only [si_handleMsgs]; rfl

theorem ci_recvRaw (e : Ep) (c : Bytes) (P : LState) (hi : CI e) (hq : QInv e) (hrx : RxInv e) (htx : TxInv e P)
    (hleg : (legalRun {} (recvRaw e c).1.processed).isSome) (hok : ∀ m ∈ (recvRaw e c).1.processed, okMsg m)
    (hal : (acksOf (recvRaw e c).1.processed).map ackInfo <+: segInfo e.emitted) : CI (recvRaw e c).1 := by
  unfold recvRaw at hleg hok hal ⊢
  simp only [] at hleg hok hal ⊢
  have h0 : CI (rxEntry e c) := CI.of_cv (e := e) rfl hi
  have hq0 : QInv (rxEntry e c) := QInv.of_qv (e := e) rfl hq
  have hrx0 : RxInv (rxEntry e c) := hrx
  have htx0 : TxInv (rxEntry e c) P := txInv_of_view rfl htx
  split
  · rename_i hd
    simp only [hd, if_true, proc_doClose] at hleg hok hal
    exact ci_doClose _ (CI.of_cv (e := (handleMsgs (rxEntry e c) (feed e.rx c).2).1) rfl (ci_handleMsgs _ _ P h0 hq0 hrx0 htx0 hleg hok hal).1)
  · rename_i hd
    simp only [hd, Bool.false_eq_true, if_false] at hleg hok hal
    exact CI.of_cv (e := (handleMsgs (rxEntry e c) (feed e.rx c).2).1) rfl (ci_handleMsgs _ _ P h0 hq0 hrx0 htx0 hleg hok hal).1

/-! one event -/

theorem ci_step_local (e : Ep) (ev : Ev) (hne : ∀ c, ev ≠ .rx c) (hp : e.cfg.privExt = false)
    (hn : nAcks e ≤ (segInfo e.emitted).length) (hi : CI e) : CI (step e ev).1 := by
  unfold step
  cases ev with
  | rx c => exact absurd rfl (hne c)
  | advance ms => exact CI.of_cv (e := e) rfl hi
  | start =>
    simp only []
    split
    · exact hi
    · split
      · exact hi
      · refine ci_setState _ _ ?_
        split
        · exact CI.of_cv (e := e) (cv_eq (by simp) (by simp) (by simp) (by simp) (by simp)) hi
        · exact CI.of_cv (e := e) rfl hi
  | send d =>
    simp only []
    split
    · exact hi
    · exact CI.of_cv (e := e) (cv_eq (by simp) (by simp) (by simp) (by simp) (by simp)) hi
  | terminate r =>
    simp only []
    split
    · exact hi
    · exact ci_sendSessTerm e r false hi
  | close =>
    simp only []
    split
    · exact hi
    · exact ci_doClose e hi
  | pop t =>
    simp only []
    have : CI (popRx e t).1 := by
      unfold popRx; split
      · exact CI.of_cv (e := e) rfl hi
      · exact hi
    split <;> exact this
  | query q => simp only []; split <;> exact hi
  | procQueue =>
    simp only []
    split
    · exact CI.of_cv (e := e) rfl hi
    · split
      · exact hi
      · refine CI.of_cv (e := (processQueue { e with pqPend := false }).1) rfl ?_
        exact ci_processQueue _ hp hn (CI.of_cv (e := e) rfl hi)
  | pump n =>
    simp only []
    split
    · exact hi
    · split
      · exact hi
      · refine CI.of_cv (e := (pump { e with txIdle := false } n).1) rfl ?_
        exact ci_pump _ n (CI.of_cv (e := e) rfl hi)
  | rxEof =>
    simp only []
    split
    · exact hi
    · exact ci_doClose e hi
  | keepaliveTimer =>
    simp only []
    split
    · exact hi
    · split
      · exact hi
      · exact CI.of_cv (e := e) (cv_eq (by simp) (by simp) (by simp) (by simp) (by simp)) hi
  | idleTimer =>
    simp only []
    split
    · exact hi
    · split
      · exact hi
      · split
        · exact ci_doClose _ (CI.of_cv (e := e) rfl hi)
        · exact ci_sendSessTerm _ _ _ (CI.of_cv (e := e) rfl hi)
  | modulate raw =>
    simp only []
    split
    · exact hi
    · split
      · exact CI.of_cv (e := e) rfl hi
      · exact hi

theorem ci_init (cfg : Cfg) : CI { cfg := cfg } := ⟨by intro x hx; simp [Pending, segInfo] at hx, rfl⟩

end Tcpcl
end DtnVerif
