import DtnVerif.Model.TcpclCodec
import DtnVerif.Lemmas.Bytes
namespace DtnVerif
namespace Tcpcl

/-- A parser is *good* when its result depends only on the octets it consumed: any extension of
    the consumed prefix gives the same value, and any strict prefix of it gives `none`. -/
def Good {α} (p : P α) : Prop :=
  ∀ b a r, p b = some (a, r) →
    ∃ u, b = u ++ r ∧ (∀ x, p (u ++ x) = some (a, x)) ∧
      (∀ u', u' <+: u → u' ≠ u → p u' = none)

theorem good_pure {α} (a : α) : Good (P.pure a) := by
  intro b a' r h
  simp only [P.pure, Option.some.injEq, Prod.mk.injEq] at h
  obtain ⟨rfl, rfl⟩ := h
  refine ⟨[], by simp, fun x => by simp [P.pure], ?_⟩
  intro u' hp hne
  exact absurd (List.prefix_nil.mp hp) hne

theorem prefix_lt_length {u' u : Bytes} (hp : u' <+: u) (hne : u' ≠ u) : u'.length < u.length := by
  obtain ⟨t, rfl⟩ := hp
  cases t with
  | nil => simp at hne
  | cons x xs => simp

theorem good_takeNat (k : Nat) : Good (takeNat k) := by
  intro b a r h
  unfold takeNat at h
  split at h
  · exact absurd h (by simp)
  · rename_i hk
    simp only [Option.some.injEq, Prod.mk.injEq] at h
    obtain ⟨rfl, rfl⟩ := h
    refine ⟨b.take k, (List.take_append_drop k b).symm, ?_, ?_⟩
    · intro x
      have hl : (b.take k).length = k := by simp; omega
      unfold takeNat
      have : ¬ ((List.take k b ++ x).length < k) := by simp; omega
      simp only [this, if_false]
      rw [List.take_append_of_le_length (by omega), List.drop_append_of_le_length (by omega)]
      simp [List.take_of_length_le, List.drop_of_length_le, hl]
    · intro u' hp hne
      have := prefix_lt_length hp hne
      have hl : (b.take k).length = k := by simp; omega
      unfold takeNat
      simp; omega

theorem good_takeBytes (k : Nat) : Good (takeBytes k) := by
  intro b a r h
  unfold takeBytes at h
  split at h
  · exact absurd h (by simp)
  · rename_i hk
    simp only [Option.some.injEq, Prod.mk.injEq] at h
    obtain ⟨rfl, rfl⟩ := h
    refine ⟨b.take k, (List.take_append_drop k b).symm, ?_, ?_⟩
    · intro x
      have hl : (b.take k).length = k := by simp; omega
      unfold takeBytes
      have : ¬ ((List.take k b ++ x).length < k) := by simp; omega
      simp only [this, if_false]
      rw [List.take_append_of_le_length (by omega), List.drop_append_of_le_length (by omega)]
      simp [List.take_of_length_le, List.drop_of_length_le, hl]
    · intro u' hp hne
      have := prefix_lt_length hp hne
      have hl : (b.take k).length = k := by simp; omega
      unfold takeBytes
      simp; omega

theorem good_bind {α β} (p : P α) (f : α → P β) (hp : Good p) (hf : ∀ a, Good (f a)) :
    Good (p.bind f) := by
  intro b c r h
  unfold P.bind at h
  split at h
  · exact absurd h (by simp)
  · rename_i a r1 hpb
    obtain ⟨u1, hb, hext1, hpre1⟩ := hp b a r1 hpb
    obtain ⟨u2, hr1, hext2, hpre2⟩ := hf a r1 c r h
    refine ⟨u1 ++ u2, by rw [hb, hr1, List.append_assoc], ?_, ?_⟩
    · intro x
      unfold P.bind
      rw [List.append_assoc, hext1 (u2 ++ x)]
      exact hext2 x
    · intro u' hu' hne
      unfold P.bind
      by_cases hlt : u'.length < u1.length
      · -- strict prefix of u1
        have hp1 : u' <+: u1 := by
          have := List.prefix_of_prefix_length_le hu' (List.prefix_append u1 u2) (by omega)
          exact this
        have hne1 : u' ≠ u1 := by intro e; rw [e] at hlt; omega
        rw [hpre1 u' hp1 hne1]
      · -- u' = u1 ++ v with v a strict prefix of u2
        have hp1 : u1 <+: u' :=
          List.prefix_of_prefix_length_le (List.prefix_append u1 u2) hu' (by omega)
        obtain ⟨v, rfl⟩ := hp1
        have hv : v <+: u2 := by
          obtain ⟨t, ht⟩ := hu'
          rw [List.append_assoc] at ht
          exact ⟨t, List.append_cancel_left ht⟩
        have hvne : v ≠ u2 := by intro e; exact hne (by rw [e])
        rw [hext1 v]
        exact hpre2 v hv hvne

theorem good_none {α} : Good (fun _ => none : P α) := by
  intro b a r h; exact absurd h (by simp)

theorem good_pSegment : Good pSegment := by
  unfold pSegment
  refine good_bind _ _ (good_takeNat 1) fun flags => good_bind _ _ (good_takeNat 8) fun tid => ?_
  split
  · exact good_bind _ _ (good_takeNat 4) fun es => good_bind _ _ (good_takeBytes es) fun ext =>
      good_bind _ _ (good_takeNat 8) fun len => good_bind _ _ (good_takeBytes len) fun data =>
      good_pure _
  · exact good_bind _ _ (good_takeNat 8) fun len => good_bind _ _ (good_takeBytes len) fun data =>
      good_pure _

theorem good_parseBody (t : Nat) : Good (parseBody t) := by
  unfold parseBody
  split
  · exact good_pSegment
  split
  · exact good_bind _ _ (good_takeNat 1) fun _ => good_bind _ _ (good_takeNat 8) fun _ =>
      good_bind _ _ (good_takeNat 8) fun _ => good_pure _
  split
  · exact good_bind _ _ (good_takeNat 1) fun _ => good_bind _ _ (good_takeNat 8) fun _ => good_pure _
  split
  · exact good_pure _
  split
  · exact good_bind _ _ (good_takeNat 1) fun _ => good_bind _ _ (good_takeNat 1) fun _ => good_pure _
  split
  · exact good_bind _ _ (good_takeNat 1) fun _ => good_bind _ _ (good_takeNat 1) fun _ => good_pure _
  split
  · exact good_bind _ _ (good_takeNat 2) fun _ => good_bind _ _ (good_takeNat 8) fun _ =>
      good_bind _ _ (good_takeNat 8) fun _ => good_bind _ _ (good_takeNat 2) fun nl =>
      good_bind _ _ (good_takeBytes nl) fun _ => good_bind _ _ (good_takeNat 4) fun es =>
      good_bind _ _ (good_takeBytes es) fun _ => good_pure _
  · exact good_none

/-! ### evaluation lemmas: parsing what `encode` wrote -/

theorem bind_takeNat_beBytes {β} (k n : Nat) (f : Nat → P β) (r : Bytes) (h : n < 256 ^ k) :
    ((takeNat k).bind f) (beBytes k n ++ r) = f n r := by
  unfold P.bind takeNat
  have : ¬ ((beBytes k n ++ r).length < k) := by simp
  simp only [this, if_false]
  rw [List.take_append_of_le_length (by simp), List.drop_append_of_le_length (by simp)]
  simp [List.take_of_length_le, List.drop_of_length_le, beNat_beBytes k n h]

theorem bind_takeBytes_append {β} (d : Bytes) (f : Bytes → P β) (r : Bytes) :
    ((takeBytes d.length).bind f) (d ++ r) = f d r := by
  unfold P.bind takeBytes
  have : ¬ ((d ++ r).length < d.length) := by simp
  simp only [this, if_false]
  simp

theorem u8_eq' (n : Nat) (h : n < 256) : u8 n = [UInt8.ofNat n] := by
  simp [u8, beBytes, Nat.mod_eq_of_lt h]

theorem ofNat_toNat' (n : Nat) (h : n < 256) : (UInt8.ofNat n).toNat = n := by
  simp [UInt8.toNat_ofNat']; exact h

theorem decExtItems_enc (items : List ExtItem)
    (hwf : ∀ e ∈ items, e.flags < 256 ∧ e.type < 65536 ∧ e.value.length < 65536) (fuel : Nat)
    (hfuel : items.length ≤ fuel) :
    decExtItems fuel (encExtItems items) = some items := by
  induction items generalizing fuel with
  | nil => cases fuel <;> simp [decExtItems, encExtItems]
  | cons e es ih =>
    obtain ⟨h1, h2, h3⟩ := hwf e (by simp)
    cases fuel with
    | zero => simp at hfuel
    | succ fuel =>
      have hu8 : u8 e.flags = [UInt8.ofNat e.flags] := u8_eq' _ h1
      have hu16 : ∀ n, n < 65536 → u16 n = [UInt8.ofNat (n / 256), UInt8.ofNat (n % 256)] := by
        intro n hn
        have h1 : n / 256 % 256 = n / 256 := Nat.mod_eq_of_lt (by omega)
        simp [u16, beBytes, h1]
      simp only [encExtItems, encExtItem, hu8, hu16 _ h2, hu16 _ h3, List.cons_append,
        List.nil_append, decExtItems]
      have hne : ¬ (UInt8.ofNat e.flags :: UInt8.ofNat (e.type / 256) :: UInt8.ofNat (e.type % 256)
          :: UInt8.ofNat (e.value.length / 256) :: UInt8.ofNat (e.value.length % 256)
          :: (e.value ++ encExtItems es) = []) := by simp
      simp only [hne, if_false]
      have a1 := ofNat_toNat' (e.type / 256) (by omega)
      have a2 := ofNat_toNat' (e.type % 256) (by omega)
      have a3 := ofNat_toNat' (e.value.length / 256) (by omega)
      have a4 := ofNat_toNat' (e.value.length % 256) (by omega)
      have a0 := ofNat_toNat' e.flags h1
      simp only [a0, a1, a2, a3, a4]
      have hl : e.value.length / 256 * 256 + e.value.length % 256 = e.value.length :=
        Nat.div_add_mod' _ 256
      have ht : e.type / 256 * 256 + e.type % 256 = e.type := Nat.div_add_mod' _ 256
      simp only [hl, ht]
      have : ¬ ((e.value ++ encExtItems es).length < e.value.length) := by
        rw [List.length_append]; omega
      simp only [this, if_false, List.drop_left, List.take_left]
      rw [ih (fun e' he' => hwf e' (by simp [he'])) fuel (by simpa using hfuel)]


end Tcpcl
end DtnVerif
