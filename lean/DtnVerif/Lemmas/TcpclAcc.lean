/-
  The socket write log only ever grows: `accepted` changes only in `writeConn`, by appending.
-/
import DtnVerif.Model.TcpclEp
namespace DtnVerif
namespace Tcpcl

@[simp] theorem acc_kaReset (e : Ep) : (kaReset e).accepted = e.accepted := rfl
@[simp] theorem acc_idleReset (e : Ep) : (idleReset e).accepted = e.accepted := rfl
@[simp] theorem acc_sendMessage (e : Ep) (m : Msg) : (sendMessage e m).accepted = e.accepted := rfl
@[simp] theorem acc_pqTrigger (e : Ep) : (pqTrigger e).accepted = e.accepted := by
  unfold pqTrigger; split <;> rfl
@[simp] theorem acc_setState (e : Ep) (s : String) : (setState e s).1.accepted = e.accepted := by
  unfold setState; split <;> rfl
@[simp] theorem acc_flush (e : Ep) : (flushPendStart e).1.accepted = e.accepted := rfl
@[simp] theorem acc_doClose (e : Ep) : (doClose e).1.accepted = e.accepted := by
  unfold doClose; split <;> rfl
@[simp] theorem acc_checkSessTerm (e : Ep) : (checkSessTerm e).1.accepted = e.accepted := by
  unfold checkSessTerm; split
  · exact acc_doClose e
  · rfl
@[simp] theorem acc_sendBufferDecreased (e : Ep) : (sendBufferDecreased e).accepted = e.accepted := by
  unfold sendBufferDecreased; split
  · exact acc_pqTrigger e
  · rfl
@[simp] theorem acc_mergeSession (e : Ep) (p : PeerInit) : (mergeSession e p).accepted = e.accepted := rfl
@[simp] theorem acc_sendContact (e : Ep) : (sendContact e).accepted = e.accepted := rfl
@[simp] theorem acc_sendInit (e : Ep) : (sendInit e).accepted = e.accepted := rfl
@[simp] theorem acc_sendReject (e : Ep) (r : Nat) (m : Msg) : (sendReject e r m).accepted = e.accepted := rfl
@[simp] theorem acc_sendSessTerm (e : Ep) (r : Nat) (b : Bool) : (sendSessTerm e r b).1.accepted = e.accepted := by
  unfold sendSessTerm
  split
  · rfl
  · split
    · rfl
    · simp
@[simp] theorem acc_sendSegment (e : Ep) (it : TxItem) (s : Nat) : (sendSegment e it s).1.accepted = e.accepted := by
  unfold sendSegment
  simp only []
  split
  · rfl
  · split <;> simp
@[simp] theorem acc_processQueue (e : Ep) : (processQueue e).1.accepted = e.accepted := by
  unfold processQueue
  split
  · simp
  · split
    · rfl
    · split
      · simp
      · split
        · rfl
        · simp
@[simp] theorem acc_pullTx (e : Ep) : (pullTx e).accepted = e.accepted := by
  unfold pullTx; split <;> simp

theorem acc_writeConn (e : Ep) (n : Nat) (up : Bool) : e.accepted <+: (writeConn e n up).1.accepted := by
  unfold writeConn
  split
  · split
    · simp
    · exact List.prefix_refl _
  · simp only []
    split
    · simp
    · split
      · simp
      · exact List.prefix_append _ _

theorem acc_pump (e : Ep) (n : Nat) : e.accepted <+: (pump e n).1.accepted := by
  unfold pump
  have := acc_writeConn (pullTx e) n (upEmpty e)
  simpa using this

@[simp] theorem acc_onContact (e : Ep) : (onContact e).1.accepted = e.accepted := by
  unfold onContact; simp only []; cases e.cfg.passive <;> simp
@[simp] theorem acc_onSessInit (e : Ep) (p : PeerInit) : (onSessInit e p).1.accepted = e.accepted := by
  unfold onSessInit; simp only []; cases e.cfg.passive <;> simp
@[simp] theorem acc_onSessTerm (e : Ep) (m : Msg) (r : Nat) : (onSessTerm e m r).1.accepted = e.accepted := by
  unfold onSessTerm
  split
  · rfl
  · simp only [acc_checkSessTerm, acc_flush]
    split <;> simp
@[simp] theorem acc_segAccept (e : Ep) (f t : Nat) (c d : Bytes) (o : List Out) :
    (segAccept e f t c d o).1.accepted = e.accepted := by
  unfold segAccept; simp only []; split <;> simp
@[simp] theorem acc_onSegment (e : Ep) (m : Msg) (f t : Nat) (d : Bytes) :
    (onSegment e m f t d).1.accepted = e.accepted := by
  unfold onSegment
  split
  · rfl
  · split
    · simp
    · split
      · split <;> simp
      · rfl
@[simp] theorem acc_onAck (e : Ep) (m : Msg) (f t l : Nat) : (onAck e m f t l).1.accepted = e.accepted := by
  unfold onAck
  split
  · rfl
  · split
    · rfl
    · split
      · split <;> simp
      · rfl
@[simp] theorem acc_onRefuse (e : Ep) (m : Msg) (r t : Nat) : (onRefuse e m r t).1.accepted = e.accepted := by
  unfold onRefuse
  split
  · rfl
  · split
    · rfl
    · simp only [acc_checkSessTerm]
      split
      · split <;> simp
      · rfl
@[simp] theorem acc_handleMsg (e : Ep) (m : Msg) : (handleMsg e m).1.accepted = e.accepted := by
  unfold handleMsg
  cases m <;> simp

@[simp] theorem acc_handleMsgs (ms : List Msg) (e : Ep) : (handleMsgs e ms).1.accepted = e.accepted := by
  induction ms generalizing e with
  | nil => rfl
  | cons m ms ih =>
    unfold handleMsgs
    split
    · rfl
    · simp only [ih, acc_handleMsg]

@[simp] theorem acc_recvRaw (e : Ep) (c : Bytes) : (recvRaw e c).1.accepted = e.accepted := by
  unfold recvRaw
  simp only []
  split <;> simp [rxEntry]

/-- **The write log is append-only.** -/
theorem accepted_prefix_step (e : Ep) (ev : Ev) : e.accepted <+: (step e ev).1.accepted := by
  unfold step
  cases ev with
  | pump n =>
    simp only []
    split
    · exact List.prefix_refl _
    · split
      · exact List.prefix_refl _
      · exact acc_pump { e with txIdle := false } n
  | advance ms => exact List.prefix_refl _
  | start =>
    simp only []
    split
    · exact List.prefix_refl _
    · split
      · exact List.prefix_refl _
      · simp only [acc_setState]; split <;> simp
  | send d => simp only []; split <;> simp
  | terminate r => simp only []; split <;> simp
  | close => simp only []; split <;> simp
  | pop t =>
    simp only []
    have : (popRx e t).1.accepted = e.accepted := by unfold popRx; split <;> rfl
    split <;> simp [this]
  | query q => simp only []; split <;> exact List.prefix_refl _
  | procQueue =>
    simp only []
    split
    · exact List.prefix_refl _
    · split
      · exact List.prefix_refl _
      · simp
  | rx c => simp only []; split <;> simp
  | rxEof => simp only []; split <;> simp
  | keepaliveTimer =>
    simp only []
    split
    · exact List.prefix_refl _
    · split <;> simp
  | idleTimer =>
    simp only []
    split
    · exact List.prefix_refl _
    · split
      · exact List.prefix_refl _
      · split <;> simp
  | modulate raw =>
    simp only []
    split
    · exact List.prefix_refl _
    · split <;> exact List.prefix_refl _

/-- no event but `pump` writes to the socket -/
theorem accepted_step_nonpump (e : Ep) (ev : Ev) (h : ∀ n, ev ≠ .pump n) : (step e ev).1.accepted = e.accepted := by
  unfold step
  cases ev with
  | pump n => exact absurd rfl (h n)
  | advance ms => rfl
  | start =>
    simp only []
    split
    · rfl
    · split
      · rfl
      · simp only [acc_setState]; split <;> simp
  | send d => simp only []; split <;> simp
  | terminate r => simp only []; split <;> simp
  | close => simp only []; split <;> simp
  | pop t =>
    simp only []
    have : (popRx e t).1.accepted = e.accepted := by unfold popRx; split <;> rfl
    split <;> simp [this]
  | query q => simp only []; split <;> rfl
  | procQueue =>
    simp only []
    split
    · rfl
    · split
      · rfl
      · simp
  | rx c => simp only []; split <;> simp
  | rxEof => simp only []; split <;> simp
  | keepaliveTimer =>
    simp only []
    split
    · rfl
    · split <;> simp
  | idleTimer =>
    simp only []
    split
    · rfl
    · split
      · rfl
      · split <;> simp
  | modulate raw =>
    simp only []
    split
    · rfl
    · split <;> rfl

end Tcpcl
end DtnVerif
