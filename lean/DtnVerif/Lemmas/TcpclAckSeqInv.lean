/-
  The XFER_ACK messages an endpoint has emitted are, in order and one for one, the acknowledgements
  the ideal receiver owes for the segments it has processed (same flags, same id, cumulative length).
-/
import DtnVerif.Lemmas.TcpclAckSeq
import DtnVerif.Lemmas.TcpclEcho
import DtnVerif.Lemmas.TcpclSucc
import DtnVerif.Lemmas.TcpclFrame
namespace DtnVerif
namespace Tcpcl

def specAcksFrom (s : RxSpec) : List Msg → List Msg
  | [] => []
  | m :: ms => (ackOfStep s m).toList ++ specAcksFrom (rxSpecStep s m) ms

/-- the acknowledgement sequence the ideal receiver produces for a processed message sequence -/
def specAcks (ms : List Msg) : List Msg := specAcksFrom {} ms

theorem specAcksFrom_append (s : RxSpec) (p : List Msg) (m : Msg) :
    specAcksFrom s (p ++ [m]) = specAcksFrom s p ++ (ackOfStep (p.foldl rxSpecStep s) m).toList := by
  induction p generalizing s with
  | nil => simp [specAcksFrom]
  | cons x p ih => simp [specAcksFrom, ih, List.append_assoc]

theorem specAcks_append (p : List Msg) (m : Msg) :
    specAcks (p ++ [m]) = specAcks p ++ (ackOfStep (rxSpec p) m).toList := by
  unfold specAcks rxSpec; exact specAcksFrom_append {} p m

def AckSeqInv (e : Ep) : Prop := acksOf e.emitted = specAcks e.processed

theorem ackSeq_of_eq {e e' : Ep} (h1 : acksOf e'.emitted = acksOf e.emitted) (h2 : e'.processed = e.processed)
    (hi : AckSeqInv e) : AckSeqInv e' := by
  unfold AckSeqInv at *; rw [h1, h2]; exact hi

theorem ak_segAccept (e : Ep) (f t : Nat) (c d : Bytes) (o : List Out) :
    acksOf (segAccept e f t c d o).1.emitted = acksOf e.emitted ++ [.xferAck f t (c ++ d).length] := by
  unfold segAccept
  simp only []
  split
  · rw [ak_checkSessTerm]; simp [sendMessage, sendReady, kaReset, idleReset]
  · simp [sendMessage, sendReady, kaReset, idleReset]

/-- `hr`: the receive invariant of the state before this segment was appended to `processed` -/
theorem ak_onSegment (e0 : Ep) (flags tid : Nat) (ext data : Bytes) (hr : RxInv e0) :
    acksOf (onSegment { e0 with processed := e0.processed ++ [.xferSegment flags tid ext data] }
        (.xferSegment flags tid ext data) flags tid data).1.emitted
      = acksOf e0.emitted ++ (ackOfStep (rxSpec e0.processed) (.xferSegment flags tid ext data)).toList := by
  obtain ⟨_, r2, r3⟩ := hr
  unfold onSegment
  split
  · rename_i hs
    have hs' : e0.inSess = false := by simpa using hs
    simp [ackOfStep, ← r3, hs']
  · rename_i hs
    have hs' : e0.inSess = true := by simpa using hs
    split
    · rename_i hst
      rw [ak_segAccept]
      simp [ackOfStep, ← r3, hs', hst]
    · rename_i hst
      have hst' : hasStart flags = false := by simpa using hst
      split
      · rename_i t d htmp
        have htmp' : e0.rxTmp = some (t, d) := htmp
        split
        · rename_i htid
          rw [ak_segAccept]
          simp [ackOfStep, ← r3, ← r2, hs', hst', htmp', htid]
        · rename_i htid
          simp [ackOfStep, ← r3, ← r2, hs', hst', htmp', htid]
      · rename_i htmp
        have htmp' : e0.rxTmp = none := htmp
        simp [ackOfStep, ← r3, ← r2, hs', hst', htmp']

theorem ackSeq_handleMsg (e : Ep) (m : Msg) (hr : RxInv e) (hi : AckSeqInv e) : AckSeqInv (handleMsg e m).1 := by
  unfold AckSeqInv at *
  rw [processed_handleMsg, specAcks_append, ← hi]
  unfold handleMsg
  cases m with
  | xferSegment flags tid ext data => exact ak_onSegment e flags tid ext data hr
  | contact f => simp [ackOfStep]
  | sessInit ka sm xm node ext => simp [ackOfStep]
  | sessTerm f r => simp [ackOfStep]
  | keepalive => simp [ackOfStep]
  | msgReject a b => simp [ackOfStep]
  | xferAck f t l => simp [ackOfStep]
  | xferRefuse r t => simp [ackOfStep]

theorem ackSeq_handleMsgs (ms : List Msg) (e : Ep) (hr : RxInv e) (hi : AckSeqInv e) :
    AckSeqInv (handleMsgs e ms).1 := by
  induction ms generalizing e with
  | nil => exact hi
  | cons m ms ih =>
    unfold handleMsgs
    split
    · exact hi
    · have hr' : RxInv { e with rxMore := !ms.isEmpty || e.rx.dead } := rxInv_of_view (e := e) rfl hr
      exact ih _ (rxInv_handleMsg _ m hr') (ackSeq_handleMsg _ m hr' (ackSeq_of_eq (e := e) rfl rfl hi))

theorem ackSeq_recvRaw (e : Ep) (c : Bytes) (hr : RxInv e) (hi : AckSeqInv e) : AckSeqInv (recvRaw e c).1 := by
  unfold recvRaw
  simp only []
  have hr0 : RxInv (rxEntry e c) := hr
  have h0 : AckSeqInv (rxEntry e c) := ackSeq_of_eq rfl rfl hi
  have h1 := ackSeq_handleMsgs (feed e.rx c).2 _ hr0 h0
  split
  · exact ackSeq_of_eq (by simp) (proc_doClose _) h1
  · exact h1

/-- events other than reading from the socket emit no acknowledgement -/
theorem acks_step_nonrx (e : Ep) (ev : Ev) (h : ∀ c, ev ≠ .rx c) : acksOf (step e ev).1.emitted = acksOf e.emitted := by
  unfold step
  cases ev with
  | rx c => exact absurd rfl (h c)
  | advance ms => rfl
  | start =>
    simp only []
    split
    · rfl
    · split
      · rfl
      · simp only [ak_setState]; split <;> simp
  | send d => simp only []; split <;> simp
  | terminate r => simp only []; split <;> simp
  | close => simp only []; split <;> simp
  | pop t =>
    simp only []
    have : acksOf (popRx e t).1.emitted = acksOf e.emitted := by unfold popRx; split <;> rfl
    split <;> simp [this]
  | query q => simp only []; split <;> rfl
  | procQueue =>
    simp only []
    split
    · rfl
    · split
      · rfl
      · simp
  | pump n => simp only []; split <;> (try split) <;> first | rfl | simp
  | rxEof => simp only []; split <;> first | rfl | simp
  | keepaliveTimer =>
    simp only []
    split
    · rfl
    · split <;> simp
  | idleTimer =>
    simp only []
    split
    · rfl
    · split
      · rfl
      · split <;> simp
  | modulate raw =>
    simp only []
    split
    · rfl
    · split <;> rfl


theorem ackSeq_step (e : Ep) (ev : Ev) (hr : RxInv e) (hi : AckSeqInv e) : AckSeqInv (step e ev).1 := by
  by_cases hrx : ∃ c, ev = .rx c
  · obtain ⟨c, rfl⟩ := hrx
    unfold step
    simp only []
    split
    · exact hi
    · exact ackSeq_recvRaw e c hr hi
  · have hrx' : ∀ c, ev ≠ .rx c := fun c h => hrx ⟨c, h⟩
    have hv := rxView_step_nonrx e ev hrx'
    have hp : (step e ev).1.processed = e.processed := congrArg RxView.processed hv
    exact ackSeq_of_eq (acks_step_nonrx e ev hrx') hp hi

theorem ackSeq_init (cfg : Cfg) : AckSeqInv { cfg := cfg } := rfl

theorem ackSeq_run (evs : List Ev) (e : Ep) (hr : RxInv e) (hi : AckSeqInv e) : AckSeqInv (runEp e evs) := by
  induction evs generalizing e with
  | nil => exact hi
  | cons ev evs ih =>
    simp only [runEp, run]
    exact ih _ (rxInv_step e ev hr) (ackSeq_step e ev hr hi)

end Tcpcl
end DtnVerif
