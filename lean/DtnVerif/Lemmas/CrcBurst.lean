/- GF(2)-linearity of the reflected CRC step and burst-error detection (any message length). -/
import DtnVerif.Model.Crc
import DtnVerif.Lemmas.Bytes
namespace DtnVerif
namespace Crc

variable {w : Nat}

theorem xor_cancel_mid (A B p : BitVec w) : (A ^^^ p) ^^^ (B ^^^ p) = A ^^^ B := by
  ext i hi
  simp only [BitVec.getElem_xor]
  cases A[i] <;> cases B[i] <;> cases p[i] <;> rfl

theorem xor_swap_right (A B p : BitVec w) : (A ^^^ p) ^^^ B = (A ^^^ B) ^^^ p := by
  ext i hi
  simp only [BitVec.getElem_xor]
  cases A[i] <;> cases B[i] <;> cases p[i] <;> rfl

/-- GF(2) linearity of one CRC step (register and input bit together). -/
theorem crcStep_xor (p a b : BitVec w) (x y : Bool) :
    crcStep p (a ^^^ b) (x != y) = crcStep p a x ^^^ crcStep p b y := by
  unfold crcStep
  simp only [BitVec.getLsbD_xor, BitVec.ushiftRight_xor_distrib]
  generalize a >>> 1 = A
  generalize b >>> 1 = B
  cases a.getLsbD 0 <;> cases b.getLsbD 0 <;> cases x <;> cases y
  all_goals (try simp)
  all_goals (try (ext i hi; simp only [BitVec.getElem_xor]; cases A[i] <;> cases B[i] <;> cases p[i] <;> rfl))

/-- bitwise xor of two bit strings (error pattern applied to a message) -/
def xorBits : List Bool → List Bool → List Bool
  | x :: xs, y :: ys => (x != y) :: xorBits xs ys
  | _, _ => []

/-- Linearity of the whole register update over equally long bit strings. -/
theorem crcBits_xor (p : BitVec w) (a b : BitVec w) (xs ys : List Bool) (h : xs.length = ys.length) :
    crcBits p (a ^^^ b) (xorBits xs ys) = crcBits p a xs ^^^ crcBits p b ys := by
  induction xs generalizing a b ys with
  | nil => cases ys <;> simp_all [crcBits, xorBits]
  | cons x xs ih =>
    cases ys with
    | nil => simp at h
    | cons y ys =>
      simp only [List.length_cons, Nat.add_right_cancel_iff] at h
      simp only [xorBits, crcBits, List.foldl_cons] at ih ⊢
      rw [crcStep_xor]
      exact ih _ _ _ h

/-- the zero-input step -/
def step0 (p c : BitVec w) : BitVec w := crcStep p c false

theorem step0_zero (p : BitVec w) : step0 p 0 = 0 := by
  simp [step0, crcStep]

theorem step0_xor (p a b : BitVec w) : step0 p (a ^^^ b) = step0 p a ^^^ step0 p b := by
  have := crcStep_xor p a b false false
  simpa [step0] using this

theorem ushiftRight_one_msb (c : BitVec w) : (c >>> 1).msb = false := by
  rw [BitVec.msb_ushiftRight]
  simp

/-- with the top bit of the (reflected) polynomial set, the register's old low bit is visible as the
    new top bit -/
theorem step0_msb (p c : BitVec w) (hp : p.msb = true) : (step0 p c).msb = c.getLsbD 0 := by
  unfold step0 crcStep
  cases h : c.getLsbD 0
  · simp [ushiftRight_one_msb c]
  · simp [BitVec.msb_xor, ushiftRight_one_msb c, hp]

theorem eq_of_shift_lsb (c d : BitVec w) (h1 : c >>> 1 = d >>> 1) (h0 : c.getLsbD 0 = d.getLsbD 0) :
    c = d := by
  apply BitVec.eq_of_getLsbD_eq
  intro i hi
  cases i with
  | zero => exact h0
  | succ j =>
    have := congrArg (fun v => v.getLsbD j) h1
    simpa [BitVec.getLsbD_ushiftRight, Nat.add_comm] using this

/-- The zero-input step is injective when the top bit of the reflected polynomial is set. -/
theorem step0_inj (p c d : BitVec w) (hp : p.msb = true) (h : step0 p c = step0 p d) : c = d := by
  have h0 : c.getLsbD 0 = d.getLsbD 0 := by
    rw [← step0_msb p c hp, ← step0_msb p d hp, h]
  apply eq_of_shift_lsb c d _ h0
  unfold step0 crcStep at h
  rw [h0] at h
  cases hd : d.getLsbD 0
  · simpa [hd] using h
  · simp only [hd, Bool.true_bne, Bool.not_false, if_true] at h
    have := congrArg (fun v => v ^^^ p) h
    simpa [BitVec.xor_assoc] using this

theorem pos_of_msb {p : BitVec w} (hp : p.msb = true) : 0 < w := by
  cases w with
  | zero => simp [BitVec.msb] at hp
  | succ n => omega

/-- `n` zero-input steps -/
def step0n (p : BitVec w) : Nat → BitVec w → BitVec w
  | 0, c => c
  | n+1, c => step0n p n (step0 p c)

theorem step0n_zero (p : BitVec w) (n : Nat) : step0n p n 0 = 0 := by
  induction n with
  | zero => rfl
  | succ n ih =>
    show step0n p n (step0 p 0) = 0
    rw [step0_zero]; exact ih

theorem step0n_xor (p a b : BitVec w) (n : Nat) :
    step0n p n (a ^^^ b) = step0n p n a ^^^ step0n p n b := by
  induction n generalizing a b with
  | zero => rfl
  | succ n ih => simp [step0n, step0_xor, ih]

theorem step0n_inj (p c d : BitVec w) (hp : p.msb = true) (n : Nat)
    (h : step0n p n c = step0n p n d) : c = d := by
  induction n generalizing c d with
  | zero => exact h
  | succ n ih => exact step0_inj p c d hp (ih _ _ h)

theorem crcBits_zeros (p c : BitVec w) (n : Nat) :
    crcBits p c (List.replicate n false) = step0n p n c := by
  induction n generalizing c with
  | zero => rfl
  | succ n ih =>
    simp only [List.replicate_succ, crcBits, List.foldl_cons, step0n] at ih ⊢
    exact ih _

theorem crcBits_append (p c : BitVec w) (xs ys : List Bool) :
    crcBits p c (xs ++ ys) = crcBits p (crcBits p c xs) ys := by
  simp [crcBits, List.foldl_append]

/-- the input bit as a register value (bit 0) -/
def lsbOf (x : Bool) : BitVec w := if x then 1#w else 0#w

theorem lsbOf_getLsbD (x : Bool) (hw : 0 < w) (i : Nat) :
    (lsbOf x : BitVec w).getLsbD i = (x && i == 0) := by
  cases x
  · simp [lsbOf]
  · simp [lsbOf, BitVec.getLsbD_one, hw]
    cases i <;> rfl

/-- A step with input bit `x` = xor `x` into bit 0, then a zero-input step. -/
theorem crcStep_eq_step0 (p c : BitVec w) (x : Bool) (hw : 0 < w) :
    crcStep p c x = step0 p (c ^^^ lsbOf x) := by
  have h := crcStep_xor p c (lsbOf x) x x
  have hz : crcStep p (lsbOf x : BitVec w) x = 0 := by
    unfold crcStep
    rw [lsbOf_getLsbD x hw 0]
    cases x <;> simp [lsbOf]
    apply BitVec.eq_of_getLsbD_eq
    intro i hi
    simp [BitVec.getLsbD_ushiftRight, BitVec.getLsbD_one]
  rw [hz] at h
  simpa [step0] using h.symm

/-- bit string as a register value: first bit at position 0 -/
def embed : List Bool → BitVec w
  | [] => 0#w
  | x :: t => (embed t <<< 1) ^^^ lsbOf x

theorem embed_high (b : List Bool) (i : Nat) (hi : b.length ≤ i) :
    (embed b : BitVec w).getLsbD i = false := by
  induction b generalizing i with
  | nil => simp [embed]
  | cons x t ih =>
    by_cases hw : 0 < w
    · simp only [List.length_cons] at hi
      simp only [embed, BitVec.getLsbD_xor, lsbOf_getLsbD x hw, BitVec.getLsbD_shiftLeft]
      have : (i == 0) = false := by simp; omega
      have h1 : ¬ i < 1 := by omega
      simp [this, h1, ih (i - 1) (by omega)]
    · have : w = 0 := by omega
      subst this
      simp

/-- shifting left then the zero-input step gives the value back when nothing is shifted out -/
theorem step0_shl (p v : BitVec w) (hv : v.msb = false) : step0 p (v <<< 1) = v := by
  unfold step0 crcStep
  have h0 : (v <<< 1).getLsbD 0 = false := by simp [BitVec.getLsbD_shiftLeft]
  simp only [h0, bne_self_eq_false, Bool.false_eq_true, if_false]
  apply BitVec.eq_of_getLsbD_eq
  intro i hi
  simp only [BitVec.getLsbD_ushiftRight, BitVec.getLsbD_shiftLeft]
  by_cases h : 1 + i < w
  · simp [h]
  · have : i = w - 1 := by omega
    subst this
    have : v.getLsbD (w - 1) = false := by
      rw [← BitVec.msb_eq_getLsbD_last]; exact hv
    simp [h, this]

theorem embed_msb (b : List Bool) (h : b.length < w) : (embed b : BitVec w).msb = false := by
  rw [BitVec.msb_eq_getLsbD_last]
  exact embed_high b (w - 1) (by omega)

/-- "Preload" identity: feeding `b` (at most `w` bits) = xor the bits into the low end of the
    register, then `|b|` zero-input steps. -/
theorem crcBits_preload (p c : BitVec w) (b : List Bool) (hlen : b.length ≤ w) :
    crcBits p c b = step0n p b.length (c ^^^ embed b) := by
  induction b generalizing c with
  | nil => simp [crcBits, step0n, embed]
  | cons x t ih =>
    have hw : 0 < w := by simp at hlen; omega
    simp only [List.length_cons] at hlen
    simp only [crcBits, List.foldl_cons, List.length_cons, step0n] at ih ⊢
    rw [ih _ (by omega), crcStep_eq_step0 p c x hw]
    congr 1
    simp only [embed]
    rw [← BitVec.xor_assoc, step0_xor p (c ^^^ embed t <<< 1) (lsbOf x)]
    rw [step0_xor p c (embed t <<< 1), step0_shl p (embed t) (embed_msb t (by omega))]
    rw [step0_xor p c (lsbOf x)]
    rw [BitVec.xor_assoc, BitVec.xor_assoc, BitVec.xor_comm (embed t)]

theorem shl_eq_zero (v : BitVec w) (hv : v.msb = false) (h : v <<< 1 = 0) : v = 0 := by
  have := step0_shl (0 : BitVec w) v hv
  rw [h] at this
  rw [← this]; exact step0_zero 0

theorem embed_eq_zero (b : List Bool) (hlen : b.length ≤ w) (h : (embed b : BitVec w) = 0) :
    b.all (fun x => !x) = true := by
  induction b with
  | nil => rfl
  | cons x t ih =>
    have hw : 0 < w := by simp at hlen; omega
    simp only [List.length_cons] at hlen
    have h0 := congrArg (fun v => v.getLsbD 0) h
    simp only [embed, BitVec.getLsbD_xor, lsbOf_getLsbD x hw, BitVec.getLsbD_shiftLeft] at h0
    have hx : x = false := by simpa using h0
    subst hx
    have h1 : (embed t : BitVec w) <<< 1 = 0 := by simpa [embed, lsbOf] using h
    have := shl_eq_zero _ (embed_msb t (by omega)) h1
    simp [ih (by omega) this]

/-- A non-zero pattern of at most `w` bits fed into a zero register leaves a non-zero register. -/
theorem crcBits_burst_ne_zero (p : BitVec w) (hp : p.msb = true) (burst : List Bool)
    (hlen : burst.length ≤ w) (hne : burst.any id = true) : crcBits p 0 burst ≠ 0 := by
  intro h
  rw [crcBits_preload p 0 burst hlen] at h
  have h2 : step0n p burst.length (0 ^^^ embed burst) = step0n p burst.length 0 := by
    rw [h, step0n_zero]
  have h3 := step0n_inj p _ _ hp _ h2
  have h4 := embed_eq_zero burst hlen (by simpa using h3)
  rw [List.any_eq_true] at hne
  obtain ⟨x, hx, hxt⟩ := hne
  rw [List.all_eq_true] at h4
  have := h4 x hx
  simp at hxt
  simp [hxt] at this

/-- **Burst detection**, for a message of any length: xor-ing into the message an error pattern that
    is zero except for a window of at most `w` bits (the width of the CRC) containing at least one
    set bit changes the CRC register — for every initial value `init`. -/
theorem crcBits_burst (p init : BitVec w) (hp : p.msb = true) (m : List Bool)
    (pre post : Nat) (burst : List Bool) (hm : m.length = pre + burst.length + post)
    (hlen : burst.length ≤ w) (hne : burst.any id = true) :
    crcBits p init (xorBits m (List.replicate pre false ++ burst ++ List.replicate post false))
      ≠ crcBits p init m := by
  intro h
  have hl : m.length = (List.replicate pre false ++ burst ++ List.replicate post false).length := by
    simp [hm]; omega
  have hx := crcBits_xor p init 0 m _ hl
  have e0 : init ^^^ (0 : BitVec w) = init := BitVec.xor_zero
  rw [e0] at hx
  rw [hx] at h
  have hz : crcBits p 0 (List.replicate pre false ++ burst ++ List.replicate post false) = 0 := by
    have := congrArg (fun v => crcBits p init m ^^^ v) h
    simpa [← BitVec.xor_assoc] using this
  rw [crcBits_append, crcBits_append, crcBits_zeros, crcBits_zeros, step0n_zero] at hz
  have h5 := step0n_inj p _ _ hp _ (hz.trans (step0n_zero p post).symm)
  exact crcBits_burst_ne_zero p hp burst hlen hne h5

theorem crcReg_eq_bits (p c : BitVec w) (d : Bytes) : crcReg p c d = crcBits p c (bitsOf d) := by
  induction d generalizing c with
  | nil => rfl
  | cons b r ih =>
    simp only [crcReg, List.foldl_cons, bitsOf] at ih ⊢
    rw [crcBits_append, ← ih]; rfl

theorem crcReg_append (p c : BitVec w) (a b : Bytes) :
    crcReg p c (a ++ b) = crcReg p (crcReg p c a) b := by
  simp [crcReg, List.foldl_append]

/-- error pattern: zero outside a window of `burst.length` bits -/
def burstPattern (pre : Nat) (burst : List Bool) (post : Nat) : List Bool :=
  List.replicate pre false ++ burst ++ List.replicate post false

/-- Complete CRC (any init / xorout) of two octet strings whose bit streams differ by a burst. -/
theorem crc_burst (p init xorout : BitVec w) (hp : p.msb = true) (z z' : Bytes)
    (pre post : Nat) (burst : List Bool)
    (hm : (bitsOf z).length = pre + burst.length + post)
    (hz : bitsOf z' = xorBits (bitsOf z) (burstPattern pre burst post))
    (hlen : burst.length ≤ w) (hne : burst.any id = true) :
    crc p init xorout z' ≠ crc p init xorout z := by
  intro h
  unfold crc at h
  rw [crcReg_eq_bits, crcReg_eq_bits, hz] at h
  have h2 := congrArg (fun v => v ^^^ xorout) h
  simp only [BitVec.xor_assoc, BitVec.xor_self, BitVec.xor_zero] at h2
  exact crcBits_burst p init hp (bitsOf z) pre post burst hm hlen hne h2

end Crc

namespace Bp
open Crc

theorem beBytes_inj (k a b : Nat) (ha : a < 256 ^ k) (hb : b < 256 ^ k)
    (h : beBytes k a = beBytes k b) : a = b := by
  have := congrArg beNat h
  rwa [beNat_beBytes k a ha, beNat_beBytes k b hb] at this

/-- The packed CRC of type 1 / 2 differs whenever the covered octets differ by a burst of at most
    16 / 32 bits. -/
theorem crcOf_burst (t : Nat) (ht : t = 1 ∨ t = 2) (z z' : Bytes) (pre post : Nat) (burst : List Bool)
    (hm : (bitsOf z).length = pre + burst.length + post)
    (hz : bitsOf z' = xorBits (bitsOf z) (burstPattern pre burst post))
    (hlen : burst.length ≤ 16 * t) (hne : burst.any id = true) :
    crcOf t z' ≠ crcOf t z := by
  rcases ht with rfl | rfl
  · intro h
    simp only [crcOf, beq_self_eq_true, if_true] at h
    have := beBytes_inj 2 _ _ (by unfold crc16x25; exact BitVec.isLt _) (by unfold crc16x25; exact BitVec.isLt _) h
    unfold crc16x25 at this
    exact crc_burst _ _ _ (by decide) z z' pre post burst hm hz (by omega) hne (BitVec.eq_of_toNat_eq this)
  · intro h
    simp only [crcOf, show ((2 : Nat) == 1) = false by decide, Bool.false_eq_true, if_false,
      beq_self_eq_true, if_true] at h
    have := beBytes_inj 4 _ _ (by unfold crc32c; exact BitVec.isLt _) (by unfold crc32c; exact BitVec.isLt _) h
    unfold crc32c at this
    exact crc_burst _ _ _ (by decide) z z' pre post burst hm hz (by omega) hne (BitVec.eq_of_toNat_eq this)

end Bp
end DtnVerif
