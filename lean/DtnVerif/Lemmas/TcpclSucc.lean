/-
  Field frames for the ghost logs `successLog` and `processed`: which functions can change them.
  (Generated from the pattern of Lemmas/TcpclAcc.lean.)
-/
import DtnVerif.Model.TcpclEp
namespace DtnVerif
namespace Tcpcl

@[simp] theorem succ_kaReset (e : Ep) : (kaReset e).successLog = e.successLog := rfl
@[simp] theorem succ_idleReset (e : Ep) : (idleReset e).successLog = e.successLog := rfl
@[simp] theorem succ_sendMessage (e : Ep) (m : Msg) : (sendMessage e m).successLog = e.successLog := rfl
@[simp] theorem succ_pqTrigger (e : Ep) : (pqTrigger e).successLog = e.successLog := by
  unfold pqTrigger; split <;> rfl
@[simp] theorem succ_setState (e : Ep) (s : String) : (setState e s).1.successLog = e.successLog := by
  unfold setState; split <;> rfl
@[simp] theorem succ_flush (e : Ep) : (flushPendStart e).1.successLog = e.successLog := rfl
@[simp] theorem succ_doClose (e : Ep) : (doClose e).1.successLog = e.successLog := by
  unfold doClose; split <;> rfl
@[simp] theorem succ_checkSessTerm (e : Ep) : (checkSessTerm e).1.successLog = e.successLog := by
  unfold checkSessTerm; split
  · exact succ_doClose e
  · rfl
@[simp] theorem succ_sendBufferDecreased (e : Ep) : (sendBufferDecreased e).successLog = e.successLog := by
  unfold sendBufferDecreased; split
  · exact succ_pqTrigger e
  · rfl
@[simp] theorem succ_mergeSession (e : Ep) (p : PeerInit) : (mergeSession e p).successLog = e.successLog := rfl
@[simp] theorem succ_sendContact (e : Ep) : (sendContact e).successLog = e.successLog := rfl
@[simp] theorem succ_sendInit (e : Ep) : (sendInit e).successLog = e.successLog := rfl
@[simp] theorem succ_sendReject (e : Ep) (r : Nat) (m : Msg) : (sendReject e r m).successLog = e.successLog := rfl
@[simp] theorem succ_sendSessTerm (e : Ep) (r : Nat) (b : Bool) : (sendSessTerm e r b).1.successLog = e.successLog := by
  unfold sendSessTerm
  split
  · rfl
  · split
    · rfl
    · simp
@[simp] theorem succ_sendSegment (e : Ep) (it : TxItem) (s : Nat) : (sendSegment e it s).1.successLog = e.successLog := by
  unfold sendSegment
  simp only []
  split
  · rfl
  · split <;> simp
@[simp] theorem succ_processQueue (e : Ep) : (processQueue e).1.successLog = e.successLog := by
  unfold processQueue
  split
  · simp
  · split
    · rfl
    · split
      · simp
      · split
        · rfl
        · simp
@[simp] theorem succ_pullTx (e : Ep) : (pullTx e).successLog = e.successLog := by
  unfold pullTx; split <;> simp

@[simp] theorem succ_writeConn (e : Ep) (n : Nat) (up : Bool) : (writeConn e n up).1.successLog = e.successLog := by
  unfold writeConn
  split
  · split <;> simp
  · simp only []
    split
    · simp
    · split <;> simp
@[simp] theorem succ_pump (e : Ep) (n : Nat) : (pump e n).1.successLog = e.successLog := by
  unfold pump; simp

@[simp] theorem succ_onContact (e : Ep) : (onContact e).1.successLog = e.successLog := by
  unfold onContact; simp only []; cases e.cfg.passive <;> simp
@[simp] theorem succ_onSessInit (e : Ep) (p : PeerInit) : (onSessInit e p).1.successLog = e.successLog := by
  unfold onSessInit; simp only []; cases e.cfg.passive <;> simp
@[simp] theorem succ_onSessTerm (e : Ep) (m : Msg) (r : Nat) : (onSessTerm e m r).1.successLog = e.successLog := by
  unfold onSessTerm
  split
  · rfl
  · simp only [succ_checkSessTerm, succ_flush]
    split <;> simp
@[simp] theorem succ_segAccept (e : Ep) (f t : Nat) (c d : Bytes) (o : List Out) :
    (segAccept e f t c d o).1.successLog = e.successLog := by
  unfold segAccept; simp only []; split <;> simp
@[simp] theorem succ_onSegment (e : Ep) (m : Msg) (f t : Nat) (d : Bytes) :
    (onSegment e m f t d).1.successLog = e.successLog := by
  unfold onSegment
  split
  · rfl
  · split
    · simp
    · split
      · split <;> simp
      · rfl
@[simp] theorem succ_onRefuse (e : Ep) (m : Msg) (r t : Nat) : (onRefuse e m r t).1.successLog = e.successLog := by
  unfold onRefuse
  split
  · rfl
  · split
    · rfl
    · simp only [succ_checkSessTerm]
      split
      · split <;> simp
      · rfl

@[simp] theorem proc_kaReset (e : Ep) : (kaReset e).processed = e.processed := rfl
@[simp] theorem proc_idleReset (e : Ep) : (idleReset e).processed = e.processed := rfl
@[simp] theorem proc_sendMessage (e : Ep) (m : Msg) : (sendMessage e m).processed = e.processed := rfl
@[simp] theorem proc_pqTrigger (e : Ep) : (pqTrigger e).processed = e.processed := by
  unfold pqTrigger; split <;> rfl
@[simp] theorem proc_setState (e : Ep) (s : String) : (setState e s).1.processed = e.processed := by
  unfold setState; split <;> rfl
@[simp] theorem proc_flush (e : Ep) : (flushPendStart e).1.processed = e.processed := rfl
@[simp] theorem proc_doClose (e : Ep) : (doClose e).1.processed = e.processed := by
  unfold doClose; split <;> rfl
@[simp] theorem proc_checkSessTerm (e : Ep) : (checkSessTerm e).1.processed = e.processed := by
  unfold checkSessTerm; split
  · exact proc_doClose e
  · rfl
@[simp] theorem proc_sendBufferDecreased (e : Ep) : (sendBufferDecreased e).processed = e.processed := by
  unfold sendBufferDecreased; split
  · exact proc_pqTrigger e
  · rfl
@[simp] theorem proc_mergeSession (e : Ep) (p : PeerInit) : (mergeSession e p).processed = e.processed := rfl
@[simp] theorem proc_sendContact (e : Ep) : (sendContact e).processed = e.processed := rfl
@[simp] theorem proc_sendInit (e : Ep) : (sendInit e).processed = e.processed := rfl
@[simp] theorem proc_sendReject (e : Ep) (r : Nat) (m : Msg) : (sendReject e r m).processed = e.processed := rfl
@[simp] theorem proc_sendSessTerm (e : Ep) (r : Nat) (b : Bool) : (sendSessTerm e r b).1.processed = e.processed := by
  unfold sendSessTerm
  split
  · rfl
  · split
    · rfl
    · simp
@[simp] theorem proc_sendSegment (e : Ep) (it : TxItem) (s : Nat) : (sendSegment e it s).1.processed = e.processed := by
  unfold sendSegment
  simp only []
  split
  · rfl
  · split <;> simp
@[simp] theorem proc_processQueue (e : Ep) : (processQueue e).1.processed = e.processed := by
  unfold processQueue
  split
  · simp
  · split
    · rfl
    · split
      · simp
      · split
        · rfl
        · simp
@[simp] theorem proc_pullTx (e : Ep) : (pullTx e).processed = e.processed := by
  unfold pullTx; split <;> simp

@[simp] theorem proc_writeConn (e : Ep) (n : Nat) (up : Bool) : (writeConn e n up).1.processed = e.processed := by
  unfold writeConn
  split
  · split <;> simp
  · simp only []
    split
    · simp
    · split <;> simp
@[simp] theorem proc_pump (e : Ep) (n : Nat) : (pump e n).1.processed = e.processed := by
  unfold pump; simp

@[simp] theorem proc_onContact (e : Ep) : (onContact e).1.processed = e.processed := by
  unfold onContact; simp only []; cases e.cfg.passive <;> simp
@[simp] theorem proc_onSessInit (e : Ep) (p : PeerInit) : (onSessInit e p).1.processed = e.processed := by
  unfold onSessInit; simp only []; cases e.cfg.passive <;> simp
@[simp] theorem proc_onSessTerm (e : Ep) (m : Msg) (r : Nat) : (onSessTerm e m r).1.processed = e.processed := by
  unfold onSessTerm
  split
  · rfl
  · simp only [proc_checkSessTerm, proc_flush]
    split <;> simp
@[simp] theorem proc_segAccept (e : Ep) (f t : Nat) (c d : Bytes) (o : List Out) :
    (segAccept e f t c d o).1.processed = e.processed := by
  unfold segAccept; simp only []; split <;> simp
@[simp] theorem proc_onSegment (e : Ep) (m : Msg) (f t : Nat) (d : Bytes) :
    (onSegment e m f t d).1.processed = e.processed := by
  unfold onSegment
  split
  · rfl
  · split
    · simp
    · split
      · split <;> simp
      · rfl
@[simp] theorem proc_onRefuse (e : Ep) (m : Msg) (r t : Nat) : (onRefuse e m r t).1.processed = e.processed := by
  unfold onRefuse
  split
  · rfl
  · split
    · rfl
    · simp only [proc_checkSessTerm]
      split
      · split <;> simp
      · rfl

end Tcpcl
end DtnVerif
