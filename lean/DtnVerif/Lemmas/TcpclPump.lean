/-
  G-pump: the octets accepted by the socket, followed by what sits in the two transmit buffers, are
  always exactly the encoding of the emitted message sequence. Hence the wire is always a prefix
  of `encodeAll emitted`, under any back-pressure.
-/
import DtnVerif.Model.TcpclEp
import DtnVerif.Lemmas.TcpclCodec
namespace DtnVerif
namespace Tcpcl

theorem encodeAll_append (a b : List Msg) : encodeAll (a ++ b) = encodeAll a ++ encodeAll b := by
  induction a with
  | nil => rfl
  | cons m ms ih => simp [encodeAll, ih]

def PumpInv (e : Ep) : Prop := encodeAll e.emitted = e.accepted ++ e.connBuf ++ e.txBuf

structure PumpView where
  emitted : List Msg
  accepted : Bytes
  connBuf : Bytes
  txBuf : Bytes

def Ep.pumpView (e : Ep) : PumpView := ⟨e.emitted, e.accepted, e.connBuf, e.txBuf⟩

theorem pumpInv_of_view {e e' : Ep} (h : e'.pumpView = e.pumpView) (hi : PumpInv e) : PumpInv e' := by
  simp only [Ep.pumpView, PumpView.mk.injEq] at h
  obtain ⟨h1, h2, h3, h4⟩ := h
  unfold PumpInv at *
  rw [h1, h2, h3, h4]; exact hi

@[simp] theorem pv_kaReset (e : Ep) : (kaReset e).pumpView = e.pumpView := rfl
@[simp] theorem pv_idleReset (e : Ep) : (idleReset e).pumpView = e.pumpView := rfl
@[simp] theorem pv_pqTrigger (e : Ep) : (pqTrigger e).pumpView = e.pumpView := by
  unfold pqTrigger; split <;> rfl
@[simp] theorem pv_setState (e : Ep) (s : String) : (setState e s).1.pumpView = e.pumpView := by
  unfold setState; split <;> rfl
@[simp] theorem pv_flush (e : Ep) : (flushPendStart e).1.pumpView = e.pumpView := rfl
@[simp] theorem pv_doClose (e : Ep) : (doClose e).1.pumpView = e.pumpView := by
  unfold doClose; split <;> rfl
@[simp] theorem pv_checkSessTerm (e : Ep) : (checkSessTerm e).1.pumpView = e.pumpView := by
  unfold checkSessTerm; split
  · exact pv_doClose e
  · rfl
@[simp] theorem pv_sendBufferDecreased (e : Ep) : (sendBufferDecreased e).pumpView = e.pumpView := by
  unfold sendBufferDecreased; split
  · exact pv_pqTrigger e
  · rfl
@[simp] theorem pv_mergeSession (e : Ep) (p : PeerInit) : (mergeSession e p).pumpView = e.pumpView := rfl

theorem pumpInv_sendMessage (e : Ep) (m : Msg) (hi : PumpInv e) : PumpInv (sendMessage e m) := by
  unfold PumpInv at *
  simp only [sendMessage, sendReady, kaReset, idleReset, encodeAll_append, encodeAll, List.append_nil, hi,
    List.append_assoc]

theorem pumpInv_sendContact (e : Ep) (hi : PumpInv e) : PumpInv (sendContact e) :=
  pumpInv_of_view (e := sendMessage e (.contact 0)) rfl (pumpInv_sendMessage e _ hi)

theorem pumpInv_sendInit (e : Ep) (hi : PumpInv e) : PumpInv (sendInit e) :=
  pumpInv_of_view (e := sendMessage e _) rfl (pumpInv_sendMessage e _ hi)

theorem pumpInv_sendReject (e : Ep) (r : Nat) (m : Msg) (hi : PumpInv e) : PumpInv (sendReject e r m) :=
  pumpInv_sendMessage e _ hi

theorem pumpInv_sendSessTerm (e : Ep) (r : Nat) (b : Bool) (hi : PumpInv e) :
    PumpInv (sendSessTerm e r b).1 := by
  unfold sendSessTerm
  split
  · exact hi
  · split
    · exact hi
    · simp only []
      refine pumpInv_of_view (pv_flush _) (pumpInv_sendMessage _ _ ?_)
      exact pumpInv_of_view (by rw [pv_setState]; rfl) hi

theorem pumpInv_sendSegment (e : Ep) (it : TxItem) (sent : Nat) (hi : PumpInv e) :
    PumpInv (sendSegment e it sent).1 := by
  unfold sendSegment
  simp only []
  split
  · exact pumpInv_of_view rfl hi
  · split
    · refine pumpInv_of_view (by rw [pv_pqTrigger]; rfl) (pumpInv_sendMessage e _ hi)
    · exact pumpInv_of_view rfl (pumpInv_sendMessage e _ hi)

theorem pumpInv_processQueue (e : Ep) (hi : PumpInv e) : PumpInv (processQueue e).1 := by
  unfold processQueue
  split
  · exact pumpInv_sendSegment e _ _ hi
  · split
    · exact hi
    · split
      · exact pumpInv_of_view (by simp only [pv_checkSessTerm, pv_flush]) hi
      · split
        · exact hi
        · exact pumpInv_sendSegment _ _ _ (pumpInv_of_view rfl hi)

theorem pumpInv_pullTx (e : Ep) (hi : PumpInv e) : PumpInv (pullTx e) := by
  unfold pullTx
  split
  · refine pumpInv_of_view (pv_sendBufferDecreased _) ?_
    unfold PumpInv at *
    simp only [List.append_assoc, List.take_append_drop]
    simpa [List.append_assoc] using hi
  · exact hi

theorem pumpInv_writeConn (e : Ep) (n : Nat) (up : Bool) (hi : PumpInv e) : PumpInv (writeConn e n up).1 := by
  unfold writeConn
  split
  · split
    · exact pumpInv_of_view (pv_checkSessTerm e) hi
    · exact hi
  · simp only []
    split
    · exact hi
    · have key : PumpInv { e with
          connBuf := e.connBuf.drop (min n (e.connBuf.take chunkSize).length),
          accepted := e.accepted ++ (e.connBuf.take chunkSize).take (min n (e.connBuf.take chunkSize).length) } := by
        unfold PumpInv at *
        simp only []
        rw [hi]
        have hk : min n (e.connBuf.take chunkSize).length ≤ chunkSize := by
          have : (e.connBuf.take chunkSize).length ≤ chunkSize := by
            rw [List.length_take]; exact Nat.min_le_left _ _
          omega
        rw [List.take_take, Nat.min_eq_left hk]
        simp only [List.append_assoc]
        congr 1
        rw [← List.append_assoc, List.take_append_drop]
      split
      · exact pumpInv_of_view (by rw [pv_checkSessTerm]) key
      · exact key

theorem pumpInv_pump (e : Ep) (n : Nat) (hi : PumpInv e) : PumpInv (pump e n).1 :=
  pumpInv_writeConn _ _ _ (pumpInv_pullTx e hi)

/-! receive handlers -/

theorem pumpInv_onContact (e : Ep) (hi : PumpInv e) : PumpInv (onContact e).1 := by
  unfold onContact
  simp only []
  have h1 : PumpInv (if e.cfg.passive then sendContact e else e) := by
    split
    · exact pumpInv_sendContact e hi
    · exact hi
  have h2 : PumpInv (setState (if e.cfg.passive then sendContact e else e) "session-negotiating").1 :=
    pumpInv_of_view (pv_setState _ _) h1
  split
  · exact pumpInv_sendInit _ h2
  · exact h2

theorem pumpInv_onSessInit (e : Ep) (p : PeerInit) (hi : PumpInv e) : PumpInv (onSessInit e p).1 := by
  unfold onSessInit
  simp only []
  have h1 : PumpInv (if e.cfg.passive then sendInit e else e) := by
    split
    · exact pumpInv_sendInit e hi
    · exact hi
  refine pumpInv_of_view ?_ h1
  rw [pv_setState, pv_mergeSession]; rfl

theorem pumpInv_onSessTerm (e : Ep) (m : Msg) (r : Nat) (hi : PumpInv e) : PumpInv (onSessTerm e m r).1 := by
  unfold onSessTerm
  split
  · exact pumpInv_sendReject e _ _ hi
  · simp only []
    refine pumpInv_of_view (by rw [pv_checkSessTerm, pv_flush]) (e := { (if !e.inTerm then sendSessTerm e r true else (e, [])).1 with gotTerm := true }) ?_
    refine pumpInv_of_view (e := (if !e.inTerm then sendSessTerm e r true else (e, [])).1) rfl ?_
    split
    · exact pumpInv_sendSessTerm e r true hi
    · exact hi

theorem pumpInv_segAccept (e : Ep) (flags tid : Nat) (cur data : Bytes) (o1 : List Out) (hi : PumpInv e) :
    PumpInv (segAccept e flags tid cur data o1).1 := by
  unfold segAccept
  simp only []
  split
  · exact pumpInv_of_view (by rw [pv_checkSessTerm]; rfl) (pumpInv_sendMessage e _ hi)
  · exact pumpInv_sendMessage _ _ (pumpInv_of_view rfl hi)

theorem pumpInv_onSegment (e : Ep) (m : Msg) (flags tid : Nat) (data : Bytes) (hi : PumpInv e) :
    PumpInv (onSegment e m flags tid data).1 := by
  unfold onSegment
  split
  · exact pumpInv_sendReject e _ _ hi
  · split
    · exact pumpInv_segAccept _ _ _ _ _ _ (pumpInv_of_view rfl hi)
    · split
      · split
        · exact pumpInv_segAccept _ _ _ _ _ _ hi
        · exact pumpInv_sendReject e _ _ hi
      · exact pumpInv_sendReject e _ _ hi

theorem pumpInv_onAck (e : Ep) (m : Msg) (f t l : Nat) (hi : PumpInv e) : PumpInv (onAck e m f t l).1 := by
  unfold onAck
  split
  · exact pumpInv_sendReject e _ _ hi
  · split
    · exact pumpInv_sendReject e _ _ hi
    · split
      · split
        · exact pumpInv_sendReject e _ _ hi
        · exact pumpInv_of_view (by rw [pv_checkSessTerm]; rfl) hi
      · exact pumpInv_of_view rfl hi

theorem pumpInv_onRefuse (e : Ep) (m : Msg) (r t : Nat) (hi : PumpInv e) : PumpInv (onRefuse e m r t).1 := by
  unfold onRefuse
  split
  · exact pumpInv_sendReject e _ _ hi
  · split
    · exact pumpInv_sendReject e _ _ hi
    · refine pumpInv_of_view ?_ hi
      simp only [pv_checkSessTerm]
      split
      · split
        · rw [pv_pqTrigger]; rfl
        · rfl
      · rfl

theorem pumpInv_handleMsg (e : Ep) (m : Msg) (hi : PumpInv e) : PumpInv (handleMsg e m).1 := by
  have h0 : PumpInv { e with processed := e.processed ++ [m] } := pumpInv_of_view rfl hi
  unfold handleMsg
  cases m with
  | contact f => exact pumpInv_onContact _ h0
  | sessInit ka sm xm node ext => exact pumpInv_onSessInit _ _ h0
  | sessTerm f r => exact pumpInv_onSessTerm _ _ _ h0
  | keepalive => exact h0
  | msgReject a b => exact h0
  | xferSegment flags tid ext data => exact pumpInv_onSegment _ _ _ _ _ h0
  | xferAck f t l => exact pumpInv_onAck _ _ _ _ _ h0
  | xferRefuse r t => exact pumpInv_onRefuse _ _ _ _ h0

theorem pumpInv_handleMsgs (ms : List Msg) (e : Ep) (hi : PumpInv e) : PumpInv (handleMsgs e ms).1 := by
  induction ms generalizing e with
  | nil => exact hi
  | cons m ms ih =>
    unfold handleMsgs
    split
    · exact hi
    · exact ih _ (pumpInv_handleMsg _ m (pumpInv_of_view (e := e) rfl hi))

theorem pumpInv_recvRaw (e : Ep) (c : Bytes) (hi : PumpInv e) : PumpInv (recvRaw e c).1 := by
  unfold recvRaw
  simp only []
  have h0 : PumpInv (rxEntry e c) := pumpInv_of_view rfl hi
  have h1 := pumpInv_handleMsgs (feed e.rx c).2 _ h0
  split
  · exact pumpInv_of_view (pv_doClose _) h1
  · exact h1

theorem pumpInv_step (e : Ep) (ev : Ev) (hi : PumpInv e) : PumpInv (step e ev).1 := by
  unfold step
  cases ev with
  | advance ms => exact pumpInv_of_view rfl hi
  | start =>
    simp only []
    split
    · exact hi
    · split
      · exact hi
      · refine pumpInv_of_view (pv_setState _ _) ?_
        split
        · exact pumpInv_sendContact _ (pumpInv_of_view rfl hi)
        · exact pumpInv_of_view rfl hi
  | send d =>
    simp only []
    split
    · exact hi
    · exact pumpInv_of_view (by rw [pv_pqTrigger]; rfl) hi
  | terminate r =>
    simp only []
    split
    · exact hi
    · exact pumpInv_sendSessTerm _ _ _ hi
  | close =>
    simp only []
    split
    · exact hi
    · exact pumpInv_of_view (pv_doClose _) hi
  | pop t =>
    simp only []
    have : PumpInv (popRx e t).1 := by
      refine pumpInv_of_view ?_ hi
      unfold popRx; split <;> rfl
    split <;> exact this
  | query q => simp only []; split <;> exact hi
  | procQueue =>
    simp only []
    split
    · exact pumpInv_of_view rfl hi
    · split
      · exact hi
      · exact pumpInv_of_view rfl (pumpInv_processQueue _ (pumpInv_of_view (e := e) rfl hi))
  | pump n =>
    simp only []
    split
    · exact hi
    · split
      · exact hi
      · exact pumpInv_of_view rfl (pumpInv_pump _ _ (pumpInv_of_view (e := e) rfl hi))
  | rx c =>
    simp only []
    split
    · exact hi
    · exact pumpInv_recvRaw e c hi
  | rxEof =>
    simp only []
    split
    · exact hi
    · exact pumpInv_of_view (pv_doClose _) hi
  | keepaliveTimer =>
    simp only []
    split
    · exact hi
    · split
      · exact hi
      · exact pumpInv_sendMessage _ _ (pumpInv_of_view rfl hi)
  | idleTimer =>
    simp only []
    split
    · exact hi
    · split
      · exact hi
      · split
        · exact pumpInv_of_view (by rw [pv_doClose]; rfl) hi
        · exact pumpInv_sendSessTerm _ _ _ (pumpInv_of_view rfl hi)
  | modulate raw =>
    simp only []
    split
    · exact hi
    · split
      · exact pumpInv_of_view rfl hi
      · exact hi

theorem pumpInv_init (cfg : Cfg) : PumpInv { cfg := cfg } := by
  simp [PumpInv, encodeAll]

theorem pumpInv_run (evs : List Ev) (e : Ep) (hi : PumpInv e) : PumpInv (runEp e evs) := by
  induction evs generalizing e with
  | nil => exact hi
  | cons ev evs ih =>
    simp only [runEp, run]
    exact ih _ (pumpInv_step e ev hi)

end Tcpcl
end DtnVerif
