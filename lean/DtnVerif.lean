/-
  Root of the library: every property file (each imports the models and lemmas it needs) and the
  generated facts. `lake build` checks every theorem; the driver executable is a separate target.
-/
import DtnVerif.Generated.Facts
import DtnVerif.Props.C01
import DtnVerif.Props.C02
import DtnVerif.Props.C03
import DtnVerif.Props.C04
import DtnVerif.Props.C05
import DtnVerif.Props.C06
import DtnVerif.Props.C07
import DtnVerif.Props.C08
import DtnVerif.Props.C09
import DtnVerif.Props.C01Bound
import DtnVerif.Props.C10
import DtnVerif.Props.C11
import DtnVerif.Props.C12
import DtnVerif.Props.C13
import DtnVerif.Props.C14
import DtnVerif.Props.C15
import DtnVerif.Props.C16
import DtnVerif.Props.C17
import DtnVerif.Props.C18
import DtnVerif.Props.C19
import DtnVerif.Props.C20
