import DtnVerif.Model.Bytes
import DtnVerif.Model.Cbor
import DtnVerif.Lemmas.Bytes
import DtnVerif.Lemmas.Cbor
import DtnVerif.Generated.Facts
